"""Unit `ptcore` (C06 / C08 / C15 / C05): the parts of src/passthrough/mod.rs, util.rs, sync_io.rs and statx.rs that no other unit verifies on their real text:
PassthroughFs::{new, import, keep_fds, readlinkat, readlinkat_proc_file, open_file, open_file_restricted, open_file_and_handle, to_openable_handle (+ its
re-open closure, lifted), mount}, destroy, InodeFile (AsRawFd / AsFd), InodeHandle::{get_file, open_file, stat}, InodeData::{new, get_file, open_file},
InodeMap::{new, clear, insert, get_map_mut, insert_locked}, InodeStore::{insert, clear} (with descriptor accounting), HandleData::{new, get_file, get_file_mut,
borrow_fd, get_flags, set_flags}, UniqueInodeGenerator::new, util::{openat, reopen_fd_through_proc, stat_fd}, statx::{statx, do_statx, get_mount_id}.

STATE MODEL.  One erased ghost token `Cs` (rule R23) carries everything these functions change behind `&self` or in the kernel:
  open     the descriptors owned by `File` values of THIS module (inode descriptors, handle descriptors, /proc/self/fd, temporaries)
  mnt      the descriptors owned by the mount-fd table (src/passthrough/mount_fd.rs; unit fhandle proves its own balance) - disjoint from `open`
  calls    the host calls of this request: number, arguments, return value, errno   (capability `host_ok(args, calls so far)` guards every call: a function's
           `requires` grants exactly the calls its contract prescribes, each after exactly the calls that must precede it)
  errno / umask   of the serving thread / process
  store    the contents of `PassthroughFs::inode_map.inodes` (RwLock<InodeStore>), SEQUENTIAL: import / clear / destroy are start-up and tear-down code
  handles  the contents of `PassthroughFs::handle_map.handles` (as far as destroy needs it)
  cells    values stored into AtomicU32 cells (HandleData::open_flags)
  filled / filled_at   the bytes the last buffer-filling call stored and the address it stored them at
OWNERSHIP (A-own).  The table entry is THE long-lived owner of an inode / handle: when an Arc<InodeData> / Arc<HandleData> leaves its table (BTreeMap::insert
replacing a value, BTreeMap::clear) the value is dropped, i.e. the descriptor of an `InodeHandle::File` / of the HandleData is closed.  Request-local clones
of these Arcs (which merely delay that close to the end of the request) are not modelled.  (Confirmed on the real crate by findings/repro_ptcore.rs::ok_*.)

ASSUMPTIONS (all visible in the generated file / the assumption scan)
  K1 host calls (module `sys`): a successful opening call returns a descriptor that is in neither `open` nor `mnt` and adds it to `open`; a failing call changes
     only errno; errno(3).  readlinkat stores r <= bufsiz bytes at the buffer's address.  umask(2) always succeeds and sets the mask to its argument & 0o777.
     statx / fstatat64 return 0 or -1.  close (drop of a File) removes exactly its descriptor.  The 3-argument form of openat may only be used when the flags
     need no mode (open(2): O_CREAT and O_TMPFILE need one) - a PRECONDITION of the model, i.e. an obligation of the code.
  K2 contract-only, VERIFIED ELSEWHERE on their real text: OpenableFileHandle::open, FileHandle::{from_fd, from_name_at, into_openable}, MountFds::new (unit
     fhandle; here: their effect on `open` / `mnt` in reduced form), InodeMap::get (units ptlookup / handles), HandleMap::{new, clear} (unit handles; here with
     the descriptor effect of A-own), PassthroughFs::do_lookup (unit ptlookup), statx_st::{stat64, mount_id} (unit ptstatx).
  K3 std models: CString::new (Ok iff no NUL byte), str / String bytes (`str_bytes`), decimal formatting (`decimal`), Vec capacity (at least the request),
     OsString::from_vec / PathBuf::from (same bytes), Arc (vstd), Default of InodeStore / BTreeMap (empty), derived PartialEq of CachePolicy, Mutex / RwLock
     never poisoned, constants STATX_BASIC_STATS / STATX_MNT_ID / O_* / AT_* of x86_64-linux-gnu.
  K4 rules R32v, R53m, R55c, R70-R74, R76-R78, R8e (vx/ptcorerules.py), R51 / R54 (vx/ptopsrules.py), R53f / R59 / R63 (vx/fhrules.py) preserve meaning;
     unwinding is not modelled.
"""
import os
import re

from vx.api import Unit, Fn, Copy, Raw, Group, ByteConst
from vx import extract as X
from vx import ptopsrules as PR
from vx import fhrules as FR
from vx import ptcorerules as CR
from vx.units import inodes as IN

PT = 'src/passthrough/mod.rs'
PTS = 'src/passthrough/sync_io.rs'
UTIL = 'src/passthrough/util.rs'
STORE = 'src/passthrough/inode_store.rs'
FH = 'src/passthrough/file_handle.rs'
CFG = 'src/passthrough/config.rs'
STATX = 'src/passthrough/statx.rs'
FSMOD = 'src/api/filesystem/mod.rs'
VMOD = 'src/api/vfs/mod.rs'
ABI = 'src/abi/fuse_abi_linux.rs'
IMPL = 'impl<S: BitmapSlice + Send + Sync> PassthroughFs<S>'
FSIMPL = 'impl<S: BitmapSlice + Send + Sync> FileSystem for PassthroughFs<S>'
BFIMPL = "impl<S: BitmapSlice + Send + Sync + 'static> BackendFileSystem for PassthroughFs<S>"

TOK = dict(param='Tracked(cs): Tracked<&mut Cs>', arg='Tracked(cs)')
NR_OPENAT, NR_OPENAT3, NR_FSTATAT, NR_READLINKAT, NR_UMASK, NR_OBH, NR_STATX = 1, 2, 3, 4, 5, 6, 7
# flag words (x86_64-linux-gnu; the same constants are in prelude/base.rs mod libc)
O_PATH, O_NOFOLLOW, O_CLOEXEC, O_CREAT = 0o10000000, 0o400000, 0o2000000, 0o100
AT_FDCWD = -100
AT_EMPTY_NOFOLLOW = 0x1000 | 0x100


def _slice(text, start, end, what):
    a = text.find(start)
    b = text.find(end, a + 1) if a >= 0 else -1
    if a < 0 or b < 0:
        raise X.ExtractError('model text %s not found (markers %r .. %r)' % (what, start, end))
    return text[a:b]


PRE = r'''
use std::ops::{Deref, DerefMut};
pub type Inode = u64;
pub type Handle = u64;
pub type RawFd = i32;
pub type MountId = u64;
pub trait BitmapSlice {}
impl BitmapSlice for () {}
// ===== descriptors: a File is known by its descriptor number
#[verifier::external_body] pub struct File { _p: u8 }
#[verifier::external_body] pub struct BorrowedFd<'a> { _p: PhantomData<&'a u8> }
pub trait AsRawFd {
    spec fn sfd(&self) -> i32;
    fn as_raw_fd(&self) -> (r: RawFd) ensures r == self.sfd();
}
impl AsRawFd for File {
    uninterp spec fn sfd(&self) -> i32;
    #[verifier::external_body] fn as_raw_fd(&self) -> (r: RawFd) { unimplemented!() }
}
impl<'a> AsRawFd for BorrowedFd<'a> {
    uninterp spec fn sfd(&self) -> i32;
    #[verifier::external_body] fn as_raw_fd(&self) -> (r: RawFd) { unimplemented!() }
}
impl AsRawFd for i32 {                              // std: `impl AsRawFd for RawFd`
    open spec fn sfd(&self) -> i32 { *self }
    fn as_raw_fd(&self) -> (r: RawFd) { *self }
}
pub trait AsFd {
    spec fn fd_spec(&self) -> i32;
    fn as_fd(&self) -> (r: BorrowedFd<'_>) ensures r.sfd() == self.fd_spec();
}
impl AsFd for File {
    open spec fn fd_spec(&self) -> i32 { self.sfd() }
    #[verifier::external_body] fn as_fd(&self) -> (r: BorrowedFd<'_>) { unimplemented!() }
}
impl File {
    #[verifier::external_body] pub fn from_raw_fd(fd: RawFd) -> (r: File) ensures r.sfd() == fd { unimplemented!() }
    #[verifier::external_body] pub fn into_raw_fd(self) -> (r: RawFd) ensures r == self.sfd() { unimplemented!() }        // IntoRawFd: gives the descriptor up WITHOUT closing it
}
// ===== atomics: the value a cell was created with; stores to AtomicU32 cells are recorded in the token
#[verifier::external_body] pub struct AtomicU64 { _p: u8 }
impl AtomicU64 {
    pub uninterp spec fn init(&self) -> u64;
    #[verifier::external_body] pub fn new(v: u64) -> (r: AtomicU64) ensures r.init() == v { unimplemented!() }
}
#[verifier::external_body] pub struct AtomicU32 { _p: u8 }
impl AtomicU32 {
    pub uninterp spec fn init(&self) -> u32;
    pub uninterp spec fn id(&self) -> int;
    #[verifier::external_body] pub fn new(v: u32) -> (r: AtomicU32) ensures r.init() == v { unimplemented!() }
}
// ===== host objects that stay opaque here (src/passthrough/file_handle.rs, mount_fd.rs: unit fhandle)
#[verifier::external_body] pub struct CFileHandle { _p: u8 }
impl Clone for FileHandle { #[verifier::external_body] fn clone(&self) -> (r: Self) ensures r == *self { unimplemented!() } }
#[verifier::external_body] pub struct MountFd { _p: u8 }
impl MountFd { pub uninterp spec fn mfd(&self) -> i32; }        // the mount's long-lived descriptor
#[verifier::external_body] pub struct MountFds { _p: u8 }
#[verifier::external_body] pub struct MPRError { _p: u8 }
impl MPRError {
    pub uninterp spec fn io_code(&self) -> Option<i32>;
    #[verifier::external_body] pub fn silent(&self) -> (r: bool) { unimplemented!() }
    #[verifier::external_body] pub fn into_inner(self) -> (r: io::Error) ensures r.os_code() == self.io_code() { unimplemented!() }      // verified in unit fhandle ([C05.fh.mprerror.into_inner])
}
pub uninterp spec fn hkey(h: FileHandle) -> Arc<FileHandle>;             // the Arc under which a file handle is kept (Arc<T> is T with shared ownership)
pub broadcast axiom fn axiom_hkey(h: FileHandle) ensures *(#[trigger] hkey(h)) == h;
pub broadcast axiom fn axiom_hkey_arc(a: Arc<FileHandle>) ensures #[trigger] hkey(*a) == a;

// ===== the host as THIS request sees it (ghost token, rule R23)
pub ghost struct CallArgs { pub nr: int, pub fd: i32, pub path: Seq<u8>, pub flags: i32, pub mode: u32, pub size: usize, pub fh: Option<FileHandle> }
pub ghost struct Call { pub a: CallArgs, pub ret: int, pub errno: i32 }
pub tracked struct Cs {
    pub ghost open: Set<int>,                          // descriptors owned by File values of this module
    pub ghost mnt: Set<int>,                           // descriptors owned by the mount-fd table (unit fhandle)
    pub ghost calls: Seq<Call>,                        // the host calls of this request so far
    pub ghost errno: i32,
    pub ghost umask: u32,
    pub ghost store: InodeStore,                       // contents of inode_map.inodes
    pub ghost handles: Map<Handle, Arc<HandleData>>,   // contents of handle_map.handles
    pub ghost cells: Map<int, u32>,                    // values stored into AtomicU32 cells
    pub ghost filled: Seq<u8>, pub ghost filled_at: int,   // what the last buffer-filling call stored, and where
}
// CAPABILITY: which host call (number + arguments) may be made after which calls; granted by the `requires` of the function under contract
pub uninterp spec fn host_ok(a: CallArgs, before: Seq<Call>) -> bool;
pub open spec fn args(nr: int, fd: i32, path: Seq<u8>, flags: i32, mode: u32, size: usize) -> CallArgs { CallArgs { nr, fd, path, flags, mode, size, fh: None } }
pub open spec fn args_fh(nr: int, fd: i32, fh: FileHandle, flags: i32) -> CallArgs { CallArgs { nr, fd, path: Seq::empty(), flags, mode: 0, size: 0, fh: Some(fh) } }
// everything but the call log / errno / descriptor sets
pub open spec fn rest_same(o: Cs, n: Cs) -> bool { n.umask == o.umask && n.store == o.store && n.handles == o.handles && n.cells == o.cells && n.mnt == o.mnt }
// a host call: recorded with its arguments and result; a successful call leaves errno alone (errno(3)), a failing one sets it
pub open spec fn step(o: Cs, n: Cs, a: CallArgs, r: int) -> bool {
    n.calls == o.calls.push(Call { a, ret: r, errno: n.errno }) && (r >= 0 ==> n.errno == o.errno) && rest_same(o, n)
}
pub open spec fn fds_same(o: Cs, n: Cs) -> bool { n.open == o.open }
// an opening call: on success the descriptor returned was not open before and is the only change
pub open spec fn opened(o: Cs, n: Cs, r: int) -> bool {
    if r >= 0 { !o.open.contains(r) && !o.mnt.contains(r) && n.open == o.open.insert(r) } else { n.open == o.open }
}
// a function that makes no host call of its own and owns no state: nothing but the descriptor sets may differ
pub open spec fn quiet(o: Cs, n: Cs) -> bool { n.calls == o.calls && rest_same(o, n) && n.filled == o.filled && n.filled_at == o.filled_at }

// ===== names and paths by content
pub uninterp spec fn cstr_at(p: *const i8) -> Seq<u8>;          // the C string stored at p (the bytes before the terminating NUL)
impl CStr { #[verifier::external_body] pub fn as_ptr(&self) -> (r: *const i8) ensures cstr_at(r) == self@ { unimplemented!() } }
// unsafe CStr::from_bytes_with_nul_unchecked (rule R70): the safety condition is the precondition
#[verifier::external_body] pub fn vx_cstr_unchecked(b: &'static [u8]) -> (r: &'static CStr)
    requires b@.len() > 0 && b@.last() == 0u8 && (forall|i: int| 0 <= i < b@.len() - 1 ==> b@[i] != 0u8), // [C05.core.cstr_unchecked.nul_terminated] the constant is one C string
    ensures r@ == b@.drop_last(), b@.len() == 1 ==> r@ == Seq::<u8>::empty(),      // (the second clause is the first for a one-byte constant, stated for Seq equality)
{ unimplemented!() }
#[verifier::external_body] pub struct CString { _p: u8 }
#[verifier::external_body] #[derive(Debug)] pub struct NulError { _p: u8 }
pub uninterp spec fn str_bytes(s: Seq<char>) -> Seq<u8>;        // the UTF-8 bytes of a string
pub uninterp spec fn decimal(fd: i32) -> Seq<u8>;                // "<fd>" in decimal
pub broadcast axiom fn axiom_decimal_no_nul(fd: i32) ensures !(#[trigger] decimal(fd)).contains(0u8);      // digits and '-' only
pub broadcast axiom fn axiom_str_bytes_dot() ensures #[trigger] str_bytes(seq!['.']) == seq![46u8];       // "." is the one byte 0x2e
// what CString::new accepts: &str and String (std: `T: Into<Vec<u8>>`)
pub trait IntoCBytes { spec fn cbytes(&self) -> Seq<u8>; }
impl IntoCBytes for &str { open spec fn cbytes(&self) -> Seq<u8> { str_bytes(self@) } }
impl IntoCBytes for String { open spec fn cbytes(&self) -> Seq<u8> { str_bytes(self@) } }
impl CString {
    pub uninterp spec fn view(&self) -> Seq<u8>;
    // std: "This function will return an error if the supplied bytes contain an internal 0 byte"
    #[verifier::external_body] pub fn new<T: IntoCBytes>(t: T) -> (r: core::result::Result<CString, NulError>)
        ensures r is Ok <==> !t.cbytes().contains(0u8), r is Ok ==> r->Ok_0@ == t.cbytes() { unimplemented!() }
    #[verifier::external_body] pub fn as_ptr(&self) -> (r: *const i8) ensures cstr_at(r) == self@ { unimplemented!() }
}
impl Deref for CString { type Target = CStr; #[verifier::external_body] fn deref(&self) -> (r: &CStr) ensures r@ == self@ { unimplemented!() } }
#[verifier::external_body] pub fn vx_fmt_display(fd: i32) -> (r: String) ensures str_bytes(r@) == decimal(fd) { unimplemented!() }       // format!("{}", fd) (rule R54)
#[verifier::external_body] pub fn fmt_opaque() -> String { unimplemented!() }
impl io::Error {
    #[verifier::external_body] pub fn from_nul(e: NulError) -> (r: io::Error) ensures r.os_code() is None { unimplemented!() }      // impl From<NulError> for io::Error: InvalidInput, no OS code (rule R74)
    #[verifier::external_body] pub fn new_nul(kind: io::ErrorKind, e: NulError) -> (r: io::Error) ensures r.os_code() is None, r.skind() == kind { unimplemented!() }
}
// std::mem::MaybeUninit<T> used as an out-parameter: `val` is what the cell holds once the kernel has filled it
#[verifier::external_body] #[verifier::reject_recursive_types(T)] pub struct MaybeUninit<T> { _p: PhantomData<T> }
impl<T> MaybeUninit<T> {
    pub uninterp spec fn val(&self) -> T;
    #[verifier::external_body] pub fn zeroed() -> (r: Self) { unimplemented!() }
    #[verifier::external_body] pub fn assume_init(self) -> (r: T) ensures r == self.val() { unimplemented!() }
}
// what the kernel reported: keyed by the descriptor and the position of the call in this request's history (the host may change in between)
pub uninterp spec fn fstat_out(fd: i32, at: int) -> stat64;
pub uninterp spec fn fh_out(fd: i32, at: int) -> Option<FileHandle>;

// ===== the host calls (same names and arguments as libc; rule R51)
pub mod sys {
    use super::*;
    #[verifier::external_body] pub fn openat(dirfd: i32, path: *const i8, flags: i32, mode: u32, Tracked(cs): Tracked<&mut Cs>) -> (r: i32)
        requires host_ok(args(NR_OPENAT, dirfd, cstr_at(path), flags, mode, 0), old(cs).calls), // [C05.core.hostcall.openat] only the call the contract prescribes, with exactly its arguments
        ensures step(*old(cs), *final(cs), args(NR_OPENAT, dirfd, cstr_at(path), flags, mode, 0), r as int), opened(*old(cs), *final(cs), r as int), r >= -1,
                final(cs).filled == old(cs).filled, final(cs).filled_at == old(cs).filled_at,
    { unimplemented!() }
    // openat without a mode (open(2): the mode argument is only used with O_CREAT / O_TMPFILE)
    #[verifier::external_body] pub fn openat3(dirfd: i32, path: *const i8, flags: i32, Tracked(cs): Tracked<&mut Cs>) -> (r: i32)
        requires host_ok(args(NR_OPENAT3, dirfd, cstr_at(path), flags, 0, 0), old(cs).calls), // [C05.core.hostcall.openat3] only the call the contract prescribes, with exactly its arguments
                 flags & 0o100i32 != 0o100i32 && flags & 0o20000000i32 == 0, // [C05.core.openat.mode_when_needed] open(2): "the mode argument must be supplied if O_CREAT or O_TMPFILE is specified in flags; if it is not supplied, some arbitrary bytes from the stack will be applied as the file mode" - the 3-argument form passes none
        ensures step(*old(cs), *final(cs), args(NR_OPENAT3, dirfd, cstr_at(path), flags, 0, 0), r as int), opened(*old(cs), *final(cs), r as int), r >= -1,
                final(cs).filled == old(cs).filled, final(cs).filled_at == old(cs).filled_at,
    { unimplemented!() }
    // fstatat64(dirfd, path, &mut st, flags): on success the cell holds what the kernel reports
    #[verifier::external_body] pub fn fstatat64(dirfd: i32, path: *const i8, buf: &mut MaybeUninit<stat64>, flags: i32, Tracked(cs): Tracked<&mut Cs>) -> (r: i32)
        requires host_ok(args(NR_FSTATAT, dirfd, cstr_at(path), flags, 0, 0), old(cs).calls), // [C05.core.hostcall.fstatat64]
                 old(cs).open.contains(dirfd as int) || old(cs).mnt.contains(dirfd as int), // [C15.core.fstatat64.fd_is_open] the descriptor is still open
        ensures step(*old(cs), *final(cs), args(NR_FSTATAT, dirfd, cstr_at(path), flags, 0, 0), r as int), fds_same(*old(cs), *final(cs)), r == 0 || r == -1,
                r == 0 ==> final(buf).val() == fstat_out(dirfd, old(cs).calls.len() as int),
                final(cs).filled == old(cs).filled, final(cs).filled_at == old(cs).filled_at,
    { unimplemented!() }
    // readlinkat(dirfd, path, buf, bufsiz): stores at most bufsiz bytes at buf and returns their number (readlink(2): no NUL is appended)
    #[verifier::external_body] pub fn readlinkat(dirfd: i32, path: *const i8, buf: BufPtr, bufsiz: usize, Tracked(cs): Tracked<&mut Cs>) -> (r: isize)
        requires host_ok(args(NR_READLINKAT, dirfd, cstr_at(path), 0, 0, bufsiz), old(cs).calls), // [C05.core.hostcall.readlinkat]
                 bufsiz <= buf.room(), // [C05.core.readlinkat.buf_in_bounds] the kernel may store bufsiz bytes at buf: they must lie inside the allocation
        ensures step(*old(cs), *final(cs), args(NR_READLINKAT, dirfd, cstr_at(path), 0, 0, bufsiz), r as int), fds_same(*old(cs), *final(cs)), r >= -1,
                r >= 0 ==> r <= bufsiz && final(cs).filled.len() == r && final(cs).filled_at == buf.addr(),
    { unimplemented!() }
    // umask(2): "This system call always succeeds and the previous value of the mask is returned"; only the permission bits of the argument are used
    #[verifier::external_body] pub fn umask(mask: u32, Tracked(cs): Tracked<&mut Cs>) -> (r: u32)
        requires host_ok(args(NR_UMASK, 0, Seq::empty(), 0, mask, 0), old(cs).calls), // [C05.core.hostcall.umask]
        ensures final(cs).calls == old(cs).calls.push(Call { a: args(NR_UMASK, 0, Seq::empty(), 0, mask, 0), ret: r as int, errno: old(cs).errno }), final(cs).errno == old(cs).errno,
                final(cs).umask == mask & 0o777u32, r == old(cs).umask, fds_same(*old(cs), *final(cs)),
                final(cs).store == old(cs).store && final(cs).handles == old(cs).handles && final(cs).cells == old(cs).cells && final(cs).mnt == old(cs).mnt,
                final(cs).filled == old(cs).filled, final(cs).filled_at == old(cs).filled_at,
    { unimplemented!() }
    // statx(dirfd, path, flags, mask, &mut buf) through syscall(2) (rule R51): 0 or -1; on success the buffer holds the kernel's answer
    #[verifier::external_body] pub fn statx(dirfd: i32, path: *const i8, flags: i32, mask: u32, buf: &mut MaybeUninit<statx_st>, Tracked(cs): Tracked<&mut Cs>) -> (r: i64)
        requires host_ok(args(NR_STATX, dirfd, cstr_at(path), flags, mask, 0), old(cs).calls), // [C05.core.hostcall.statx] statx of the descriptor itself, with exactly these flags and this mask
                 old(cs).open.contains(dirfd as int) || old(cs).mnt.contains(dirfd as int), // [C15.core.statx.fd_is_open] the descriptor is still open
        ensures step(*old(cs), *final(cs), args(NR_STATX, dirfd, cstr_at(path), flags, mask, 0), r as int), fds_same(*old(cs), *final(cs)), r == 0 || r == -1,
                r == 0 ==> final(buf).val() == stx_raw(dirfd, old(cs).calls.len() as int),
                final(cs).filled == old(cs).filled, final(cs).filled_at == old(cs).filled_at,
    { unimplemented!() }
    #[verifier::external_body] pub fn last_os_error(Tracked(cs): Tracked<&mut Cs>) -> (r: io::Error)
        ensures *final(cs) == *old(cs), r.os_code() == Some(old(cs).errno),
    { unimplemented!() }
}
// scope exit of a File value: close(2) of exactly its descriptor (made explicit by rules R53f / R71)
#[verifier::external_body] pub fn vx_drop_file(f: File, Tracked(cs): Tracked<&mut Cs>)
    requires old(cs).open.contains(f.sfd() as int), // [C15.core.close.is_open] a descriptor is closed once, and only one this module owns
    ensures final(cs).open == old(cs).open.remove(f.sfd() as int), quiet(*old(cs), *final(cs)), final(cs).errno == old(cs).errno,
{ unimplemented!() }
pub fn drop<T>(_x: T) {}                       // std::mem::drop of a value that owns no descriptor

// ===== raw buffers (rule R72; the pointer model of unit fusedevw)
pub uninterp spec fn spec_capacity(v: &Vec<u8>) -> nat;
pub uninterp spec fn vec_base(v: &Vec<u8>) -> int;
#[verifier::external_body] #[derive(Clone, Copy)] pub struct BufPtr { _p: usize }
impl BufPtr { pub uninterp spec fn addr(&self) -> int; pub uninterp spec fn room(&self) -> nat; }
// Vec::with_capacity(n): "The vector will be able to hold at least capacity elements without reallocating"; empty
#[verifier::external_body] pub fn vx_vec_with_capacity(n: usize) -> (r: Vec<u8>) ensures r@.len() == 0, spec_capacity(&r) >= n { unimplemented!() }
// Vec::capacity
#[verifier::external_body] pub fn vx_vec_capacity(v: &Vec<u8>) -> (r: usize) ensures r == spec_capacity(v), r >= v@.len() { unimplemented!() }
// Vec::as_mut_ptr: a pointer to the start of the allocation, with `capacity` bytes of room
#[verifier::external_body] pub fn vx_vec_as_mut_ptr(v: &mut Vec<u8>) -> (r: BufPtr)
    ensures final(v)@ == old(v)@, spec_capacity(final(v)) == spec_capacity(old(v)), vec_base(final(v)) == vec_base(old(v)), r.addr() == vec_base(old(v)), r.room() == spec_capacity(old(v)),
{ unimplemented!() }
// unsafe Vec::set_len(n) after the kernel filled the buffer.  std "Safety: new_len must be less than or equal to capacity(); the elements at
// old_len..new_len must be initialized": both are preconditions, proved at the call site
#[verifier::external_body] pub fn vx_set_len_filled(v: &mut Vec<u8>, n: usize, Tracked(cs): Tracked<&mut Cs>)
    requires n <= spec_capacity(old(v)), // [C05.core.readlinkat.set_len_in_bounds] the new length does not exceed the capacity
             old(v)@.len() == 0 && old(cs).filled_at == vec_base(old(v)) && n <= old(cs).filled.len(), // [C05.core.readlinkat.set_len_initialised] the first n bytes of THIS buffer were stored by the kernel
    ensures *final(cs) == *old(cs), final(v)@ == old(cs).filled.take(n as int), spec_capacity(final(v)) == spec_capacity(old(v)),
{ unimplemented!() }
// Vec::shrink_to_fit: contents unchanged
#[verifier::external_body] pub fn vx_shrink_to_fit(v: &mut Vec<u8>) ensures final(v)@ == old(v)@ { unimplemented!() }
#[verifier::external_body] pub fn vx_vec1(x: RawFd) -> (r: Vec<RawFd>) ensures r@ == seq![x] { unimplemented!() }        // vec![x] (rule R75)
// std::ffi::OsString / std::path::PathBuf: byte strings (unix)
#[verifier::external_body] pub struct OsString { _p: u8 }
#[verifier::external_body] pub struct PathBuf { _p: u8 }
impl OsString {
    pub uninterp spec fn view(&self) -> Seq<u8>;
    #[verifier::external_body] pub fn from_vec(v: Vec<u8>) -> (r: OsString) ensures r@ == v@ { unimplemented!() }      // OsStringExt::from_vec: the same bytes
}
impl PathBuf {
    pub uninterp spec fn view(&self) -> Seq<u8>;
    #[verifier::external_body] pub fn from(s: OsString) -> (r: PathBuf) ensures r@ == s@ { unimplemented!() }          // impl From<OsString> for PathBuf: the same bytes
}
'''

PRE_INODE = r'''
// ===== OpenableFileHandle::open (src/passthrough/file_handle.rs): verified on its real text in unit fhandle ([C05.fh.open.*], [C15.fh.open.*]); here contract-only
impl OpenableFileHandle {
    #[verifier::external_body] pub fn open(&self, flags: i32, Tracked(cs): Tracked<&mut Cs>) -> (res: io::Result<File>)
        requires host_ok(args_fh(NR_OBH, self.mount_fd.mfd(), *self.handle, flags), old(cs).calls), // [C05.core.hostcall.open_by_handle_at] open_by_handle_at(the mount's descriptor, exactly this handle, exactly these flags)
        ensures step(*old(cs), *final(cs), args_fh(NR_OBH, self.mount_fd.mfd(), *self.handle, flags), final(cs).calls.last().ret), opened(*old(cs), *final(cs), final(cs).calls.last().ret),
                res is Ok <==> final(cs).calls.last().ret >= 0, res is Ok ==> res->Ok_0.sfd() == final(cs).calls.last().ret,
                res is Err ==> res->Err_0.os_code() == Some(final(cs).calls.last().errno),
                final(cs).filled == old(cs).filled, final(cs).filled_at == old(cs).filled_at,
    { unimplemented!() }
}
impl<'a> InodeFile<'a> {
    pub open spec fn ifd(&self) -> i32 { match self { InodeFile::Owned(f) => f.sfd(), InodeFile::Ref(f) => f.sfd() } }
}
// the flag word of a re-open through /proc/self/fd: the caller's flags, without O_NOFOLLOW (the /proc link must be followed) and without anything that creates (O_CREAT, O_TMPFILE)
pub open spec fn reopen_word(flags: i32) -> i32 { flags & !0o400000i32 & !0o100i32 & !0o20000000i32 }
// c is THE re-open of descriptor fd with the caller's flags: openat(/proc/self/fd descriptor, "<fd>", that word) without a mode
pub open spec fn reopened(c: CallArgs, proc_fd: i32, fd: i32, flags: i32) -> bool {
    c.nr == NR_OPENAT3 && c.fd == proc_fd && c.path == decimal(fd) && c.mode == 0 && c.size == 0 && c.fh is None
    && c.flags & !0o20000000i32 == reopen_word(flags) && c.flags & 0o100i32 == 0 && c.flags & 0o20000000i32 == 0
}
impl InodeHandle {
    // THE object an inode denotes, as a host call: its own O_PATH descriptor through /proc/self/fd, or its own file handle relative to its mount's descriptor
    pub open spec fn is_open_of(&self, c: CallArgs, flags: i32, proc_fd: i32) -> bool {
        match self {
            InodeHandle::File(f) => reopened(c, proc_fd, f.sfd(), flags),
            InodeHandle::Handle(h) => c == args_fh(NR_OBH, h.mount_fd.mfd(), *h.handle, flags),
        }
    }
    // an inode kept as a descriptor owns an OPEN descriptor (ownership invariant of the inode store, see Cs::own_inv)
    pub open spec fn live(&self, cs: Cs) -> bool { self is File ==> cs.open.contains(self->File_0.sfd() as int) }
}
'''

# ---- std::collections::BTreeMap: the three maps of InodeStore, as maps; replacing / clearing the DATA map drops inode objects (A-own)
PRE_STORE = r'''
#[verifier::external_body] #[verifier::reject_recursive_types(K)] #[verifier::reject_recursive_types(V)]
pub struct BTreeMap<K, V> { _k: core::marker::PhantomData<(K, V)> }
impl<K, V> BTreeMap<K, V> { pub uninterp spec fn view(&self) -> Map<K, V>; }
impl BTreeMap<InodeId, Inode> {
    #[verifier::external_body] pub fn insert(&mut self, k: InodeId, v: Inode, Tracked(cs): Tracked<&mut Cs>) -> (r: Option<Inode>)
        ensures final(self)@ == old(self)@.insert(k, v), *final(cs) == *old(cs) { unimplemented!() }
    #[verifier::external_body] pub fn clear(&mut self, Tracked(cs): Tracked<&mut Cs>)
        ensures final(self)@ == Map::<InodeId, Inode>::empty(), *final(cs) == *old(cs) { unimplemented!() }
}
impl BTreeMap<Arc<FileHandle>, Inode> {
    #[verifier::external_body] pub fn insert(&mut self, k: Arc<FileHandle>, v: Inode, Tracked(cs): Tracked<&mut Cs>) -> (r: Option<Inode>)
        ensures final(self)@ == old(self)@.insert(k, v), *final(cs) == *old(cs) { unimplemented!() }
    #[verifier::external_body] pub fn clear(&mut self, Tracked(cs): Tracked<&mut Cs>)
        ensures final(self)@ == Map::<Arc<FileHandle>, Inode>::empty(), *final(cs) == *old(cs) { unimplemented!() }
}
// the descriptor an inode object owns, if it is kept as a descriptor
pub open spec fn hfd(d: Arc<InodeData>) -> Option<int> { match d.handle { InodeHandle::File(f) => Some(f.sfd() as int), InodeHandle::Handle(_) => None } }
pub open spec fn owned_by(m: Map<Inode, Arc<InodeData>>, fd: int) -> bool { exists|i: Inode| m.contains_key(i) && #[trigger] hfd(m[i]) == Some(fd) }
pub open spec fn no_handles(m: Map<Inode, Arc<InodeData>>) -> bool { forall|i: Inode| m.contains_key(i) ==> !(#[trigger] m[i].handle is Handle) }
// dropping an inode object: its own descriptor is closed; a file-handle inode gives back its reference to the mount descriptor (which may close THAT, unit fhandle)
pub open spec fn dropped(o: Cs, n: Cs, d: Arc<InodeData>) -> bool {
    match hfd(d) { Some(fd) => n.open == o.open.remove(fd) && n.mnt == o.mnt, None => n.open == o.open && n.mnt.subset_of(o.mnt) }
}
impl BTreeMap<Inode, Arc<InodeData>> {
    // BTreeMap::insert: "If the map did have this key present, the value is updated, and the old value is returned" - the caller discards it: it is dropped (A-own)
    #[verifier::external_body] pub fn insert(&mut self, k: Inode, v: Arc<InodeData>, Tracked(cs): Tracked<&mut Cs>) -> (r: Option<Arc<InodeData>>)
        ensures final(self)@ == old(self)@.insert(k, v), r is None,       // (the returned old value is accounted for here, as dropped)
                if old(self)@.contains_key(k) { dropped(*old(cs), *final(cs), old(self)@[k]) } else { final(cs).open == old(cs).open && final(cs).mnt == old(cs).mnt },
                final(cs).calls == old(cs).calls && final(cs).errno == old(cs).errno && final(cs).umask == old(cs).umask && final(cs).store == old(cs).store
                    && final(cs).handles == old(cs).handles && final(cs).cells == old(cs).cells && final(cs).filled == old(cs).filled && final(cs).filled_at == old(cs).filled_at,
    { unimplemented!() }
    // BTreeMap::clear: every value is dropped (A-own)
    #[verifier::external_body] pub fn clear(&mut self, Tracked(cs): Tracked<&mut Cs>)
        ensures final(self)@ == Map::<Inode, Arc<InodeData>>::empty(),
                (forall|fd: int| #[trigger] final(cs).open.contains(fd) <==> old(cs).open.contains(fd) && !owned_by(old(self)@, fd)), final(cs).mnt.subset_of(old(cs).mnt), no_handles(old(self)@) ==> final(cs).mnt == old(cs).mnt,
                final(cs).calls == old(cs).calls && final(cs).errno == old(cs).errno && final(cs).umask == old(cs).umask && final(cs).store == old(cs).store
                    && final(cs).handles == old(cs).handles && final(cs).cells == old(cs).cells && final(cs).filled == old(cs).filled && final(cs).filled_at == old(cs).filled_at,
    { unimplemented!() }
}
// #[derive(Default)]: every field its Default; BTreeMap::default() is the empty map (the derive is checked to be there by the unit)
impl Default for InodeStore {
    #[verifier::external_body] fn default() -> (r: Self)
        ensures r.data@ == Map::<Inode, Arc<InodeData>>::empty(), r.by_id@ == Map::<InodeId, Inode>::empty(), r.by_handle@ == Map::<Arc<FileHandle>, Inode>::empty() { unimplemented!() }
}
impl InodeStore {
    pub open spec fn is_empty(&self) -> bool { self.data@ == Map::<Inode, Arc<InodeData>>::empty() && self.by_id@ == Map::<InodeId, Inode>::empty() && self.by_handle@ == Map::<Arc<FileHandle>, Inode>::empty() }
}
// ===== synchronisation: the lock IS the contents the token describes (sequential; "Do not expect poisoned lock here": assumed)
#[verifier::external_body] #[verifier::reject_recursive_types(T)] pub struct RwLock<T> { _p: PhantomData<T> }
pub struct RwLockReadGuard<'a, T> { pub st: T, pub ph: PhantomData<&'a T> }
pub struct RwLockWriteGuard<'a, T> { pub st: T, pub ph: PhantomData<&'a T> }
impl<'a, T> Deref for RwLockReadGuard<'a, T> { type Target = T; fn deref(&self) -> (r: &T) ensures *r == self.st { &self.st } }
impl<'a, T> Deref for RwLockWriteGuard<'a, T> { type Target = T; fn deref(&self) -> (r: &T) ensures *r == self.st { &self.st } }
impl<'a, T> DerefMut for RwLockWriteGuard<'a, T> { fn deref_mut(&mut self) -> (r: &mut T) ensures *r == old(self).st, *final(r) == final(self).st { &mut self.st } }
impl RwLock<InodeStore> {
    // creating the lock fixes the initial contents of the store (rule R76)
    #[verifier::external_body] pub fn new(v: InodeStore, Tracked(cs): Tracked<&mut Cs>) -> (r: Self)
        ensures final(cs).store == v, final(cs).open == old(cs).open, final(cs).mnt == old(cs).mnt, final(cs).calls == old(cs).calls, final(cs).errno == old(cs).errno, final(cs).umask == old(cs).umask,
                final(cs).handles == old(cs).handles, final(cs).cells == old(cs).cells, final(cs).filled == old(cs).filled, final(cs).filled_at == old(cs).filled_at { unimplemented!() }
    #[verifier::external_body] pub fn write(&self, Tracked(cs): Tracked<&mut Cs>) -> (r: core::result::Result<RwLockWriteGuard<'_, InodeStore>, PoisonError>)
        ensures r is Ok, r->Ok_0.st == old(cs).store, *final(cs) == *old(cs) { unimplemented!() }
}
'''


PRE_FS = r'''
// #[derive(PartialEq)] on the field-less enum CachePolicy compares the variants (the derive is checked to be there by the unit)
impl vstd::std_specs::cmp::PartialEqSpecImpl for CachePolicy {
    open spec fn obeys_eq_spec() -> bool { true }
    open spec fn eq_spec(&self, other: &CachePolicy) -> bool { *self == *other }
}
impl AtomicBool { #[verifier::external_body] pub fn new(v: bool) -> (r: AtomicBool) ensures r.cur() == v { unimplemented!() } }
impl AtomicU8 {
    pub uninterp spec fn init(&self) -> u8;
    #[verifier::external_body] pub fn new(v: u8) -> (r: AtomicU8) ensures r.init() == v { unimplemented!() }
}
impl<T> Mutex<T> {
    pub uninterp spec fn init(&self) -> T;
    #[verifier::external_body] pub fn new(v: T) -> (r: Self) ensures r.init() == v { unimplemented!() }
}
impl<K, V> Default for BTreeMap<K, V> {
    #[verifier::external_body] fn default() -> (r: Self) ensures r@ == Map::<K, V>::empty() { unimplemented!() }      // std: "Creates an empty BTreeMap"
}
impl Cs {
    // the value an AtomicU32 cell holds: what was last stored into it, else what it was created with
    pub open spec fn cell(&self, a: &AtomicU32) -> u32 { if self.cells.contains_key(a.id()) { self.cells[a.id()] } else { a.init() } }
}
impl AtomicU32 {
    #[verifier::external_body] pub fn load(&self, o: Ordering, Tracked(cs): Tracked<&mut Cs>) -> (r: u32) ensures r == old(cs).cell(self), *final(cs) == *old(cs) { unimplemented!() }
    #[verifier::external_body] pub fn store(&self, v: u32, o: Ordering, Tracked(cs): Tracked<&mut Cs>)
        ensures final(cs).cells == old(cs).cells.insert(self.id(), v), final(cs).open == old(cs).open, final(cs).mnt == old(cs).mnt, final(cs).calls == old(cs).calls, final(cs).errno == old(cs).errno,
                final(cs).umask == old(cs).umask, final(cs).store == old(cs).store, final(cs).handles == old(cs).handles, final(cs).filled == old(cs).filled, final(cs).filled_at == old(cs).filled_at { unimplemented!() }
}
impl io::Error {
    // io::Error::new(kind, payload): an error of that kind without OS code
    #[verifier::external_body] pub fn new<E>(kind: io::ErrorKind, e: E) -> (r: io::Error) ensures r.os_code() is None, r.skind() == kind { unimplemented!() }
}
// ===== the handle table (src/passthrough/mod.rs HandleMap): its map contracts are verified in unit handles ([C15.map.new.*], [C15.map.clear.*]); here contract-only,
//       with the descriptor effect of A-own: an Arc<HandleData> that leaves the table is dropped, i.e. its File is closed
#[verifier::external_body] pub struct HandleMap { _p: u8 }
pub open spec fn hd_owned(m: Map<Handle, Arc<HandleData>>, fd: int) -> bool { exists|h: Handle| m.contains_key(h) && (#[trigger] m[h]).file.sfd() as int == fd }
impl HandleMap {
    #[verifier::external_body] pub fn new(Tracked(cs): Tracked<&mut Cs>) -> (r: Self)
        ensures final(cs).handles == Map::<Handle, Arc<HandleData>>::empty(), final(cs).open == old(cs).open, final(cs).mnt == old(cs).mnt, final(cs).calls == old(cs).calls, final(cs).errno == old(cs).errno,
                final(cs).umask == old(cs).umask, final(cs).store == old(cs).store, final(cs).cells == old(cs).cells, final(cs).filled == old(cs).filled, final(cs).filled_at == old(cs).filled_at { unimplemented!() }
    #[verifier::external_body] pub fn clear(&self, Tracked(cs): Tracked<&mut Cs>)
        ensures final(cs).handles == Map::<Handle, Arc<HandleData>>::empty(),
                forall|fd: int| #[trigger] final(cs).open.contains(fd) <==> old(cs).open.contains(fd) && !hd_owned(old(cs).handles, fd),
                final(cs).mnt == old(cs).mnt, final(cs).calls == old(cs).calls, final(cs).errno == old(cs).errno,
                final(cs).umask == old(cs).umask, final(cs).store == old(cs).store, final(cs).cells == old(cs).cells, final(cs).filled == old(cs).filled, final(cs).filled_at == old(cs).filled_at { unimplemented!() }
}
// ===== InodeMap::get: verified on its real text in units ptlookup ([C08.map.get]) and handles; here contract-only over this unit's token
impl InodeMap {
    #[verifier::external_body] pub fn get(&self, inode: Inode, Tracked(cs): Tracked<&mut Cs>) -> (r: io::Result<Arc<InodeData>>)
        ensures *final(cs) == *old(cs), r is Ok <==> old(cs).store.data@.contains_key(inode), r is Ok ==> r->Ok_0 == old(cs).store.data@[inode], r is Err ==> r->Err_0.os_code() == Some(9i32) { unimplemented!() }
}
// ===== the mount-fd table and file handles (src/passthrough/mount_fd.rs, file_handle.rs): verified in unit fhandle; here their effect on `open` / `mnt` in reduced form
impl MountFds {
    pub uninterp spec fn info_fd(&self) -> int;                         // the table's own /proc/self/mountinfo descriptor
    // MountFds::new(None): File::open("/proc/self/mountinfo"), kept in the table ([C15.fh.new.kept], [C15.fh.new.err_balance])
    #[verifier::external_body] pub fn new(mount_prefix: Option<String>, Tracked(cs): Tracked<&mut Cs>) -> (r: io::Result<MountFds>)
        ensures final(cs).open == old(cs).open && final(cs).calls == old(cs).calls && final(cs).umask == old(cs).umask && final(cs).store == old(cs).store && final(cs).handles == old(cs).handles
                    && final(cs).cells == old(cs).cells && final(cs).filled == old(cs).filled && final(cs).filled_at == old(cs).filled_at,
                r is Err ==> final(cs).mnt == old(cs).mnt,
                r is Ok ==> !old(cs).open.contains(r->Ok_0.info_fd()) && !old(cs).mnt.contains(r->Ok_0.info_fd()) && final(cs).mnt == old(cs).mnt.insert(r->Ok_0.info_fd()),
    { unimplemented!() }
}
// the re-open callback handed to the mount-fd table (rule R73): the model object of the lifted closure
pub trait ReopenFd: Sized { spec fn proc_fd(&self) -> i32; }
pub struct ProcReopen<'a, S: BitmapSlice + Send + Sync> { pub fs: &'a PassthroughFs<S> }
impl<'a, S: BitmapSlice + Send + Sync> ReopenFd for ProcReopen<'a, S> { open spec fn proc_fd(&self) -> i32 { self.fs.proc_self_fd.sfd() } }
// a mount descriptor may have been added: at most one, fresh
pub open spec fn mnt_grown(o: Cs, n: Cs) -> bool {
    n.mnt == o.mnt || (exists|m: int| !o.open.contains(m) && !o.mnt.contains(m) && #[trigger] n.mnt == o.mnt.insert(m))
}
impl FileHandle {
    // FileHandle::from_fd (name_to_handle_at on the descriptor itself, [C05.fh.from_fd.*]): opens nothing ([C15.fh.from_fd.no_descriptor])
    #[verifier::external_body] pub fn from_fd<D: AsRawFd>(fd: &D, Tracked(cs): Tracked<&mut Cs>) -> (r: io::Result<Option<FileHandle>>)
        requires old(cs).open.contains(fd.sfd() as int) || old(cs).mnt.contains(fd.sfd() as int), // [C15.core.from_fd.fd_is_open]
        ensures final(cs).open == old(cs).open && final(cs).calls == old(cs).calls && rest_same(*old(cs), *final(cs)) && final(cs).filled == old(cs).filled && final(cs).filled_at == old(cs).filled_at,
                r is Ok ==> r->Ok_0 == fh_out(fd.sfd(), old(cs).calls.len() as int),
    { unimplemented!() }
    // FileHandle::into_openable = MountFds::get(self.mnt_id, reopen_fd) + Arc::new(self) ([C15.fh.into_openable.*], [C15.fh.get.*]): an existing entry is re-used,
    // a new one costs exactly one (mount) descriptor, every error path closes what it opened
    #[verifier::external_body] pub fn into_openable<F: ReopenFd>(self, mount_fds: &MountFds, reopen_fd: F, Tracked(cs): Tracked<&mut Cs>) -> (r: core::result::Result<OpenableFileHandle, MPRError>)
        ensures final(cs).open == old(cs).open && final(cs).calls == old(cs).calls && final(cs).umask == old(cs).umask && final(cs).store == old(cs).store && final(cs).handles == old(cs).handles
                    && final(cs).cells == old(cs).cells && final(cs).filled == old(cs).filled && final(cs).filled_at == old(cs).filled_at,
                r is Err ==> final(cs).mnt == old(cs).mnt,
                r is Ok ==> mnt_grown(*old(cs), *final(cs)) && r->Ok_0.handle == hkey(self),
    { unimplemented!() }
}
// ===== statx(2): the answer buffer stays opaque here; its translation (`impl SafeStatXAccess for statx_st`::{stat64, mount_id}) is verified field by field in unit ptstatx
#[verifier::external_body] #[derive(Clone, Copy)] pub struct statx_st { _p: u8 }
impl statx_st {
    pub uninterp spec fn s_stat64(&self) -> Option<stat64>;          // Some iff the kernel filled in the basic fields ([C05.statx.valid_only_if_filled], [C05.statx.fields])
    pub uninterp spec fn s_mount_id(&self) -> Option<MountId>;       // Some iff STATX_MNT_ID is set ([C05.statx.mnt_id])
    #[verifier::external_body] pub fn stat64(&self) -> (r: Option<stat64>) ensures r == self.s_stat64() { unimplemented!() }
    #[verifier::external_body] pub fn mount_id(&self) -> (r: Option<MountId>) ensures r == self.s_mount_id() { unimplemented!() }
}
pub const STATX_BASIC_STATS: u32 = 0x07ff;     // linux/stat.h (as unit ptstatx)
pub const STATX_MNT_ID: u32 = 0x1000;
pub uninterp spec fn stx_raw(fd: i32, at: int) -> statx_st;              // what statx(2) stored for fd, by the position of the call in this request's history
pub uninterp spec fn n2h_mnt(fd: i32, at: int) -> Option<MountId>;       // the mount id name_to_handle_at reports for fd (fallback for kernels before 5.8)
// what statx() of src/passthrough/statx.rs returns for a successful statx(2): the translated attributes, and the mount id of the answer - else the one name_to_handle_at gives - else 0
pub open spec fn statx_out(fd: i32, at: int) -> StatExt {
    StatExt { st: stx_raw(fd, at).s_stat64()->Some_0,
              mnt_id: match stx_raw(fd, at).s_mount_id() { Some(m) => m, None => match n2h_mnt(fd, at) { Some(m) => m, None => 0 } } }
}
impl FileHandle {
    // FileHandle::from_name_at (name_to_handle_at, verified in unit fhandle: [C05.fh.from_name_at.*], opens nothing: [C15.fh.from_name_at.no_descriptor]); here only the mount id matters
    #[verifier::external_body] pub fn from_name_at<D: AsRawFd>(dir_fd: &D, path: &CStr, Tracked(cs): Tracked<&mut Cs>) -> (r: io::Result<Option<FileHandle>>)
        ensures final(cs).open == old(cs).open && final(cs).calls == old(cs).calls && rest_same(*old(cs), *final(cs)) && final(cs).filled == old(cs).filled && final(cs).filled_at == old(cs).filled_at,
                (match r { Ok(Some(v)) => Some(v.mnt_id), _ => None::<MountId> }) == n2h_mnt(dir_fd.sfd(), old(cs).calls.len() - 1),
    { unimplemented!() }
}
pub open spec fn spec_id(st: StatExt) -> InodeId { InodeId { ino: st.st.st_ino, dev: st.st.st_dev, mnt: st.mnt_id } }
// ===== do_lookup: verified on its real text in unit ptlookup; here capability in, uninterpreted result out
impl<S: BitmapSlice + Send + Sync> PassthroughFs<S> {
    pub uninterp spec fn do_lookup_ok(&self, parent: Inode, name: Seq<u8>) -> bool;
    pub uninterp spec fn res_do_lookup(&self, parent: Inode, name: Seq<u8>) -> io::Result<Entry>;
    #[verifier::external_body] fn do_lookup(&self, parent: Inode, name: &CStr) -> (r: io::Result<Entry>)
        requires self.do_lookup_ok(parent, name@), // [C06.core.hostcall.lookup] only the lookup the contract prescribes
        ensures r == self.res_do_lookup(parent, name@) { unimplemented!() }
}
// ===== ownership invariant of the inode store: every inode kept as a descriptor owns an OPEN descriptor that is not a mount descriptor, and no two inodes own the same one
pub open spec fn own_inv(m: Map<Inode, Arc<InodeData>>, open: Set<int>, mnt: Set<int>) -> bool {
    (forall|i: Inode| m.contains_key(i) && (#[trigger] hfd(m[i])) is Some ==> open.contains(hfd(m[i])->Some_0) && !mnt.contains(hfd(m[i])->Some_0))
    && (forall|i: Inode, j: Inode| m.contains_key(i) && m.contains_key(j) && i != j && hfd(m[i]) is Some ==> #[trigger] hfd(m[i]) != #[trigger] hfd(m[j]))
}
// the descriptors left when the inode under number k (if any) is replaced (BTreeMap::insert drops the old value)
pub open spec fn open_after_replace(open: Set<int>, m: Map<Inode, Arc<InodeData>>, k: Inode) -> Set<int> {
    if m.contains_key(k) && hfd(m[k]) is Some { open.remove(hfd(m[k])->Some_0) } else { open }
}
// a move out of / a borrow of a local whose drop flag is explicit: only while it still owns its value (a use after move cannot verify)
fn vx_slot_take(s: &mut Option<File>) -> (r: File)
    requires *old(s) is Some, // [C15.core.slot.not_moved]
    ensures r == (*old(s))->Some_0, *final(s) is None,
{ s.take().unwrap() }
fn vx_slot_ref(s: &Option<File>) -> (r: &File)
    requires s is Some, // [C15.core.slot.not_moved]
    ensures *r == s->Some_0,
{ s.as_ref().unwrap() }
'''


DROP_IFILE = r'''// scope exit of an InodeFile: the drop glue of the enum - an Owned file is closed, a borrowed one is not (VERIFIED, not assumed)
fn vx_drop_inode_file(f: InodeFile<'_>, Tracked(cs): Tracked<&mut Cs>)
    requires f is Owned ==> old(cs).open.contains(f.ifd() as int), // [C15.core.close.is_open]
    ensures f is Owned ==> final(cs).open == old(cs).open.remove(f.ifd() as int), f is Ref ==> final(cs).open == old(cs).open,
            quiet(*old(cs), *final(cs)), final(cs).errno == old(cs).errno,
{
    match f { InodeFile::Owned(x) => { vx_drop_file(x, Tracked(cs)); } InodeFile::Ref(_) => {} }
}
'''
DROP_SLOT = r'''// scope exit of an Option<File> (drop flag of rule R71): the drop glue of Option - close iff Some (VERIFIED, not assumed)
fn vx_drop_slot(s: Option<File>, Tracked(cs): Tracked<&mut Cs>)
    requires s is Some ==> old(cs).open.contains(s->Some_0.sfd() as int), // [C15.core.close.is_open]
    ensures s is Some ==> final(cs).open == old(cs).open.remove(s->Some_0.sfd() as int), s is None ==> final(cs).open == old(cs).open,
            quiet(*old(cs), *final(cs)), final(cs).errno == old(cs).errno,
{
    match s { Some(f) => { vx_drop_file(f, Tracked(cs)); } None => {} }
}
'''

SCENARIOS = r'''
// ---- histories (client code against the CONTRACTS above; nothing here is assumed).  `all_granted`: the scenarios are about state, not about which calls are allowed
pub open spec fn all_granted() -> bool { forall|a: CallArgs, rs: Seq<Call>| #[trigger] host_ok(a, rs) }
// C08 "import twice": the second import REPLACES the live root entry (the count restarts at 2, whatever the client held - the root is exempt from forget, so
// nothing depends on it) and the first root descriptor is closed: an observation, not a finding
fn scenario_import_twice<S: BitmapSlice + Send + Sync>(fs: &PassthroughFs<S>, Tracked(cs): Tracked<&mut Cs>)
    requires old(cs).calls.len() == 0, !str_bytes(fs.cfg.root_dir@).contains(0u8), !fs.cfg.inode_file_handles, old(cs).store.is_empty(), all_granted(),
{
    let ghost open0 = cs.open;
    let r1 = fs.import(Tracked(cs));
    if r1.is_ok() {
        let ghost d1 = cs.store.data@[1];
        let ghost fd1 = hfd(d1)->Some_0;
        assert(hfd(d1) is Some && cs.open =~= open0.insert(fd1) && !open0.contains(fd1)); // [C15.core.scenario.import.one_descriptor] the first import costs exactly the root's descriptor
        assert(forall|i: Inode| cs.store.data@.contains_key(i) <==> i == 1); // [C06.core.scenario.import.only_root] on a fresh file system the root is the ONLY inode
        proof { cs.calls = Seq::empty(); }           // the next request
        let r2 = fs.import(Tracked(cs));
        if r2.is_ok() {
            let ghost d2 = cs.store.data@[1];
            assert(forall|i: Inode| cs.store.data@.contains_key(i) <==> i == 1); // [C08.core.scenario.import_twice.one_root] still exactly one inode: the live root entry was replaced, not duplicated
            assert(d2.inode == 1 && d2.refcount.init() == 2); // [C08.core.scenario.import_twice.count_restarts] the replacing entry starts again at the documented count
            assert(hfd(d2) is Some && hfd(d2)->Some_0 != fd1 && cs.open =~= open0.insert(hfd(d2)->Some_0)); // [C15.core.scenario.import_twice.balance] the first root descriptor is closed: one descriptor, not two
        } else {
            assert(cs.store.data@[1] == d1 && cs.open =~= open0.insert(fd1)); // [C08.core.scenario.import_twice.failed_keeps_first] a failed second import leaves the first root in place
        }
    }
}
// C15 "destroy ... no more open file descriptors, live inode objects, handles ... than a freshly started server": whatever the tables hold,
// afterwards this module owns the /proc/self/fd descriptor and the descriptor of the re-imported root - what `new` + `import` leave
fn scenario_destroy_as_fresh<S: BitmapSlice + Send + Sync>(fs: &PassthroughFs<S>, Tracked(cs): Tracked<&mut Cs>)
    requires old(cs).calls.len() == 0, !str_bytes(fs.cfg.root_dir@).contains(0u8), all_granted(),
             // every descriptor of this module is the /proc/self/fd descriptor or is owned by an inode / a handle (arbitrary tables: nothing released, nothing forgotten)
             forall|fd: int| old(cs).open.contains(fd) ==> fd == fs.proc_self_fd.sfd() as int || owned_by(old(cs).store.data@, fd) || hd_owned(old(cs).handles, fd),
             old(cs).open.contains(fs.proc_self_fd.sfd() as int) && !owned_by(old(cs).store.data@, fs.proc_self_fd.sfd() as int) && !hd_owned(old(cs).handles, fs.proc_self_fd.sfd() as int),
{
    fs.destroy(Tracked(cs));
    assert(cs.handles =~= Map::<Handle, Arc<HandleData>>::empty()); // [C15.core.scenario.destroy.no_handles]
    assert(forall|i: Inode| cs.store.data@.contains_key(i) ==> i == 1); // [C15.core.scenario.destroy.only_root]
    assert(cs.open.contains(fs.proc_self_fd.sfd() as int)); // [C15.core.scenario.destroy.proc_fd_kept]
    assert(forall|fd: int| cs.open.contains(fd) ==> fd == fs.proc_self_fd.sfd() as int || (cs.store.data@.contains_key(1) && hfd(cs.store.data@[1]) == Some(fd))); // [C15.core.scenario.destroy.as_fresh]
}
// a freshly started and imported server (new, then import): the state `lemma_import` of unit ptlookup starts from, and exactly two descriptors of this module
fn scenario_fresh<S: BitmapSlice + Send + Sync>(cfg: Config, Tracked(cs): Tracked<&mut Cs>)
    requires old(cs).calls.len() == 0, !str_bytes(cfg.root_dir@).contains(0u8), all_granted(),
{
    let ghost open0 = cs.open;
    let ghost mnt0 = cs.mnt;
    let r = PassthroughFs::<S>::new(cfg, Tracked(cs));
    match r {
        Ok(fs) => {
            let ghost pfd = fs.proc_self_fd.sfd() as int;
            assert(cs.open =~= open0.insert(pfd) && !open0.contains(pfd)); // [C15.core.scenario.fresh.proc_fd]
            proof { lemma_cfg_norm(cfg); }
            assert(fs.cfg.root_dir == cfg.root_dir && fs.cfg.inode_file_handles == cfg.inode_file_handles);
            proof { cs.calls = Seq::empty(); }
            if fs.import(Tracked(cs)).is_ok() {
                let ghost d = cs.store.data@[1];
                // the premises of lemma_import (vx/units/ptlookup.py), one by one
                assert(d.inode == 1 && cs.store.data@ =~= Map::<Inode, Arc<InodeData>>::empty().insert(1, d) && cs.store.by_id@ =~= Map::<InodeId, Inode>::empty().insert(d.id, 1)); // [C08.core.scenario.fresh.lemma_import_store]
                assert(d.handle is Handle ==> cs.store.by_handle@ =~= Map::<Arc<FileHandle>, Inode>::empty().insert(d.handle->Handle_0.handle, 1)); // [C08.core.scenario.fresh.lemma_import_by_handle]
                assert(!(d.handle is Handle) ==> cs.store.by_handle@ =~= Map::<Arc<FileHandle>, Inode>::empty());
                assert(fs.next_inode.init() == 2 && fs.ino_allocator.next_unique_id.init() == 1 && fs.ino_allocator.dev_mntid_map.init()@ =~= Map::<DevMntIDPair, u8>::empty()); // [C08.core.scenario.fresh.lemma_import_counters]
                assert(d.handle is File ==> cs.open =~= open0.insert(pfd).insert(hfd(d)->Some_0)); // [C15.core.scenario.fresh.two_descriptors] /proc/self/fd and the root
                assert(d.handle is Handle ==> cs.open =~= open0.insert(pfd)); // [C15.core.scenario.fresh.handle_mode_one_descriptor] with file handles the root costs no descriptor of this module
            } else {
                assert(cs.open =~= open0.insert(pfd)); // [C15.core.scenario.fresh.failed_import_balance]
            }
        }
        Err(_e) => {
            assert(cs.open =~= open0 && cs.mnt =~= mnt0); // [C15.core.scenario.fresh.failed_new_balance]
        }
    }
}
'''


def unit(root='/repo'):
    def hooks(*extra):
        return list(extra) + [CR.r70_cstr_unchecked, PR.r51_syscalls(['openat', 'fstatat64', 'readlinkat', 'umask']), FR.r59_map_err_try]

    def F(file, scope, name, tok=True, callees=(), path_callees=(), free_callees=(), locate=None, pre=None, extra_hooks=(), post_hooks=(), rules_extra=(), **kw):
        kw.setdefault('ret_name', 'res')
        f = Fn(file, scope, name, **kw)
        f.rules = tuple(rules_extra)
        f.body_hooks = list(extra_hooks) + hooks() + list(post_hooks)
        if locate:
            f.locate = locate
        elif pre:
            f.locate = PR.pre_locate(scope, name, pre)
        if tok:
            f.rules = ('R23',) + tuple(rules_extra)
            f.ghost_token = dict(param=TOK['param'], arg=TOK['arg'], callees=list(callees), path_callees=list(path_callees), free_callees=list(free_callees))
        return f

    consts = 'pub spec const NR_OPENAT: int = %d; pub spec const NR_OPENAT3: int = %d; pub spec const NR_FSTATAT: int = %d; pub spec const NR_READLINKAT: int = %d; pub spec const NR_UMASK: int = %d; pub spec const NR_OBH: int = %d; pub spec const NR_STATX: int = %d;\n' % (
        NR_OPENAT, NR_OPENAT3, NR_FSTATAT, NR_READLINKAT, NR_UMASK, NR_OBH, NR_STATX)
    N = 'final(cs).calls.len()'
    S0 = 'old(cs).calls.len() == 0'
    LAST = 'final(cs).calls.last()'

    def r63_then(scope, name, pre=()):
        """R63 (generic parameter for `&impl AsRawFd`) on every such parameter, then pre-rules on the original text"""
        def locate(src, fired):
            d = dict(src.find_fn(scope, name))
            sig = d['sig']
            k = 0
            while True:
                sm = X.mask(sig)
                m = re.search(r'(\b\w+\s*:\s*)&\s*impl\s+AsRawFd\b', sm)
                if not m:
                    break
                g = 'D%d' % k if k else 'D'
                sig = sig[:m.end(1)] + '&' + g + X._pad('', sig[m.end(1):m.end()])[len(g) + 1:] + sig[m.end():]
                fm = re.search(r'\bfn\s+%s\b' % re.escape(name), X.mask(sig))
                p = fm.end()
                if X.mask(sig)[p:].lstrip().startswith('<'):
                    p2 = sig.index('<', p)
                    sig = sig[:p2 + 1] + '%s: AsRawFd, ' % g + sig[p2 + 1:]
                else:
                    sig = sig[:p] + '<%s: AsRawFd>' % g + sig[p:]
                fired.append('R63 `%s&impl AsRawFd` -> generic parameter %s: AsRawFd' % (X.norm_ws(m.group(1)), g))
                k += 1
            d['sig'] = sig
            body = d['body']
            for h in pre:
                body = h(body, fired)
            d['body'] = body
            return d
        return locate

    # ------------------------------------------------------------------------------------------------ util.rs
    TMPF = '0o20000000i32'       # __O_TMPFILE (the bit glibc's __OPEN_NEEDS_MODE tests besides O_CREAT)
    OPENAT_CAP = ('flags & 0o100i32 != 0o100i32 ==> flags & 0o20000000i32 == 0 // [C05.core.openat.mode_when_needed] open(2): a mode must be supplied with O_CREAT or O_TMPFILE; this wrapper passes one only with O_CREAT, so O_TMPFILE must not come without it',
                  'flags & 0o100i32 == 0o100i32 ==> host_ok(args(NR_OPENAT, dir_fd.sfd(), path@, flags, mode, 0), old(cs).calls) // [C05.core.openat.call] openat(dir fd, path, flags, mode) when creating',
                  'flags & 0o100i32 != 0o100i32 ==> host_ok(args(NR_OPENAT3, dir_fd.sfd(), path@, flags, 0, 0), old(cs).calls) // [C05.core.openat.call_nomode] openat(dir fd, path, flags) otherwise')
    OPENED = lambda what: [
        'final(cs).calls == old(cs).calls.push(%s) // [C05.core.%s.once] exactly one host call' % (LAST, what),
        'res is Ok <==> %s.ret >= 0 // [C05.core.%s.result]' % (LAST, what),
        'res is Ok ==> res->Ok_0.sfd() == %s.ret && !old(cs).open.contains(res->Ok_0.sfd() as int) && !old(cs).mnt.contains(res->Ok_0.sfd() as int) && final(cs).open == old(cs).open.insert(res->Ok_0.sfd() as int) // [C15.core.%s.handed_over] the one new descriptor is owned by the File handed to the caller' % (LAST, what),
        'res is Err ==> final(cs).open == old(cs).open && res->Err_0.os_code() == Some(%s.errno) // [C15.core.%s.err_balance] a failed open leaves no descriptor; its errno is returned' % (LAST, what),
        'rest_same(*old(cs), *final(cs)) && final(cs).filled == old(cs).filled && final(cs).filled_at == old(cs).filled_at']
    SX_PATH = '(if path is Some { path->Some_0@ } else { Seq::<u8>::empty() })'
    SX_ARGS = 'args(NR_STATX, dir.sfd(), %s, %s, 0x07ffu32 | 0x1000u32, 0)' % (SX_PATH, '0x1000i32 | 0x100i32')
    G_STATX = [
        # src/passthrough/statx.rs: do_statx (the raw system call), get_mount_id (fallback), statx
        F(STATX, None, 'do_statx', props=['C05'], canary=True, ret_name='r', path_callees=['statx'],
          sig_subst=[('pathname: *const libc::c_char', 'pathname: *const i8'), ('statxbuf: *mut statx_st', 'statxbuf: &mut MaybeUninit<statx_st>'), ('mask: libc::c_uint', 'mask: u32'), ('dirfd: libc::c_int', 'dirfd: i32'), ('flags: libc::c_int', 'flags: i32'), ('-> (r: libc::c_int)', '-> (r: i32)')],
          requires=['host_ok(args(NR_STATX, dirfd, cstr_at(pathname), flags, mask, 0), old(cs).calls) // [C05.core.do_statx.call] syscall(SYS_statx, dirfd, pathname, flags, mask, buf): arguments in the kernel\'s order',
                    'old(cs).open.contains(dirfd as int) || old(cs).mnt.contains(dirfd as int) // [C15.core.statx.fd_is_open]'],
          ensures=['step(*old(cs), *final(cs), args(NR_STATX, dirfd, cstr_at(pathname), flags, mask, 0), r as int) && fds_same(*old(cs), *final(cs)) && (r == 0 || r == -1) // [C05.core.do_statx.once]',
                   'r == 0 ==> final(statxbuf).val() == stx_raw(dirfd, old(cs).calls.len() as int)', 'final(cs).filled == old(cs).filled && final(cs).filled_at == old(cs).filled_at']),
        F(STATX, None, 'get_mount_id', props=['C05'], ret_name='r', locate=r63_then(None, 'get_mount_id'), path_callees=['from_name_at'],
          ensures=['r == n2h_mnt(dir.sfd(), old(cs).calls.len() - 1) // [C05.core.get_mount_id] the mount id name_to_handle_at reports, None when it reports none or fails',
                   'final(cs).open == old(cs).open && final(cs).calls == old(cs).calls && rest_same(*old(cs), *final(cs)) && final(cs).filled == old(cs).filled && final(cs).filled_at == old(cs).filled_at']),
        F(STATX, None, 'statx', props=['C05'], canary=True, ret_name='r', locate=r63_then(None, 'statx'), free_callees=['do_statx', 'get_mount_id'], path_callees=['last_os_error'],
          extra_hooks=[CR.r32v_unwrap_or_else, CR.r55c_out_param(['stx_ui']), CR.r78_or_else_unwrap_or],
          splices=[('||', 'closure', '|| -> (q: io::Error) ensures q.os_code() == Some(38i32)')],
          requires=['host_ok(%s, old(cs).calls) // [C05.core.statx.call] statx(fd, path or "", AT_EMPTY_PATH | AT_SYMLINK_NOFOLLOW, STATX_BASIC_STATS | STATX_MNT_ID, &buf), once' % SX_ARGS,
                    'old(cs).open.contains(dir.sfd() as int) || old(cs).mnt.contains(dir.sfd() as int) // [C15.core.statx.fd_is_open]'],
          ensures=['final(cs).calls == old(cs).calls.push(%s) && %s.a == %s // [C05.core.statx.once] exactly one statx(2)' % (LAST, LAST, SX_ARGS),
                   'r is Ok ==> %s.ret >= 0 && r->Ok_0 == statx_out(dir.sfd(), old(cs).calls.len() as int) // [C05.core.statx.result] the attributes are the translated answer; the mount id is the answer\'s, else name_to_handle_at\'s, else 0' % LAST,
                   '%s.ret < 0 ==> r is Err && r->Err_0.os_code() == Some(%s.errno) // [C05.core.statx.errno]' % (LAST, LAST),
                   '%s.ret >= 0 && stx_raw(dir.sfd(), old(cs).calls.len() as int).s_stat64() is None ==> r is Err && r->Err_0.os_code() == Some(38i32) // [C05.core.statx.enosys] an answer without the basic fields is refused (ENOSYS), never passed on' % LAST,
                   '%s.ret >= 0 && stx_raw(dir.sfd(), old(cs).calls.len() as int).s_stat64() is Some ==> r is Ok // [C05.core.statx.ok]' % LAST,
                   'fds_same(*old(cs), *final(cs)) && rest_same(*old(cs), *final(cs)) && final(cs).filled == old(cs).filled && final(cs).filled_at == old(cs).filled_at // [C15.core.statx.no_descriptor]']),
    ]
    G_UTIL = [
        F(UTIL, None, 'openat', props=['C05'], canary=True, locate=r63_then(None, 'openat'), path_callees=['openat', 'openat3', 'last_os_error'],
          requires=list(OPENAT_CAP),
          ensures=OPENED('openat') + ['%s.a == (if flags & 0o100i32 == 0o100i32 { args(NR_OPENAT, dir_fd.sfd(), path@, flags, mode, 0) } else { args(NR_OPENAT3, dir_fd.sfd(), path@, flags, 0, 0) }) // [C05.core.openat.args]' % LAST]),
        F(UTIL, None, 'reopen_fd_through_proc', props=['C06'], canary=True, locate=r63_then(None, 'reopen_fd_through_proc', [PR.r54_format_keyed]),
          extra_hooks=[CR.r74_try_from(r'\bCString::new\s*\(', 'io::Error::from_nul')], free_callees=['openat'],
          # C06: "reach an object only through its own descriptor": /proc/self/fd/N for exactly that N, relative to the /proc/self/fd descriptor,
          # with the caller's flags minus O_NOFOLLOW (the /proc link must be followed) minus O_CREAT (nothing is ever created there), no mode
          requires=['forall|fl: i32| #[trigger] host_ok(args(NR_OPENAT3, proc_self_fd.sfd(), decimal(fd.sfd()), fl, 0, 0), old(cs).calls) '
                    '// [C06.core.reopen.exactly_that_fd] openat(/proc/self/fd descriptor, "<fd>", some flag word - pinned by the ensures): that N and no other, once'],
          ensures=OPENED('reopen') + ['%s.a.nr == NR_OPENAT3 && %s.a.fd == proc_self_fd.sfd() && %s.a.path == decimal(fd.sfd()) && %s.a.mode == 0 && %s.a.size == 0 && %s.a.fh is None // [C06.core.reopen.args] that descriptor\'s /proc link and no other' % ((LAST,) * 6),
                                      '%s.a.flags & !0o20000000i32 == reopen_word(flags) // [C05.core.reopen.flags] the caller\'s flags, O_NOFOLLOW cleared (the /proc link must be followed), O_CREAT cleared' % LAST,
                                      '%s.a.flags & 0o100i32 == 0 && %s.a.flags & 0o20000000i32 == 0 // [C05.core.reopen.never_creates] a re-open never creates an object: neither O_CREAT nor O_TMPFILE reaches the kernel (the object would be made with the SERVER\'s ids and an undefined mode)' % (LAST, LAST),
                                      '%s.a.flags & 0o20000000i32 == 0 ==> reopened(%s.a, proc_self_fd.sfd(), fd.sfd(), flags)      // (the three clauses above, put together for the callers)' % (LAST, LAST)],
          # bit-level facts about the flag word, for the expression as it is and as it would be with O_TMPFILE cleared as well (anchor-free: no text of the body is named)
          splices=[('^', 'after', 'broadcast use axiom_decimal_no_nul; proof { '
                                  + ' '.join('assert(forall|f: i32| #![auto] (%s) & 0o100i32 != 0o100i32 && (%s) & 0o100i32 == 0 && (%s) & !0o20000000i32 == f & !0o400000i32 & !0o100i32 & !0o20000000i32) by (bit_vector);' % (e, e, e)
                                             for e in ('f & !0o400000i32 & !0o100i32', 'f & !0o400000i32 & !0o100i32 & !0o20000000i32', 'f & !0o400000i32 & !0o100i32 & !(0o20200000i32 & !0o200000i32)'))
                                  + ' assert(forall|f: i32| #![auto] (f & !0o400000i32 & !0o100i32 & !0o20000000i32) & 0o20000000i32 == 0) by (bit_vector); assert(forall|f: i32| #![auto] (f & !0o400000i32 & !0o100i32 & !(0o20200000i32 & !0o200000i32)) & 0o20000000i32 == 0) by (bit_vector); }')]),
        F(UTIL, None, 'stat_fd', props=['C05'], canary=True, locate=r63_then(None, 'stat_fd'), path_callees=['fstatat64', 'last_os_error'],
          sig_subst=[('io::Result<libc::stat64>', 'io::Result<stat64>')], extra_hooks=[CR.r32v_unwrap_or_else, CR.r55c_out_param(['st'])],
          requires=['host_ok(args(NR_FSTATAT, dir.sfd(), (if path is Some { path->Some_0@ } else { Seq::<u8>::empty() }), 0x1000i32 | 0x100i32, 0, 0), old(cs).calls) '
                    '// [C05.core.stat_fd.call] fstatat64(fd, path or "", &st, AT_EMPTY_PATH | AT_SYMLINK_NOFOLLOW), once',
                    'old(cs).open.contains(dir.sfd() as int) || old(cs).mnt.contains(dir.sfd() as int) // [C15.core.stat_fd.fd_is_open]'],
          ensures=['final(cs).calls == old(cs).calls.push(%s) && %s.a == args(NR_FSTATAT, dir.sfd(), (if path is Some { path->Some_0@ } else { Seq::<u8>::empty() }), 0x1000i32 | 0x100i32, 0, 0) // [C05.core.stat_fd.once]' % (LAST, LAST),
                   '%s.ret >= 0 ==> res is Ok && res->Ok_0 == fstat_out(dir.sfd(), old(cs).calls.len() as int) // [C05.core.stat_fd.result] the attributes are what the kernel stored' % LAST,
                   '%s.ret < 0 ==> res is Err && res->Err_0.os_code() == Some(%s.errno) // [C05.core.stat_fd.errno]' % (LAST, LAST),
                   'final(cs).open == old(cs).open && rest_same(*old(cs), *final(cs)) // [C15.core.stat_fd.no_descriptor]']),
    ]
    # ------------------------------------------------------------------------------------------------ InodeFile / InodeHandle / InodeData
    FILE_DROPS = CR.r53m_match_arms([r'\w+\s*\.\s*open'], 'vx_drop_file', 'Tracked(cs)')
    IFILE_DROPS = CR.r53m_match_arms([r'\w+\s*\.\s*get_file'], 'vx_drop_inode_file', 'Tracked(cs)')
    IH = 'impl InodeHandle'
    O_PATH_S = '0o10000000i32'
    FSTAT_FLAGS = '0x1000i32 | 0x100i32'

    def get_file_contract(h, what):
        """h: the InodeHandle expression"""
        return dict(
            requires=['%s is Handle ==> host_ok(args_fh(NR_OBH, %s->Handle_0.mount_fd.mfd(), *%s->Handle_0.handle, %s), old(cs).calls) '
                      '// [C06.core.%s.own_object] an inode is reached only through its own O_PATH descriptor, or through open_by_handle_at(its mount, its own handle, O_PATH); no other host call' % (h, h, h, O_PATH_S, what)],
            ensures=['%s is File ==> res is Ok && res->Ok_0 == InodeFile::Ref(&%s->File_0) && *final(cs) == *old(cs) // [C06.core.%s.own_fd] an inode kept as a descriptor: that descriptor, borrowed - no host call, nothing opened' % (h, h, what),
                     '%s is Handle ==> final(cs).calls == old(cs).calls.push(%s) && %s.a == args_fh(NR_OBH, %s->Handle_0.mount_fd.mfd(), *%s->Handle_0.handle, %s) && (res is Ok <==> %s.ret >= 0) // [C05.core.%s.once] a file-handle inode: exactly one open_by_handle_at' % (h, LAST, LAST, h, h, O_PATH_S, LAST, what),
                     '%s is Handle && res is Ok ==> res->Ok_0 is Owned && res->Ok_0.ifd() == %s.ret && !old(cs).open.contains(res->Ok_0.ifd() as int) && !old(cs).mnt.contains(res->Ok_0.ifd() as int) && final(cs).open == old(cs).open.insert(res->Ok_0.ifd() as int) '
                     '// [C15.core.%s.handed_over] the temporary descriptor is OWNED by the InodeFile handed to the caller (closed when that is dropped)' % (h, LAST, what),
                     'res is Err ==> final(cs).open == old(cs).open && res->Err_0.os_code() == Some(%s.errno) // [C15.core.%s.err_balance]' % (LAST, what),
                     'rest_same(*old(cs), *final(cs)) && final(cs).filled == old(cs).filled && final(cs).filled_at == old(cs).filled_at'])

    def open_file_contract(h, what):
        return dict(
            requires=['(match %s { InodeHandle::File(f) => (forall|fl: i32| #[trigger] host_ok(args(NR_OPENAT3, proc_self_fd.sfd(), decimal(f.sfd()), fl, 0, 0), old(cs).calls)), InodeHandle::Handle(h) => host_ok(args_fh(NR_OBH, h.mount_fd.mfd(), *h.handle, flags), old(cs).calls) }) '
                      '// [C06.core.%s.own_object] re-open for I/O: /proc/self/fd/<the inode\'s own descriptor> with flags & !O_NOFOLLOW & !O_CREAT, or open_by_handle_at(its mount, its own handle, the flags); no other host call' % (h, what)],
            ensures=OPENED(what) + ['%s is File ==> %s.a.flags & 0o100i32 == 0 && %s.a.flags & 0o20000000i32 == 0 // [C05.core.reopen.never_creates]' % (h, LAST, LAST),
                                    '(%s is File ==> %s.a.flags & 0o20000000i32 == 0) ==> %s.is_open_of(%s.a, flags, proc_self_fd.sfd()) // [C06.core.%s.args] the one host call is the re-open of THE object this inode denotes' % (h, LAST, h, LAST, what)])
    STAT_CAP = ('match self { '
                'InodeHandle::File(f) => host_ok(args(NR_FSTATAT, f.sfd(), Seq::<u8>::empty(), %s, 0, 0), old(cs).calls), '
                'InodeHandle::Handle(h) => host_ok(args_fh(NR_OBH, h.mount_fd.mfd(), *h.handle, %s), old(cs).calls) '
                '&& (forall|c: Call, fd: i32| c.a == args_fh(NR_OBH, h.mount_fd.mfd(), *h.handle, %s) && fd >= 0 && c.ret == fd as int ==> #[trigger] host_ok(args(NR_FSTATAT, fd, Seq::<u8>::empty(), %s, 0, 0), old(cs).calls.push(c))), '
                '} // [C05.core.stat.calls] fstatat64 of the inode\'s own descriptor; for a file-handle inode open_by_handle_at(O_PATH) first and fstatat64 of THAT descriptor' % (FSTAT_FLAGS, O_PATH_S, O_PATH_S, FSTAT_FLAGS))
    G_INODE = [
        Raw(PRE_INODE),
        # the two trait impls are emitted as INHERENT methods (a trait impl cannot hold the `__canary` copy); the trait impls themselves are the
        # hand-written forwarders below, verified, whose bodies are the single call of the inherent method (inherent methods take precedence in method resolution)
        Group("impl<'a> InodeFile<'a> {      // impl AsRawFd for InodeFile<'_> / impl AsFd for InodeFile<'_>", [
            F(PT, "impl AsRawFd for InodeFile<'_>", 'as_raw_fd', tok=False, ret_name='r', props=['C06'], canary=True,
              ensures=['r == self.ifd() // [C06.core.inodefile.as_raw_fd] the descriptor of the file it holds, owned or borrowed']),
            F(PT, "impl AsFd for InodeFile<'_>", 'as_fd', tok=False, ret_name='r', props=['C06'], canary=True,
              ensures=['r.sfd() == self.ifd() // [C06.core.inodefile.as_fd]']),
        ]),
        Raw("""impl<'a> AsRawFd for InodeFile<'a> {
    open spec fn sfd(&self) -> i32 { self.ifd() }
    fn as_raw_fd(&self) -> (r: RawFd) { InodeFile::as_raw_fd(self) }
}
impl<'a> AsFd for InodeFile<'a> {
    open spec fn fd_spec(&self) -> i32 { self.ifd() }
    fn as_fd(&self) -> (r: BorrowedFd<'_>) { InodeFile::as_fd(self) }
}
"""),
        Group('impl InodeHandle {', [
            F(PT, IH, 'get_file', props=['C06'], canary=True, callees=['open'], post_hooks=[FILE_DROPS], **get_file_contract('self', 'get_file')),
            F(PT, IH, 'open_file', props=['C06'], canary=True, callees=['open'], free_callees=['reopen_fd_through_proc'], **open_file_contract('self', 'open_file')),
            F(PT, IH, 'stat', props=['C05'], canary=True, callees=['get_file'], free_callees=['stat_fd'], post_hooks=[IFILE_DROPS],
              sig_subst=[('io::Result<libc::stat64>', 'io::Result<stat64>')],
              requires=['self.live(*old(cs)) // [C15.core.stat.fd_is_open] ownership invariant of the store: the inode\'s descriptor is open', STAT_CAP],
              ensures=['res is Ok ==> %s.a.nr == NR_FSTATAT && %s.ret >= 0 && res->Ok_0 == fstat_out(%s.a.fd, %s - 1) // [C05.core.stat.result] the attributes the kernel stored for that descriptor' % (LAST, LAST, LAST, N),
                       'self is File ==> %s == old(cs).calls.len() + 1 // [C05.core.stat.once]' % N,
                       'self is Handle ==> %s <= old(cs).calls.len() + 2 && %s >= old(cs).calls.len() + 1 // [C05.core.stat.at_most_two]' % (N, N),
                       'res is Err ==> res->Err_0.os_code() == Some(%s.errno) // [C05.core.stat.errno]' % LAST,
                       'final(cs).open == old(cs).open // [C15.core.stat.balance] the temporary descriptor of a file-handle inode is closed on every path',
                       'rest_same(*old(cs), *final(cs))']),
        ]),
        Group('impl InodeData {', [
            F(PT, 'impl InodeData', 'new', tok=False, ret_name='r', props=['C08'],
              ensures=['r.inode == inode && r.handle == f && r.id == id && r.mode == mode // [C08.core.inodedata.new.fields]', 'r.refcount.init() == refcount // [C08.core.inodedata.new.refcount]']),
            F(PT, 'impl InodeData', 'get_file', props=['C06'], canary=True, callees=['get_file'], **get_file_contract('self.handle', 'data_get_file')),
            F(PT, 'impl InodeData', 'open_file', props=['C06'], canary=True, callees=['open_file'], **open_file_contract('self.handle', 'data_open_file')),
        ]),
    ]
    # ------------------------------------------------------------------------------------------------ tables: HandleData, InodeStore, InodeMap, UniqueInodeGenerator
    HD = 'impl HandleData'
    G_TABLES = [
        Group('impl HandleData {', [
            F(PT, HD, 'new', tok=False, ret_name='r', props=['C15'], canary=True,
              ensures=['r.inode == inode && r.file == file // [C15.core.handledata.new.owns] the descriptor handed in is stored as THE descriptor of the handle, for the inode named',
                       'r.open_flags.init() == flags // [C05.core.handledata.new.flags] the flags last applied start as the open flags']),
            F(PT, HD, 'get_file', tok=False, ret_name='r', props=['C15'], canary=True, ensures=['*r == self.file // [C15.core.handledata.get_file] the handle\'s own descriptor']),
            F(PT, HD, 'get_file_mut', tok=False, ret_name='r', props=['C15'], canary=True, sig_subst=[("MutexGuard<'_, ()>", 'MutexGuard<()>')],
              ensures=['*r.1 == self.file // [C15.core.handledata.get_file_mut] the handle\'s own descriptor (with the handle\'s lock held)']),
            F(PT, HD, 'borrow_fd', tok=False, ret_name='r', props=['C15'], canary=True, ensures=['r.sfd() == self.file.sfd() // [C15.core.handledata.borrow_fd]']),
            F(PT, HD, 'get_flags', ret_name='r', props=['C05'], canary=True, callees=['load'],
              ensures=['r == old(cs).cell(&self.open_flags) && *final(cs) == *old(cs) // [C05.core.handledata.get_flags] the flags last stored (or the open flags)']),
            F(PT, HD, 'set_flags', ret_name='r', props=['C05'], canary=True, callees=['store'],
              ensures=['final(cs).cell(&self.open_flags) == flags // [C05.core.handledata.set_flags] a later get_flags returns these flags',
                       'final(cs).open == old(cs).open && final(cs).calls == old(cs).calls && final(cs).store == old(cs).store && final(cs).handles == old(cs).handles']),
        ]),
        Group('impl OpenableFileHandle {', [Fn(FH, 'impl OpenableFileHandle', 'file_handle', ensures=['*r == self.handle'], props=['C08'])]),
        Group('impl InodeId {', [Fn(STORE, 'impl InodeId', 'from_stat', ensures=['r == spec_id(*st)'], props=['C08'])]),
        Group('impl InodeStore {', [
            # the map contracts are those of unit inodes ([C08.store.insert], clear); here ADDITIONALLY what happens to descriptors (A-own)
            F(STORE, 'impl InodeStore', 'insert', ret_name='r', props=['C15'], canary=True, callees=['insert'],
              post_hooks=[CR.r8e_ghost_at_end('proof { cs.store = *self; }')],
              requires=['*old(self) == old(cs).store // [seq] the object mutated is the file system\'s store (held under its write lock)'],
              ensures=['final(self).data@ == old(self).data@.insert(data.inode, data) // [C08.core.store.insert.data]',
                       'final(self).by_id@ == old(self).by_id@.insert(data.id, data.inode) // [C08.core.store.insert.by_id]',
                       'data.handle is Handle ==> final(self).by_handle@ == old(self).by_handle@.insert(data.handle->Handle_0.handle, data.inode)',
                       '!(data.handle is Handle) ==> final(self).by_handle@ == old(self).by_handle@',
                       'final(cs).store == *final(self)',
                       'old(self).data@.contains_key(data.inode) ==> dropped(*old(cs), *final(cs), old(self).data@[data.inode]) // [C15.core.store.insert.replaced_closed] an inode object replaced under its number is dropped: its descriptor is closed',
                       '!old(self).data@.contains_key(data.inode) ==> final(cs).open == old(cs).open && final(cs).mnt == old(cs).mnt // [C15.core.store.insert.no_descriptor]',
                       'final(cs).calls == old(cs).calls && final(cs).errno == old(cs).errno && final(cs).umask == old(cs).umask && final(cs).handles == old(cs).handles && final(cs).cells == old(cs).cells']),
            F(STORE, 'impl InodeStore', 'clear', ret_name='r', props=['C15'], canary=True, callees=['clear'],
              post_hooks=[CR.r8e_ghost_at_end('proof { cs.store = *self; }')],
              requires=['*old(self) == old(cs).store // [seq]'],
              ensures=['final(self).is_empty() && final(cs).store == *final(self) // [C15.core.store.clear.empty] no inode object, no identity record is left',
                       'forall|fd: int| #[trigger] final(cs).open.contains(fd) <==> old(cs).open.contains(fd) && !owned_by(old(self).data@, fd) // [C15.core.store.clear.fds_closed] exactly the descriptors the inodes owned are closed',
                       'final(cs).mnt.subset_of(old(cs).mnt) && (no_handles(old(self).data@) ==> final(cs).mnt == old(cs).mnt)',
                       'final(cs).calls == old(cs).calls && final(cs).errno == old(cs).errno && final(cs).umask == old(cs).umask && final(cs).handles == old(cs).handles && final(cs).cells == old(cs).cells']),
        ]),
        Group('impl InodeMap {', [
            F(PT, 'impl InodeMap', 'new', ret_name='r', props=['C15'], canary=True, extra_hooks=[CR.r76_token_on(r'\bRwLock::new\s*\(', 'Tracked(cs)')],
              ensures=['final(cs).store.is_empty() // [C15.core.inodemap.new.empty] a new file system has no inode',
                       'final(cs).open == old(cs).open && final(cs).mnt == old(cs).mnt && final(cs).calls == old(cs).calls && final(cs).handles == old(cs).handles && final(cs).umask == old(cs).umask && final(cs).errno == old(cs).errno']),
            F(PT, 'impl InodeMap', 'clear', ret_name='r', props=['C15'], canary=True, callees=['write', 'clear'],
              ensures=['final(cs).store.is_empty() // [C15.core.inodemap.clear.empty]',
                       'forall|fd: int| #[trigger] final(cs).open.contains(fd) <==> old(cs).open.contains(fd) && !owned_by(old(cs).store.data@, fd) // [C15.core.inodemap.clear.fds_closed]',
                       'final(cs).mnt.subset_of(old(cs).mnt) && (no_handles(old(cs).store.data@) ==> final(cs).mnt == old(cs).mnt)',
                       'final(cs).calls == old(cs).calls && final(cs).errno == old(cs).errno && final(cs).umask == old(cs).umask && final(cs).handles == old(cs).handles && final(cs).cells == old(cs).cells']),
            F(PT, 'impl InodeMap', 'get_map_mut', ret_name='r', props=['C08'], callees=['write'], ensures=['r.st == old(cs).store && *final(cs) == *old(cs)']),
            F(PT, 'impl InodeMap', 'insert_locked', ret_name='r', props=['C08'], callees=['insert'],
              requires=['*old(inodes) == old(cs).store // [seq]'],
              ensures=['final(inodes).data@ == old(inodes).data@.insert(data.inode, data) && final(inodes).by_id@ == old(inodes).by_id@.insert(data.id, data.inode)',
                       'data.handle is Handle ==> final(inodes).by_handle@ == old(inodes).by_handle@.insert(data.handle->Handle_0.handle, data.inode)',
                       '!(data.handle is Handle) ==> final(inodes).by_handle@ == old(inodes).by_handle@',
                       'final(cs).store == *final(inodes)',
                       'old(inodes).data@.contains_key(data.inode) ==> dropped(*old(cs), *final(cs), old(inodes).data@[data.inode])',
                       '!old(inodes).data@.contains_key(data.inode) ==> final(cs).open == old(cs).open && final(cs).mnt == old(cs).mnt',
                       'final(cs).calls == old(cs).calls && final(cs).errno == old(cs).errno && final(cs).umask == old(cs).umask && final(cs).handles == old(cs).handles && final(cs).cells == old(cs).cells']),
            F(PT, 'impl InodeMap', 'insert', ret_name='r', props=['C08'], canary=True, callees=['get_map_mut'], path_callees=['insert_locked'],
              ensures=['final(cs).store.data@ == old(cs).store.data@.insert(data.inode, data) && final(cs).store.by_id@ == old(cs).store.by_id@.insert(data.id, data.inode) // [C08.core.inodemap.insert] exactly this inode, under its own number and identity',
                       'data.handle is Handle ==> final(cs).store.by_handle@ == old(cs).store.by_handle@.insert(data.handle->Handle_0.handle, data.inode)',
                       '!(data.handle is Handle) ==> final(cs).store.by_handle@ == old(cs).store.by_handle@',
                       'old(cs).store.data@.contains_key(data.inode) ==> dropped(*old(cs), *final(cs), old(cs).store.data@[data.inode]) // [C15.core.inodemap.insert.replaced_closed]',
                       '!old(cs).store.data@.contains_key(data.inode) ==> final(cs).open == old(cs).open && final(cs).mnt == old(cs).mnt',
                       'final(cs).calls == old(cs).calls && final(cs).errno == old(cs).errno && final(cs).umask == old(cs).umask && final(cs).handles == old(cs).handles && final(cs).cells == old(cs).cells']),
        ]),
        Group('impl UniqueInodeGenerator {', [
            F(UTIL, 'impl UniqueInodeGenerator', 'new', tok=False, ret_name='r', props=['C08'], canary=True,
              ensures=['r.next_unique_id.init() == 1 && r.next_virtual_inode.init() == 2 && r.dev_mntid_map.init()@ == Map::<DevMntIDPair, u8>::empty() '
                       '// [C08.core.generator.new] no (dev, mount) prefix yet, prefixes from 1, virtual numbers behind the root\'s (the state lemma_import of unit ptlookup starts from)']),
        ]),
    ]
    # ------------------------------------------------------------------------------------------------ PassthroughFs
    # the bytes of PROC_SELF_FD_CSTR without the NUL, computed from the literal in the source (a spec cannot read the exec const)
    pm = re.search(r'pub const PROC_SELF_FD_CSTR\s*:\s*&\[u8\]\s*=\s*b"((?:[^"\\]|\\.)*)"', X.Source(root, VMOD).src)
    if not pm:
        raise X.ExtractError('PROC_SELF_FD_CSTR not found in %s' % VMOD)
    pbytes = bytes(pm.group(1), 'latin-1').decode('unicode_escape').encode('latin-1')
    if not pbytes.endswith(b'\x00'):
        raise X.ExtractError('PROC_SELF_FD_CSTR does not end in NUL')
    PROC_PATH = 'seq![%s]' % ', '.join('%du8' % b for b in pbytes[:-1])
    PROC_FULL = 'seq![%s]' % ', '.join('%du8' % b for b in pbytes)
    ctext, _cl, _ca = X.Source(root, CFG).find_item(r'pub struct Config\b')
    CFG_FIELDS = re.findall(r'(?m)^\s*pub\s+(\w+)\s*:', X.mask(ctext))
    if 'no_open' not in CFG_FIELDS or 'writeback' not in CFG_FIELDS or 'root_dir' not in CFG_FIELDS:
        raise X.ExtractError('struct Config: unexpected field list %r' % (CFG_FIELDS,))
    CFG_NORM = '''
// the configuration `new` keeps: the two adjustments it makes, in its own order (mirrors the code; what it MEANS is lemma_cfg_norm, checked)
pub open spec fn cfg_norm(c: Config) -> Config {
    let c1 = if c.no_open && c.cache_policy != CachePolicy::Always { Config { no_open: false, ..c } } else { c };
    if c1.writeback && c1.cache_policy == CachePolicy::Never { Config { writeback: false, ..c1 } } else { c1 }
}
pub proof fn lemma_cfg_norm(c: Config)
    ensures cfg_norm(c).no_open == (c.no_open && c.cache_policy == CachePolicy::Always), // [C05.core.new.cfg_normalised.no_open] no_open only with cache=always
            cfg_norm(c).writeback == (c.writeback && c.cache_policy != CachePolicy::Never), // [C05.core.new.cfg_normalised.writeback] writeback not with cache=never
            %s, // [C05.core.new.cfg_normalised.rest] every other setting as given (field list read from the struct)
{ }
''' % ', '.join('cfg_norm(c).%s == c.%s' % (f, f) for f in CFG_FIELDS if f not in ('no_open', 'writeback'))
    OPATH_FLAGS = '0o400000i32 | 0o2000000i32 | 0o10000000i32'          # O_NOFOLLOW | O_CLOEXEC | O_PATH, as open_file_restricted composes them
    BITS = ('proof { assert(forall|a: i32, b: i32| #![auto] a | b == b | a) by (bit_vector); assert(forall|a: i32, b: i32, c: i32| #![auto] (a | b) | c == a | (b | c)) by (bit_vector); '
            'assert((0o400000i32 | 0o2000000i32 | 0o10000000i32) & 0o100i32 != 0o100i32) by (bit_vector); assert((0o10000000i32 | 0o400000i32 | 0o2000000i32) & 0o100i32 != 0o100i32) by (bit_vector); }')
    def PERM3(a, b, c, var=None):
        """bit-vector facts: every order of or-ing the three operands gives the word the contract names (a | b | c)"""
        import itertools
        eqs = ' && '.join('%s | %s | %s == %s | %s | %s' % (x, y, z, a, b, c) for (x, y, z) in itertools.permutations((a, b, c)) if (x, y, z) != (a, b, c))
        return ('assert(forall|%s: i32| #![auto] %s) by (bit_vector);' % (var, eqs)) if var else ('assert(%s) by (bit_vector);' % eqs)
    STATX_ARGS = lambda fd: 'args(NR_STATX, %s, Seq::<u8>::empty(), %s, 0x07ffu32 | 0x1000u32, 0)' % (fd, FSTAT_FLAGS)
    OFH_OPEN = lambda d, nm: 'args(NR_OPENAT3, %s, %s, %s, 0, 0)' % (d, nm, OPATH_FLAGS)

    def ofh_contract(d, nm, cfgh, what):
        """open_file_and_handle / import prefix: openat3(O_PATH | O_NOFOLLOW | O_CLOEXEC), statx of THAT descriptor"""
        return dict(
            requires=['host_ok(%s, old(cs).calls) // [C06.core.%s.open_call] the one name-based open: O_PATH | O_NOFOLLOW | O_CLOEXEC, relative to the given directory' % (OFH_OPEN(d, nm), what),
                      'forall|c: Call, fd: i32| c.a == %s && fd >= 0 && c.ret == fd as int ==> #[trigger] host_ok(%s, old(cs).calls.push(c)) // [C05.core.%s.statx_call] statx of the descriptor just opened' % (OFH_OPEN(d, nm), STATX_ARGS('fd'), what)],
            ensures=['final(cs).calls.len() >= old(cs).calls.len() + 1 && final(cs).calls.len() <= old(cs).calls.len() + 2 && final(cs).calls.take(old(cs).calls.len() as int) == old(cs).calls '
                     '&& final(cs).calls[old(cs).calls.len() as int].a == %s // [C05.core.%s.calls] the open first; then at most the statx' % (OFH_OPEN(d, nm), what),
                     'final(cs).calls.len() == old(cs).calls.len() + 2 ==> final(cs).calls[old(cs).calls.len() as int].ret >= 0 && final(cs).calls.last().a == %s // [C05.core.%s.statx_of_opened]' % (STATX_ARGS('final(cs).calls[old(cs).calls.len() as int].ret as i32'), what),
                     'res is Ok ==> final(cs).calls.len() == old(cs).calls.len() + 2 && res->Ok_0.0.sfd() == final(cs).calls[old(cs).calls.len() as int].ret && res->Ok_0.2 == statx_out(res->Ok_0.0.sfd(), (old(cs).calls.len() + 1) as int) '
                     '&& final(cs).calls.last().ret >= 0 && res->Ok_0.1 == (if %s { fh_out(res->Ok_0.0.sfd(), (old(cs).calls.len() + 2) as int) } else { None::<FileHandle> }) // [C06.core.%s.result] descriptor, attributes and handle all belong to the one object opened' % (cfgh, what),
                     'res is Ok ==> !old(cs).open.contains(res->Ok_0.0.sfd() as int) && !old(cs).mnt.contains(res->Ok_0.0.sfd() as int) && final(cs).open == old(cs).open.insert(res->Ok_0.0.sfd() as int) // [C15.core.%s.handed_over]' % what,
                     'res is Err ==> final(cs).open == old(cs).open // [C15.core.%s.err_balance] when statx or the handle query fails the descriptor just opened is closed again' % what,
                     'rest_same(*old(cs), *final(cs))'])
    ROOT = 'str_bytes(self.cfg.root_dir@)'
    ROOT_OPEN = OFH_OPEN('-100i32', ROOT)
    UMASK_ARGS = 'args(NR_UMASK, 0, Seq::<u8>::empty(), 0, 0, 0)'
    C0, C1, C2 = 'final(cs).calls[0]', 'final(cs).calls[1]', 'final(cs).calls[2]'
    RD = 'final(cs).store.data@[1]'
    IMPORT_REQ = [
        S0,
        '!%s.contains(0u8) // [C06.core.import.root_no_nul] configuration assumption: the configured root path holds no NUL byte (otherwise `expect("CString::new failed")` panics)' % ROOT,
        'own_inv(old(cs).store.data@, old(cs).open, old(cs).mnt) // ownership invariant of the store',
        'host_ok(%s, old(cs).calls) // [C06.core.import.open_call] openat(AT_FDCWD, the configured root, O_PATH | O_NOFOLLOW | O_CLOEXEC): the one object import opens by name' % ROOT_OPEN,
        'forall|c: Call, fd: i32| c.a == %s && fd >= 0 && c.ret == fd as int ==> #[trigger] host_ok(%s, old(cs).calls.push(c)) // [C05.core.import.statx_call] statx of THAT descriptor' % (ROOT_OPEN, STATX_ARGS('fd')),
        'forall|rs: Seq<Call>| rs.len() == 2 && rs[0].a == %s && rs[0].ret >= 0 && rs[1].a == %s && rs[1].ret >= 0 ==> #[trigger] host_ok(%s, rs) // [C05.core.import.umask_call] umask(0), after the root was opened' % (ROOT_OPEN, STATX_ARGS('rs[0].ret as i32'), UMASK_ARGS),
    ]
    IMPORT_ENS = [
        '%s >= 1 && %s <= 3 && %s.a == %s // [C05.core.import.calls] the open of the configured root first' % (N, N, C0, ROOT_OPEN),
        '%s >= 2 ==> %s.ret >= 0 && %s.a == %s // [C05.core.import.statx_of_root]' % (N, C0, C1, STATX_ARGS('%s.ret as i32' % C0)),
        '%s == 3 ==> %s.a == %s // [C05.core.import.umask_zero] the third and last host call is umask(0)' % (N, C2, UMASK_ARGS),
        'res is Ok ==> %s == 3 && final(cs).umask == 0 // [C05.core.import.umask] on success the process umask is 0 (the client may set every mode bit)' % N,
        '%s < 3 ==> final(cs).umask == old(cs).umask' % N,
        # C06: exactly the configured root, as ROOT_ID, nothing else
        'res is Ok ==> final(cs).store.data@ == old(cs).store.data@.insert(1, %s) && final(cs).store.by_id@ == old(cs).store.by_id@.insert(%s.id, 1) '
        '&& (if %s.handle is Handle { final(cs).store.by_handle@ == old(cs).store.by_handle@.insert(%s.handle->Handle_0.handle, 1) } else { final(cs).store.by_handle@ == old(cs).store.by_handle@ }) '
        '// [C06.core.import.root_only] exactly one inode is registered: under ROOT_ID (1), with its own identity records; every other number is as before' % (RD, RD, RD, RD),
        'res is Ok && %s.handle is File ==> %s.handle->File_0.sfd() == %s.ret // [C06.core.import.root_is_configured_dir] the root inode IS the descriptor the open of the configured root returned' % (RD, RD, C0),
        'res is Ok && %s.handle is Handle ==> self.cfg.inode_file_handles && fh_out(%s.ret as i32, 2) is Some && %s.handle->Handle_0.handle == hkey(fh_out(%s.ret as i32, 2)->Some_0) '
        '// [C06.core.import.root_is_configured_dir.handle] ... or the file handle of that very descriptor' % (RD, C0, RD, C0),
        'res is Ok ==> (%s.handle is Handle <==> (self.cfg.inode_file_handles && fh_out(%s.ret as i32, 2) is Some)) // [C06.core.import.handle_mode]' % (RD, C0),
        # C08: the documented reference count, id and mode of ITS stat
        'res is Ok ==> %s.inode == 1 && %s.refcount.init() == 2 // [C08.core.import.refcount] the root is registered with the reference count the code documents (2, as libfuse)' % (RD, RD),
        'res is Ok ==> %s.id == spec_id(statx_out(%s.ret as i32, 1)) && %s.mode == statx_out(%s.ret as i32, 1).st.st_mode // [C08.core.import.id_mode] identity and mode are those statx reported for the opened root' % (RD, C0, RD, C0),
        'res is Err ==> final(cs).store == old(cs).store // [C08.core.import.err_unchanged] a failed import registers nothing',
        # C15
        'res is Ok && %s.handle is File ==> !old(cs).open.contains(%s.ret) && final(cs).open =~= open_after_replace(old(cs).open, old(cs).store.data@, 1).insert(%s.ret) && final(cs).mnt.subset_of(old(cs).mnt) && (!old(cs).store.data@.contains_key(1) ==> final(cs).mnt == old(cs).mnt) '
        '// [C15.core.import.fd_kept] the descriptor opened is stored as THE descriptor of the root inode; a root object registered before is dropped (its descriptor closed)' % (RD, C0, C0),
        'res is Ok && %s.handle is Handle ==> final(cs).open =~= open_after_replace(old(cs).open, old(cs).store.data@, 1) && (!old(cs).store.data@.contains_key(1) ==> mnt_grown(*old(cs), *final(cs))) // [C15.core.import.fd_closed_handle_mode] with file handles the O_PATH descriptor is closed again at the end of import' % RD,
        'res is Err ==> final(cs).open == old(cs).open && final(cs).mnt == old(cs).mnt // [C15.core.import.err_balance] every error path closes what it opened',
        'res is Ok ==> own_inv(final(cs).store.data@, final(cs).open, final(cs).mnt) // [C15.core.import.own_inv] the ownership invariant of the store is kept',
        'final(cs).handles == old(cs).handles && final(cs).cells == old(cs).cells',
    ]
    RL = lambda d, pth: 'forall|sz: usize| sz >= 4096 ==> #[trigger] host_ok(args(NR_READLINKAT, %s, %s, 0, 0, sz), %s)'
    G_FS = [
        Group(IMPL + ' {', [
            F(PT, IMPL, 'open_file', props=['C05'], canary=True, locate=r63_then(IMPL, 'open_file'), free_callees=['openat'],
              requires=['flags & 0o100i32 != 0o100i32 ==> flags & 0o20000000i32 == 0 // [C05.core.openat.mode_when_needed]', 'flags & 0o100i32 == 0o100i32 ==> host_ok(args(NR_OPENAT, dfd.sfd(), pathname@, flags, mode, 0), old(cs).calls)',
                        'flags & 0o100i32 != 0o100i32 ==> host_ok(args(NR_OPENAT3, dfd.sfd(), pathname@, flags, 0, 0), old(cs).calls) // [C05.core.open_file.call]'],
              ensures=OPENED('open_file_plain') + ['%s.a == (if flags & 0o100i32 == 0o100i32 { args(NR_OPENAT, dfd.sfd(), pathname@, flags, mode, 0) } else { args(NR_OPENAT3, dfd.sfd(), pathname@, flags, 0, 0) }) // [C05.core.open_file.args]' % LAST]),
            F(PT, IMPL, 'open_file_restricted', props=['C06'], canary=True, locate=r63_then(IMPL, 'open_file_restricted'), free_callees=['openat'],
              requires=['flags & 0o100i32 == 0 && flags & 0o20000000i32 == 0 // the lookups never create',
                        'host_ok(args(NR_OPENAT3, dir.sfd(), pathname@, 0o400000i32 | 0o2000000i32 | flags, 0, 0), old(cs).calls) // [C06.core.open_file_restricted.call] every name-based open carries O_NOFOLLOW | O_CLOEXEC'],
              ensures=OPENED('open_file_restricted') + ['%s.a == args(NR_OPENAT3, dir.sfd(), pathname@, 0o400000i32 | 0o2000000i32 | flags, 0, 0) // [C06.core.open_file_restricted.args]' % LAST],
              splices=[('^', 'after', 'proof { assert(forall|f: i32| #![auto] f & 0o100i32 == 0 ==> (0o400000i32 | 0o2000000i32 | f) & 0o100i32 != 0o100i32) by (bit_vector); assert(forall|f: i32| #![auto] f & 0o20000000i32 == 0 ==> (0o400000i32 | 0o2000000i32 | f) & 0o20000000i32 == 0) by (bit_vector); '
                                      + PERM3('0o400000i32', '0o2000000i32', 'f', 'f') + ' }')]),      # the order in which the three flag operands are or-ed does not matter
            F(PT, IMPL, 'open_file_and_handle', props=['C06'], canary=True, locate=r63_then(IMPL, 'open_file_and_handle'), callees=['open_file_restricted'], free_callees=['statx'], path_callees=['from_fd'],
              post_hooks=[FR.r53f_file_drops([r'self\s*\.\s*open_file_restricted'], dropfn='vx_drop_file', tok='Tracked(cs)')],
              splices=[('^', 'after', 'proof { assert(0o10000000i32 & 0o100i32 == 0) by (bit_vector); assert(0o10000000i32 & 0o20000000i32 == 0) by (bit_vector); }')],
              **ofh_contract('dir.sfd()', 'name@', 'self.cfg.inode_file_handles', 'open_file_and_handle')),
            # ---- the re-open callback of the mount-fd table (closure lifted by R73) and to_openable_handle
            F(PT, IMPL + '#reopen_cb', 'reopen_cb', props=['C06'], canary=True, free_callees=['reopen_fd_through_proc'],
              locate=CR.r73_locate(IMPL, 'to_openable_handle', 'into_openable', 'reopen_cb', ['RawFd', 'libc::c_int', 'u32'], 'io::Result<File>'),
              requires=['forall|fl: i32| #[trigger] host_ok(args(NR_OPENAT3, self.proc_self_fd.sfd(), decimal(fd), fl, 0, 0), old(cs).calls) '
                        '// [C06.core.reopen_cb.exactly_that_fd] the mount point is re-opened through /proc/self/fd/<the descriptor handed in>, relative to THIS file system\'s /proc/self/fd descriptor, with the flags handed in'],
              ensures=OPENED('reopen_cb') + ['%s.a.flags & 0o100i32 == 0 && %s.a.flags & 0o20000000i32 == 0 // [C05.core.reopen.never_creates]' % (LAST, LAST),
                                             '%s.a.flags & 0o20000000i32 == 0 ==> reopened(%s.a, self.proc_self_fd.sfd(), fd, flags) // [C06.core.reopen_cb.args]' % (LAST, LAST)]),
            F(PT, IMPL, 'to_openable_handle', props=['C15'], canary=True, callees=['into_openable'],
              extra_hooks=[CR.r73_parent_hook('into_openable', 'ProcReopen { fs: self }'), CR.r77_map_arc_new],
              ensures=['res is Ok ==> res->Ok_0.handle == hkey(fh) // [C08.core.to_openable_handle.handle] the openable handle holds exactly the file handle given (the contract unit ptlookup assumes for this function)',
                       'res is Err ==> final(cs).open == old(cs).open && final(cs).mnt == old(cs).mnt // [C15.core.to_openable_handle.err_balance] a failed conversion leaves no descriptor behind',
                       'res is Ok ==> final(cs).open == old(cs).open && mnt_grown(*old(cs), *final(cs)) // [C15.core.to_openable_handle.mount_fd] at most one new descriptor, owned by the mount-fd table',
                       'final(cs).calls == old(cs).calls && final(cs).umask == old(cs).umask && final(cs).store == old(cs).store && final(cs).handles == old(cs).handles && final(cs).cells == old(cs).cells'],
              splices=[('^', 'after', 'broadcast use axiom_hkey, axiom_hkey_arc;')]),
            # ---- import
            F(PT, IMPL, 'import', props=['C06'], canary=True, callees=['to_openable_handle', 'insert'], path_callees=['open_file_and_handle', 'umask'],
              extra_hooks=[CR.r71_drop_flag(['path_fd'], 'Tracked(cs)')],
              requires=IMPORT_REQ, ensures=IMPORT_ENS,
              splices=[('^', 'after', 'broadcast use axiom_hkey, axiom_hkey_arc; let ghost cs0 = *cs; proof { assert(0u32 & 0o777u32 == 0) by (bit_vector); }')]),
            # ---- new
            F(PT, IMPL, 'new', props=['C15'], canary=True, path_callees=['open_file'],
              sig_subst=[('mut cfg: Config', 'cfg0: Config')],
              extra_hooks=[CR.r76_token_on(r'\b(?:InodeMap|HandleMap|MountFds)::new\s*\(', 'Tracked(cs)')],
              post_hooks=[FR.r53f_file_drops([r'Self::open_file'], dropfn='vx_drop_file', tok='Tracked(cs)')],
              splices=[('^', 'after', 'let mut cfg = cfg0; proof { assert((0o10000000i32 | 0o400000i32 | 0o2000000i32) & 0o100i32 != 0o100i32) by (bit_vector); assert((0o10000000i32 | 0o400000i32 | 0o2000000i32) & 0o20000000i32 == 0) by (bit_vector); ' + PERM3('0o10000000i32', '0o400000i32', '0o2000000i32') + ' assert(%s.drop_last() =~= %s); }' % (PROC_FULL, PROC_PATH))],
              requires=[S0, 'host_ok(args(NR_OPENAT3, -100i32, %s, 0o10000000i32 | 0o400000i32 | 0o2000000i32, 0, 0), old(cs).calls) ' % PROC_PATH
                            + '// [C05.core.new.call] openat(AT_FDCWD, "/proc/self/fd", O_PATH | O_NOFOLLOW | O_CLOEXEC): the one host call of new'],
              ensures=['final(cs).calls == old(cs).calls.push(%s) && %s.a == args(NR_OPENAT3, -100i32, %s, 0o10000000i32 | 0o400000i32 | 0o2000000i32, 0, 0) // [C05.core.new.once]' % (LAST, LAST, PROC_PATH),
                       'res is Ok ==> res->Ok_0.proc_self_fd.sfd() == %s.ret && !old(cs).open.contains(%s.ret) && final(cs).open == old(cs).open.insert(%s.ret) // [C15.core.new.proc_fd_kept] the descriptor opened is kept as THE /proc/self/fd descriptor of the file system' % (LAST, LAST, LAST),
                       'res is Ok ==> !old(cs).mnt.contains(res->Ok_0.mount_fds.info_fd()) && final(cs).mnt == old(cs).mnt.insert(res->Ok_0.mount_fds.info_fd()) // [C15.core.new.mountinfo_kept] ... and the mount-fd table keeps its mountinfo descriptor',
                       'res is Err ==> final(cs).open == old(cs).open && final(cs).mnt == old(cs).mnt // [C15.core.new.err_balance] a failed construction leaves no descriptor (the /proc/self/fd descriptor is closed when the mount-fd table cannot be made)',
                       'res is Ok ==> final(cs).store.is_empty() && final(cs).handles == Map::<Handle, Arc<HandleData>>::empty() // [C15.core.new.tables_empty] a freshly started server has no inode object and no handle',
                       'res is Ok ==> res->Ok_0.next_inode.init() == 2 && res->Ok_0.next_handle.init() == 1 && res->Ok_0.ino_allocator.next_unique_id.init() == 1 && res->Ok_0.ino_allocator.next_virtual_inode.init() == 2 '
                       '&& res->Ok_0.ino_allocator.dev_mntid_map.init()@ == Map::<DevMntIDPair, u8>::empty() // [C08.core.new.counters] inode numbers are handed out from ROOT_ID + 1, handles from 1 (the state lemma_import of unit ptlookup starts from)',
                       'res is Ok ==> !res->Ok_0.writeback.cur() && !res->Ok_0.no_open.cur() && !res->Ok_0.no_opendir.cur() && !res->Ok_0.killpriv_v2.cur() && !res->Ok_0.perfile_dax.cur() '
                       '&& res->Ok_0.no_readdir.cur() == cfg0.no_readdir && res->Ok_0.seal_size.cur() == cfg0.seal_size // [C05.core.new.switches] negotiated behaviour is off until INIT; configured behaviour as configured',
                       'res is Ok ==> res->Ok_0.cfg == cfg_norm(cfg0) // [C05.core.new.cfg_normalised] no_open only with cache=always, writeback not with cache=never, every other setting as given (lemma_cfg_norm)']),
            # ---- keep_fds / readlinkat / readlinkat_proc_file
            F(PT, IMPL, 'keep_fds', tok=False, ret_name='r', props=['C15'], canary=True,
              ensures=['r@ == seq![self.proc_self_fd.sfd()] // [C15.core.keep_fds.exact] the one long-lived descriptor the file system itself owns']),
            F(PT, IMPL, 'readlinkat', props=['C05'], canary=True, path_callees=['readlinkat', 'last_os_error'], extra_hooks=[CR.r72_raw_vec('Tracked(cs)')],
              requires=['forall|sz: usize| sz >= 4096 ==> #[trigger] host_ok(args(NR_READLINKAT, dfd, pathname@, 0, 0, sz), old(cs).calls) '
                        '// [C05.core.readlinkat.call] readlinkat(dfd, path, buf, the capacity of buf - at least PATH_MAX)'],
              ensures=['final(cs).calls == old(cs).calls.push(%s) && %s.a.nr == NR_READLINKAT && %s.a.fd == dfd && %s.a.path == pathname@ && %s.a.size >= 4096 // [C05.core.readlinkat.once] exactly one readlinkat, on the given descriptor and path' % (LAST, LAST, LAST, LAST, LAST),
                       '%s.ret >= 0 ==> res is Ok && res->Ok_0@ == final(cs).filled && final(cs).filled.len() == %s.ret // [C05.core.readlinkat.bytes] the path returned is exactly the bytes the kernel stored - all of them, nothing else' % (LAST, LAST),
                       '%s.ret < 0 ==> res is Err && res->Err_0.os_code() == Some(%s.errno) // [C05.core.readlinkat.errno]' % (LAST, LAST),
                       'final(cs).open == old(cs).open && rest_same(*old(cs), *final(cs)) // [C15.core.readlinkat.no_descriptor]']),
            F(PT, IMPL, 'readlinkat_proc_file', props=['C06'], canary=True, callees=['get', 'get_file'], path_callees=['readlinkat'],
              locate=PR.pre_locate(IMPL, 'readlinkat_proc_file', [PR.r54_format_keyed]), post_hooks=[FR.r53f_file_drops([r'\w+\s*\.\s*get_file'], dropfn='vx_drop_inode_file', tok='Tracked(cs)')],
              splices=[('^', 'after', 'broadcast use axiom_decimal_no_nul;')],
              requires=['own_inv(old(cs).store.data@, old(cs).open, old(cs).mnt) // ownership invariant of the store',
                        '''old(cs).store.data@.contains_key(inode) ==> (match old(cs).store.data@[inode].handle {
                            InodeHandle::File(f) => (forall|sz: usize| sz >= 4096 ==> #[trigger] host_ok(args(NR_READLINKAT, self.proc_self_fd.sfd(), decimal(f.sfd()), 0, 0, sz), old(cs).calls)),
                            InodeHandle::Handle(h) => host_ok(args_fh(NR_OBH, h.mount_fd.mfd(), *h.handle, %s), old(cs).calls)
                                && (forall|c: Call, fd: i32, sz: usize| c.a == args_fh(NR_OBH, h.mount_fd.mfd(), *h.handle, %s) && fd >= 0 && c.ret == fd as int && sz >= 4096 ==> #[trigger] host_ok(args(NR_READLINKAT, self.proc_self_fd.sfd(), decimal(fd), 0, 0, sz), old(cs).calls.push(c))),
                        }) // [C06.core.readlinkat_proc_file.that_descriptor] the link read is /proc/self/fd/<the descriptor of THIS inode> (its own O_PATH descriptor, or one opened from its own file handle), relative to the /proc/self/fd descriptor''' % (O_PATH_S, O_PATH_S)],
              ensures=['!old(cs).store.data@.contains_key(inode) ==> res is Err && res->Err_0.os_code() == Some(9i32) && final(cs).calls == old(cs).calls // [C06.core.readlinkat_proc_file.ebadf] an inode number that does not resolve: EBADF, no host call',
                       'res is Ok ==> %s.a.nr == NR_READLINKAT && %s.a.fd == self.proc_self_fd.sfd() && res->Ok_0@ == final(cs).filled // [C06.core.readlinkat_proc_file.result] the bytes the kernel stored for that link' % (LAST, LAST),
                       'res is Ok && old(cs).store.data@[inode].handle is File ==> %s.a.path == decimal(old(cs).store.data@[inode].handle->File_0.sfd()) && %s == old(cs).calls.len() + 1 // [C06.core.readlinkat_proc_file.own_fd]' % (LAST, N),
                       'res is Ok && old(cs).store.data@[inode].handle is Handle ==> %s == old(cs).calls.len() + 2 && final(cs).calls[%s - 2].a.nr == NR_OBH && %s.a.path == decimal(final(cs).calls[%s - 2].ret as i32) // [C06.core.readlinkat_proc_file.own_handle]' % (N, N, LAST, N),
                       'final(cs).open == old(cs).open // [C15.core.readlinkat_proc_file.balance] the temporary descriptor of a file-handle inode is closed on every path',
                       'rest_same(*old(cs), *final(cs))']),
        ]),
        # ---- BackendFileSystem::mount and FileSystem::destroy
        Group(IMPL + ' {      // impl BackendFileSystem / impl FileSystem', [
            F(PT, BFIMPL, 'mount', tok=False, props=['C06'], canary=True,
              requires=['self.do_lookup_ok(1, seq![46u8]) // [C06.core.mount.lookup_dot] the entry of a mounted passthrough file system is the lookup of "." under its own root'],
              ensures=['res is Ok ==> self.res_do_lookup(1, seq![46u8]) is Ok && res->Ok_0.0 == self.res_do_lookup(1, seq![46u8])->Ok_0 && res->Ok_0.1 == VFS_MAX_INO // [C06.core.mount.entry] the root\'s own entry and the inode-number limit of the VFS',
                       'res is Err ==> self.res_do_lookup(1, seq![46u8]) is Err // [C06.core.mount.err]'],
              splices=[('^', 'after', 'broadcast use axiom_str_bytes_dot; proof { reveal_strlit("."); assert("."@ =~= seq![\'.\']); assert(!seq![46u8].contains(0u8)); }')]),
            F(PTS, FSIMPL, 'destroy', ret_name='r', props=['C15'], canary=True, callees=['clear', 'import'],
              requires=[S0, '!%s.contains(0u8)' % ROOT] + IMPORT_REQ[3:],
              ensures=['final(cs).handles == Map::<Handle, Arc<HandleData>>::empty() // [C15.core.destroy.handles] no handle is left',
                       'forall|i: Inode| #[trigger] final(cs).store.data@.contains_key(i) ==> i == 1 // [C15.core.destroy.only_root] no live inode object but the re-imported root',
                       'forall|fd: int| #[trigger] final(cs).open.contains(fd) ==> (old(cs).open.contains(fd) && !owned_by(old(cs).store.data@, fd) && !hd_owned(old(cs).handles, fd)) || (%s >= 1 && fd == %s.ret && final(cs).store.data@.contains_key(1) && hfd(final(cs).store.data@[1]) == Some(fd)) '
                       '// [C15.core.destroy.fds] every descriptor an inode or a handle owned is closed; the only new one is the descriptor of the re-imported root' % (N, C0),
                       'forall|fd: int| old(cs).open.contains(fd) && !owned_by(old(cs).store.data@, fd) && !hd_owned(old(cs).handles, fd) ==> #[trigger] final(cs).open.contains(fd) // [C15.core.destroy.others_untouched] descriptors the tables do not own (the /proc/self/fd descriptor, ...) stay open',
                       'own_inv(final(cs).store.data@, final(cs).open, final(cs).mnt) // [C15.core.destroy.own_inv]']),
        ]),
    ]
    def glue(text, name):
        """hand-written VERIFIED drop glue: gets its vacuity copy in the canary run like an extracted function"""
        r = Raw(text)
        c = text.replace('fn %s(' % name, 'fn %s__canary(' % name).replace('\n{\n', '\n            false, // [canary]\n{\n', 1)
        if c.count('false, // [canary]') != 1 or c.count('__canary') != 1:
            raise X.ExtractError('canary copy of %s could not be built' % name)
        r.canary = dict(name=name, text=c, props=['C15'])
        return r
    src_cfg = X.Source(root, CFG)
    if not re.search(r'#\[derive\([^)]*\bPartialEq\b[^)]*\)\]\s*(?:///[^\n]*\n\s*|//[^\n]*\n\s*)*pub enum CachePolicy\b', src_cfg.src):
        raise X.ExtractError('CachePolicy no longer derives PartialEq (model PartialEqSpecImpl of unit ptcore)')
    src_store = X.Source(root, STORE)
    if not re.search(r'#\[derive\(Default\)\]\s*pub struct InodeStore\b', src_store.src):
        raise X.ExtractError('InodeStore no longer derives Default (model InodeStore::default of unit ptcore)')
    items = [
        Group('pub mod fuse {', [Copy(ABI, r'pub const ROOT_ID\b')]),
        ByteConst(VMOD, 'EMPTY_CSTR'), ByteConst(VMOD, 'PROC_SELF_FD_CSTR'),
        Copy(VMOD, r'pub const VFS_MAX_INO\b'),
        Copy(STORE, r'pub struct InodeId\b', prefix='#[derive(Clone, Copy, PartialEq, Eq)]', subst=[('libc::ino64_t', 'u64'), ('libc::dev_t', 'u64')]),
        Copy(STATX, r'pub struct StatExt\b', subst=[('libc::stat64', 'stat64')]),
        Copy(PT, r'pub struct InodeData\b'),
        Copy(PT, r'enum InodeHandle\b'),
        Copy(PT, r'enum InodeFile\b'),
        Copy(FH, r'pub struct FileHandle\b'),
        Copy(FH, r'pub struct OpenableFileHandle\b'),
        Copy(STORE, r'pub struct InodeStore\b'),
        Copy(PT, r'struct InodeMap\b'),
        Copy(PT, r'struct HandleData\b'),
        Copy(UTIL, r'struct DevMntIDPair\b', prefix='#[derive(Clone, Copy, PartialEq, Eq)]', subst=[('libc::dev_t', 'u64')]),
        Copy(UTIL, r'pub struct UniqueInodeGenerator\b'),
        Copy(FSMOD, r'pub struct Entry\b', prefix='#[derive(Clone, Copy)]'),
        Copy(CFG, r'pub enum CachePolicy\b', prefix='#[derive(Clone, Copy, PartialEq, Eq)]'),
        Copy(CFG, r'pub struct Config\b'),
        Copy(PT, r'pub struct PassthroughFs\b'),
        Raw(consts + PRE),
        Raw(PRE_STORE),
        Raw(PRE_FS),
    ] + [Raw(CFG_NORM), glue(DROP_IFILE, 'vx_drop_inode_file'), glue(DROP_SLOT, 'vx_drop_slot')] + G_STATX + G_UTIL + G_INODE + G_TABLES + G_FS + [Raw(SCENARIOS)]
    # every clause carries a tag (LAST on its line): a clause without one gets `[<default property>.core.<fn>.pre<k> / .post<k>]` (frame conditions, ownership
    # premises) - the attribution an untagged failure would get anyway, made explicit
    from vx.api import TAG_RE, GTAG_RE

    def tag_all(its):
        for it in its:
            if isinstance(it, Group):
                tag_all(it.items)
            elif isinstance(it, Fn):
                for (lst, kind) in ((it.requires, 'pre'), (it.ensures, 'post')):
                    for i, c in enumerate(lst):
                        last = c.rstrip().split('\n')[-1]
                        cm = last.split('//', 1)[1] if '//' in last else ''
                        if TAG_RE.search(cm) or GTAG_RE.search(cm):
                            continue
                        tag = '[%s.core.%s.%s%d]' % (it.props[0], it.name, kind, i)
                        lst[i] = c.rstrip() + (' ' if '//' in last else ' // ') + tag
    tag_all(items)
    u = Unit('ptcore', items, preludes=['base.rs', 'stdmodel.rs'], generic_tags={'seq': ['C15']})
    u.prelude_subst = [('pub mod libc {', '''pub mod libc {
    // unit ptcore: further libc items of x86_64-linux-gnu
    #[allow(non_camel_case_types)] pub type c_char = i8;
    #[allow(non_camel_case_types)] pub type c_uint = u32;
    #[allow(non_camel_case_types)] pub type stat64 = super::stat64;
    pub const AT_FDCWD: i32 = -100; pub const PATH_MAX: i32 = 4096;''')]
    return u
