"""Unit `pt` (C06, passthrough side of the name gate): PassthroughFs::validate_path_component and PassthroughFs::lookup,
on top of the same is_dot_or_dotdot / is_safe_path_component / validate_path_component chain of src/api/vfs/mod.rs."""
from vx.api import Unit, Fn, Copy, Raw, Group, ByteConst

MOD = 'src/api/vfs/mod.rs'
PT = 'src/passthrough/mod.rs'
PTS = 'src/passthrough/sync_io.rs'
CFG = 'src/passthrough/config.rs'
FSMOD = 'src/api/filesystem/mod.rs'


def unit(root='/repo'):
    items = [
        ByteConst(MOD, 'CURRENT_DIR_CSTR'), ByteConst(MOD, 'PARENT_DIR_CSTR'), Copy(MOD, r'pub const SLASH_ASCII\b'),
        Copy(FSMOD, r'pub struct Context\b', prefix='#[derive(Clone, Copy)]', subst=[('libc::uid_t', 'u32'), ('libc::gid_t', 'u32'), ('libc::pid_t', 'i32')]),
        Copy(FSMOD, r'pub struct Entry\b', prefix='#[derive(Clone, Copy)]'),
        Copy(CFG, r'pub enum CachePolicy\b', prefix='#[derive(Clone, Copy, PartialEq, Eq)]'),
        Copy(CFG, r'pub struct Config\b'),
        Raw('''
pub type Inode = u64;
pub trait BitmapSlice {}
// PassthroughFs: only the configuration is relevant here (the other fields are fd tables, atomics, maps)
pub struct PassthroughFs<S> { pub cfg: Config, pub writeback: AtomicBool, pub seal_size: AtomicBool, pub proc_self_fd: File, pub inode_map: InodeMap, pub phantom: PhantomData<S> }
// ---- safe opening (C06 / C05 "special files are looked up but never opened for I/O"): syscalls as capability-guarded externals
#[verifier::external_body] pub struct File { _p: u8 }
#[verifier::external_body] pub struct FileHandle { _p: u8 }
#[verifier::external_body] pub struct StatExt { _p: u8 }
pub trait AsRawFd {}
impl AsRawFd for File {}
pub struct InodeData { pub inode: Inode, pub mode: u32 }           // the fields open_inode reads (the rest: handle, id, refcount)
#[verifier::external_body] pub struct InodeMap { _p: u8 }
impl InodeMap {
    #[verifier::external_body] pub fn get(&self, inode: Inode) -> (r: io::Result<Arc<InodeData>>) { unimplemented!() }
}
// InodeData::open_file re-opens the inode through /proc/self/fd (which CLEARS O_NOFOLLOW): capability
pub uninterp spec fn reopen_ok(d: InodeData, flags: i32) -> bool;
impl InodeData {
    #[verifier::external_body]
    pub fn open_file(&self, flags: i32, proc_self_fd: &File) -> (r: io::Result<File>)
        requires reopen_ok(*self, flags), // [reopen]
    { unimplemented!() }
}
// openat(2): capability on the flags actually passed to the kernel
pub uninterp spec fn openat_ok(flags: i32) -> bool;
#[verifier::external_body]
pub fn openat<D: AsRawFd>(dir_fd: &D, path: &CStr, flags: i32, mode: u32) -> (r: io::Result<File>)
    requires openat_ok(flags), // [openat]
{ unimplemented!() }
#[verifier::external_body] pub fn statx<D: AsRawFd>(dir: &D, path: Option<&CStr>) -> (r: io::Result<StatExt>) { unimplemented!() }
impl FileHandle {
    #[verifier::external_body] pub fn from_fd<D: AsRawFd>(fd: &D) -> (r: io::Result<Option<FileHandle>>) { unimplemented!() }
}
pub open spec fn safe_mode(mode: u32) -> bool { mode & 0o170000u32 == 0o100000u32 || mode & 0o170000u32 == 0o040000u32 }   // S_IFREG or S_IFDIR (stat(2))
impl<S: BitmapSlice + Send + Sync> PassthroughFs<S> {
    // do_lookup is a chain of syscalls (not extracted): capability in, uninterpreted result out
    pub uninterp spec fn do_lookup_ok(&self, parent: Inode, name: Seq<u8>) -> bool;
    pub uninterp spec fn res_do_lookup(&self) -> io::Result<Entry>;
    #[verifier::external_body]
    fn do_lookup(&self, parent: Inode, name: &CStr) -> (r: io::Result<Entry>)
        requires self.do_lookup_ok(parent, name@), // [touch]
        ensures r == self.res_do_lookup()
    { unimplemented!() }
}
'''),
        Fn('src/passthrough/util.rs', None, 'einval', ensures=['r.os_code() == Some(22i32)'], props=['C06']),
        Fn(MOD, None, 'is_dot_or_dotdot', ensures=['r == (is_dot(name@) || is_dotdot(name@)) // [C06.names.dot]'], props=['C06'],
           splices=[('let bytes = name.to_bytes_with_nul();', 'after', 'proof { axiom_cstr_no_nul(name); assert(bytes@[name@.len() as int] == 0u8); if name@.len() >= 1 { assert(bytes@[0] == name@[0]); } if name@.len() >= 2 { assert(bytes@[1] == name@[1]); } if name@.len() >= 3 { assert(bytes@[2] == name@[2]); } }')]),
        Fn(MOD, None, 'is_safe_path_component', ensures=['r == safe_name(name@) // [C06.names.safe]'], props=['C06'],
           splices=[('let bytes = name.to_bytes_with_nul();', 'after', 'proof { axiom_cstr_no_nul(name); lemma_contains_push(name@, 47u8, 0u8); }')]),
        Fn(MOD, None, 'validate_path_component',
           ensures=['r is Ok <==> safe_name(name@) // [C06.names.validate]', 'r is Err ==> is_einval(r) // [C06.names.errno]'], props=['C06']),
        Group('impl<S: BitmapSlice + Send + Sync> PassthroughFs<S> {', [
            Fn(PT, 'impl<S: BitmapSlice + Send + Sync> PassthroughFs<S>', 'validate_path_component',
               ensures=[
                   # "whether the request arrives through the VFS or at a standalone passthrough filesystem": a standalone
                   # passthrough (do_import) validates itself; under the VFS (!do_import) the VFS has done it
                   'self.cfg.do_import ==> (r is Ok <==> safe_name(name@)) // [C06.pt.validate.standalone]',
                   'r is Err ==> is_einval(r) // [C06.pt.validate.errno]',
                   '!self.cfg.do_import ==> r is Ok // [C06.pt.validate.undervfs]'],
               props=['C06'], canary=True),
            Fn(PTS, 'impl<S: BitmapSlice + Send + Sync> FileSystem for PassthroughFs<S>', 'lookup',
               requires=['!has_slash(name@) ==> self.do_lookup_ok(parent, name@)'],
               ensures=['has_slash(name@) ==> is_einval(r) // [C06.pt.lookup.gate]',
                        '!has_slash(name@) ==> r == self.res_do_lookup() // [C06.pt.lookup.result]'],
               splices=[('^', 'after', 'proof { lemma_contains_push(name@, 47u8, 0u8); }')],
               props=['C06'], canary=True),
            Fn(PT, 'impl<S: BitmapSlice + Send + Sync> PassthroughFs<S>', 'get_writeback_open_flags', props=['C06'],
               ensures=['r & 0o2000000i32 == flags & 0o2000000i32 // O_CLOEXEC untouched', 'r & 0o40000i32 == flags & 0o40000i32 // O_DIRECT untouched'],
               splices=[('^', 'after', '''proof {
            assert(forall|f: i32| #![auto] ((f & !3i32) | 2i32) & 0o2000000i32 == f & 0o2000000i32 && ((f & !3i32) | 2i32) & 0o40000i32 == f & 0o40000i32) by (bit_vector);
            assert(forall|f: i32| #![auto] (f & !0o2000i32) & 0o2000000i32 == f & 0o2000000i32 && (f & !0o2000i32) & 0o40000i32 == f & 0o40000i32) by (bit_vector);
        }''')]),
            Fn(PT, 'impl<S: BitmapSlice + Send + Sync> PassthroughFs<S>', 'open_file_restricted',
               sig_subst=[('dir: &impl AsRawFd', 'dir: &File')],
               # every name-based open carries O_NOFOLLOW (and O_CLOEXEC): a symlink planted under the export is never followed
               requires=['forall|f: i32| (f & 0o400000i32 != 0 && f & 0o2000000i32 != 0 && f & flags == flags) ==> #[trigger] openat_ok(f) // [C06.safeopen.nofollow] only flag words with O_NOFOLLOW and O_CLOEXEC (and the requested flags) are granted'],
               splices=[('^', 'after', 'proof { assert(forall|f: i32| #![auto] (0o400000i32 | 0o2000000i32 | f) & 0o400000i32 != 0 && (0o400000i32 | 0o2000000i32 | f) & 0o2000000i32 != 0 && (0o400000i32 | 0o2000000i32 | f) & f == f) by (bit_vector); }')],
               props=['C06'], canary=True),
            Fn(PT, 'impl<S: BitmapSlice + Send + Sync> PassthroughFs<S>', 'create_file_excl',
               sig_subst=[('dir: &impl AsRawFd', 'dir: &File')], ret_name='res',
               # the one open that may CREATE: always with O_EXCL, so that a symlink in the last component is never followed (open(2): O_CREAT|O_EXCL
               # does not follow symbolic links) and an existing object is never opened or truncated through it.  open(2) also says: "When O_PATH is
               # specified in flags, flag bits other than O_CLOEXEC, O_DIRECTORY, and O_NOFOLLOW are ignored" - the CLIENT chooses `flags`, so the grant
               # excludes O_PATH without O_NOFOLLOW (finding D28: the first version of this grant did not, and the code relied on O_EXCL alone)
               # Since the D28 repair the code passes O_NOFOLLOW always; O_EXCL is then no longer what C06 rests on (dropping it - seed C06-b rebased - opens an
               # existing object INSIDE the export: a C05 matter, [C05.create_file_excl.call], not a C06 one), so the grant accepts either form
               requires=['forall|f: i32| ((f & 0o400000i32 != 0 || (f & 0o100i32 != 0 && f & 0o200i32 != 0 && f & 0o10000000i32 == 0)) && f & flags == flags) ==> #[trigger] openat_ok(f) // [C06.safeopen.create_excl] the open that may create is granted only in a form that cannot follow a link in the last component: with O_NOFOLLOW, or with O_CREAT|O_EXCL and without O_PATH (under O_PATH the kernel IGNORES O_CREAT|O_EXCL)'],
               ensures=['res is Ok && res->Ok_0 is None ==> flags & 0o200i32 == 0 // [C06.safeopen.create_excl.fallback] "exists" is swallowed only when the client did not ask for O_EXCL'],
               # general or-chain facts (not tied to the order or number of the flags or-ed together: a re-ordered or extended flag expression must not lose the proof)
               splices=[('^', 'after', 'proof { assert(forall|a: i32, b: i32| #![trigger a | b] (a | b) & b == b && (a | b) & a == a) by (bit_vector); assert(forall|x: i32, b: i32, m: i32| #![trigger (x | b) & m] x & m == m ==> (x | b) & m == m) by (bit_vector); assert(forall|x: i32, b: i32, m: i32| #![trigger (b | x) & m] x & m == m ==> (b | x) & m == m) by (bit_vector); assert(0o400000i32 != 0 && 0o100i32 != 0 && 0o200i32 != 0); }')],
               props=['C06'], canary=True),
            Fn(PT, 'impl<S: BitmapSlice + Send + Sync> PassthroughFs<S>', 'open_file_and_handle',
               sig_subst=[('dir: &impl AsRawFd', 'dir: &File')],
               # lookups open with O_PATH | O_NOFOLLOW: the object itself is never opened for I/O by a lookup
               requires=['forall|f: i32| (f & 0o400000i32 != 0 && f & 0o2000000i32 != 0 && f & 0o10000000i32 != 0) ==> #[trigger] openat_ok(f) // [C06.safeopen.opath] only O_PATH | O_NOFOLLOW opens are granted to a lookup'],
               splices=[('^', 'after', 'proof { assert(forall|f: i32| #![auto] f & 0o10000000i32 == 0o10000000i32 ==> f & 0o10000000i32 != 0) by (bit_vector); }')],
               body_subst=[('self.open_file_restricted(dir, name, libc::O_PATH, 0)?', 'self.open_file_restricted(dir, name, libc::O_PATH, 0)?')],
               props=['C06'], canary=True),
        ]),
        Fn('src/passthrough/util.rs', None, 'is_safe_inode', ensures=['r == safe_mode(mode) // [C06.safeopen.pred]'], props=['C06']),
        Fn('src/passthrough/util.rs', None, 'is_dir', ensures=['r == (mode & 0o170000u32 == 0o040000u32)'], props=['C06']),
        Fn('src/passthrough/util.rs', None, 'ebadf', ensures=['r.os_code() == Some(9i32)'], props=['C06']),
        Fn('src/passthrough/util.rs', None, 'eperm', ensures=['r.os_code() == Some(1i32)'], props=['C06']),
        Group('impl<S: BitmapSlice + Send + Sync> PassthroughFs<S> {', [
            Fn(PTS, 'impl<S: BitmapSlice + Send + Sync> PassthroughFs<S>', 'open_inode',
               # "special files are looked up but never opened for I/O": only regular files and directories are ever re-opened
               requires=['forall|d: InodeData, f: i32| #[trigger] reopen_ok(d, f) <==> (safe_mode(d.mode) && f & 0o2000000i32 != 0) // [C06.safeopen.reopen]'],
               ensures=[],
               splices=[('^', 'after', 'proof { assert(forall|f: i32| #![auto] (f | 0o2000000i32) & 0o2000000i32 != 0) by (bit_vector); }')],
               props=['C06'], canary=True),
        ]),
    ]
    return Unit('pt', items, preludes=['base.rs', 'stdmodel.rs', 'names.rs'], generic_tags={'touch': ['C06'], 'reopen': ['C06'], 'openat': ['C06']})
