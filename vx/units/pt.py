"""Unit `pt` (C06, passthrough side of the name gate): PassthroughFs::validate_path_component and PassthroughFs::lookup,
on top of the same is_dot_or_dotdot / is_safe_path_component / validate_path_component chain of src/api/vfs/mod.rs."""
from vx.api import Unit, Fn, Copy, Raw, Group, ByteConst

MOD = 'src/api/vfs/mod.rs'
PT = 'src/passthrough/mod.rs'
PTS = 'src/passthrough/sync_io.rs'
CFG = 'src/passthrough/config.rs'
FSMOD = 'src/api/filesystem/mod.rs'


def unit(root='/repo'):
    items = [
        ByteConst(MOD, 'CURRENT_DIR_CSTR'), ByteConst(MOD, 'PARENT_DIR_CSTR'), Copy(MOD, r'pub const SLASH_ASCII\b'),
        Copy(FSMOD, r'pub struct Context\b', prefix='#[derive(Clone, Copy)]', subst=[('libc::uid_t', 'u32'), ('libc::gid_t', 'u32'), ('libc::pid_t', 'i32')]),
        Copy(FSMOD, r'pub struct Entry\b', prefix='#[derive(Clone, Copy)]'),
        Copy(CFG, r'pub enum CachePolicy\b', prefix='#[derive(Clone, Copy, PartialEq, Eq)]'),
        Copy(CFG, r'pub struct Config\b'),
        Raw('''
pub type Inode = u64;
pub trait BitmapSlice {}
// PassthroughFs: only the configuration is relevant here (the other fields are fd tables, atomics, maps)
pub struct PassthroughFs<S> { pub cfg: Config, pub phantom: PhantomData<S> }
impl<S: BitmapSlice + Send + Sync> PassthroughFs<S> {
    // do_lookup is a chain of syscalls (not extracted): capability in, uninterpreted result out
    pub uninterp spec fn do_lookup_ok(&self, parent: Inode, name: Seq<u8>) -> bool;
    pub uninterp spec fn res_do_lookup(&self) -> io::Result<Entry>;
    #[verifier::external_body]
    fn do_lookup(&self, parent: Inode, name: &CStr) -> (r: io::Result<Entry>)
        requires self.do_lookup_ok(parent, name@), // [touch]
        ensures r == self.res_do_lookup()
    { unimplemented!() }
}
'''),
        Fn('src/passthrough/util.rs', None, 'einval', ensures=['r.os_code() == Some(22i32)'], props=['C06']),
        Fn(MOD, None, 'is_dot_or_dotdot', ensures=['r == (is_dot(name@) || is_dotdot(name@)) // [C06.names.dot]'], props=['C06'],
           splices=[('let bytes = name.to_bytes_with_nul();', 'after', 'proof { axiom_cstr_no_nul(name); assert(bytes@[name@.len() as int] == 0u8); if name@.len() >= 1 { assert(bytes@[0] == name@[0]); } if name@.len() >= 2 { assert(bytes@[1] == name@[1]); } if name@.len() >= 3 { assert(bytes@[2] == name@[2]); } }')]),
        Fn(MOD, None, 'is_safe_path_component', ensures=['r == safe_name(name@) // [C06.names.safe]'], props=['C06'],
           splices=[('let bytes = name.to_bytes_with_nul();', 'after', 'proof { axiom_cstr_no_nul(name); lemma_contains_push(name@, 47u8, 0u8); }')]),
        Fn(MOD, None, 'validate_path_component',
           ensures=['r is Ok <==> safe_name(name@) // [C06.names.validate]', 'r is Err ==> is_einval(r) // [C06.names.errno]'], props=['C06']),
        Group('impl<S: BitmapSlice + Send + Sync> PassthroughFs<S> {', [
            Fn(PT, 'impl<S: BitmapSlice + Send + Sync> PassthroughFs<S>', 'validate_path_component',
               ensures=[
                   # "whether the request arrives through the VFS or at a standalone passthrough filesystem": a standalone
                   # passthrough (do_import) validates itself; under the VFS (!do_import) the VFS has done it
                   'self.cfg.do_import ==> (r is Ok <==> safe_name(name@)) // [C06.pt.validate.standalone]',
                   'r is Err ==> is_einval(r) // [C06.pt.validate.errno]',
                   '!self.cfg.do_import ==> r is Ok // [C06.pt.validate.undervfs]'],
               props=['C06'], canary=True),
            Fn(PTS, 'impl<S: BitmapSlice + Send + Sync> FileSystem for PassthroughFs<S>', 'lookup',
               requires=['!has_slash(name@) ==> self.do_lookup_ok(parent, name@)'],
               ensures=['has_slash(name@) ==> is_einval(r) // [C06.pt.lookup.gate]',
                        '!has_slash(name@) ==> r == self.res_do_lookup() // [C06.pt.lookup.result]'],
               splices=[('^', 'after', 'proof { lemma_contains_push(name@, 47u8, 0u8); }')],
               props=['C06'], canary=True),
        ]),
    ]
    return Unit('pt', items, preludes=['base.rs', 'stdmodel.rs', 'names.rs'], generic_tags={'touch': ['C06']})
