"""Unit `server` (C01, C02, C03, C12, C16): src/api/server/{sync_io.rs,mod.rs}, src/lib.rs, src/api/filesystem/mod.rs
against the abstract transport (prelude/transport.rs) and the generated FileSystem model.

Every `reply_*` / `want_*` spec function below is written from the FUSE protocol (kernel fuse.h semantics) and the
property statements, not from the code: which wire field feeds which argument, which flag bit makes an optional
argument present, and what the reply to each opcode carries."""
import os

from vx.api import Unit, Fn, Copy, Raw, Group
from vx import fsmodel, wiremodel, flagsmodel

SYNC = 'src/api/server/sync_io.rs'
SMOD = 'src/api/server/mod.rs'
ABI = 'src/abi/fuse_abi_linux.rs'
VABI = 'src/abi/virtio_fs.rs'
FSMOD = 'src/api/filesystem/mod.rs'
LIB = 'src/lib.rs'

SRV = 'impl<F: FileSystem + Sync> Server<F>'
CTX = "impl<F: FileSystem, S: BitmapSlice> SrvContext<'_, F, S>"
CTXA = "impl<'a, F: FileSystem, S: BitmapSlice> SrvContext<'a, F, S>"

WIRE = ['Attr', 'Kstatfs', 'EntryOut', 'ForgetIn', 'ForgetOne', 'BatchForgetIn', 'GetattrIn', 'AttrOut', 'MknodIn', 'MkdirIn',
        'RenameIn', 'Rename2In', 'LinkIn', 'SetattrIn', 'OpenIn', 'CreateIn', 'OpenOut', 'ReleaseIn', 'FlushIn', 'ReadIn', 'WriteIn',
        'WriteOut', 'FsyncIn', 'SetxattrIn', 'GetxattrIn', 'GetxattrOut', 'LkIn', 'LkOut', 'AccessIn', 'InitIn', 'InitIn2', 'InitOut',
        'BmapIn', 'BmapOut', 'IoctlIn', 'IoctlOut', 'PollIn', 'PollOut', 'FallocateIn', 'InHeader', 'OutHeader', 'Dirent',
        'LseekIn', 'LseekOut']

# ---------------------------------------------------------------------------------------------------------------------
# per-opcode specification table (from the protocol).  In the expressions: hd = request header, cx = request context,
# a = the decoded fixed-size body (if any), nm = the name (bytes up to the first NUL of the variable part), v = the Ok value.
U = 'hd.unique'
INO = 'ino_of::<F>(hd.nodeid)'
EMPTY = 'Seq::<u8>::empty()'


def ok_empty():
    return 'ok_reply(%s, %s, %s)' % (U, EMPTY, EMPTY)


def ok_obj(expr):
    return 'ok_reply(%s, (%s).sbytes(), %s)' % (U, expr, EMPTY)


OPS = {
    # name: body struct, has_name, fs call, spec arguments, ok-reply
    'getattr': dict(body='GetattrIn', call='getattr',
                    args=['cx', INO, '(if a.flags & GETATTR_FH != 0 { Some(fh_of::<F>(a.fh)) } else { None::<F::Handle> })'],
                    ok=ok_obj('attr_out(v.0, v.1)')),
    'setattr': dict(body='SetattrIn', call='setattr',
                    args=['cx', INO, 'stat_no_ids(stat_of_setattr(a))', '(if a.valid & FATTR_FH != 0 { Some(fh_of::<F>(a.fh)) } else { None::<F::Handle> })',
                          'SetattrValid { bits: a.valid & SetattrValid::all_bits() }'],
                    ok=ok_obj('attr_out(v.0, v.1)')),
    'readlink': dict(body=None, call='readlink', args=['cx', INO], ok='ok_reply(%s, %s, v@)' % (U, EMPTY)),
    'mknod': dict(body='MknodIn', name=True, call='mknod', args=['cx', INO, 'nm', 'a.mode', 'a.rdev', 'a.umask'], ok=ok_obj('entry_out(v)')),
    'mkdir': dict(body='MkdirIn', name=True, call='mkdir', args=['cx', INO, 'nm', 'a.mode', 'a.umask'], ok=ok_obj('entry_out(v)')),
    'unlink': dict(body=None, name=True, call='unlink', args=['cx', INO, 'nm'], ok=ok_empty()),
    'rmdir': dict(body=None, name=True, call='rmdir', args=['cx', INO, 'nm'], ok=ok_empty()),
    'open': dict(body='OpenIn', call='open', args=['cx', INO, 'a.flags', 'a.fuse_flags'],
                 ok=ok_obj('OpenOut { fh: opt_fh_u64::<F>(v.0), open_flags: v.1.bits, passthrough: (match v.2 { Some(p) => p, None => 0u32 }) }')),
    'statfs': dict(body=None, call='statfs', args=['cx', INO], ok=ok_obj('kstatfs_of(v)')),
    'release': dict(body='ReleaseIn', call='release',
                    args=['cx', INO, 'a.flags', 'fh_of::<F>(a.fh)', 'a.release_flags & RELEASE_FLUSH != 0', 'a.release_flags & RELEASE_FLOCK_UNLOCK != 0',
                          '(if a.release_flags & RELEASE_FLUSH != 0 || a.release_flags & RELEASE_FLOCK_UNLOCK != 0 { Some(a.lock_owner) } else { None::<u64> })'],
                    ok=ok_empty()),
    'fsync': dict(body='FsyncIn', call='fsync', args=['cx', INO, 'a.fsync_flags & 1 != 0', 'fh_of::<F>(a.fh)'], ok=ok_empty()),
    'fsyncdir': dict(body='FsyncIn', call='fsyncdir', args=['cx', INO, 'a.fsync_flags & 1 != 0', 'fh_of::<F>(a.fh)'], ok=ok_empty()),
    'getxattr': dict(body='GetxattrIn', name=True, call='getxattr', args=['cx', INO, 'nm', 'a.size'],
                     ok='(match v { GetxattrReply::Value(val) => ok_reply(%s, %s, val@), GetxattrReply::Count(c) => ok_reply(%s, (GetxattrOut { size: c, padding: 0 }).sbytes(), %s) })' % (U, EMPTY, U, EMPTY)),
    'listxattr': dict(body='GetxattrIn', call='listxattr', args=['cx', INO, 'a.size'],
                      ok='(match v { ListxattrReply::Names(val) => ok_reply(%s, %s, val@), ListxattrReply::Count(c) => ok_reply(%s, (GetxattrOut { size: c, padding: 0 }).sbytes(), %s) })' % (U, EMPTY, U, EMPTY)),
    'removexattr': dict(body=None, name=True, call='removexattr', args=['cx', INO, 'nm'], ok=ok_empty()),
    'flush': dict(body='FlushIn', call='flush', args=['cx', INO, 'fh_of::<F>(a.fh)', 'a.lock_owner'], ok=ok_empty()),
    'opendir': dict(body='OpenIn', call='opendir', args=['cx', INO, 'a.flags'],
                    ok=ok_obj('OpenOut { fh: opt_fh_u64::<F>(v.0), open_flags: v.1.bits, passthrough: 0 }')),
    'releasedir': dict(body='ReleaseIn', call='releasedir', args=['cx', INO, 'a.flags', 'fh_of::<F>(a.fh)'], ok=ok_empty()),
    'getlk': dict(body='LkIn', call='getlk', args=['cx', INO, 'fh_of::<F>(a.fh)', 'a.owner', 'lock_of(a.lk)', 'a.lk_flags'],
                  ok=ok_obj('LkOut { lk: wire_lock_of(v) }')),
    'setlk': dict(body='LkIn', call='setlk', args=['cx', INO, 'fh_of::<F>(a.fh)', 'a.owner', 'lock_of(a.lk)', 'a.lk_flags'], ok=ok_empty()),
    'setlkw': dict(body='LkIn', call='setlkw', args=['cx', INO, 'fh_of::<F>(a.fh)', 'a.owner', 'lock_of(a.lk)', 'a.lk_flags'], ok=ok_empty()),
    'access': dict(body='AccessIn', call='access', args=['cx', INO, 'a.mask'], ok=ok_empty()),
    'bmap': dict(body='BmapIn', call='bmap', args=['cx', INO, 'a.block', 'a.blocksize'], ok=ok_obj('BmapOut { block: v }')),
    'poll': dict(body='PollIn', call='poll', args=['cx', INO, 'fh_of::<F>(a.fh)', 'fh_of::<F>(a.kh)', 'a.flags', 'a.events'],
                 ok=ok_obj('PollOut { revents: v, padding: 0 }')),
    'fallocate': dict(body='FallocateIn', call='fallocate', args=['cx', INO, 'fh_of::<F>(a.fh)', 'a.mode', 'a.offset', 'a.length'], ok=ok_empty()),
    'lseek': dict(body='LseekIn', call='lseek', args=['cx', INO, 'fh_of::<F>(a.fh)', 'a.offset', 'a.whence'], ok=ok_obj('LseekOut { offset: v }')),
    'link': dict(body='LinkIn', name=True, call='link', args=['cx', 'ino_of::<F>(a.oldnodeid)', INO, 'nm'], ok=ok_obj('entry_out(v)')),
}


CUSTOM_SPECS = r"""
// ---- two NUL-terminated strings one after the other (symlink, rename): ServerUtil::extract_two_cstrs
#[verifier::opaque]
pub open spec fn two_ok(s: Seq<u8>) -> bool { has_nul(s) && first_nul(s) + 1 < s.len() && has_nul(s.subrange(first_nul(s) + 1, s.len() as int)) }
#[verifier::opaque]
pub open spec fn second_of(s: Seq<u8>) -> Seq<u8> { cstr_of(s.subrange(first_nul(s) + 1, s.len() as int)) }
// lookup: the name is the whole body; before ABI 7.4 a zero inode means ENOENT
pub open spec fn wf_lookup(hd: InHeader, rem: Seq<u8>) -> bool { let nlen = hd.len as int - 40; nlen >= 0 && rem.len() >= nlen && has_nul(rem.subrange(0, nlen)) }
pub open spec fn want_lookup<F: FileSystem>(fs: &F, hd: InHeader, cx: Context, rem: Seq<u8>) -> bool {
    fs.allowed_lookup(cx, ino_of::<F>(hd.nodeid), cstr_of(rem.subrange(0, hd.len as int - 40)))
}
pub open spec fn reply_lookup<F: FileSystem>(fs: &F, hd: InHeader, rem: Seq<u8>, minor: u32, b: Seq<u8>) -> bool {
    if wf_lookup(hd, rem) {
        b == (match fs.res_entry() {
            Ok(v) => if minor < 4 && v.inode == 0 { errno_reply(hd.unique, 2) } else { ok_reply(hd.unique, entry_out(v).sbytes(), Seq::<u8>::empty()) },
            Err(e) => err_reply(hd.unique, e) })
    } else { is_err_reply(hd.unique, b) }
}
// symlink: name, then link target
pub open spec fn wf_symlink(hd: InHeader, rem: Seq<u8>) -> bool { let nlen = hd.len as int - 40; nlen >= 0 && rem.len() >= nlen && two_ok(rem.subrange(0, nlen)) }
pub open spec fn want_symlink<F: FileSystem>(fs: &F, hd: InHeader, cx: Context, rem: Seq<u8>) -> bool {
    let body = rem.subrange(0, hd.len as int - 40);
    fs.allowed_symlink(cx, second_of(body), ino_of::<F>(hd.nodeid), cstr_of(body))
}
pub open spec fn reply_symlink<F: FileSystem>(fs: &F, hd: InHeader, rem: Seq<u8>, b: Seq<u8>) -> bool {
    if wf_symlink(hd, rem) {
        b == (match fs.res_entry() { Ok(v) => ok_reply(hd.unique, entry_out(v).sbytes(), Seq::<u8>::empty()), Err(e) => err_reply(hd.unique, e) })
    } else { is_err_reply(hd.unique, b) }
}
// rename / rename2: old name, new name; rename2 passes only the three defined flag bits
pub open spec fn wf_do_rename(hd: InHeader, rem: Seq<u8>, sub: int) -> bool { let nlen = hd.len as int - 40 - sub; nlen >= 0 && rem.len() >= nlen && two_ok(rem.subrange(0, nlen)) }
pub open spec fn want_do_rename<F: FileSystem>(fs: &F, hd: InHeader, cx: Context, rem: Seq<u8>, sub: int, newdir: u64, flags: u32) -> bool {
    let body = rem.subrange(0, hd.len as int - 40 - sub);
    fs.allowed_rename(cx, ino_of::<F>(hd.nodeid), cstr_of(body), ino_of::<F>(newdir), second_of(body), flags)
}
pub open spec fn reply_do_rename<F: FileSystem>(fs: &F, hd: InHeader, rem: Seq<u8>, sub: int, b: Seq<u8>) -> bool {
    if wf_do_rename(hd, rem, sub) {
        b == (match fs.res_unit() { Ok(v) => ok_reply(hd.unique, Seq::<u8>::empty(), Seq::<u8>::empty()), Err(e) => err_reply(hd.unique, e) })
    } else { is_err_reply(hd.unique, b) }
}
pub open spec fn wf_rename(hd: InHeader, rem: Seq<u8>) -> bool { rem.len() >= 8 && wf_do_rename(hd, rem.skip(8), 8) }
pub open spec fn want_rename<F: FileSystem>(fs: &F, hd: InHeader, cx: Context, rem: Seq<u8>) -> bool {
    let a = <RenameIn as ByteValued>::sdecode(rem.subrange(0, 8)); want_do_rename(fs, hd, cx, rem.skip(8), 8, a.newdir, 0)
}
pub open spec fn reply_rename<F: FileSystem>(fs: &F, hd: InHeader, rem: Seq<u8>, b: Seq<u8>) -> bool {
    if rem.len() >= 8 { reply_do_rename(fs, hd, rem.skip(8), 8, b) } else { is_err_reply(hd.unique, b) }
}
pub open spec fn wf_rename2(hd: InHeader, rem: Seq<u8>) -> bool { rem.len() >= 16 && wf_do_rename(hd, rem.skip(16), 16) }
pub open spec fn want_rename2<F: FileSystem>(fs: &F, hd: InHeader, cx: Context, rem: Seq<u8>) -> bool {
    let a = <Rename2In as ByteValued>::sdecode(rem.subrange(0, 16));
    want_do_rename(fs, hd, cx, rem.skip(16), 16, a.newdir, a.flags & (1u32 | 2u32 | 4u32))      // RENAME_NOREPLACE | RENAME_EXCHANGE | RENAME_WHITEOUT
}
pub open spec fn reply_rename2<F: FileSystem>(fs: &F, hd: InHeader, rem: Seq<u8>, b: Seq<u8>) -> bool {
    if rem.len() >= 16 { reply_do_rename(fs, hd, rem.skip(16), 16, b) } else { is_err_reply(hd.unique, b) }
}
// create: fuse_create_in + name; reply = fuse_entry_out followed by fuse_open_out
pub open spec fn wf_create(hd: InHeader, rem: Seq<u8>) -> bool { let nlen = hd.len as int - 40 - 16; rem.len() >= 16 && nlen >= 0 && rem.len() >= 16 + nlen && has_nul(rem.subrange(16, 16 + nlen)) }
pub open spec fn want_create<F: FileSystem>(fs: &F, hd: InHeader, cx: Context, rem: Seq<u8>) -> bool {
    let a = <CreateIn as ByteValued>::sdecode(rem.subrange(0, 16));
    fs.allowed_create(cx, ino_of::<F>(hd.nodeid), cstr_of(rem.subrange(16, 16 + (hd.len as int - 40 - 16))), a)
}
pub open spec fn reply_create<F: FileSystem>(fs: &F, hd: InHeader, rem: Seq<u8>, b: Seq<u8>) -> bool {
    if wf_create(hd, rem) {
        b == (match fs.res_create() {
            Ok(v) => ok_reply(hd.unique, entry_out(v.0).sbytes(),
                              (OpenOut { fh: opt_fh_u64::<F>(v.1), open_flags: v.2.bits, passthrough: (match v.3 { Some(p) => p, None => 0u32 }) }).sbytes()),
            Err(e) => err_reply(hd.unique, e) })
    } else { is_err_reply(hd.unique, b) }
}
// forget: no reply, whatever the content
pub open spec fn wf_forget(hd: InHeader, rem: Seq<u8>) -> bool { rem.len() >= 8 }
pub open spec fn want_forget<F: FileSystem>(fs: &F, hd: InHeader, cx: Context, rem: Seq<u8>) -> bool {
    let a = <ForgetIn as ByteValued>::sdecode(rem.subrange(0, 8)); fs.allowed_forget(cx, ino_of::<F>(hd.nodeid), a.nlookup)
}
pub open spec fn reply_forget<F: FileSystem>(fs: &F, hd: InHeader, rem: Seq<u8>, b: Seq<u8>) -> bool { false }
// notify_reply: replies only with an error
pub open spec fn reply_notify_reply<F: FileSystem>(fs: &F, hd: InHeader, rem: Seq<u8>, b: Seq<u8>) -> bool {
    match fs.res_unit() { Ok(v) => false, Err(e) => b == err_reply(hd.unique, e) }
}
pub open spec fn reply_destroy<F: FileSystem>(fs: &F, hd: InHeader, rem: Seq<u8>, b: Seq<u8>) -> bool { b == ok_reply(hd.unique, Seq::<u8>::empty(), Seq::<u8>::empty()) }
// write: optional lock owner follows WRITE_LOCKOWNER, delayed write follows WRITE_CACHE (both in write_flags = fuse_flags)
pub open spec fn wf_write(hd: InHeader, rem: Seq<u8>) -> bool { rem.len() >= 40 }
pub open spec fn want_write<F: FileSystem>(fs: &F, hd: InHeader, cx: Context, rem: Seq<u8>) -> bool {
    let a = <WriteIn as ByteValued>::sdecode(rem.subrange(0, 40));
    fs.allowed_write(cx, ino_of::<F>(hd.nodeid), fh_of::<F>(a.fh), a.size, a.offset,
                     (if a.fuse_flags & WRITE_LOCKOWNER != 0 { Some(a.lock_owner) } else { None::<u64> }), a.fuse_flags & WRITE_CACHE != 0, a.flags, a.fuse_flags)
}
pub open spec fn reply_write<F: FileSystem>(fs: &F, hd: InHeader, rem: Seq<u8>, b: Seq<u8>) -> bool {
    if wf_write(hd, rem) {
        b == (match fs.res_count() { Ok(v) => ok_reply(hd.unique, (WriteOut { size: v as u32, padding: 0 }).sbytes(), Seq::<u8>::empty()), Err(e) => err_reply(hd.unique, e) })
    } else { is_err_reply(hd.unique, b) }
}
// read: optional lock owner follows READ_LOCKOWNER; "read replies carry exactly the bytes produced"
pub open spec fn wf_read(hd: InHeader, rem: Seq<u8>) -> bool { rem.len() >= 40 }
pub open spec fn want_read<F: FileSystem>(fs: &F, hd: InHeader, cx: Context, rem: Seq<u8>) -> bool {
    let a = <ReadIn as ByteValued>::sdecode(rem.subrange(0, 40));
    fs.allowed_read(cx, ino_of::<F>(hd.nodeid), fh_of::<F>(a.fh), a.size, a.offset,
                    (if a.read_flags & READ_LOCKOWNER != 0 { Some(a.lock_owner) } else { None::<u64> }), a.flags)
}
pub open spec fn reply_read<F: FileSystem>(fs: &F, hd: InHeader, rem: Seq<u8>, b: Seq<u8>) -> bool {
    if wf_read(hd, rem) {
        b == (match fs.res_count() { Ok(v) => hdr_bytes(16 + fs.res_read_data().len(), 0, hd.unique) + fs.res_read_data(), Err(e) => err_reply(hd.unique, e) })
    } else { is_err_reply(hd.unique, b) }
}
"""

SIZES = {}
INFO = {}


def wf_and_lets(op, d):
    """-> (let-prefix, wf expression) over hd, rem"""
    body = d.get('body')
    sz = SIZES[body] if body else 0
    lets = ''
    wf = []
    if body:
        lets += 'let a = <%s as ByteValued>::sdecode(rem.subrange(0, %d)); ' % (body, sz)
        wf.append('rem.len() >= %d' % sz)
    if d.get('name'):
        lets += 'let nlen = hd.len as int - 40 - %d; let nm = cstr_of(rem.subrange(%d, %d + nlen)); ' % (sz, sz, sz)
        wf.append('nlen >= 0 && rem.len() >= %d + nlen && has_nul(rem.subrange(%d, %d + nlen))' % (sz, sz, sz))
    return lets, (' && '.join(wf) or 'true')


def spec_fns(op, d):
    lets, wf = wf_and_lets(op, d)
    call = d['call']
    txt = '''
// ---- %(op)s
pub open spec fn wf_%(op)s(hd: InHeader, rem: Seq<u8>) -> bool { %(lets)s %(wf)s }
pub open spec fn want_%(op)s<F: FileSystem>(fs: &F, hd: InHeader, cx: Context, rem: Seq<u8>) -> bool {
    %(lets)s fs.allowed_%(call)s(%(args)s)
}
pub open spec fn reply_%(op)s<F: FileSystem>(fs: &F, hd: InHeader, rem: Seq<u8>, b: Seq<u8>) -> bool {
    if wf_%(op)s(hd, rem) {
        b == (match fs.%(resfn)s() { Ok(v) => %(ok)s, Err(e) => err_reply(hd.unique, e) })
    } else { is_err_reply(hd.unique, b) }
}''' % dict(op=op, lets=lets, wf=wf, call=call, args=', '.join(d['args']), ok=d['ok'], resfn=INFO[call]['resfn'])
    return txt


def handler_contract(op, extra_req=(), noreply=False, reply_extra='', want=True):
    req = [
        'ctx.w.fresh()', 'uniq(ctx.w.id@) == ctx.in_header.unique', 'convs_ok::<F>()', 'self.fs.touch_ok()',
        'forall|u: u32, g: u32| self.fs.ids_ok(u, g)',
        'forall|b: Seq<u8>| #[trigger] emit_ok(ctx.w.id@, b) <==> reply_%s(&self.fs, ctx.in_header, ctx.r.rem@, %sb) // [C03.%s.reply]' % (op, reply_extra, op),
    ]
    if want:
        req.insert(5, 'wf_%s(ctx.in_header, ctx.r.rem@) ==> want_%s(&self.fs, ctx.in_header, ctx.context, ctx.r.rem@) // [C02.%s.args]' % (op, op, op))
    if not noreply:
        req.insert(2, 'may_reply(ctx.w.id@)')
    return req + list(extra_req)


NAME_ERR_SPLICE = None


def unit(root='/repo'):
    notes = []
    trait_txt, info, _ = fsmodel.gen_trait(root, notes, server=True)
    INFO.clear()
    INFO.update(info)
    items = []
    items += wiremodel.items(root, [ABI, VABI], ['FileLock'])     # emitted as WireFileLock below
    # rename the wire FileLock (abi) to WireFileLock: src/api/filesystem/mod.rs has its own FileLock
    for it in items:
        if isinstance(it, Copy):
            it.subst.append(('pub struct FileLock', 'pub struct WireFileLock'))
        elif isinstance(it, Raw):
            it.text = it.text.replace('FileLock', 'WireFileLock')
    w = wiremodel.items(root, [ABI, VABI], WIRE)
    for it in w:
        if isinstance(it, Copy) and ('LkIn' in it.regex or 'LkOut' in it.regex):
            it.subst.append(('FileLock', 'WireFileLock'))
        elif isinstance(it, Raw) and ('zero_LkIn' in it.text or 'zero_LkOut' in it.text):
            it.text = it.text.replace('zero_FileLock', 'zero_WireFileLock').replace('<FileLock as Default>', '<WireFileLock as Default>')
    items += w
    cache = {}
    for n in WIRE:
        SIZES[n] = wiremodel.layout(root, [ABI, VABI], n, cache)[0]
    items += wiremodel.items(root, [VABI], ['RemovemappingOne'])
    for c in ['KERNEL_VERSION', 'KERNEL_MINOR_VERSION', 'KERNEL_MINOR_VERSION_INIT_OUT_SIZE', 'KERNEL_MINOR_VERSION_INIT_22_OUT_SIZE',
              'KERNEL_MINOR_VERSION_LOOKUP_NEGATIVE_ENTRY_ZERO', 'RELEASE_FLUSH', 'RELEASE_FLOCK_UNLOCK', 'GETATTR_FH', 'WRITE_CACHE',
              'WRITE_LOCKOWNER', 'READ_LOCKOWNER', 'FATTR_FH', 'FUSE_COMPAT_INIT_OUT_SIZE', 'FUSE_COMPAT_22_INIT_OUT_SIZE']:
        items.append(Copy(ABI, r'(?m)^(?:pub )?const %s\s*:' % c, make_pub=True))
    items += flagsmodel.items(root, ABI, 'SetattrValid')
    items += flagsmodel.items(root, ABI, 'OpenOptions')
    items += flagsmodel.items(root, ABI, 'FsOptions')
    items += [
        Copy(ABI, r'pub enum Opcode\b', prefix='#[repr(u32)]\n#[derive(Clone, Copy)]'),
        Copy(FSMOD, r'pub struct Context\b', prefix='#[derive(Clone, Copy)]', subst=[('libc::uid_t', 'u32'), ('libc::gid_t', 'u32'), ('libc::pid_t', 'i32')]),
        Copy(FSMOD, r'pub struct Entry\b', prefix='#[derive(Clone, Copy)]'),
        Copy(FSMOD, r'pub struct DirEntry\b', prefix='#[derive(Clone, Copy)]', subst=[('ino64_t', 'u64')]),
        Copy(FSMOD, r'pub struct FileLock\b', prefix='#[derive(Clone, Copy)]'),
        Copy(FSMOD, r'pub struct IoctlData\b'),
        Copy(FSMOD, r'pub enum GetxattrReply\b'),
        Copy(FSMOD, r'pub enum ListxattrReply\b'),
        Copy(LIB, r'pub enum Error\b'),
        Copy(SMOD, r'pub const MAX_BUFFER_SIZE\b'), Copy(SMOD, r'const MIN_READ_BUFFER\b'), Copy(SMOD, r'const BUFFER_HEADER_SIZE\b'),
        Copy(SMOD, r'const DIRENT_PADDING\b', subst=[('const DIRENT_PADDING', 'exec const DIRENT_PADDING')]),
        Copy(SMOD, r'pub const MAX_REQ_PAGES\b'),
        Copy(SMOD, r'pub struct ServerVersion\b', prefix='#[derive(Clone)]'),
        Copy(SMOD, r'pub struct InitParams\b'),
        Copy(SMOD, r'pub struct Server<F', subst=[('FileSystem + Sync', 'FileSystem')]),
        Copy(SMOD, r"struct SrvContext<'a, F", subst=[('S: BitmapSlice = ()', 'S: BitmapSlice')]),
        Copy(SMOD, r"struct ZcReader<'a", subst=[('S: BitmapSlice = ()', 'S: BitmapSlice')]),
        Copy(SMOD, r"struct ZcWriter<'a", subst=[('S: BitmapSlice = ()', 'S: BitmapSlice')]),
        Raw(trait_txt),
        Raw('''
impl<'a, S: BitmapSlice> ZeroCopyWriter for ZcWriter<'a, S> {
    open spec fn zw_buf(&self) -> Seq<u8> { self.0.buf@ }
    open spec fn zw_rest(&self) -> (int, nat, bool, bool, Seq<Seq<u8>>) { (self.0.id@, self.0.cap@, self.0.buffered@, self.0.primary@, self.0.emitted@) }
}
impl<'a, S: BitmapSlice> ZeroCopyReader for ZcReader<'a, S> { }
'''),
    ]
    items.append(Raw('\n'.join(spec_fns(op, d) for op, d in OPS.items())))
    items.append(Raw(CUSTOM_SPECS))
    # ---- conversions and small helpers (real text)
    items += [
        Fn(LIB, None, 'encode_io_error_kind', ensures=['r == spec_kind_errno(kind) // [C03.errno.kind]', '0 < r < 4096'], props=['C03'],
           splices=[('^', 'after', 'proof { assert(1i32 | 13i32 == 13i32) by (bit_vector); }')]),
        Group('impl From<&InHeader> for Context {', [
            Fn(FSMOD, 'impl From<&fuse::InHeader> for Context', 'from', sig_subst=[('fuse::InHeader', 'InHeader')],
               ensures=['r == (Context { uid: source.uid, gid: source.gid, pid: source.pid as i32 }) // [C02.ctx.header]'], props=['C02'])]),
        Group('impl Attr {', [Fn(ABI, 'impl Attr', 'with_flags', ensures=['r == attr_of(st, flags) // [C03.attr.fields]'], props=['C03'])]),
        Group('impl From<stat64> for Attr {', [Fn(ABI, 'impl From<stat64> for Attr', 'from', ensures=['r == attr_of(st, 0)'], props=['C03'])]),
        Group('impl From<Entry> for EntryOut {', [
            Fn(FSMOD, 'impl From<Entry> for fuse::EntryOut', 'from', sig_subst=[('fuse::EntryOut', 'EntryOut')],
               ensures=['r == entry_out(entry) // [C03.entry.fields]'], props=['C03'])]),
        Group('impl From<WireFileLock> for FileLock {', [
            Fn(FSMOD, 'impl From<fuse::FileLock> for FileLock', 'from', sig_subst=[('fuse::FileLock', 'WireFileLock')],
               ensures=['r == lock_of(l) // [C02.lock.fields]'], props=['C02'])]),
        Group('impl From<FileLock> for WireFileLock {', [
            Fn(FSMOD, 'impl From<FileLock> for fuse::FileLock', 'from', sig_subst=[('fuse::FileLock', 'WireFileLock')],
               body_subst=[('fuse::FileLock {', 'WireFileLock {')],
               ensures=['r == wire_lock_of(l) // [C03.lock.fields]'], props=['C03'])]),
    ]
    # ---- SrvContext helpers
    FRESHW = 'old(self).w.fresh()'
    ctxa = [
        Fn(SMOD, CTXA, 'new', requires=[], ensures=['r.in_header == in_header', 'r.r == r_in', 'r.w == w',
                                                    'r.context == (Context { uid: in_header.uid, gid: in_header.gid, pid: in_header.pid as i32 }) // [C02.ctx.new]'],
           sig_subst=[("r: Reader<'a, S>", "r_in: Reader<'a, S>")], body_subst=[('            r,\n', '            r: r_in,\n')], props=['C02']),
        Fn(SMOD, CTXA, 'context', ensures=['*r == self.context'], props=['C02']),
        Fn(SMOD, CTXA, 'unique', ensures=['r == self.in_header.unique'], props=['C01']),
        Fn(SMOD, CTXA, 'nodeid', requires=['convs_ok::<F>()'], ensures=['r == ino_of::<F>(self.in_header.nodeid) // [C02.nodeid]'], props=['C02']),
        Fn(SMOD, CTXA, 'take_reader', ensures=['r == old(self).r', 'final(self).w == old(self).w', 'final(self).in_header == old(self).in_header',
                                               'final(self).context == old(self).context'], props=['C02']),
    ]
    items.append(Group("impl<'a, F: FileSystem, S: BitmapSlice> SrvContext<'a, F, S> {", ctxa))
    REPLY_COMMON = ['old(self).w.fresh()', 'uniq(old(self).w.id@) == old(self).in_header.unique', 'may_reply(old(self).w.id@)']
    FRAME = ['final(self).in_header == old(self).in_header', 'final(self).context == old(self).context', 'final(self).r == old(self).r',
             'final(self).w.frame_same(&old(self).w)']
    ctxb = [
        Fn(SYNC, CTX, 'reply_ok',
           requires=REPLY_COMMON + ['T::ssize() < 0x1_0000',
                                    'emit_ok(old(self).w.id@, ok_reply(old(self).in_header.unique, (match out { Some(v) => v.sbytes(), None => Seq::<u8>::empty() }), (match data { Some(v) => v@, None => Seq::<u8>::empty() }))) // [C03.reply_ok.bytes]'],
           ensures=FRAME + ['''({ let m = ok_reply(old(self).in_header.unique, (match out { Some(v) => v.sbytes(), None => Seq::<u8>::empty() }), (match data { Some(v) => v@, None => Seq::<u8>::empty() }));
             match r { Ok(n) => final(self).w.emitted@.len() == 1 && final(self).w.emitted@[0] == m && n == m.len(), Err(_) => final(self).w.emitted@.len() == 0 } }) // [C01.reply_ok.one]'''],
           splices=[
                    ('^', 'after', 'broadcast use axiom_sbytes_len, axiom_decode_encode, lemma_ios_concat;'),
                    ('|v|', 'closure', '|v: &T| -> (s: &[u8]) ensures s@ == v.sbytes(), s@.len() == T::ssize()'),
                    ('let data3 = data.unwrap_or(&[]);', 'after',
                     'proof { axiom_slice_len(data2); axiom_slice_len(data3); if 16 + data2@.len() + data3@.len() <= 0xffff_ffff { lemma_ok_reply_frame(self.in_header.unique, data2@, data3@); } }'),
                    ('            unique: self.unique(),\n        };', 'after',
                     '''proof {
            reveal(ok_reply);
            let m = ok_reply(self.in_header.unique, data2@, data3@);
            assert(m =~= header.sbytes() + data2@ + data3@);
            if data2@.len() == 0 { assert(m =~= header.sbytes() + data3@); }
            if data3@.len() == 0 { assert(m =~= header.sbytes() + data2@); }
            if data2@.len() == 0 && data3@.len() == 0 { assert(m =~= header.sbytes()); }
        }''')],
           props=['C01'], canary=True),
        Fn(SYNC, CTX, 'do_reply_error',
           requires=['old(self).w.primary@ && old(self).w.emitted@.len() == 0 && old(self).w.buf@.len() == 0 && old(self).w.cap@ <= MAX_REPLY_CAP',
                     'uniq(old(self).w.id@) == old(self).in_header.unique', 'may_reply(old(self).w.id@)', 'err_ok(err)',
                     'emit_ok(old(self).w.id@, err_reply(old(self).in_header.unique, err)) // [C03.reply_error.bytes]'],
           ensures=FRAME + ['''match r { Ok(n) => final(self).w.emitted@.len() == 1 && final(self).w.emitted@[0] == err_reply(old(self).in_header.unique, err) && n == 16, Err(_) => final(self).w.emitted@.len() == 0 } // [C01.reply_error.one]'''],
           splices=[('^', 'after', 'broadcast use axiom_sbytes_len, axiom_decode_encode; proof { lemma_err_reply_frame(self.in_header.unique, err); reveal(errno_reply); }'),
                    ('.unwrap_or_else(|| encode_io_error_kind(err.kind()))', 'replace',
                     '.unwrap_or_else(|| -> (k: i32) ensures k == spec_kind_errno(err.skind()) { encode_io_error_kind(err.kind()) })'),
                    ('|_v|', 'closure', '|_v: usize| -> (q: usize) ensures q == 16')],
           props=['C01'], canary=True),
        Fn(SYNC, CTX, 'reply_error',
           requires=['old(self).w.primary@ && old(self).w.emitted@.len() == 0 && old(self).w.buf@.len() == 0 && old(self).w.cap@ <= MAX_REPLY_CAP',
                     'uniq(old(self).w.id@) == old(self).in_header.unique', 'may_reply(old(self).w.id@)', 'err_ok(err)',
                     'emit_ok(old(self).w.id@, err_reply(old(self).in_header.unique, err)) // [C03.reply_error.bytes]'],
           ensures=FRAME + ['match r { Ok(n) => final(self).w.emitted@.len() == 1 && final(self).w.emitted@[0] == err_reply(old(self).in_header.unique, err) && n == 16, Err(_) => final(self).w.emitted@.len() == 0 }'],
           props=['C01']),
        Fn(SYNC, CTX, 'reply_error_explicit',
           requires=['old(self).w.primary@ && old(self).w.emitted@.len() == 0 && old(self).w.buf@.len() == 0 && old(self).w.cap@ <= MAX_REPLY_CAP',
                     'uniq(old(self).w.id@) == old(self).in_header.unique', 'may_reply(old(self).w.id@)', 'err_ok(err)',
                     'emit_ok(old(self).w.id@, err_reply(old(self).in_header.unique, err)) // [C03.reply_error.bytes]'],
           ensures=FRAME + ['match r { Ok(n) => final(self).w.emitted@.len() == 1 && final(self).w.emitted@[0] == err_reply(old(self).in_header.unique, err) && n == 16, Err(_) => final(self).w.emitted@.len() == 0 }'],
           props=['C01']),
        Fn(SYNC, CTX, 'handle_attr_result',
           requires=REPLY_COMMON + ['result is Err ==> err_ok(result->Err_0)',
                                    'emit_ok(old(self).w.id@, (match result { Ok(v) => ok_reply(old(self).in_header.unique, attr_out(v.0, v.1).sbytes(), Seq::<u8>::empty()), Err(e) => err_reply(old(self).in_header.unique, e) })) // [C03.attr.bytes]'],
           ensures=FRAME + ['r is Ok ==> final(self).w.emitted@.len() == 1'],
           props=['C03']),
    ]
    items.append(Raw(LEMMAS))
    items.append(Group("impl<'a, F: FileSystem, S: BitmapSlice> SrvContext<'a, F, S> {", ctxb))
    # ---- handlers
    hs = []
    only = os.environ.get('SRV_ONLY')
    for op, d in OPS.items():
        if only and op not in only.split(','):
            continue
        spl = [('^', 'after', 'broadcast use axiom_sbytes_len, lemma_err_reply_frame; let ghost rem0 = ctx.r.rem@; let ghost hd0 = ctx.in_header;')]
        if d.get('name'):
            sz = SIZES[d['body']] if d.get('body') else 0
            spl.append(('ServerUtil::get_message_body(&mut ctx.r, &ctx.in_header, %s)?;' % ('size_of::<%s>()' % d['body'] if d.get('body') else '0'), 'after',
                        'proof { assert(buf@ =~= rem0.subrange(%d, %d + (hd0.len as int - 40 - %d))); }' % (sz, sz, sz)))
        spl += HANDLER_SPLICES.get(op, [])
        hs.append(Fn(SYNC, SRV, op, requires=handler_contract(op), ensures=[], splices=spl, props=['C01'], canary=True))
    E0 = ('^', 'after', 'broadcast use axiom_sbytes_len, lemma_err_reply_frame; let ghost rem0 = ctx.r.rem@; let ghost hd0 = ctx.in_header;')

    def name_hint(szexpr, sz):
        return ('ServerUtil::get_message_body(&mut ctx.r, &ctx.in_header, %s)?;' % szexpr, 'after',
                'proof { assert(buf@ =~= rem0.subrange(%d, %d + (hd0.len as int - 40 - %d))); }' % (sz, sz, sz))
    custom = [
        Fn(SYNC, SRV, 'lookup', requires=handler_contract('lookup', reply_extra='self.vers.cur().minor, '), splices=[E0, name_hint('0', 0), ('^', 'after', 'proof { reveal(errno_reply); }')],
           props=['C01'], canary=True),
        Fn(SYNC, SRV, 'symlink', requires=handler_contract('symlink'), splices=[E0, name_hint('0', 0)], props=['C01'], canary=True),
        Fn(SYNC, SRV, 'do_rename',
           requires=['ctx.w.fresh()', 'uniq(ctx.w.id@) == ctx.in_header.unique', 'may_reply(ctx.w.id@)', 'convs_ok::<F>()', 'self.fs.touch_ok()',
                     'wf_do_rename(ctx.in_header, ctx.r.rem@, msg_size as int) ==> want_do_rename(&self.fs, ctx.in_header, ctx.context, ctx.r.rem@, msg_size as int, newdir, flags) // [C02.rename.args]',
                     'forall|b: Seq<u8>| #[trigger] emit_ok(ctx.w.id@, b) <==> reply_do_rename(&self.fs, ctx.in_header, ctx.r.rem@, msg_size as int, b) // [C03.rename.reply]'],
           splices=[E0, ('ServerUtil::get_message_body(&mut ctx.r, &ctx.in_header, msg_size)?;', 'after',
                         'proof { assert(buf@ =~= rem0.subrange(0, hd0.len as int - 40 - msg_size as int)); }')],
           props=['C01'], canary=True),
        Fn(SYNC, SRV, 'rename', requires=handler_contract('rename'), splices=[E0], props=['C01'], canary=True),
        Fn(SYNC, SRV, 'rename2', requires=handler_contract('rename2'), splices=[E0, ('^', 'after', 'proof { assert(forall|x: u32| x & (2u32 | 1u32 | 4u32) == x & (1u32 | 2u32 | 4u32)) by (bit_vector); }')], props=['C01'], canary=True),
        Fn(SYNC, SRV, 'create', requires=handler_contract('create'), splices=[E0, name_hint('size_of::<CreateIn>()', 16), HCLOSURE], props=['C01'], canary=True),
        Fn(SYNC, SRV, 'forget', requires=handler_contract('forget', noreply=True), splices=[E0], props=['C01'], canary=True),
        Fn(SYNC, SRV, 'interrupt', props=['C01']),
        Fn(SYNC, SRV, 'destroy', requires=['ctx.w.fresh()', 'uniq(ctx.w.id@) == ctx.in_header.unique', 'may_reply(ctx.w.id@)', 'self.fs.touch_ok()', 'self.fs.allowed_destroy() // [C02.destroy.args]',
                                            'forall|b: Seq<u8>| #[trigger] emit_ok(ctx.w.id@, b) <==> reply_destroy(&self.fs, ctx.in_header, ctx.r.rem@, b) // [C03.destroy.reply]'],
           splices=[E0], props=['C01']),
        Fn(SYNC, SRV, 'notify_reply', requires=['ctx.w.fresh()', 'uniq(ctx.w.id@) == ctx.in_header.unique', 'may_reply(ctx.w.id@)', 'self.fs.touch_ok()', 'self.fs.allowed_notify_reply() // [C02.notify_reply.args]',
                                                 'forall|b: Seq<u8>| #[trigger] emit_ok(ctx.w.id@, b) <==> reply_notify_reply(&self.fs, ctx.in_header, ctx.r.rem@, b) // [C03.notify_reply.reply]'],
           splices=[E0], props=['C01'], canary=True),
        Fn(SYNC, SRV, 'write', requires=handler_contract('write'), splices=[E0], props=['C01'], canary=True),
        Fn(SYNC, SRV, 'read', requires=handler_contract('read'),
           splices=[E0, ('let out = OutHeader {', 'before',
                         'proof { assert(data_writer.0.buf@ =~= self.fs.res_read_data()); assert(count == self.fs.res_read_data().len()); assert(count <= MAX_REPLY_CAP); }'),
                    ('ctx.w\n                    .commit(Some(&data_writer.0))', 'before',
                     'proof { lemma_read_reply_frame(ctx.in_header.unique, self.fs.res_read_data()); assert(commit_bytes(&ctx.w, Some(&data_writer.0)) =~= hdr_bytes(16 + self.fs.res_read_data().len(), 0, ctx.in_header.unique) + self.fs.res_read_data()); }')],
           props=['C01'], canary=True),
    ]
    if only:
        custom = [c for c in custom if c.name in only.split(',')]
    items.append(Group('impl<F: FileSystem> Server<F> {', hs + custom))
    return Unit('server', items, preludes=['base.rs', 'stdmodel.rs', 'transport.rs', 'server.rs'],
                generic_tags={'cap': ['C02'], 'touch': ['C02'], 'ids': ['C02'], 'emit': ['C03'], 'frame': ['C01'], 'noreply': ['C01'],
                              'once': ['C01'], 'assert': ['C01']},
                notes='\n'.join(notes))


HCLOSURE = ('|v|', 'closure', '|v: F::Handle| -> (q: u64) ensures q == fh_u64::<F>(v)')
HANDLER_SPLICES = {
    'open': [HCLOSURE], 'opendir': [HCLOSURE],
}

LEMMAS = r'''
// ---- lemmas about the reply encodings (checked by Verus)
pub proof fn lemma_ok_reply_frame(u: u64, d2: Seq<u8>, d3: Seq<u8>)
    requires 16 + d2.len() + d3.len() <= 0xffff_ffff
    ensures frame_ok(u, ok_reply(u, d2, d3)), ok_reply(u, d2, d3).len() == 16 + d2.len() + d3.len(),   // [C01.frame.ok_reply]
            ok_reply(u, d2, d3) =~= hdr_bytes(16 + d2.len() + d3.len(), 0, u) + (d2 + d3),
{
    broadcast use axiom_sbytes_len, axiom_decode_encode;
    reveal(ok_reply); reveal(frame_ok);
    let h = OutHeader { len: (16 + d2.len() + d3.len()) as u32, error: 0, unique: u };
    let m = ok_reply(u, d2, d3);
    assert(h.sbytes().len() == 16);
    assert(m.subrange(0, 16) =~= h.sbytes());
}
pub proof fn lemma_read_reply_frame(u: u64, data: Seq<u8>)
    requires 16 + data.len() <= 0xffff_ffff
    ensures frame_ok(u, hdr_bytes(16 + data.len(), 0, u) + data), (hdr_bytes(16 + data.len(), 0, u) + data).len() == 16 + data.len(),   // [C01.frame.read_reply]
{
    broadcast use axiom_sbytes_len, axiom_decode_encode;
    reveal(frame_ok);
    let h = OutHeader { len: (16 + data.len()) as u32, error: 0, unique: u };
    assert(h.sbytes().len() == 16);
    assert((h.sbytes() + data).subrange(0, 16) =~= h.sbytes());
}
pub broadcast proof fn lemma_ios_concat(s: Seq<IoSlice<'_>>)
    ensures s.len() == 2 ==> #[trigger] ios_concat(s) =~= s[0].b@ + s[1].b@,
            s.len() == 3 ==> ios_concat(s) =~= s[0].b@ + s[1].b@ + s[2].b@,
{
    reveal_with_fuel(ios_concat, 4);
    if s.len() == 2 { assert(s.skip(1).skip(1).len() == 0); assert(s.skip(1)[0] == s[1]); }
    if s.len() == 3 { assert(s.skip(1).skip(1).skip(1).len() == 0); assert(s.skip(1)[0] == s[1]); assert(s.skip(1).skip(1)[0] == s[2]); }
}
pub broadcast proof fn lemma_err_reply_frame(u: u64, e: io::Error)
    requires err_ok(e)
    ensures frame_ok(u, #[trigger] err_reply(u, e)), err_reply(u, e).len() == 16, is_err_reply(u, err_reply(u, e)),   // [C01.frame.err_reply]
{
    broadcast use axiom_sbytes_len, axiom_decode_encode;
    reveal(errno_reply); reveal(frame_ok); reveal(is_err_reply);
    assert(0 < err_code(e)) by { if e.os_code() is None { } }
    let h = OutHeader { len: 16u32, error: (-err_code(e)) as i32, unique: u };
    assert(h.sbytes().len() == 16);
    assert(err_reply(u, e).subrange(0, 16) =~= h.sbytes());
}
'''
