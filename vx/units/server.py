"""Unit `server` (C01, C02, C03, C12, C16): src/api/server/{sync_io.rs,mod.rs}, src/lib.rs, src/api/filesystem/mod.rs
against the abstract transport (prelude/transport.rs) and the generated FileSystem model.

Every `reply_*` / `want_*` spec function below is written from the FUSE protocol (kernel fuse.h semantics) and the
property statements, not from the code: which wire field feeds which argument, which flag bit makes an optional
argument present, and what the reply to each opcode carries."""
import os

from vx.api import Unit, Fn, Copy, Raw, Group
from vx import fsmodel, wiremodel, flagsmodel

SYNC = 'src/api/server/sync_io.rs'
SMOD = 'src/api/server/mod.rs'
ABI = 'src/abi/fuse_abi_linux.rs'
VABI = 'src/abi/virtio_fs.rs'
FSMOD = 'src/api/filesystem/mod.rs'
LIB = 'src/lib.rs'

SRV = 'impl<F: FileSystem + Sync> Server<F>'
CTX = "impl<F: FileSystem, S: BitmapSlice> SrvContext<'_, F, S>"
CTXA = "impl<'a, F: FileSystem, S: BitmapSlice> SrvContext<'a, F, S>"

WIRE = ['NotifyInvalEntryOut', 'NotifyInvalInodeOut', 'SetupmappingIn', 'RemovemappingIn', 'Attr', 'Kstatfs', 'EntryOut', 'ForgetIn', 'ForgetOne', 'BatchForgetIn', 'GetattrIn', 'AttrOut', 'MknodIn', 'MkdirIn',
        'RenameIn', 'Rename2In', 'LinkIn', 'SetattrIn', 'OpenIn', 'CreateIn', 'OpenOut', 'ReleaseIn', 'FlushIn', 'ReadIn', 'WriteIn',
        'WriteOut', 'FsyncIn', 'SetxattrIn', 'GetxattrIn', 'GetxattrOut', 'LkIn', 'LkOut', 'AccessIn', 'InitIn', 'InitIn2', 'InitOut',
        'BmapIn', 'BmapOut', 'IoctlIn', 'IoctlOut', 'PollIn', 'PollOut', 'FallocateIn', 'InHeader', 'OutHeader', 'Dirent',
        'LseekIn', 'LseekOut']

# ---------------------------------------------------------------------------------------------------------------------
# per-opcode specification table (from the protocol).  In the expressions: hd = request header, cx = request context,
# a = the decoded fixed-size body (if any), nm = the name (bytes up to the first NUL of the variable part), v = the Ok value.
U = 'hd.unique'
INO = 'ino_of::<F>(hd.nodeid)'
EMPTY = 'Seq::<u8>::empty()'


def ok_empty():
    return 'ok_reply(%s, %s, %s)' % (U, EMPTY, EMPTY)


def ok_obj(expr):
    return 'ok_reply(%s, (%s).sbytes(), %s)' % (U, expr, EMPTY)


OPS = {
    # name: body struct, has_name, fs call, spec arguments, ok-reply
    'getattr': dict(body='GetattrIn', call='getattr',
                    args=['cx', INO, '(if a.flags & GETATTR_FH != 0 { Some(fh_of::<F>(a.fh)) } else { None::<F::Handle> })'],
                    ok=ok_obj('attr_out(v.0, v.1)')),
    'setattr': dict(body='SetattrIn', call='setattr',
                    args=['cx', INO, 'stat_no_ids(stat_of_setattr(a))', '(if a.valid & FATTR_FH != 0 { Some(fh_of::<F>(a.fh)) } else { None::<F::Handle> })',
                          'SetattrValid { bits: a.valid & SetattrValid::all_bits() }'],
                    ok=ok_obj('attr_out(v.0, v.1)')),
    'readlink': dict(body=None, call='readlink', args=['cx', INO], ok='ok_reply(%s, %s, v@)' % (U, EMPTY)),
    'mknod': dict(body='MknodIn', name=True, call='mknod', args=['cx', INO, 'nm', 'a.mode', 'a.rdev', 'a.umask'], ok=ok_obj('entry_out(v)')),
    'mkdir': dict(body='MkdirIn', name=True, call='mkdir', args=['cx', INO, 'nm', 'a.mode', 'a.umask'], ok=ok_obj('entry_out(v)')),
    'unlink': dict(body=None, name=True, call='unlink', args=['cx', INO, 'nm'], ok=ok_empty()),
    'rmdir': dict(body=None, name=True, call='rmdir', args=['cx', INO, 'nm'], ok=ok_empty()),
    'open': dict(body='OpenIn', call='open', args=['cx', INO, 'a.flags', 'a.fuse_flags'],
                 ok=ok_obj('OpenOut { fh: opt_fh_u64::<F>(v.0), open_flags: v.1.bits, passthrough: (match v.2 { Some(p) => p, None => 0u32 }) }')),
    'statfs': dict(body=None, call='statfs', args=['cx', INO], ok=ok_obj('kstatfs_of(v)')),
    'release': dict(body='ReleaseIn', call='release',
                    args=['cx', INO, 'a.flags', 'fh_of::<F>(a.fh)', 'a.release_flags & RELEASE_FLUSH != 0', 'a.release_flags & RELEASE_FLOCK_UNLOCK != 0',
                          '(if a.release_flags & RELEASE_FLUSH != 0 || a.release_flags & RELEASE_FLOCK_UNLOCK != 0 { Some(a.lock_owner) } else { None::<u64> })'],
                    ok=ok_empty()),
    'fsync': dict(body='FsyncIn', call='fsync', args=['cx', INO, 'a.fsync_flags & 1 != 0', 'fh_of::<F>(a.fh)'], ok=ok_empty()),
    'fsyncdir': dict(body='FsyncIn', call='fsyncdir', args=['cx', INO, 'a.fsync_flags & 1 != 0', 'fh_of::<F>(a.fh)'], ok=ok_empty()),
    'getxattr': dict(body='GetxattrIn', name=True, call='getxattr', args=['cx', INO, 'nm', 'a.size'],
                     ok='(match v { GetxattrReply::Value(val) => ok_reply(%s, %s, val@), GetxattrReply::Count(c) => ok_reply(%s, (GetxattrOut { size: c, padding: 0 }).sbytes(), %s) })' % (U, EMPTY, U, EMPTY)),
    'listxattr': dict(body='GetxattrIn', call='listxattr', args=['cx', INO, 'a.size'],
                      ok='(match v { ListxattrReply::Names(val) => ok_reply(%s, %s, val@), ListxattrReply::Count(c) => ok_reply(%s, (GetxattrOut { size: c, padding: 0 }).sbytes(), %s) })' % (U, EMPTY, U, EMPTY)),
    'removexattr': dict(body=None, name=True, call='removexattr', args=['cx', INO, 'nm'], ok=ok_empty()),
    'flush': dict(body='FlushIn', call='flush', args=['cx', INO, 'fh_of::<F>(a.fh)', 'a.lock_owner'], ok=ok_empty()),
    'opendir': dict(body='OpenIn', call='opendir', args=['cx', INO, 'a.flags'],
                    ok=ok_obj('OpenOut { fh: opt_fh_u64::<F>(v.0), open_flags: v.1.bits, passthrough: 0 }')),
    'releasedir': dict(body='ReleaseIn', call='releasedir', args=['cx', INO, 'a.flags', 'fh_of::<F>(a.fh)'], ok=ok_empty()),
    'getlk': dict(body='LkIn', call='getlk', args=['cx', INO, 'fh_of::<F>(a.fh)', 'a.owner', 'lock_of(a.lk)', 'a.lk_flags'],
                  ok=ok_obj('LkOut { lk: wire_lock_of(v) }')),
    'setlk': dict(body='LkIn', call='setlk', args=['cx', INO, 'fh_of::<F>(a.fh)', 'a.owner', 'lock_of(a.lk)', 'a.lk_flags'], ok=ok_empty()),
    'setlkw': dict(body='LkIn', call='setlkw', args=['cx', INO, 'fh_of::<F>(a.fh)', 'a.owner', 'lock_of(a.lk)', 'a.lk_flags'], ok=ok_empty()),
    'access': dict(body='AccessIn', call='access', args=['cx', INO, 'a.mask'], ok=ok_empty()),
    'bmap': dict(body='BmapIn', call='bmap', args=['cx', INO, 'a.block', 'a.blocksize'], ok=ok_obj('BmapOut { block: v }')),
    'poll': dict(body='PollIn', call='poll', args=['cx', INO, 'fh_of::<F>(a.fh)', 'fh_of::<F>(a.kh)', 'a.flags', 'a.events'],
                 ok=ok_obj('PollOut { revents: v, padding: 0 }')),
    'fallocate': dict(body='FallocateIn', call='fallocate', args=['cx', INO, 'fh_of::<F>(a.fh)', 'a.mode', 'a.offset', 'a.length'], ok=ok_empty()),
    'lseek': dict(body='LseekIn', call='lseek', args=['cx', INO, 'fh_of::<F>(a.fh)', 'a.offset', 'a.whence'], ok=ok_obj('LseekOut { offset: v }')),
    'link': dict(body='LinkIn', name=True, call='link', args=['cx', 'ino_of::<F>(a.oldnodeid)', INO, 'nm'], ok=ok_obj('entry_out(v)')),
}


CUSTOM_SPECS = r"""
// ---- two NUL-terminated strings one after the other (symlink, rename): ServerUtil::extract_two_cstrs
#[verifier::opaque]
pub open spec fn two_ok(s: Seq<u8>) -> bool { has_nul(s) && first_nul(s) + 1 < s.len() && has_nul(s.subrange(first_nul(s) + 1, s.len() as int)) }
#[verifier::opaque]
pub open spec fn second_of(s: Seq<u8>) -> Seq<u8> { cstr_of(s.subrange(first_nul(s) + 1, s.len() as int)) }
// lookup: the name is the whole body; before ABI 7.4 a zero inode means ENOENT
pub open spec fn wf_lookup(hd: InHeader, rem: Seq<u8>) -> bool { let nlen = hd.len as int - 40; nlen >= 0 && rem.len() >= nlen && has_nul(rem.subrange(0, nlen)) }
pub open spec fn want_lookup<F: FileSystem>(fs: &F, hd: InHeader, cx: Context, rem: Seq<u8>) -> bool {
    fs.allowed_lookup(cx, ino_of::<F>(hd.nodeid), cstr_of(rem.subrange(0, hd.len as int - 40)))
}
pub open spec fn reply_lookup<F: FileSystem>(fs: &F, hd: InHeader, rem: Seq<u8>, minor: u32, b: Seq<u8>) -> bool {
    if wf_lookup(hd, rem) {
        b == (match fs.res_entry() {
            Ok(v) => if minor < 4 && v.inode == 0 { errno_reply(hd.unique, 2) } else { ok_reply(hd.unique, entry_out(v).sbytes(), Seq::<u8>::empty()) },
            Err(e) => err_reply(hd.unique, e) })
    } else { is_err_reply(hd.unique, b) }
}
// symlink: name, then link target
pub open spec fn wf_symlink(hd: InHeader, rem: Seq<u8>) -> bool { let nlen = hd.len as int - 40; nlen >= 0 && rem.len() >= nlen && two_ok(rem.subrange(0, nlen)) }
pub open spec fn want_symlink<F: FileSystem>(fs: &F, hd: InHeader, cx: Context, rem: Seq<u8>) -> bool {
    let body = rem.subrange(0, hd.len as int - 40);
    fs.allowed_symlink(cx, second_of(body), ino_of::<F>(hd.nodeid), cstr_of(body))
}
pub open spec fn reply_symlink<F: FileSystem>(fs: &F, hd: InHeader, rem: Seq<u8>, b: Seq<u8>) -> bool {
    if wf_symlink(hd, rem) {
        b == (match fs.res_entry() { Ok(v) => ok_reply(hd.unique, entry_out(v).sbytes(), Seq::<u8>::empty()), Err(e) => err_reply(hd.unique, e) })
    } else { is_err_reply(hd.unique, b) }
}
// rename / rename2: old name, new name; rename2 passes only the three defined flag bits
pub open spec fn wf_do_rename(hd: InHeader, rem: Seq<u8>, sub: int) -> bool { let nlen = hd.len as int - 40 - sub; nlen >= 0 && rem.len() >= nlen && two_ok(rem.subrange(0, nlen)) }
pub open spec fn want_do_rename<F: FileSystem>(fs: &F, hd: InHeader, cx: Context, rem: Seq<u8>, sub: int, newdir: u64, flags: u32) -> bool {
    let body = rem.subrange(0, hd.len as int - 40 - sub);
    fs.allowed_rename(cx, ino_of::<F>(hd.nodeid), cstr_of(body), ino_of::<F>(newdir), second_of(body), flags)
}
pub open spec fn reply_do_rename<F: FileSystem>(fs: &F, hd: InHeader, rem: Seq<u8>, sub: int, b: Seq<u8>) -> bool {
    if wf_do_rename(hd, rem, sub) {
        b == (match fs.res_unit() { Ok(v) => ok_reply(hd.unique, Seq::<u8>::empty(), Seq::<u8>::empty()), Err(e) => err_reply(hd.unique, e) })
    } else { is_err_reply(hd.unique, b) }
}
pub open spec fn wf_rename(hd: InHeader, rem: Seq<u8>) -> bool { rem.len() >= 8 && wf_do_rename(hd, rem.skip(8), 8) }
pub open spec fn want_rename<F: FileSystem>(fs: &F, hd: InHeader, cx: Context, rem: Seq<u8>) -> bool {
    let a = <RenameIn as ByteValued>::sdecode(rem.subrange(0, 8)); want_do_rename(fs, hd, cx, rem.skip(8), 8, a.newdir, 0)
}
pub open spec fn reply_rename<F: FileSystem>(fs: &F, hd: InHeader, rem: Seq<u8>, b: Seq<u8>) -> bool {
    if rem.len() >= 8 { reply_do_rename(fs, hd, rem.skip(8), 8, b) } else { is_err_reply(hd.unique, b) }
}
pub open spec fn wf_rename2(hd: InHeader, rem: Seq<u8>) -> bool { rem.len() >= 16 && wf_do_rename(hd, rem.skip(16), 16) }
pub open spec fn want_rename2<F: FileSystem>(fs: &F, hd: InHeader, cx: Context, rem: Seq<u8>) -> bool {
    let a = <Rename2In as ByteValued>::sdecode(rem.subrange(0, 16));
    want_do_rename(fs, hd, cx, rem.skip(16), 16, a.newdir, a.flags & (1u32 | 2u32 | 4u32))      // RENAME_NOREPLACE | RENAME_EXCHANGE | RENAME_WHITEOUT
}
pub open spec fn reply_rename2<F: FileSystem>(fs: &F, hd: InHeader, rem: Seq<u8>, b: Seq<u8>) -> bool {
    if rem.len() >= 16 { reply_do_rename(fs, hd, rem.skip(16), 16, b) } else { is_err_reply(hd.unique, b) }
}
// create: fuse_create_in + name; reply = fuse_entry_out followed by fuse_open_out
pub open spec fn wf_create(hd: InHeader, rem: Seq<u8>) -> bool { let nlen = hd.len as int - 40 - 16; rem.len() >= 16 && nlen >= 0 && rem.len() >= 16 + nlen && has_nul(rem.subrange(16, 16 + nlen)) }
pub open spec fn want_create<F: FileSystem>(fs: &F, hd: InHeader, cx: Context, rem: Seq<u8>) -> bool {
    let a = <CreateIn as ByteValued>::sdecode(rem.subrange(0, 16));
    fs.allowed_create(cx, ino_of::<F>(hd.nodeid), cstr_of(rem.subrange(16, 16 + (hd.len as int - 40 - 16))), a)
}
pub open spec fn reply_create<F: FileSystem>(fs: &F, hd: InHeader, rem: Seq<u8>, b: Seq<u8>) -> bool {
    if wf_create(hd, rem) {
        b == (match fs.res_create() {
            Ok(v) => ok_reply(hd.unique, entry_out(v.0).sbytes(),
                              (OpenOut { fh: opt_fh_u64::<F>(v.1), open_flags: v.2.bits, passthrough: (match v.3 { Some(p) => p, None => 0u32 }) }).sbytes()),
            Err(e) => err_reply(hd.unique, e) })
    } else { is_err_reply(hd.unique, b) }
}
// forget: no reply, whatever the content
pub open spec fn wf_forget(hd: InHeader, rem: Seq<u8>) -> bool { rem.len() >= 8 }
pub open spec fn want_forget<F: FileSystem>(fs: &F, hd: InHeader, cx: Context, rem: Seq<u8>) -> bool {
    let a = <ForgetIn as ByteValued>::sdecode(rem.subrange(0, 8)); fs.allowed_forget(cx, ino_of::<F>(hd.nodeid), a.nlookup)
}
pub open spec fn reply_forget<F: FileSystem>(fs: &F, hd: InHeader, rem: Seq<u8>, b: Seq<u8>) -> bool { false }
// notify_reply: replies only with an error
pub open spec fn reply_notify_reply<F: FileSystem>(fs: &F, hd: InHeader, rem: Seq<u8>, b: Seq<u8>) -> bool {
    match fs.res_unit() { Ok(v) => false, Err(e) => b == err_reply(hd.unique, e) }
}
pub open spec fn reply_destroy<F: FileSystem>(fs: &F, hd: InHeader, rem: Seq<u8>, b: Seq<u8>) -> bool { b == ok_reply(hd.unique, Seq::<u8>::empty(), Seq::<u8>::empty()) }
// write: optional lock owner follows WRITE_LOCKOWNER, delayed write follows WRITE_CACHE (both in write_flags = fuse_flags)
pub open spec fn wf_write(hd: InHeader, rem: Seq<u8>) -> bool { rem.len() >= 40 }
pub open spec fn want_write<F: FileSystem>(fs: &F, hd: InHeader, cx: Context, rem: Seq<u8>) -> bool {
    let a = <WriteIn as ByteValued>::sdecode(rem.subrange(0, 40));
    fs.allowed_write(cx, ino_of::<F>(hd.nodeid), fh_of::<F>(a.fh), a.size, a.offset,
                     (if a.fuse_flags & WRITE_LOCKOWNER != 0 { Some(a.lock_owner) } else { None::<u64> }), a.fuse_flags & WRITE_CACHE != 0, a.flags, a.fuse_flags)
}
pub open spec fn reply_write<F: FileSystem>(fs: &F, hd: InHeader, rem: Seq<u8>, b: Seq<u8>) -> bool {
    if wf_write(hd, rem) {
        b == (match fs.res_count() { Ok(v) => ok_reply(hd.unique, (WriteOut { size: v as u32, padding: 0 }).sbytes(), Seq::<u8>::empty()), Err(e) => err_reply(hd.unique, e) })
    } else { is_err_reply(hd.unique, b) }
}
// ---- INIT (C12), from the property and the kernel's process_init_reply()
pub open spec fn init_capable(a: InitIn, rem: Seq<u8>) -> u64 {     // what the client offers: 64-bit word only with FUSE_INIT_EXT AND its payload
    let f = a.flags as u64;
    (if f & 0x4000_0000u64 == 0 { f }
     else if rem.len() >= 16 + 48 { f | ((<InitIn2 as ByteValued>::sdecode(rem.subrange(16, 64)).flags2 as u64) << 32) }
     else { f & !0x4000_0000u64 }) & FsOptions::all_bits()
}
// the kernel's view of the reply: `flags = arg->flags; if (flags & FUSE_INIT_EXT) flags |= (u64) arg->flags2 << 32;`
pub open spec fn kview(o: InitOut) -> u64 { (o.flags as u64) | (if o.flags & 0x4000_0000u32 != 0 { (o.flags2 as u64) << 32 } else { 0u64 }) }
pub open spec fn init_out_ok(o: InitOut, a: InitIn, capable: u64, want: u64) -> bool {
    &&& o.major == 7
    &&& kview(o) & !0x4000_0000u64 == (capable & want) & !0x4000_0000u64        // "enables precisely their intersection ... extended bits only together with the marker"
    &&& o.max_readahead <= a.max_readahead
    &&& 4096 <= o.max_write <= 0x10_0000                                          // "write-size limits that fit the transport buffers"
    &&& ((capable & want) & 0x40_0000u64 != 0 ==> o.max_pages as int * 4096 >= o.max_write as int)   // MAX_PAGES
}
pub proof fn lemma_kview(e: u64)
    ensures ({ let lo = e as u32; let hi = (e >> 32) as u32; let f = if hi != 0 { lo | 0x4000_0000u32 } else { lo };
               ((f as u64) | (if f & 0x4000_0000u32 != 0 { (hi as u64) << 32 } else { 0u64 })) & !0x4000_0000u64 == e & !0x4000_0000u64 })
{
    assert(({ let lo = e as u32; let hi = (e >> 32) as u32; let f = if hi != 0 { lo | 0x4000_0000u32 } else { lo };
               ((f as u64) | (if f & 0x4000_0000u32 != 0 { (hi as u64) << 32 } else { 0u64 })) & !0x4000_0000u64 == e & !0x4000_0000u64 })) by (bit_vector);
}
pub open spec fn init_out_len(minor: u32) -> int { if minor < 5 { 8 } else if minor < 23 { 24 } else { 64 } }   // "laid out for the client's minor version"
pub open spec fn init_reply_is(o: InitOut, a: InitIn, capable: u64, want: u64, u: u64, b: Seq<u8>) -> bool {
    init_out_ok(o, a, capable, want) && b == ok_reply(u, o.sbytes().subrange(0, init_out_len(a.minor)), Seq::<u8>::empty())
}
pub open spec fn init_major_reply_is(o: InitOut, u: u64, b: Seq<u8>) -> bool { o.major == 7 && o.flags == 0 && o.flags2 == 0 && b == ok_reply(u, o.sbytes(), Seq::<u8>::empty()) }
pub open spec fn wf_init(hd: InHeader, rem: Seq<u8>) -> bool { rem.len() >= 16 }
pub open spec fn want_init<F: FileSystem>(fs: &F, hd: InHeader, cx: Context, rem: Seq<u8>) -> bool {
    let a = <InitIn as ByteValued>::sdecode(rem.subrange(0, 16));
    a.major == 7 ==> fs.allowed_init(FsOptions { bits: init_capable(a, rem) })          // major mismatch: the filesystem is NOT initialised
}
pub open spec fn reply_init<F: FileSystem>(fs: &F, hd: InHeader, rem: Seq<u8>, b: Seq<u8>) -> bool {
    if wf_init(hd, rem) {
        let a = <InitIn as ByteValued>::sdecode(rem.subrange(0, 16));
        if a.major < 7 { b == errno_reply(hd.unique, 71) }                                 // EPROTO
        else if a.major > 7 { exists|o: InitOut| #[trigger] init_major_reply_is(o, hd.unique, b) }
        else { match fs.res_init() {
            Ok(w) => exists|o: InitOut| #[trigger] init_reply_is(o, a, init_capable(a, rem), w.bits, hd.unique, b),
            Err(e) => b == err_reply(hd.unique, e) } }
    } else { is_err_reply(hd.unique, b) }
}
// ---- notifications (C03): "notification messages carry the given arguments with a length equal to their size";
//      codes are the kernel's enum fuse_notify_code (INVAL_INODE = 2, INVAL_ENTRY = 3; RESEND = 7 is newer than the installed header)
pub open spec fn notify_inval_entry_bytes(parent: u64, name: Seq<u8>) -> Seq<u8> {
    hdr_bytes(16 + 16 + name.len() + 1, 3, 0) + (NotifyInvalEntryOut { parent: parent, namelen: name.len() as u32, padding: 0 }).sbytes() + name.push(0u8)
}
pub open spec fn notify_inval_inode_bytes(ino: u64, off: u64, len: u64) -> Seq<u8> {
    hdr_bytes(16 + 24, 2, 0) + (NotifyInvalInodeOut { ino: ino, off: off as i64, len: len as i64 }).sbytes()
}
pub open spec fn notify_resend_bytes() -> Seq<u8> { hdr_bytes(16, 7, 0) }
pub proof fn lemma_notify_frame(len: nat, code: i32, rest: Seq<u8>)
    requires len == 16 + rest.len(), len <= 0xffff_ffff, code > 0
    ensures notify_frame_ok(hdr_bytes(len, code, 0) + rest)       // [C03.notify.frame]
{
    broadcast use axiom_sbytes_len, axiom_decode_encode;
    reveal(notify_frame_ok);
    let h = OutHeader { len: len as u32, error: code, unique: 0 };
    assert(h.sbytes().len() == 16);
    assert((h.sbytes() + rest).subrange(0, 16) =~= h.sbytes());
}
// ---- directory entries (C03, C16): fuse_dirent {ino, off, namelen, type} + name, padded to 8 bytes; plus: fuse_entry_out in front
pub open spec fn dirent_pad(namelen: int) -> int { (8 - (24 + namelen) % 8) % 8 }
pub open spec fn dirent_total(namelen: int, plus: bool) -> int { 24 + namelen + dirent_pad(namelen) + (if plus { 128int } else { 0int }) }
pub open spec fn zeros(n: int) -> Seq<u8> { Seq::new(n as nat, |i: int| 0u8) }
pub open spec fn dirent_bytes(d: DirEntry, entry: Option<Entry>) -> Seq<u8> {
    (match entry { Some(e) => entry_out(e).sbytes(), None => Seq::<u8>::empty() })
    + (Dirent { ino: d.ino, off: d.offset, namelen: d.name@.len() as u32, type_: d.type_ }).sbytes() + d.name@ + zeros(dirent_pad(d.name@.len() as int))
}
pub proof fn lemma_pad(x: usize)
    requires x <= usize::MAX - 7
    ensures ((x + 7) as usize & !7usize) as int == x as int + (8 - x as int % 8) % 8, ((x + 7) as usize & !7usize) % 8 == 0, ((x + 7) as usize & !7usize) >= x,
{
    let y = (x + 7) as usize;
    assert(y & !7usize == y - y % 8) by (bit_vector);
    assert((y - y % 8) as int == x as int + (8 - x as int % 8) % 8) by (nonlinear_arith) requires y == x + 7;
}
// setxattr: fuse_setxattr_in {size, flags} + name NUL value; `size` must equal the length of the value
pub open spec fn xattr_body(hd: InHeader, rem: Seq<u8>) -> Seq<u8> { rem.subrange(8, 8 + (hd.len as int - 40 - 8)) }
pub open spec fn wf_setxattr(hd: InHeader, rem: Seq<u8>) -> bool {
    let nlen = hd.len as int - 40 - 8; let a = <SetxattrIn as ByteValued>::sdecode(rem.subrange(0, 8));
    rem.len() >= 8 && nlen >= 0 && rem.len() >= 8 + nlen && has_nul(xattr_body(hd, rem)) && a.size as int == nlen - (first_nul(xattr_body(hd, rem)) + 1)
}
pub open spec fn want_setxattr<F: FileSystem>(fs: &F, hd: InHeader, cx: Context, rem: Seq<u8>) -> bool {
    let a = <SetxattrIn as ByteValued>::sdecode(rem.subrange(0, 8)); let body = xattr_body(hd, rem);
    fs.allowed_setxattr(cx, ino_of::<F>(hd.nodeid), cstr_of(body), body.subrange(first_nul(body) + 1, body.len() as int), a.flags)
}
pub open spec fn reply_setxattr<F: FileSystem>(fs: &F, hd: InHeader, rem: Seq<u8>, b: Seq<u8>) -> bool {
    if wf_setxattr(hd, rem) { b == (match fs.res_unit() { Ok(v) => ok_reply(hd.unique, Seq::<u8>::empty(), Seq::<u8>::empty()), Err(e) => err_reply(hd.unique, e) }) }
    else { is_err_reply(hd.unique, b) }
}
// ioctl: fuse_ioctl_in (32 bytes) + in_size bytes of input; more input announced than present => ENOTTY
pub open spec fn wf_ioctl(hd: InHeader, rem: Seq<u8>) -> bool { rem.len() >= 32 }
pub open spec fn want_ioctl<F: FileSystem>(fs: &F, hd: InHeader, cx: Context, rem: Seq<u8>) -> bool {
    let a = <IoctlIn as ByteValued>::sdecode(rem.subrange(0, 32));
    a.in_size as int <= rem.len() - 32 ==>
    fs.allowed_ioctl(cx, ino_of::<F>(hd.nodeid), fh_of::<F>(a.fh), a.flags, a.cmd,
                     IoctlArg { result: 0, data: (if a.in_size > 0 { Some(rem.subrange(32, 32 + a.in_size as int)) } else { None::<Seq<u8>> }) }, a.out_size)
}
pub open spec fn reply_ioctl<F: FileSystem>(fs: &F, hd: InHeader, rem: Seq<u8>, b: Seq<u8>) -> bool {
    if wf_ioctl(hd, rem) {
        let a = <IoctlIn as ByteValued>::sdecode(rem.subrange(0, 32));
        if a.in_size as int > rem.len() - 32 { b == errno_reply(hd.unique, 25) }
        else { b == (match fs.res_ioctl() {
            Ok(v) => ok_reply(hd.unique, (IoctlOut { result: v.result, flags: 0, in_iovs: 0, out_iovs: 0 }).sbytes(), (match v.data { Some(d) => d, None => Seq::<u8>::empty() })),
            Err(e) => err_reply(hd.unique, e) }) }
    } else { is_err_reply(hd.unique, b) }
}
// batch_forget: fuse_batch_forget_in {count, dummy} + count x fuse_forget_one {nodeid, nlookup}; never a reply
pub open spec fn forget_one_at(rem: Seq<u8>, i: int) -> ForgetOne { <ForgetOne as ByteValued>::sdecode(rem.subrange(8 + 16 * i, 8 + 16 * i + 16)) }
pub open spec fn wf_batch_forget(hd: InHeader, rem: Seq<u8>) -> bool {
    let a = <BatchForgetIn as ByteValued>::sdecode(rem.subrange(0, 8));
    rem.len() >= 8 && (a.count as int) * 16 <= 0x10_1000 - 8 - 40 && rem.len() >= 8 + 16 * (a.count as int)
}
pub open spec fn want_batch_forget<F: FileSystem>(fs: &F, hd: InHeader, cx: Context, rem: Seq<u8>) -> bool {
    let a = <BatchForgetIn as ByteValued>::sdecode(rem.subrange(0, 8));
    fs.allowed_batch_forget(cx, Seq::new(a.count as nat, |i: int| (ino_of::<F>(forget_one_at(rem, i).nodeid), forget_one_at(rem, i).nlookup)))
}
pub open spec fn reply_batch_forget<F: FileSystem>(fs: &F, hd: InHeader, rem: Seq<u8>, b: Seq<u8>) -> bool { false }
// readdir / readdirplus: fuse_read_in; the reply is the header followed by the entries the filesystem got appended through
// add_entry; "within the size the client asked for": the size limit handed to the filesystem's callback is the request's `size`
pub open spec fn wf_readdir(hd: InHeader, rem: Seq<u8>) -> bool { rem.len() >= 40 }
pub open spec fn want_readdir<F: FileSystem>(fs: &F, hd: InHeader, cx: Context, rem: Seq<u8>) -> bool {
    let a = <ReadIn as ByteValued>::sdecode(rem.subrange(0, 40)); fs.allowed_readdir(cx, ino_of::<F>(hd.nodeid), fh_of::<F>(a.fh), a.size, a.offset, a.size)
}
pub open spec fn want_readdirplus<F: FileSystem>(fs: &F, hd: InHeader, cx: Context, rem: Seq<u8>) -> bool {
    let a = <ReadIn as ByteValued>::sdecode(rem.subrange(0, 40)); fs.allowed_readdirplus(cx, ino_of::<F>(hd.nodeid), fh_of::<F>(a.fh), a.size, a.offset, a.size)
}
pub open spec fn reply_readdir<F: FileSystem>(fs: &F, hd: InHeader, rem: Seq<u8>, cap: nat, b: Seq<u8>) -> bool {
    if rem.len() >= 40 {
        let a = <ReadIn as ByteValued>::sdecode(rem.subrange(0, 40));
        if cap < a.size { b == errno_reply(hd.unique, 12) }            // the reply buffer cannot hold what the client asks for: ENOMEM
        else { b == (match fs.res_unit() { Ok(v) => hdr_bytes(16 + fs.res_dir_data().len(), 0, hd.unique) + fs.res_dir_data(), Err(e) => err_reply(hd.unique, e) }) }
    } else { is_err_reply(hd.unique, b) }
}
// DAX window mapping (virtio-fs)
pub open spec fn wf_setupmapping(hd: InHeader, rem: Seq<u8>) -> bool { rem.len() >= 40 }
pub open spec fn want_setupmapping<F: FileSystem>(fs: &F, hd: InHeader, cx: Context, rem: Seq<u8>) -> bool {
    let a = <SetupmappingIn as ByteValued>::sdecode(rem.subrange(0, 40));
    fs.allowed_setupmapping(cx, ino_of::<F>(hd.nodeid), fh_of::<F>(a.fh), a.foffset, a.len, a.flags, a.moffset)
}
pub open spec fn reply_setupmapping<F: FileSystem>(fs: &F, hd: InHeader, rem: Seq<u8>, has_req: bool, b: Seq<u8>) -> bool {
    if !has_req { b == errno_reply(hd.unique, 22) }
    else if wf_setupmapping(hd, rem) { b == (match fs.res_unit() { Ok(v) => ok_reply(hd.unique, Seq::<u8>::empty(), Seq::<u8>::empty()), Err(e) => err_reply(hd.unique, e) }) }
    else { is_err_reply(hd.unique, b) }
}
pub open spec fn rm_one_at(rem: Seq<u8>, i: int) -> RemovemappingOne { <RemovemappingOne as ByteValued>::sdecode(rem.subrange(4 + 16 * i, 4 + 16 * i + 16)) }
pub open spec fn wf_removemapping(hd: InHeader, rem: Seq<u8>) -> bool {
    let a = <RemovemappingIn as ByteValued>::sdecode(rem.subrange(0, 4));
    rem.len() >= 4 && (a.count as int) * 16 <= 0x10_0000 && rem.len() >= 4 + 16 * (a.count as int)
}
pub open spec fn want_removemapping<F: FileSystem>(fs: &F, hd: InHeader, cx: Context, rem: Seq<u8>) -> bool {
    let a = <RemovemappingIn as ByteValued>::sdecode(rem.subrange(0, 4));
    fs.allowed_removemapping(cx, ino_of::<F>(hd.nodeid), Seq::new(a.count as nat, |i: int| rm_one_at(rem, i)))
}
pub open spec fn reply_removemapping<F: FileSystem>(fs: &F, hd: InHeader, rem: Seq<u8>, has_req: bool, b: Seq<u8>) -> bool {
    if !has_req { b == errno_reply(hd.unique, 22) }
    else if rem.len() < 4 { is_err_reply(hd.unique, b) }
    else { let a = <RemovemappingIn as ByteValued>::sdecode(rem.subrange(0, 4));
        if (a.count as int) * 16 > 0x10_0000 { b == errno_reply(hd.unique, 12) }
        else if wf_removemapping(hd, rem) { b == (match fs.res_unit() { Ok(v) => ok_reply(hd.unique, Seq::<u8>::empty(), Seq::<u8>::empty()), Err(e) => err_reply(hd.unique, e) }) }
        else { is_err_reply(hd.unique, b) } }
}
// read: optional lock owner follows READ_LOCKOWNER; "read replies carry exactly the bytes produced"
pub open spec fn wf_read(hd: InHeader, rem: Seq<u8>) -> bool { rem.len() >= 40 }
pub open spec fn want_read<F: FileSystem>(fs: &F, hd: InHeader, cx: Context, rem: Seq<u8>) -> bool {
    let a = <ReadIn as ByteValued>::sdecode(rem.subrange(0, 40));
    fs.allowed_read(cx, ino_of::<F>(hd.nodeid), fh_of::<F>(a.fh), a.size, a.offset,
                    (if a.read_flags & READ_LOCKOWNER != 0 { Some(a.lock_owner) } else { None::<u64> }), a.flags)
}
pub open spec fn reply_read<F: FileSystem>(fs: &F, hd: InHeader, rem: Seq<u8>, b: Seq<u8>) -> bool {
    if wf_read(hd, rem) {
        b == (match fs.res_count() { Ok(v) => hdr_bytes(16 + fs.res_read_data().len(), 0, hd.unique) + fs.res_read_data(), Err(e) => err_reply(hd.unique, e) })
    } else { is_err_reply(hd.unique, b) }
}
"""


OPCODES = [(1, 'lookup'), (2, 'forget'), (3, 'getattr'), (4, 'setattr'), (5, 'readlink'), (6, 'symlink'), (8, 'mknod'), (9, 'mkdir'), (10, 'unlink'),
           (11, 'rmdir'), (12, 'rename'), (13, 'link'), (14, 'open'), (15, 'read'), (16, 'write'), (17, 'statfs'), (18, 'release'), (20, 'fsync'),
           (21, 'setxattr'), (22, 'getxattr'), (23, 'listxattr'), (24, 'removexattr'), (25, 'flush'), (26, 'init'), (27, 'opendir'), (28, 'readdir'),
           (29, 'releasedir'), (30, 'fsyncdir'), (31, 'getlk'), (32, 'setlk'), (33, 'setlkw'), (34, 'access'), (35, 'create'), (36, 'interrupt'),
           (37, 'bmap'), (38, 'destroy'), (39, 'ioctl'), (40, 'poll'), (41, 'notify_reply'), (42, 'batch_forget'), (43, 'fallocate'),
           (44, 'readdirplus'), (45, 'rename2'), (46, 'lseek'), (48, 'setupmapping'), (49, 'removemapping')]
NO_WANT = {'interrupt', 'destroy', 'notify_reply'}


def dispatch_specs():
    """the top-level specification of handle_message: opcode numbers are the kernel's (enum fuse_opcode)"""
    rl, wl, fl = [], [], []
    for (n, op) in OPCODES:
        if op not in ('forget', 'batch_forget', 'interrupt', 'destroy', 'notify_reply', 'ioctl'):
            fl.append('        &&& (hd.opcode == %d ==> wf_%s(hd, rem)%s)' % (n, 'readdir' if op == 'readdirplus' else op, ' && cap >= 16' if op in ('read', 'readdir', 'readdirplus') else ''))
        if op == 'lookup':
            r = 'reply_lookup(fs, hd, rem, minor, b)'
        elif op in ('setupmapping', 'removemapping'):
            r = 'reply_%s(fs, hd, rem, has_req, b)' % op
        elif op == 'interrupt':
            r = 'false'
        elif op in ('readdir', 'readdirplus'):
            r = 'reply_readdir(fs, hd, rem, cap, b)'
        else:
            r = 'reply_%s(fs, hd, rem, b)' % op
        rl.append('        else if hd.opcode == %d { %s }' % (n, r))
        if op == 'destroy':
            wl.append('        &&& (hd.opcode == 38 ==> fs.allowed_destroy())')
        elif op == 'notify_reply':
            wl.append('        &&& (hd.opcode == 41 ==> fs.allowed_notify_reply())')
        elif op not in NO_WANT:
            g = 'has_req && ' if op in ('setupmapping', 'removemapping') else ''
            wl.append('        &&& (hd.opcode == %d && %swf_%s(hd, rem) ==> want_%s(fs, hd, cx, rem))' % (n, g, 'readdir' if op == 'readdirplus' else op, op))
    return '''
// =====================================================================================================================
// Top-level specification of Server::handle_message (C01, C02, C03): `req` is the whole request as the client sent it
pub open spec fn ctx_of(hd: InHeader) -> Context { Context { uid: hd.uid, gid: hd.gid, pid: hd.pid as i32 } }
pub open spec fn reply_msg<F: FileSystem>(fs: &F, minor: u32, has_req: bool, cap: nat, req: Seq<u8>, b: Seq<u8>) -> bool {
    if req.len() < 40 { false } else {
        let hd = <InHeader as ByteValued>::sdecode(req.subrange(0, 40)); let rem = req.skip(40);
        if fs.res_id_remap_with_nodeid() is Err { is_err_reply(hd.unique, b) }
        else if hd.len > 0x10_1000 { if hd.opcode == 2 || hd.opcode == 42 { false } else { b == errno_reply(hd.unique, 12) } }     // over-long: ENOMEM, never for FORGET / BATCH_FORGET
%s
        else { b == errno_reply(hd.unique, 38) }                                                                                  // unknown opcode: ENOSYS
    }
}
pub open spec fn want_msg<F: FileSystem>(fs: &F, has_req: bool, req: Seq<u8>) -> bool {
    req.len() >= 40 ==> ({
        let hd = <InHeader as ByteValued>::sdecode(req.subrange(0, 40)); let rem = req.skip(40); let cx = fs.ctx_id_remap_with_nodeid();
        &&& fs.allowed_id_remap_with_nodeid(ctx_of(hd), ino_of::<F>(hd.nodeid))          // "the per-request translation of caller ids"
        &&& (fs.res_id_remap_with_nodeid() is Ok && hd.len <= 0x10_1000 ==> ({
%s
        }))
    })
}
// a request the protocol requires an answer for, complete as the kernel sends it (the header says how long it is, every fixed part and every
// NUL-terminated name is there).  FORGET, BATCH_FORGET, INTERRUPT and NOTIFY_REPLY have no answer; DESTROY's handler returns nothing (its reply
// is covered by [once]/[emit]); IOCTL reads its input with Reader::read, whose model may fail for any reason - all six are left out here.
pub open spec fn answer_due(cap: nat, req: Seq<u8>) -> bool {
    req.len() >= 40 && ({
        let hd = <InHeader as ByteValued>::sdecode(req.subrange(0, 40)); let rem = req.skip(40);
        &&& hd.opcode != 2 && hd.opcode != 42 && hd.opcode != 36 && hd.opcode != 38 && hd.opcode != 41 && hd.opcode != 39
        &&& (hd.len <= 0x10_1000 ==> ({
%s
        }))
    })
}
''' % ('\n'.join(rl), '\n'.join(wl), '\n'.join(fl))

SIZES = {}
INFO = {}


def wf_and_lets(op, d):
    """-> (let-prefix, wf expression) over hd, rem"""
    body = d.get('body')
    sz = SIZES[body] if body else 0
    lets = ''
    wf = []
    if body:
        lets += 'let a = <%s as ByteValued>::sdecode(rem.subrange(0, %d)); ' % (body, sz)
        wf.append('rem.len() >= %d' % sz)
    if d.get('name'):
        lets += 'let nlen = hd.len as int - 40 - %d; let nm = cstr_of(rem.subrange(%d, %d + nlen)); ' % (sz, sz, sz)
        wf.append('nlen >= 0 && rem.len() >= %d + nlen && has_nul(rem.subrange(%d, %d + nlen))' % (sz, sz, sz))
    return lets, (' && '.join(wf) or 'true')


def spec_fns(op, d):
    lets, wf = wf_and_lets(op, d)
    call = d['call']
    txt = '''
// ---- %(op)s
pub open spec fn wf_%(op)s(hd: InHeader, rem: Seq<u8>) -> bool { %(lets)s %(wf)s }
pub open spec fn want_%(op)s<F: FileSystem>(fs: &F, hd: InHeader, cx: Context, rem: Seq<u8>) -> bool {
    %(lets)s fs.allowed_%(call)s(%(args)s)
}
pub open spec fn reply_%(op)s<F: FileSystem>(fs: &F, hd: InHeader, rem: Seq<u8>, b: Seq<u8>) -> bool {
    if wf_%(op)s(hd, rem) {
        b == (match fs.%(resfn)s() { Ok(v) => %(ok)s, Err(e) => err_reply(hd.unique, e) })
    } else { is_err_reply(hd.unique, b) }
}''' % dict(op=op, lets=lets, wf=wf, call=call, args=', '.join(d['args']), ok=d['ok'], resfn=INFO[call]['resfn'])
    return txt


def handler_contract(op, extra_req=(), noreply=False, reply_extra='', want=True):
    req = [
        'ctx.w.fresh()', 'uniq(ctx.w.id@) == ctx.in_header.unique', 'convs_ok::<F>()', 'self.fs.touch_ok()',
        'forall|u: u32, g: u32| self.fs.ids_ok(u, g)',
        'forall|b: Seq<u8>| #[trigger] emit_ok(ctx.w.id@, b) <==> reply_%s(&self.fs, ctx.in_header, ctx.r.rem@, %sb) // [C03.%s.reply]' % (op, reply_extra, op),
    ]
    if want:
        req.insert(5, 'wf_%s(ctx.in_header, ctx.r.rem@) ==> want_%s(&self.fs, ctx.in_header, ctx.context, ctx.r.rem@) // [C02.%s.args]' % (op, op, op))
    if not noreply:
        req.insert(2, 'may_reply(ctx.w.id@)')
    return req + list(extra_req)


NAME_ERR_SPLICE = None


VERIFIED_LATER = set(x for x in os.environ.get('SRV_EXT', '').split(',') if x)


def EXT(name):
    return name in VERIFIED_LATER


def unit(root='/repo'):
    notes = []
    trait_txt, info, _ = fsmodel.gen_trait(root, notes, server=True, dirsink=True)
    INFO.clear()
    INFO.update(info)
    items = []
    items += wiremodel.items(root, [ABI, VABI], ['FileLock'])     # emitted as WireFileLock below
    # rename the wire FileLock (abi) to WireFileLock: src/api/filesystem/mod.rs has its own FileLock
    for it in items:
        if isinstance(it, Copy):
            it.subst.append(('pub struct FileLock', 'pub struct WireFileLock'))
        elif isinstance(it, Raw):
            it.text = it.text.replace('FileLock', 'WireFileLock')
    w = wiremodel.items(root, [ABI, VABI], WIRE)
    for it in w:
        if isinstance(it, Copy) and ('LkIn' in it.regex or 'LkOut' in it.regex):
            it.subst.append(('FileLock', 'WireFileLock'))
        elif isinstance(it, Raw) and ('zero_LkIn' in it.text or 'zero_LkOut' in it.text):
            it.text = it.text.replace('zero_FileLock', 'zero_WireFileLock').replace('<FileLock as Default>', '<WireFileLock as Default>')
    items += w
    cache = {}
    for n in WIRE:
        SIZES[n] = wiremodel.layout(root, [ABI, VABI], n, cache)[0]
    items += wiremodel.items(root, [VABI], ['RemovemappingOne'])
    for c in ['KERNEL_VERSION', 'KERNEL_MINOR_VERSION', 'KERNEL_MINOR_VERSION_INIT_OUT_SIZE', 'KERNEL_MINOR_VERSION_INIT_22_OUT_SIZE',
              'KERNEL_MINOR_VERSION_LOOKUP_NEGATIVE_ENTRY_ZERO', 'RELEASE_FLUSH', 'RELEASE_FLOCK_UNLOCK', 'GETATTR_FH', 'WRITE_CACHE',
              'WRITE_LOCKOWNER', 'READ_LOCKOWNER', 'FATTR_FH', 'FUSE_COMPAT_INIT_OUT_SIZE', 'FUSE_COMPAT_22_INIT_OUT_SIZE']:
        items.append(Copy(ABI, r'(?m)^(?:pub )?const %s\s*:' % c, make_pub=True))
    items += flagsmodel.items(root, ABI, 'SetattrValid')
    items += flagsmodel.items(root, ABI, 'OpenOptions')
    items += flagsmodel.items(root, ABI, 'FsOptions')
    items += [
        Copy(ABI, r'pub enum Opcode\b', prefix='#[repr(u32)]\n#[derive(Clone, Copy)]'),
        Copy(ABI, r'pub enum NotifyOpcode\b', prefix='#[repr(u32)]\n#[derive(Clone, Copy)]'),
        Copy(FSMOD, r'pub struct Context\b', prefix='#[derive(Clone, Copy)]', subst=[('libc::uid_t', 'u32'), ('libc::gid_t', 'u32'), ('libc::pid_t', 'i32')]),
        Copy(FSMOD, r'pub struct Entry\b', prefix='#[derive(Clone, Copy)]'),
        Copy(FSMOD, r'pub struct DirEntry\b', prefix='#[derive(Clone, Copy)]', subst=[('ino64_t', 'u64')]),
        Copy(FSMOD, r'pub struct FileLock\b', prefix='#[derive(Clone, Copy)]'),
        Copy(FSMOD, r'pub struct IoctlData\b'),
        Copy(FSMOD, r'pub enum GetxattrReply\b'),
        Copy(FSMOD, r'pub enum ListxattrReply\b'),
        Copy(LIB, r'pub enum Error\b'),
        Copy(SMOD, r'pub const MAX_BUFFER_SIZE\b'), Copy(SMOD, r'const MIN_READ_BUFFER\b'), Copy(SMOD, r'const BUFFER_HEADER_SIZE\b'),
        Copy(SMOD, r'const DIRENT_PADDING\b', array_const=True),
        Copy(SMOD, r'pub const MAX_REQ_PAGES\b'),
        Copy(SMOD, r'pub struct ServerVersion\b', prefix='#[derive(Clone)]'),
        Copy(SMOD, r'pub struct InitParams\b'),
        Copy(SMOD, r'pub struct Server<F', subst=[('FileSystem + Sync', 'FileSystem')]),
        Copy(SMOD, r"struct SrvContext<'a, F", subst=[('S: BitmapSlice = ()', 'S: BitmapSlice')]),
        Copy(SMOD, r"struct ZcReader<'a", subst=[('S: BitmapSlice = ()', 'S: BitmapSlice')]),
        Copy(SMOD, r"struct ZcWriter<'a", subst=[('S: BitmapSlice = ()', 'S: BitmapSlice')]),
        Raw(trait_txt),
        Raw('''
impl<'a, S: BitmapSlice> ZeroCopyWriter for ZcWriter<'a, S> {
    open spec fn zw_buf(&self) -> Seq<u8> { self.0.buf@ }
    open spec fn zw_rest(&self) -> (int, nat, bool, bool, Seq<Seq<u8>>) { (self.0.id@, self.0.cap@, self.0.buffered@, self.0.primary@, self.0.emitted@) }
}
impl<'a, S: BitmapSlice> ZeroCopyReader for ZcReader<'a, S> { }
'''),
    ]
    items.append(Raw('\n'.join(spec_fns(op, d) for op, d in OPS.items())))
    items.append(Raw(CUSTOM_SPECS))
    items.append(Raw(dispatch_specs()))
    # ---- conversions and small helpers (real text)
    items += [
        Fn(LIB, None, 'encode_io_error_kind', ensures=['r == spec_kind_errno(kind) // [C03.errno.kind]', '0 < r < 4096'], props=['C03'],
           splices=[('^', 'after', 'proof { assert(1i32 | 13i32 == 13i32) by (bit_vector); }')]),
        Group('impl From<&InHeader> for Context {', [
            Fn(FSMOD, 'impl From<&fuse::InHeader> for Context', 'from', sig_subst=[('fuse::InHeader', 'InHeader')],
               ensures=['r == (Context { uid: source.uid, gid: source.gid, pid: source.pid as i32 }) // [C02.ctx.header]'], props=['C02'])]),
        Group('impl Attr {', [Fn(ABI, 'impl Attr', 'with_flags', ensures=['r == attr_of(st, flags) // [C03.attr.fields]'], props=['C03'])]),
        Group('impl From<stat64> for Attr {', [Fn(ABI, 'impl From<stat64> for Attr', 'from', ensures=['r == attr_of(st, 0)'], props=['C03'])]),
        Group('impl From<statvfs64> for Kstatfs {', [
            Fn(ABI, 'impl From<statvfs64> for Kstatfs', 'from', ensures=['r == kstatfs_of(st) // [C03.statfs.fields]'], props=['C03'])]),
        Group('impl From<SetattrIn> for stat64 {', [
            Fn(ABI, 'impl From<SetattrIn> for stat64', 'from', ensures=['r == stat_of_setattr(setattr) // [C02.setattr.fields]'], props=['C02'])]),
        Group('impl From<Entry> for EntryOut {', [
            Fn(FSMOD, 'impl From<Entry> for fuse::EntryOut', 'from', sig_subst=[('fuse::EntryOut', 'EntryOut')],
               ensures=['r == entry_out(entry) // [C03.entry.fields]'], props=['C03'])]),
        Group('impl From<WireFileLock> for FileLock {', [
            Fn(FSMOD, 'impl From<fuse::FileLock> for FileLock', 'from', sig_subst=[('fuse::FileLock', 'WireFileLock')],
               ensures=['r == lock_of(l) // [C02.lock.fields]'], props=['C02'])]),
        Group('impl From<FileLock> for WireFileLock {', [
            Fn(FSMOD, 'impl From<FileLock> for fuse::FileLock', 'from', sig_subst=[('fuse::FileLock', 'WireFileLock')],
               body_subst=[('fuse::FileLock {', 'WireFileLock {')],
               ensures=['r == wire_lock_of(l) // [C03.lock.fields]'], props=['C03'])]),
    ]
    # ---- SrvContext helpers
    FRESHW = 'old(self).w.fresh()'
    ctxa = [
        Fn(SMOD, CTXA, 'new', requires=[], ensures=['r.in_header == in_header', 'r.r == r_in', 'r.w == w',
                                                    'r.context == (Context { uid: in_header.uid, gid: in_header.gid, pid: in_header.pid as i32 }) // [C02.ctx.new]'],
           sig_subst=[("r: Reader<'a, S>", "r_in: Reader<'a, S>")], body_subst=[('            r,\n', '            r: r_in,\n')], props=['C02']),
        Fn(SMOD, CTXA, 'context', ensures=['*r == self.context'], props=['C02']),
        Fn(SMOD, CTXA, 'unique', ensures=['r == self.in_header.unique'], props=['C01']),
        Fn(SMOD, CTXA, 'nodeid', requires=['convs_ok::<F>()'], ensures=['r == ino_of::<F>(self.in_header.nodeid) // [C02.nodeid]'], props=['C02']),
        Fn(SMOD, CTXA, 'take_reader', ensures=['r == old(self).r', 'final(self).w == old(self).w', 'final(self).in_header == old(self).in_header',
                                               'final(self).context == old(self).context'], props=['C02']),
    ]
    items.append(Group("impl<'a, F: FileSystem, S: BitmapSlice> SrvContext<'a, F, S> {", ctxa))
    REPLY_COMMON = ['old(self).w.fresh()', 'uniq(old(self).w.id@) == old(self).in_header.unique', 'may_reply(old(self).w.id@)']
    FRAME = ['final(self).in_header == old(self).in_header', 'final(self).context == old(self).context', 'final(self).r == old(self).r',
             'final(self).w.frame_same(&old(self).w)']
    ctxb = [
        Fn(SYNC, CTX, 'reply_ok',
           requires=REPLY_COMMON + ['T::ssize() < 0x1_0000',
                                    'emit_ok(old(self).w.id@, ok_reply(old(self).in_header.unique, (match out { Some(v) => v.sbytes(), None => Seq::<u8>::empty() }), (match data { Some(v) => v@, None => Seq::<u8>::empty() }))) // [C03.reply_ok.bytes]'],
           ensures=FRAME + ['''({ let m = ok_reply(old(self).in_header.unique, (match out { Some(v) => v.sbytes(), None => Seq::<u8>::empty() }), (match data { Some(v) => v@, None => Seq::<u8>::empty() }));
             match r { Ok(n) => final(self).w.emitted@.len() == 1 && final(self).w.emitted@[0] == m && n == m.len() && n >= 16, Err(e) => final(self).w.emitted@.len() == 0 && e is EncodeMessage } }) // [C01.reply_ok.one]'''],
           splices=[
                    ('^', 'after', 'broadcast use axiom_sbytes_len, axiom_decode_encode, lemma_ios_concat;'),
                    ('|v|', 'closure', '|v: &T| -> (s: &[u8]) ensures s@ == v.sbytes(), s@.len() == T::ssize()'),
                    ('let data3 = data.unwrap_or(&[]);', 'after',
                     'proof { axiom_slice_len(data2); axiom_slice_len(data3); if 16 + data2@.len() + data3@.len() <= 0xffff_ffff { lemma_ok_reply_frame(self.in_header.unique, data2@, data3@); } }'),
                    ('            unique: self.unique(),\n        };', 'after',
                     '''proof {
            reveal(ok_reply);
            let m = ok_reply(self.in_header.unique, data2@, data3@);
            assert(m =~= header.sbytes() + data2@ + data3@);
            if data2@.len() == 0 { assert(m =~= header.sbytes() + data3@); }
            if data3@.len() == 0 { assert(m =~= header.sbytes() + data2@); }
            if data2@.len() == 0 && data3@.len() == 0 { assert(m =~= header.sbytes()); }
        }''')],
           props=['C01'], canary=True),
        Fn(SYNC, CTX, 'do_reply_error',
           requires=['old(self).w.primary@ && old(self).w.emitted@.len() == 0 && old(self).w.buf@.len() == 0 && old(self).w.cap@ <= MAX_REPLY_CAP && !is_notify(old(self).w.id@)',
                     'uniq(old(self).w.id@) == old(self).in_header.unique', 'may_reply(old(self).w.id@)', 'err_ok(err)',
                     'emit_ok(old(self).w.id@, err_reply(old(self).in_header.unique, err)) // [C03.reply_error.bytes]'],
           ensures=FRAME + ['''match r { Ok(n) => final(self).w.emitted@.len() == 1 && final(self).w.emitted@[0] == err_reply(old(self).in_header.unique, err) && n == 16, Err(e) => final(self).w.emitted@.len() == 0 && e is EncodeMessage } // [C01.reply_error.one]'''],
           splices=[('^', 'after', 'broadcast use axiom_sbytes_len, axiom_decode_encode; proof { lemma_err_reply_frame(self.in_header.unique, err); reveal(errno_reply); }'),
                    ('||', 'closure', '|| -> (k: i32) ensures k == spec_kind_errno(err.skind())', '|| encode_io_error_kind('),
                    ('|_v|', 'closure', '|_v: usize| -> (q: usize) ensures q == 16')],
           props=['C01'], canary=True),
        Fn(SYNC, CTX, 'reply_error',
           requires=['old(self).w.primary@ && old(self).w.emitted@.len() == 0 && old(self).w.buf@.len() == 0 && old(self).w.cap@ <= MAX_REPLY_CAP && !is_notify(old(self).w.id@)',
                     'uniq(old(self).w.id@) == old(self).in_header.unique', 'may_reply(old(self).w.id@)', 'err_ok(err)',
                     'emit_ok(old(self).w.id@, err_reply(old(self).in_header.unique, err)) // [C03.reply_error.bytes]'],
           ensures=FRAME + ['match r { Ok(n) => final(self).w.emitted@.len() == 1 && final(self).w.emitted@[0] == err_reply(old(self).in_header.unique, err) && n == 16, Err(e) => final(self).w.emitted@.len() == 0 && e is EncodeMessage }'],
           props=['C01']),
        Fn(SYNC, CTX, 'reply_error_explicit',
           requires=['old(self).w.primary@ && old(self).w.emitted@.len() == 0 && old(self).w.buf@.len() == 0 && old(self).w.cap@ <= MAX_REPLY_CAP && !is_notify(old(self).w.id@)',
                     'uniq(old(self).w.id@) == old(self).in_header.unique', 'may_reply(old(self).w.id@)', 'err_ok(err)',
                     'emit_ok(old(self).w.id@, err_reply(old(self).in_header.unique, err)) // [C03.reply_error.bytes]'],
           ensures=FRAME + ['match r { Ok(n) => final(self).w.emitted@.len() == 1 && final(self).w.emitted@[0] == err_reply(old(self).in_header.unique, err) && n == 16, Err(e) => final(self).w.emitted@.len() == 0 && e is EncodeMessage }'],
           props=['C01']),
        Fn(SYNC, CTX, 'handle_attr_result',
           requires=REPLY_COMMON + ['result is Err ==> err_ok(result->Err_0)',
                                    'emit_ok(old(self).w.id@, (match result { Ok(v) => ok_reply(old(self).in_header.unique, attr_out(v.0, v.1).sbytes(), Seq::<u8>::empty()), Err(e) => err_reply(old(self).in_header.unique, e) })) // [C03.attr.bytes]'],
           ensures=FRAME + ['r is Ok ==> final(self).w.emitted@.len() == 1 && r->Ok_0 >= 16 // [C01.attr.one]', 'r is Err ==> r->Err_0 is EncodeMessage // [C01.attr.err]'],
           props=['C03']),
    ]
    items.append(Raw(LEMMAS))
    items.append(Group("impl<'a, F: FileSystem, S: BitmapSlice> SrvContext<'a, F, S> {", ctxb))
    # ---- handlers
    hs = []
    only = os.environ.get('SRV_ONLY')
    for op, d in OPS.items():
        if only and op not in only.split(','):
            continue
        spl = [('^', 'after', 'broadcast use axiom_sbytes_len, lemma_err_reply_frame; let ghost rem0 = ctx.r.rem@; let ghost hd0 = ctx.in_header;')]
        if d.get('name'):
            sz = SIZES[d['body']] if d.get('body') else 0
            spl.append(('ServerUtil::get_message_body(&mut ctx.r, &ctx.in_header, %s)?;' % ('size_of::<%s>()' % d['body'] if d.get('body') else '0'), 'after',
                        'proof { assert(buf@ =~= rem0.subrange(%d, %d + (hd0.len as int - 40 - %d))); }' % (sz, sz, sz)))
        spl += HANDLER_SPLICES.get(op, [])
        hs.append(Fn(SYNC, SRV, op, requires=handler_contract(op), ensures=[], splices=spl, props=['C01'], canary=True))
    E0 = ('^', 'after', 'broadcast use axiom_sbytes_len, lemma_err_reply_frame; let ghost rem0 = ctx.r.rem@; let ghost hd0 = ctx.in_header;')

    def name_hint(szexpr, sz):
        return ('ServerUtil::get_message_body(&mut ctx.r, &ctx.in_header, %s)?;' % szexpr, 'after',
                'proof { assert(buf@ =~= rem0.subrange(%d, %d + (hd0.len as int - 40 - %d))); }' % (sz, sz, sz))
    custom = [
        Fn(SYNC, SRV, 'lookup', requires=handler_contract('lookup', reply_extra='self.vers.cur().minor, '), splices=[E0, name_hint('0', 0), ('^', 'after', 'proof { reveal(errno_reply); }')],
           props=['C01'], canary=True),
        Fn(SYNC, SRV, 'symlink', requires=handler_contract('symlink'), splices=[E0, name_hint('0', 0)], props=['C01'], canary=True),
        Fn(SYNC, SRV, 'do_rename',
           requires=['ctx.w.fresh()', 'uniq(ctx.w.id@) == ctx.in_header.unique', 'may_reply(ctx.w.id@)', 'convs_ok::<F>()', 'self.fs.touch_ok()',
                     'wf_do_rename(ctx.in_header, ctx.r.rem@, msg_size as int) ==> want_do_rename(&self.fs, ctx.in_header, ctx.context, ctx.r.rem@, msg_size as int, newdir, flags) // [C02.rename.args]',
                     'forall|b: Seq<u8>| #[trigger] emit_ok(ctx.w.id@, b) <==> reply_do_rename(&self.fs, ctx.in_header, ctx.r.rem@, msg_size as int, b) // [C03.rename.reply]'],
           splices=[E0, ('ServerUtil::get_message_body(&mut ctx.r, &ctx.in_header, msg_size)?;', 'after',
                         'proof { assert(buf@ =~= rem0.subrange(0, hd0.len as int - 40 - msg_size as int)); }')],
           props=['C01'], canary=True),
        Fn(SYNC, SRV, 'rename', requires=handler_contract('rename'), splices=[E0], props=['C01'], canary=True),
        Fn(SYNC, SRV, 'rename2', requires=handler_contract('rename2'), splices=[E0, ('^', 'after', 'proof { assert(forall|x: u32| x & (2u32 | 1u32 | 4u32) == x & (1u32 | 2u32 | 4u32)) by (bit_vector); }')], props=['C01'], canary=True),
        Fn(SYNC, SRV, 'create', requires=handler_contract('create'), splices=[E0, name_hint('size_of::<CreateIn>()', 16), HCLOSURE], props=['C01'], canary=True),
        Fn(SYNC, SRV, 'forget', requires=handler_contract('forget', noreply=True), splices=[E0], props=['C01'], canary=True),
        Fn(SYNC, SRV, 'interrupt', props=['C01']),
        Fn(SYNC, SRV, 'destroy', requires=['ctx.w.fresh()', 'uniq(ctx.w.id@) == ctx.in_header.unique', 'may_reply(ctx.w.id@)', 'self.fs.touch_ok()', 'self.fs.allowed_destroy() // [C02.destroy.args]',
                                            'forall|b: Seq<u8>| #[trigger] emit_ok(ctx.w.id@, b) <==> reply_destroy(&self.fs, ctx.in_header, ctx.r.rem@, b) // [C03.destroy.reply]'],
           splices=[E0], props=['C01']),
        Fn(SYNC, SRV, 'notify_reply', requires=['ctx.w.fresh()', 'uniq(ctx.w.id@) == ctx.in_header.unique', 'may_reply(ctx.w.id@)', 'self.fs.touch_ok()', 'self.fs.allowed_notify_reply() // [C02.notify_reply.args]',
                                                 'forall|b: Seq<u8>| #[trigger] emit_ok(ctx.w.id@, b) <==> reply_notify_reply(&self.fs, ctx.in_header, ctx.r.rem@, b) // [C03.notify_reply.reply]'],
           splices=[E0], props=['C01'], canary=True),
        Fn(SYNC, SRV, 'write', requires=handler_contract('write'), splices=[E0], props=['C01'], canary=True),
        Fn(SYNC, SRV, 'read', requires=handler_contract('read'),
           splices=[E0, ('let out = OutHeader {', 'before',
                         'proof { assert(data_writer.0.buf@ =~= self.fs.res_read_data()); assert(count == self.fs.res_read_data().len()); assert(count <= MAX_REPLY_CAP); }'),
                    ('ctx.w\n                    .commit(Some(&data_writer.0))', 'before',
                     'proof { lemma_read_reply_frame(ctx.in_header.unique, self.fs.res_read_data()); assert(commit_bytes(&ctx.w, Some(&data_writer.0)) =~= hdr_bytes(16 + self.fs.res_read_data().len(), 0, ctx.in_header.unique) + self.fs.res_read_data()); } // [C03.read.bytes][C01.read.frame]')],
           props=['C01'], canary=True),
    ]
    SIGREQ = [('&mut dyn FsCacheReqHandler', '&mut FsCacheReq')]
    vu_contract = lambda op: [c.replace('wf_%s(ctx.in_header, ctx.r.rem@) ==>' % op, 'vu_req is Some && wf_%s(ctx.in_header, ctx.r.rem@) ==>' % op)
                              for c in handler_contract(op, reply_extra='vu_req is Some, ')]
    custom += [
        Fn(SYNC, SRV, 'init',
           requires=handler_contract('init') + [
               'forall|p: &InitParams| on_init_params.requires((p,))',
               # the version recorded for later requests is the client's (the store is an effect on &self: capability)
               '''ctx.r.rem@.len() >= 16 ==> forall|v: ServerVersion| ({ let a = <InitIn as ByteValued>::sdecode(ctx.r.rem@.subrange(0, 16)); v.major == a.major && v.minor == a.minor }) ==> #[trigger] self.vers.may_store(v) // [C12.vers]'''],
           external_body=EXT('init'), props=['C12'], canary=not EXT('init'), gtag_props={'cap': ['C12'], 'emit': ['C12'], 'frame': ['C12']}, extra_props=['C12'],
           splices=[('^', 'after', 'let ghost a0 = <InitIn as ByteValued>::sdecode(rem0.subrange(0, 16)); proof { reveal(errno_reply); assert((1u32 << 20) == 0x10_0000u32) by (bit_vector); }'),
                    E0,
                    ('return ctx.reply_ok(Some(out), None);', 'before',
                     'proof { assert(init_major_reply_is(out, hd0.unique, ok_reply(hd0.unique, out.sbytes(), Seq::<u8>::empty()))); }'),
                    ('let capable = FsOptions::from_bits_truncate(flags_u64);', 'after',
                     'proof { if rem0.len() >= 64 { assert(rem0.skip(16).subrange(0, 48) =~= rem0.subrange(16, 64)); } assert(capable.bits == init_capable(a0, rem0)); }'),
                    ('if enabled.contains(FsOptions::BIG_WRITES) {', 'before', 'proof { assert(256u32 * 4096u32 == 0x10_0000u32); }'),
                    ('self.vers.store(Arc::new(version));', 'before',
                     '''proof {
                    lemma_kview(enabled_flags);
                    assert(forall|e: u64| (e & 0x40_0000u64 == 0x40_0000u64) == (e & 0x40_0000u64 != 0)) by (bit_vector);
                    assert(init_out_ok(out, a0, capable.bits, want.bits)); // [C12.init_out.enabled_limits]
                    assert(out.sbytes().subrange(0, 64) =~= out.sbytes());
                    assert(init_reply_is(out, a0, capable.bits, want.bits, hd0.unique, ok_reply(hd0.unique, out.sbytes().subrange(0, init_out_len(minor)), Seq::<u8>::empty())));
                }''')]),
        Fn(SYNC, SRV, 'setxattr', requires=handler_contract('setxattr'), external_body=EXT('setxattr'), props=['C01'], canary=not EXT('setxattr'),
           # Iterator::position over the bytes with the predicate "is NUL" = index of the first NUL byte (definition of position): model call, logged
           body_resub=[(r'buf\s*\.iter\(\)\s*\.position\(\|c\| \*c == b\'\\0\'\)', 'nul_position(&buf)', 'Iterator::position(|c| *c == 0) over a byte vector = index of its first NUL byte')],
           splices=[E0, name_hint('size_of::<SetxattrIn>()', 8),
                    ('|p|', 'closure', '|p: usize| -> (q: usize) requires p < usize::MAX ensures q == p + 1'),
                    ('let (name, value) = buf.split_at(split_pos);', 'before', 'proof { lemma_nul_prefix(buf@); }'),
                    ('let (name, value) = buf.split_at(split_pos);', 'after', '''proof {
            assert(name@ =~= buf@.subrange(0, first_nul(buf@) + 1)); assert(value@ =~= buf@.subrange(first_nul(buf@) + 1, buf@.len() as int));
            assert(buf@ =~= xattr_body(hd0, rem0));
            assert(has_nul(name@) && cstr_of(name@) =~= cstr_of(buf@));
            assert(value@.len() == buf@.len() - (first_nul(buf@) + 1));
            assert(rem0.len() >= 8 && hd0.len as int - 40 - 8 >= 0 && rem0.len() >= 8 + (hd0.len as int - 40 - 8) && has_nul(xattr_body(hd0, rem0)));
        }''')]),
        Fn(SYNC, SRV, 'ioctl', requires=handler_contract('ioctl'), external_body=EXT('ioctl'), props=['C01'], canary=not EXT('ioctl'),
           splices=[E0, ('^', 'after', 'proof { reveal(errno_reply); }'),
                    ('buf.data = Some(&data[..size]);', 'after',
                     'proof { assert(data@.subrange(0, size as int) =~= rem0.subrange(32, 32 + in_size as int)); }')]),
        Fn(SYNC, SRV, 'batch_forget', requires=handler_contract('batch_forget', noreply=True), external_body=EXT('batch_forget'), props=['C01'], canary=not EXT('batch_forget'),
           splices=[E0, ('^', 'after', 'proof { assert((1u32 << 20) == 0x10_0000u32) by (bit_vector); }'),
                    ('let mut requests = Vec::with_capacity(count as usize);', 'after', 'let ghost ctx0 = ctx;'),
                    ('for _i in 0..count {', 'replace', '''for _i in iter: 0..count
            invariant
                requests@.len() == _i, rem0.len() >= 8, convs_ok::<F>(), count as int * 16 <= 0x10_1000,
                ctx.r.rem@ == rem0.skip(8 + 16 * (_i as int)),
                rem0.len() >= 8 + 16 * (_i as int),
                ctx.w == ctx0.w, ctx.in_header == ctx0.in_header, ctx.context == ctx0.context,
                forall|j: int| 0 <= j < _i ==> requests@[j] == (ino_of::<F>(forget_one_at(rem0, j).nodeid), forget_one_at(rem0, j).nlookup),
        {
            proof { if ctx.r.rem@.len() >= 16 { assert(ctx.r.rem@.subrange(0, 16) =~= rem0.subrange(8 + 16 * (_i as int), 8 + 16 * (_i as int) + 16)); assert(ctx.r.rem@.skip(16) =~= rem0.skip(8 + 16 * (_i as int + 1))); } }'''),
                    ('|f|', 'closure', '|f: ForgetOne| -> (q: (F::Inode, u64)) ensures q == (ino_of::<F>(f.nodeid), f.nlookup)'),
                    ('self.fs.batch_forget(ctx.context(), requests);', 'before',
                     'proof { let a = <BatchForgetIn as ByteValued>::sdecode(rem0.subrange(0, 8)); assert(requests@ =~= Seq::new(a.count as nat, |i: int| (ino_of::<F>(forget_one_at(rem0, i).nodeid), forget_one_at(rem0, i).nlookup))); }')]),
        Fn(SYNC, SRV, 'setupmapping', requires=vu_contract('setupmapping'), sig_subst=SIGREQ, external_body=EXT('setupmapping'), splices=[E0, ('^', 'after', 'proof { reveal(errno_reply); }')], props=['C01'], canary=not EXT('setupmapping')),
        Fn(SYNC, SRV, 'removemapping', requires=vu_contract('removemapping'), sig_subst=SIGREQ, attrs=['#[verifier::loop_isolation(false)]'], external_body=EXT('removemapping'), props=['C01'], canary=not EXT('removemapping'),
           splices=[E0, ('^', 'after', 'proof { assert((1u32 << 20) == 0x10_0000u32) by (bit_vector); reveal(errno_reply); }'),
                    ('let mut requests = Vec::with_capacity(count as usize);', 'after', 'let ghost ctx0 = ctx;'),
                    ('for _i in 0..count {', 'replace', '''for _i in iter: 0..count
                invariant
                    requests@.len() == _i, rem0.len() >= 4, convs_ok::<F>(), count as int * 16 <= 0x10_0000,
                    ctx.r.rem@ == rem0.skip(4 + 16 * (_i as int)),
                    rem0.len() >= 4 + 16 * (_i as int),
                    wf_removemapping(hd0, rem0) ==> rem0.len() >= 4 + 16 * (count as int),
                    ctx.w == ctx0.w, ctx.in_header == ctx0.in_header, ctx.context == ctx0.context,
                    forall|j: int| 0 <= j < _i ==> requests@[j] == rm_one_at(rem0, j),
            {
                proof { if ctx.r.rem@.len() >= 16 { assert(ctx.r.rem@.subrange(0, 16) =~= rem0.subrange(4 + 16 * (_i as int), 4 + 16 * (_i as int) + 16)); assert(ctx.r.rem@.skip(16) =~= rem0.skip(4 + 16 * (_i as int + 1))); } }'''),
                    ('match self\n                .fs\n                .removemapping(', 'before',
                     'proof { let a = <RemovemappingIn as ByteValued>::sdecode(rem0.subrange(0, 4)); assert(requests@ =~= Seq::new(a.count as nat, |i: int| rm_one_at(rem0, i))); }')]),
        Fn(SYNC, SRV, 'do_readdir', props=['C01'], canary=True,
           requires=[c for c in handler_contract('readdir', want=False, reply_extra='ctx.w.cap@, ')] + [
               'wf_readdir(ctx.in_header, ctx.r.rem@) ==> (if plus { want_readdirplus(&self.fs, ctx.in_header, ctx.context, ctx.r.rem@) } else { want_readdir(&self.fs, ctx.in_header, ctx.context, ctx.r.rem@) }) // [C02.readdir.args]'],
           # the add_entry closures capture `&mut cursor` and are passed as `&mut dyn FnMut` (both rejected by Verus): each is
           # abstracted by its two free parameters - the cursor it appends to and the size limit it passes to add_dirent
           body_resub=[(r'&mut \|d, e\| add_dirent\(&mut cursor, ([^,]+), d, Some\(e\)\)', r'&mut cursor, \1', 'readdirplus callback = add_dirent on this cursor with this limit'),
                       (r'&mut \|d\| add_dirent\(&mut cursor, ([^,]+), d, None\)', r'&mut cursor, \1', 'readdir callback = add_dirent on this cursor with this limit')],
           splices=[E0, ('^', 'after', 'proof { reveal(errno_reply); }'),
                    ('let out = OutHeader {', 'before', 'proof { assert(cursor.buf@ =~= self.fs.res_dir_data()); }'),
                    ('ctx.w.commit(Some(&cursor))', 'before',
                     'proof { lemma_read_reply_frame(ctx.in_header.unique, self.fs.res_dir_data()); assert(commit_bytes(&ctx.w, Some(&cursor)) =~= hdr_bytes(16 + self.fs.res_dir_data().len(), 0, ctx.in_header.unique) + self.fs.res_dir_data()); } // [C03.readdir.bytes][C01.readdir.frame]')],
           gtag_props={'cap': ['C02', 'C03', 'C16']}),
        Fn(SYNC, SRV, 'readdir', requires=handler_contract('readdir', reply_extra='ctx.w.cap@, '), props=['C01']),
        Fn(SYNC, SRV, 'readdirplus', requires=[c.replace('want_readdir(', 'want_readdirplus(') for c in handler_contract('readdir', reply_extra='ctx.w.cap@, ')], props=['C01']),
        Fn(SMOD, SRV, 'remap_ctx_ids', sig_subst=[('SrvContext<F, S>', "SrvContext<'_, F, S>")],
           requires=['convs_ok::<F>()', 'self.fs.touch_ok()',
                     'self.fs.allowed_id_remap_with_nodeid(old(ctx).context, ino_of::<F>(old(ctx).in_header.nodeid)) // [C02.remap.args]'],
           ensures=['final(ctx).in_header == old(ctx).in_header', 'final(ctx).r == old(ctx).r', 'final(ctx).w == old(ctx).w',
                    'r is Ok <==> self.fs.res_id_remap_with_nodeid() is Ok',
                    'r is Ok ==> final(ctx).context == self.fs.ctx_id_remap_with_nodeid() // [C02.remap.ctx]'],
           splices=[('|_v|', 'closure', '|_v: io::Error| -> (q: Error)')], props=['C02']),
        Fn(SYNC, SRV, 'handle_message', ret_name='res', sig_subst=SIGREQ,
           requires=['w.fresh()', 'convs_ok::<F>()', 'self.fs.touch_ok()', 'forall|u: u32, g: u32| self.fs.ids_ok(u, g)',
                     '''r.rem@.len() >= 40 ==> ({ let hd = <InHeader as ByteValued>::sdecode(r.rem@.subrange(0, 40));
                        uniq(w.id@) == hd.unique && (may_reply(w.id@) <==> (hd.opcode != 2 && hd.opcode != 42)) }) // [C01.forget]''',
                     'want_msg(&self.fs, vu_req is Some, r.rem@) // [C02.dispatch]',
                     '''r.rem@.len() >= 56 ==> forall|v: ServerVersion| ({ let a = <InitIn as ByteValued>::sdecode(r.rem@.subrange(40, 56)); v.major == a.major && v.minor == a.minor }) ==> #[trigger] self.vers.may_store(v) // [C12.vers]''',
                     'forall|b: Seq<u8>| #[trigger] emit_ok(w.id@, b) <==> reply_msg(&self.fs, self.vers.cur().minor, vu_req is Some, w.cap@, r.rem@, b) // [C03.dispatch]'],
           splices=[('^', 'after', 'broadcast use axiom_sbytes_len, lemma_err_reply_frame; let ghost req0 = r.rem@; proof { if req0.len() >= 56 { assert(req0.skip(40).subrange(0, 16) =~= req0.subrange(40, 56)); } reveal(errno_reply); assert((1u32 << 20) == 0x10_0000u32) by (bit_vector); assert(MAX_BUFFER_SIZE == 0x10_0000u32); }')],
           ensures=['(res is Ok && answer_due(w.cap@, r.rem@)) ==> res->Ok_0 >= 16 // [C01.handle_message.replied]',
                    '(res is Err && answer_due(w.cap@, r.rem@)) ==> res->Err_0 is EncodeMessage // [C01.handle_message.answered]'],
           props=['C01'], canary=True),
    ]
    NREQ = ['w.fresh_notify()', 'may_reply(w.id@)']
    custom += [
        Fn(SYNC, SRV, 'notify_inval_entry', requires=NREQ + ['name@.len() <= MAX_REPLY_CAP',
                                                              'forall|b: Seq<u8>| #[trigger] emit_ok(w.id@, b) <==> b == notify_inval_entry_bytes(parent, name@) // [C03.notify_inval_entry.bytes]'],
           sig_subst=[('&std::ffi::CStr', '&CStr')], props=['C03'], canary=True,
           splices=[('^', 'after', 'broadcast use axiom_sbytes_len;'),
                    ('buffer_writer.commit(None)', 'before',
                     '''proof {
            let rest = entry.sbytes() + name@.push(0u8);
            lemma_notify_frame((16 + 16 + name@.len() + 1) as nat, 3, rest);
            assert(commit_bytes(&buffer_writer, None) =~= notify_inval_entry_bytes(parent, name@));
            assert(notify_inval_entry_bytes(parent, name@) =~= hdr_bytes((16 + 16 + name@.len() + 1) as nat, 3, 0) + rest);
        }''')]),
        Fn(SYNC, SRV, 'notify_inval_inode', requires=NREQ + ['forall|b: Seq<u8>| #[trigger] emit_ok(w.id@, b) <==> b == notify_inval_inode_bytes(ino, off, len) // [C03.notify_inval_inode.bytes]'],
           props=['C03'], canary=True,
           splices=[('^', 'after', 'broadcast use axiom_sbytes_len;'),
                    ('buffer_writer.commit(None)', 'before',
                     '''proof {
            lemma_notify_frame(40, 2, inode.sbytes());
            assert(commit_bytes(&buffer_writer, None) =~= notify_inval_inode_bytes(ino, off, len));
        }''')]),
        Fn(SYNC, SRV, 'notify_resend', requires=NREQ + ['forall|b: Seq<u8>| #[trigger] emit_ok(w.id@, b) <==> b == notify_resend_bytes() // [C03.notify_resend.bytes]'],
           props=['C03'], canary=True,
           splices=[('^', 'after', 'broadcast use axiom_sbytes_len;'),
                    ('buffer_writer.commit(None)', 'before',
                     '''proof {
            lemma_notify_frame(16, 7, Seq::<u8>::empty());
            assert(commit_bytes(&buffer_writer, None) =~= notify_resend_bytes());
            assert(hdr_bytes(16, 7, 0) + Seq::<u8>::empty() =~= hdr_bytes(16, 7, 0));
        }''')]),
    ]
    if only:
        custom = [c for c in custom if c.name in only.split(',')]
    items.append(Group('impl<F: FileSystem> Server<F> {', hs + custom))
    items.append(Fn(SYNC, None, 'add_dirent',
                    requires=['old(cursor).buffered@', 'old(cursor).buf@.len() <= old(cursor).cap@', 'old(cursor).cap@ <= MAX_REPLY_CAP'],
                    ensures=['final(cursor).frame_same(old(cursor))', 'final(cursor).emitted@ == old(cursor).emitted@',
                             '''({ let total = dirent_total(d.name@.len() as int, entry is Some);
                                let room = if max as int >= old(cursor).buf@.len() { max as int - old(cursor).buf@.len() } else { 0 };
                                match r {
                                    // "Ok(0) <=> nothing written": a backend that stops at the first 0 loses nothing
                                    Ok(n) => if room < total { n == 0 && final(cursor).buf@ == old(cursor).buf@ }
                                             // one WHOLE, 8-byte aligned entry: entry_out (plus only), dirent, name, zero padding
                                             else { n == total && n % 8 == 0 && final(cursor).buf@ == old(cursor).buf@ + dirent_bytes(d, entry) },
                                    Err(_) => true } }) // [C03.dirent.whole][C16.dirent.fit]''',
                             'r is Ok && old(cursor).buf@.len() <= max ==> final(cursor).buf@.len() <= max // [C03.dirent.max][C16.dirent.max]'],
                    splices=[('^', 'after', 'broadcast use axiom_sbytes_len;'),
                             ('|l|', 'closure', '|l: usize| -> (q: usize) ensures q == l & !7usize'),
                             ('// Skip the entry if there', 'before', 'proof { lemma_pad(dirent_len); }'),
                             ('Ok(total_len)', 'before', '''proof {
            let e = match entry { Some(e) => entry_out(e).sbytes(), None => Seq::<u8>::empty() };
            let dh = (Dirent { ino: d.ino, off: d.offset, namelen: d.name@.len() as u32, type_: d.type_ }).sbytes();
            let pad = zeros(padding as int);
            assert(padding as int == dirent_pad(d.name@.len() as int));
            assert(cursor.buf@.len() == old(cursor).buf@.len() + e.len() + dh.len() + d.name@.len() + pad.len());
            assert(cursor.buf@ =~= old(cursor).buf@ + e + dh + d.name@ + pad);
            assert(dirent_bytes(d, entry) =~= e + dh + d.name@ + pad);
            assert(old(cursor).buf@ + e + dh + d.name@ + pad =~= old(cursor).buf@ + (e + dh + d.name@ + pad));
        }''')],
                    props=['C03', 'C16'], canary=True))
    # "every request that requires a reply gets exactly one": a handler of a replying opcode may return Ok only after one complete reply was
    # written (Ok carries the number of bytes of that reply; at least the 16-byte header).  FORGET / BATCH_FORGET / INTERRUPT / NOTIFY_REPLY have none.
    NOREPLY_OPS = {'forget', 'batch_forget', 'interrupt', 'notify_reply', 'destroy'}       # destroy returns nothing (its reply is checked by [once]/[emit])
    opnames = set(n for (_, n) in OPCODES) | {'do_rename', 'do_readdir'}

    def add_replied(its):
        for it in its:
            if isinstance(it, Group):
                add_replied(it.items)
            if isinstance(it, Fn) and not it.external_body:
                # annotation only: the eta-expanded constructor closure (rule R1) gets its postcondition (the value it builds)
                it.body_resub = list(it.body_resub) + [MAPERR_ANNOT]
            if isinstance(it, Fn) and it.scope == SRV and it.name in opnames and it.name not in NOREPLY_OPS and not it.external_body:
                it.ensures = list(it.ensures) + ['%s is Ok ==> %s->Ok_0 >= 16 // [C01.%s.replied]' % (it.ret_name or 'r', it.ret_name or 'r', it.name)]
                wf = {'do_rename': 'wf_do_rename(ctx.in_header, ctx.r.rem@, msg_size as int)', 'do_readdir': 'wf_readdir(ctx.in_header, ctx.r.rem@) && ctx.w.cap@ >= 16',
                      'readdirplus': 'wf_readdir(ctx.in_header, ctx.r.rem@) && ctx.w.cap@ >= 16', 'readdir': 'wf_readdir(ctx.in_header, ctx.r.rem@) && ctx.w.cap@ >= 16',
                      # READ / READDIR[PLUS] split the reply buffer at 16 before anything else: a reply buffer without room for a header gets no reply at all
                      'read': 'wf_read(ctx.in_header, ctx.r.rem@) && ctx.w.cap@ >= 16'}.get(it.name, 'wf_%s(ctx.in_header, ctx.r.rem@)' % it.name)
                # IOCTL is left out: it reads its input with Reader::read, whose model may fail for any reason (Err(_) => true)
                if os.environ.get('SRV_ANSWERED', '1') == '1' and it.name != 'ioctl' and any(wf.split(' && ')[0] in c for c in it.requires):
                    rn = it.ret_name or 'r'
                    it.ensures = list(it.ensures) + ['(%s is Err && %s) ==> %s->Err_0 is EncodeMessage // [C01.%s.answered]' % (rn, wf, rn, it.name)]
    if os.environ.get('SRV_REPLIED', '1') == '1':
        add_replied(items)

    # "message handling returns without panicking" (C01) is about EVERY function on the request path: an untagged failure (a possible overflow, an
    # unwrap() / expect() / index whose precondition cannot be proved, a debug assertion) inside init, the conversions, add_dirent, the notification
    # writers .. counts for C01 as well as for the function's own property.  Tagged clauses keep the attribution of their tag.
    def also_c01(its):
        for it in its:
            if isinstance(it, Group):
                also_c01(it.items)
            elif isinstance(it, Fn) and 'C01' not in it.props:
                it.props = list(it.props) + ['C01']
    also_c01(items)
    return Unit('server', items, preludes=['base.rs', 'stdmodel.rs', 'transport.rs', 'server.rs'],
                generic_tags={'cap': ['C02'], 'touch': ['C02'], 'ids': ['C02'], 'emit': ['C03'], 'frame': ['C01'], 'noreply': ['C01'],
                              'once': ['C01'], 'assert': ['C01'], 'store': ['C12']},
                notes='\n'.join(notes))


# annotation only: the eta-expanded constructor closure (rule R1) gets its postcondition (the value it builds)
MAPERR_ANNOT = (r'\.map_err\(\|e\| Error::(EncodeMessage|DecodeMessage)\(e\)\)',
                r'.map_err(|e: io::Error| -> (q: Error) ensures q == Error::\1(e) { Error::\1(e) })',
                'every: closure |e| Error::X(e) annotated with its result (no code change)')
HCLOSURE = ('|v|', 'closure', '|v: F::Handle| -> (q: u64) ensures q == fh_u64::<F>(v)')
HANDLER_SPLICES = {
    'open': [HCLOSURE], 'opendir': [HCLOSURE],
}

LEMMAS = r'''
// ---- lemmas about the reply encodings (checked by Verus)
pub proof fn lemma_ok_reply_frame(u: u64, d2: Seq<u8>, d3: Seq<u8>)
    requires 16 + d2.len() + d3.len() <= 0xffff_ffff
    ensures frame_ok(u, ok_reply(u, d2, d3)), ok_reply(u, d2, d3).len() == 16 + d2.len() + d3.len(),   // [C01.frame.ok_reply]
            ok_reply(u, d2, d3) =~= hdr_bytes(16 + d2.len() + d3.len(), 0, u) + (d2 + d3),
{
    broadcast use axiom_sbytes_len, axiom_decode_encode;
    reveal(ok_reply); reveal(frame_ok);
    let h = OutHeader { len: (16 + d2.len() + d3.len()) as u32, error: 0, unique: u };
    let m = ok_reply(u, d2, d3);
    assert(h.sbytes().len() == 16);
    assert(m.subrange(0, 16) =~= h.sbytes());
}
pub proof fn lemma_read_reply_frame(u: u64, data: Seq<u8>)
    requires 16 + data.len() <= 0xffff_ffff
    ensures frame_ok(u, hdr_bytes(16 + data.len(), 0, u) + data), (hdr_bytes(16 + data.len(), 0, u) + data).len() == 16 + data.len(),   // [C01.frame.read_reply]
{
    broadcast use axiom_sbytes_len, axiom_decode_encode;
    reveal(frame_ok);
    let h = OutHeader { len: (16 + data.len()) as u32, error: 0, unique: u };
    assert(h.sbytes().len() == 16);
    assert((h.sbytes() + data).subrange(0, 16) =~= h.sbytes());
}
pub broadcast proof fn lemma_ios_concat(s: Seq<IoSlice<'_>>)
    ensures s.len() == 2 ==> #[trigger] ios_concat(s) =~= s[0].b@ + s[1].b@,
            s.len() == 3 ==> ios_concat(s) =~= s[0].b@ + s[1].b@ + s[2].b@,
{
    reveal_with_fuel(ios_concat, 4);
    if s.len() == 2 { assert(s.skip(1).skip(1).len() == 0); assert(s.skip(1)[0] == s[1]); }
    if s.len() == 3 { assert(s.skip(1).skip(1).skip(1).len() == 0); assert(s.skip(1)[0] == s[1]); assert(s.skip(1).skip(1)[0] == s[2]); }
}
pub broadcast proof fn lemma_err_reply_frame(u: u64, e: io::Error)
    requires err_ok(e)
    ensures frame_ok(u, #[trigger] err_reply(u, e)), err_reply(u, e).len() == 16, is_err_reply(u, err_reply(u, e)),   // [C01.frame.err_reply]
{
    broadcast use axiom_sbytes_len, axiom_decode_encode;
    reveal(errno_reply); reveal(frame_ok); reveal(is_err_reply);
    assert(0 < err_code(e)) by { if e.os_code() is None { } }
    let h = OutHeader { len: 16u32, error: (-err_code(e)) as i32, unique: u };
    assert(h.sbytes().len() == 16);
    assert(err_reply(u, e).subrange(0, 16) =~= h.sbytes());
}
'''
