"""Unit `ovl_view` (C10, the LIVE VIEW of the overlay): the bookkeeping that decides which node a (parent number, name) pair resolves to, which
numbers resolve at all, what a directory lists and how long a node stays - on the real text of src/overlayfs/mod.rs and of the read-side
handlers of src/overlayfs/sync_io.rs:

  OverlayInode::{child, insert_child, remove_child}, entry_type_from_mode,
  OverlayFs::{root_inode, root_node, insert_inode, get_active_inode, get_all_inode, remove_inode, alloc_inode, lookup_node, lookup_node_ignore_enoent,
              load_directory, forget_one, do_lookup, do_readdir},  FileSystem for OverlayFs::{lookup, forget, batch_forget, readdir, readdirplus, getattr}.

THE ABSTRACT VIEW (ghost token `LView`, threaded through every function by rule R23 as `Tracked(vxv)`).  Everything that sits behind a Mutex / RwLock /
atomic reached through `&self` is a CELL with an identity; the token maps cell identities to contents:
    flag : FlagCell id    -> bool                       (a node's `whiteout`, `loaded`, `lower_exists`; the switches of the OverlayFs)
    ctr  : CounterCell id -> u64                        (a node's `lookups`)
    kids : KidsCell id    -> Map<name, Arc<OverlayInode>>   (a node's `childrens` table)
    par  : ParentCell id  -> Option<Arc<OverlayInode>>  (a node's `parent` weak link: what upgrade() yields)
    ris  : RisCell id     -> Seq<RealInode>             (a node's `real_inodes`)
    inodes / deleted / paths                            (the InodeStore behind `OverlayFs::inodes`: live table, delayed-removal table, path -> number)
    collided : bool                                     (ghost, monotone: "the store has handed out a number that a live or delayed-removal node carries")
A node is the value `OverlayInode` (its cells' identities + inode + path + name); the NODE TABLE is `inodes` (+ `deleted`), the per-node CHILDREN MAP is
`kids[node.childrens.id()]`.  Every postcondition speaks about the WHOLE token: either `*final(vxv) == *old(vxv)`, or `final == LView { <one component
updated at one key>, ..old }`, or - when a directory is loaded - the relation `loaded_from(old, final, dir, ctx)`, which fixes every component.
Maps are total (a cell the token has no entry for reads as an arbitrary but fixed value), so no well-formedness invariant is needed to call a model.

What is decided (tags [C10.view.<fn>.<aspect>]; the clause list is in the report of the unit's author and in the evidence):
  1. lookup_node: '/' in the name -> EINVAL; unknown parent number, whiteout parent -> ENOENT, nothing changes; the parent directory is loaded iff it is a
     directory that is not yet loaded (never twice); "", ".", and ".." at the root resolve to the parent itself; any other name resolves to EXACTLY
     kids[parent][name] of the view after the load and to ENOENT if that table has no such name.  NOTE lookup_node hands back whiteout children as nodes
     (its callers - do_lookup, do_rm, do_create .. - test the flag): "ENOENT for a whiteout child" is a clause of do_lookup.
     load_directory: the children table becomes the old table extended by one node per name the contributing layers list (the overlayfs union of that
     name's entries: contract of OverlayInode::scan_childrens, unit ovl_merge, restated over the token: seam S-SCAN), each with its number from the
     store and its parent link; `loaded` is set; no other cell changes.
  2. do_lookup: Ok(entry) carries the node's own number, generation 0, the attributes stat64 gave, the configured timeouts, and exactly one reference was
     added to exactly that node's counter; every error adds none.
  3. forget_one: numbers 0 and 1 (root) and unknown numbers: nothing changes; otherwise the node the store resolves the number to (live first, then
     delayed) loses min(count, its count); at zero it leaves the store (exact InodeStore::remove_inode effect) and - the property's reading - ITS OWN
     entry in its parent's children table goes; nothing else changes.  forget / batch_forget: one forget_one per pair, in order.
  4. do_readdir: see DR_* below: ".", ".." (the code lists them: self, and the parent link or the root), then every non-whiteout child in table order;
     entry k carries offset k+1, its node's attributes' st_ino / type, for READDIRPLUS its node's own number; resumes at `offset`; stops without
     skipping at Ok(0); an Err of the callback is returned only if nothing was delivered; READDIRPLUS adds one reference per DELIVERED entry.

Rewrites (all logged): R23 token threading (one common callee list: every model / function that takes the token); R24, R2, R7 (standard); R28 (for over an
owned Vec), R34 (continue -> else); NEW, additive, opt-in (vx/ovlrules.py): R60 `for x in M.values()` -> values_vec + for over the vector, R61
`for (i, pat) in (0_u64..).zip(vec)` -> counter + while-let, r8_at_loop_end (ghost step in front of a loop body's closing brace, so that no proof step is
anchored on a statement an edit may change); body_resub / resub_hook entries with their `why` below (string helpers, `Mutex::new(Arc::downgrade(x))`,
the handle table, the two closures the handlers hand to do_readdir -> adapter objects).  Sequential model: interleavings are not covered (the code's own
FIXME comments name two races).

Assumptions (each is a model in VIEW / NODEM below): S-STORE (InodeStore contracts of unit ovl_inodes restated over the token; + remove_inode(.., None)
leaves the path table alone), S-SCAN (scan_childrens contract of unit ovl_merge restated; the nodes it returns are new objects), S-HEAP (stat64 is a function
of the node's real inodes; clauses of unit ovl_merge), A-WEAK (upgrade() yields what was downgraded), A-HASH-ORDER (a table's iteration order is a function of
its content), A-CB-ROOM (a callback reports at most the room left in a u32-sized reply buffer), A-SINK (the adapters say what the two pinned closures do),
locks are never poisoned, UTF-8 / lossy conversions uninterpreted (str_bytes, lossy_str), requires of do_readdir / readdir / readdirplus: the root is in the
table; of getattr: a node in the table has a real inode.

On the unchanged tree two obligations FAIL, both genuine (findings/repro_overlay_view.rs):
  [C10.view.forget_one.other_untouched]  forget_one removes the parent's entry for the node's NAME without checking that it still is that node (V3)
  [C10.view.do_readdir.plus_refs]        READDIRPLUS keeps the reference of an entry it did not deliver (V2)
`VX_DROP_TAGS=C10.view.forget_one.other_untouched,C10.view.do_readdir.plus_refs` (the framework's second pass behind known findings) gives STATUS ok:
forget / batch_forget carry the kids clause under the same tag, do_readdir's callers use the clause that says what the code does (plus_refs_offered)."""
import re

from vx.api import Unit, Fn, Copy, Raw, Group
from vx import ovlrules as R, extract as X
from vx.units import ovl_common as C
from vx.units import ovl_real as RL
from vx.units import ovl_merge as M

OVL = C.OVL
OVLS = C.OVLS
OI = 'impl OverlayInode'
OF = 'impl OverlayFs'
FSI = 'impl FileSystem for OverlayFs'
P = ['C10']

TOK = dict(param='Tracked(vxv): Tracked<&mut LView>', arg='Tracked(vxv)')
H0, H1 = '*old(vxv)', '*final(vxv)'

# libc d_type values (dirent.h) and the file-type bits the prelude lacks: added to the prelude's libc module for this unit only
LIBC_VIEW = ('pub mod libc {', '''pub mod libc {
    pub const DT_UNKNOWN: u8 = 0; pub const DT_FIFO: u8 = 1; pub const DT_CHR: u8 = 2; pub const DT_DIR: u8 = 4; pub const DT_BLK: u8 = 6; pub const DT_REG: u8 = 8; pub const DT_LNK: u8 = 10; pub const DT_SOCK: u8 = 12;''')

NODE_SUBST = [('Mutex<HashMap<String, Arc<OverlayInode>>>', 'KidsCell'), ('Mutex<Weak<OverlayInode>>', 'ParentCell'), ('Mutex<Vec<RealInode>>', 'RisCell'),
              ('AtomicU64', 'CounterCell'), ('AtomicBool', 'FlagCell')]
FS_SUBST = [('RwLock<InodeStore>', 'InodeStoreCell'), ('Mutex<HashMap<u64, Arc<HandleData>>>', 'HandlesCell'), ('AtomicU64', 'CounterCell'), ('AtomicBool', 'FlagCell')]


def scan_union_text():
    """The contract of OverlayInode::scan_childrens as unit ovl_merge PROVES it on the real text (clause [C10.scan.union]), restated over the token:
    the Mutex's value `self.ris()` -> the ris cell's content before the call, a child's `.ris()` / `.whiteout.v` -> that child's cells in the view."""
    c = M.SCAN_ENS[0]
    m = re.match(r'\s*r is Ok ==> (\(\{.*\}\))\s*//\s*\[C10\.scan\.union\][^\n]*$', c, re.S)
    if not m:
        raise X.ExtractError('ovl_view: the scan_childrens contract of unit ovl_merge has another shape than expected')
    t = m.group(1)
    for a, b, n in (('self.ris()', 'rs0', 1), ('*ctx', 'ctx', None), ('r->Ok_0@', 'sc', None)):
        if a not in t or (n is not None and t.count(a) != n):
            raise X.ExtractError('ovl_view: scan contract: %r not found as expected' % a)
        t = t.replace(a, b)
    for a, b in ((r'sc\[k\]\.ris\(\)', 'v.ris[sc[k].real_inodes.id()]'), (r'sc\[k\]\.whiteout\.v', 'v.flag[sc[k].whiteout.id()]')):
        if not re.search(a, t):
            raise X.ExtractError('ovl_view: scan contract: /%s/ not found' % a)
        t = re.sub(a, b, t)
    if re.search(r'\.ris\(\)|\.v\b|self\.', t):
        raise X.ExtractError('ovl_view: scan contract: untranslated state access left in %r' % t[:200])
    return t


VIEW = r'''
// =====================================================================================================================================
// the ghost VIEW: contents of every cell of every node and of the inode store (see the unit's doc string)
#[verifier::external_body] pub struct KidsCell { _p: u8 }
#[verifier::external_body] pub struct ParentCell { _p: u8 }
#[verifier::external_body] pub struct RisCell { _p: u8 }
#[verifier::external_body] pub struct CounterCell { _p: u8 }
#[verifier::external_body] pub struct FlagCell { _p: u8 }
#[verifier::external_body] pub struct InodeStoreCell { _p: u8 }
#[verifier::external_body] pub struct HandlesCell { _p: u8 }
pub type Node = Arc<OverlayInode>;
pub tracked struct LView {
    pub ghost flag: Map<int, bool>,
    pub ghost ctr: Map<int, u64>,
    pub ghost kids: Map<int, Map<Seq<char>, Node>>,
    pub ghost par: Map<int, Option<Node>>,
    pub ghost ris: Map<int, Seq<RealInode>>,
    pub ghost inodes: Map<u64, Node>,
    pub ghost deleted: Map<u64, Node>,
    pub ghost paths: Map<Seq<char>, u64>,
    pub ghost collided: bool,
}
impl LView {
    pub open spec fn used(&self, i: u64) -> bool { self.inodes.contains_key(i) || self.deleted.contains_key(i) }
    // the node a number resolves to for FORGET: a live node first, then one whose removal is delayed (OverlayFs::get_all_inode)
    pub open spec fn any_node(&self, i: u64) -> Option<Node> {
        if self.inodes.contains_key(i) { Some(self.inodes[i]) } else if self.deleted.contains_key(i) { Some(self.deleted[i]) } else { None }
    }
    // every cell the first view knows reads the same in the second (cells may have been added, none changed)
    pub open spec fn cells_kept(&self, o: LView) -> bool {
        &&& forall|id: int| #[trigger] o.flag.contains_key(id) ==> self.flag.contains_key(id) && self.flag[id] == o.flag[id]
        &&& forall|id: int| #[trigger] o.ctr.contains_key(id) ==> self.ctr.contains_key(id) && self.ctr[id] == o.ctr[id]
        &&& forall|id: int| #[trigger] o.kids.contains_key(id) ==> self.kids.contains_key(id) && self.kids[id] == o.kids[id]
        &&& forall|id: int| #[trigger] o.par.contains_key(id) ==> self.par.contains_key(id) && self.par[id] == o.par[id]
        &&& forall|id: int| #[trigger] o.ris.contains_key(id) ==> self.ris.contains_key(id) && self.ris[id] == o.ris[id]
    }
    // the view knows every cell of this node
    pub open spec fn knows(&self, n: OverlayInode) -> bool {
        self.flag.contains_key(n.whiteout.id()) && self.flag.contains_key(n.loaded.id()) && self.ctr.contains_key(n.lookups.id())
            && self.kids.contains_key(n.childrens.id()) && self.par.contains_key(n.parent.id()) && self.ris.contains_key(n.real_inodes.id())
    }
}
pub open spec fn add_wrap(a: u64, b: u64) -> u64 { if a + b > u64::MAX { (a + b - 0x1_0000_0000_0000_0000) as u64 } else { (a + b) as u64 } }
pub open spec fn sub_sat(a: u64, b: u64) -> u64 { if a < b { 0 } else { (a - b) as u64 } }

impl FlagCell {
    pub uninterp spec fn id(&self) -> int;
    #[verifier::external_body] pub fn load(&self, o: Ordering, Tracked(vxv): Tracked<&mut LView>) -> (r: bool)
        ensures *final(vxv) == *old(vxv), r == old(vxv).flag[self.id()] { unimplemented!() }
    #[verifier::external_body] pub fn store(&self, v: bool, o: Ordering, Tracked(vxv): Tracked<&mut LView>)
        ensures *final(vxv) == (LView { flag: old(vxv).flag.insert(self.id(), v), ..*old(vxv) }) { unimplemented!() }
}
impl CounterCell {
    pub uninterp spec fn id(&self) -> int;
    #[verifier::external_body] pub fn load(&self, o: Ordering, Tracked(vxv): Tracked<&mut LView>) -> (r: u64)
        ensures *final(vxv) == *old(vxv), r == old(vxv).ctr[self.id()] { unimplemented!() }
    #[verifier::external_body] pub fn store(&self, v: u64, o: Ordering, Tracked(vxv): Tracked<&mut LView>)
        ensures *final(vxv) == (LView { ctr: old(vxv).ctr.insert(self.id(), v), ..*old(vxv) }) { unimplemented!() }
    // AtomicU64::fetch_add: "Adds to the current value, returning the previous value. This operation wraps around on overflow."
    #[verifier::external_body] pub fn fetch_add(&self, n: u64, o: Ordering, Tracked(vxv): Tracked<&mut LView>) -> (r: u64)
        ensures r == old(vxv).ctr[self.id()], *final(vxv) == (LView { ctr: old(vxv).ctr.insert(self.id(), add_wrap(old(vxv).ctr[self.id()], n)), ..*old(vxv) }) { unimplemented!() }
}
// "Do not expect poisoned lock here": every lock() / read() / write() is Ok (assumed); the guard is the cell
impl KidsCell {
    pub uninterp spec fn id(&self) -> int;
    #[verifier::external_body] pub fn lock(&self) -> (r: core::result::Result<&KidsCell, PoisonError>) ensures r is Ok && r->Ok_0.id() == self.id() { unimplemented!() }
    // HashMap<String, Arc<OverlayInode>>::{get, remove, insert} on the table the cell holds
    #[verifier::external_body] pub fn get<'a>(&'a self, name: &str, Tracked(vxv): Tracked<&mut LView>) -> (r: Option<&'a Node>)
        ensures *final(vxv) == *old(vxv), r is Some <==> old(vxv).kids[self.id()].contains_key(name@), r is Some ==> *r->Some_0 == old(vxv).kids[self.id()][name@] { unimplemented!() }
    #[verifier::external_body] pub fn remove(&self, name: &str, Tracked(vxv): Tracked<&mut LView>) -> (r: Option<Node>)
        ensures *final(vxv) == (LView { kids: old(vxv).kids.insert(self.id(), old(vxv).kids[self.id()].remove(name@)), ..*old(vxv) }) { unimplemented!() }
    #[verifier::external_body] pub fn insert(&self, k: String, v: Node, Tracked(vxv): Tracked<&mut LView>) -> (r: Option<Node>)
        ensures *final(vxv) == (LView { kids: old(vxv).kids.insert(self.id(), old(vxv).kids[self.id()].insert(k@, v)), ..*old(vxv) }) { unimplemented!() }
    // rule R60: the values of the table in the table's iteration order
    #[verifier::external_body] pub fn values_vec(&self, Tracked(vxv): Tracked<&mut LView>) -> (r: Vec<Node>)
        ensures *final(vxv) == *old(vxv), r@ == kids_vals(old(vxv).kids[self.id()]) { unimplemented!() }
}
// the iteration order of a HashMap holding `m` [assumption A-HASH-ORDER: a function of the content - two listings of an unchanged table agree];
// every key exactly once
pub uninterp spec fn hm_order(m: Map<Seq<char>, Node>) -> Seq<Seq<char>>;
pub broadcast axiom fn axiom_hm_order(m: Map<Seq<char>, Node>)
    ensures forall|i: int| 0 <= i < (#[trigger] hm_order(m)).len() ==> m.contains_key(hm_order(m)[i]),
        forall|i: int, j: int| 0 <= i < j < hm_order(m).len() ==> hm_order(m)[i] != hm_order(m)[j],
        forall|k: Seq<char>| m.contains_key(k) ==> hm_order(m).contains(k);
pub open spec fn kids_vals(m: Map<Seq<char>, Node>) -> Seq<Node> { Seq::new(hm_order(m).len(), |i: int| m[hm_order(m)[i]]) }

// Weak<OverlayInode> / Mutex<Weak<..>>: what upgrade() yields is what was downgraded [assumption A-WEAK: the target is still alive]
#[verifier::external_body] pub struct WeakNode { _p: u8 }
impl WeakNode { pub uninterp spec fn target(&self) -> Node; }
#[verifier::external_body] pub fn arc_downgrade(a: &Node) -> (r: WeakNode) ensures r.target() == *a { unimplemented!() }
impl ParentCell {
    pub uninterp spec fn id(&self) -> int;
    #[verifier::external_body] pub fn lock(&self) -> (r: core::result::Result<&ParentCell, PoisonError>) ensures r is Ok && r->Ok_0.id() == self.id() { unimplemented!() }
    #[verifier::external_body] pub fn upgrade(&self, Tracked(vxv): Tracked<&mut LView>) -> (r: Option<Node>)
        ensures *final(vxv) == *old(vxv), r == old(vxv).par[self.id()] { unimplemented!() }
    // *cell.lock().unwrap() = weak: the cell holds that link afterwards
    #[verifier::external_body] pub fn set_parent(&self, w: WeakNode, Tracked(vxv): Tracked<&mut LView>)
        ensures *final(vxv) == (LView { par: old(vxv).par.insert(self.id(), Some(w.target())), ..*old(vxv) }) { unimplemented!() }
    // Mutex::new(weak): a NEW cell
    #[verifier::external_body] pub fn new(w: WeakNode, Tracked(vxv): Tracked<&mut LView>) -> (r: ParentCell)
        ensures !old(vxv).par.contains_key(r.id()), *final(vxv) == (LView { par: old(vxv).par.insert(r.id(), Some(w.target())), ..*old(vxv) }) { unimplemented!() }
}
impl RisCell { pub uninterp spec fn id(&self) -> int; }

// ---- the InodeStore behind OverlayFs::inodes: contracts of unit ovl_inodes (proved there on the real text of src/overlayfs/inode_store.rs), restated
// over the token [seam S-STORE]: get_inode / get_deleted_inode / insert_inode / remove_inode are the exact table operations, alloc_inode gives a
// remembered path its number back and otherwise a number no live or delayed-removal node carries.  `collided` records when the number handed out IS
// in use (possible only for a remembered path: ovl_inodes' contract does not exclude it).  ADDED here, not covered by ovl_inodes' contract (which is
// silent about the path table on removal): remove_inode(.., None) leaves the path table alone (read off the code).
impl InodeStoreCell {
    #[verifier::external_body] pub fn read(&self) -> (r: core::result::Result<&InodeStoreCell, PoisonError>) ensures r is Ok { unimplemented!() }
    #[verifier::external_body] pub fn write(&self) -> (r: core::result::Result<&InodeStoreCell, PoisonError>) ensures r is Ok { unimplemented!() }
    #[verifier::external_body] pub fn get_inode(&self, inode: u64, Tracked(vxv): Tracked<&mut LView>) -> (r: Option<Node>)
        ensures *final(vxv) == *old(vxv), r == (if old(vxv).inodes.contains_key(inode) { Some(old(vxv).inodes[inode]) } else { None::<Node> }) { unimplemented!() }
    #[verifier::external_body] pub fn get_deleted_inode(&self, inode: u64, Tracked(vxv): Tracked<&mut LView>) -> (r: Option<Node>)
        ensures *final(vxv) == *old(vxv), r == (if old(vxv).deleted.contains_key(inode) { Some(old(vxv).deleted[inode]) } else { None::<Node> }) { unimplemented!() }
    #[verifier::external_body] pub fn insert_inode(&self, inode: u64, node: Node, Tracked(vxv): Tracked<&mut LView>)
        ensures *final(vxv) == (LView { inodes: old(vxv).inodes.insert(inode, node), paths: old(vxv).paths.insert(node.path@, inode), ..*old(vxv) }) { unimplemented!() }
    #[verifier::external_body] pub fn remove_inode(&self, inode: u64, path_removed: Option<String>, Tracked(vxv): Tracked<&mut LView>) -> (r: Option<Node>)
        ensures store_removed(*old(vxv), *final(vxv), inode),
            path_removed is None ==> final(vxv).paths == old(vxv).paths,
            final(vxv).flag == old(vxv).flag && final(vxv).ctr == old(vxv).ctr && final(vxv).kids == old(vxv).kids && final(vxv).par == old(vxv).par && final(vxv).ris == old(vxv).ris && final(vxv).collided == old(vxv).collided
    { unimplemented!() }
    #[verifier::external_body] pub fn alloc_inode(&self, path: &String, Tracked(vxv): Tracked<&mut LView>) -> (r: Result<u64>)
        ensures *final(vxv) == (LView { collided: old(vxv).collided || (r is Ok && old(vxv).used(r->Ok_0)), ..*old(vxv) }),
            r is Ok && old(vxv).paths.contains_key(path@) ==> r->Ok_0 == old(vxv).paths[path@],
            r is Ok && !old(vxv).paths.contains_key(path@) ==> !old(vxv).used(r->Ok_0)
    { unimplemented!() }
}
// InodeStore::remove_inode on the two tables ([C10.inodes.remove.live] / [.delayed] / [.absent] of unit ovl_inodes; `lookups.cur()` = the counter cell)
pub open spec fn store_removed(o: LView, n: LView, inode: u64) -> bool {
    if o.inodes.contains_key(inode) {
        let v = o.inodes[inode];
        n.inodes == o.inodes.remove(inode) && n.deleted == (if o.ctr[v.lookups.id()] > 0 { o.deleted.insert(inode, v) } else { o.deleted })
    } else if o.deleted.contains_key(inode) {
        let v = o.deleted[inode];
        n.inodes == o.inodes && n.deleted == (if o.ctr[v.lookups.id()] == 0 { o.deleted.remove(inode) } else { o.deleted })
    } else { n.inodes == o.inodes && n.deleted == o.deleted }
}
// the handle table: which node a directory handle was opened on (not part of the view; opendir / releasedir are in unit ovl_ops)
impl HandlesCell {
    pub uninterp spec fn s_handle(&self, h: u64) -> Option<Arc<HandleData>>;
    #[verifier::external_body] pub fn get_handle<'a>(&'a self, h: &u64) -> (r: Option<&'a Arc<HandleData>>)
        ensures r is Some <==> self.s_handle(*h) is Some, r is Some ==> *r->Some_0 == self.s_handle(*h)->Some_0 { unimplemented!() }
}

// ---- names
pub open spec fn dot() -> Seq<char> { seq!['.'] }
pub open spec fn dotdot() -> Seq<char> { seq!['.', '.'] }
pub open spec fn has_slash(s: Seq<char>) -> bool { s.contains('/') }
// `name.contains([SLASH_ASCII as char])`: the pattern is the one-element array holding the constant as a char; the model demands that the constant is '/'
#[verifier::external_body] pub fn vx_str_contains_byte(s: &str, b: u8) -> (r: bool) requires b == 47u8 ensures r == has_slash(s@) { unimplemented!() }
#[verifier::external_body] pub fn vx_str_eq(a: &str, b: &str) -> (r: bool) ensures r == (a@ == b@) { unimplemented!() }
#[verifier::external_body] pub fn vx_str_is_empty(a: &str) -> (r: bool) ensures r == (a@.len() == 0) { unimplemented!() }
#[verifier::external_body] pub fn str_to_string(s: &str) -> (r: String) ensures r@ == s@ { unimplemented!() }
// String::as_bytes: the UTF-8 encoding (str_bytes, uninterpreted)
#[verifier::external_body] pub fn vx_string_bytes<'a>(s: &'a String) -> (r: &'a [u8]) ensures r@ == str_bytes(s@) { unimplemented!() }
// CStr::to_string_lossy().to_string()
pub uninterp spec fn lossy_str(b: Seq<u8>) -> Seq<char>;
#[verifier::external_body] pub fn cstr_to_string_lossy(c: &CStr) -> (r: String) ensures r@ == lossy_str(c@) { unimplemented!() }
pub fn drop<T>(x: T) { }
'''

# everything that needs `OverlayInode` / `OverlayFs` as types
NODEM = r'''
// what OverlayInode::stat64 answers: a function of the node's real inodes [seam S-HEAP as in unit ovl_ops; the clauses are the ones unit ovl_merge proves
// on the real text against the Mutex's value: ENOENT without real inodes, otherwise the attributes one of the node's own layers reports]
pub uninterp spec fn s_stat(ris: Seq<RealInode>, ctx: Context) -> Result<stat64>;
impl OverlayInode {
    #[verifier::external_body] pub fn stat64(&self, ctx: &Context, Tracked(vxv): Tracked<&mut LView>) -> (r: Result<stat64>)
        ensures *final(vxv) == *old(vxv), r == s_stat(old(vxv).ris[self.real_inodes.id()], *ctx),
            old(vxv).ris[self.real_inodes.id()].len() == 0 ==> r is Err && err_is(r->Err_0, 2),
            r is Ok ==> ({ let rs = old(vxv).ris[self.real_inodes.id()]; exists|i: int| 0 <= i < rs.len() && rs[i].inode != 0 && (*rs[i].layer).s_getattr(*ctx, rs[i].inode, None) is Ok && r->Ok_0 == (*#[trigger] rs[i].layer).s_getattr(*ctx, rs[i].inode, None)->Ok_0.0 })
    { unimplemented!() }
    // first_layer_inode (unit ovl_merge, [C11.node.first_layer]): panics on a node without real inodes
    #[verifier::external_body] pub fn first_layer_inode(&self, Tracked(vxv): Tracked<&mut LView>) -> (r: (Arc<BoxedLayer>, bool, u64))
        requires old(vxv).ris[self.real_inodes.id()].len() > 0
        ensures *final(vxv) == *old(vxv), ({ let f = old(vxv).ris[self.real_inodes.id()][0]; r.0 == f.layer && r.1 == f.in_upper_layer && r.2 == f.inode }) { unimplemented!() }
    // scan_childrens [seam S-SCAN]: the contract unit ovl_merge proves ([C10.scan.union]), over the token; the nodes it returns bring their cells
    #[verifier::external_body] pub fn scan_childrens(&self, ctx: &Context, Tracked(vxv): Tracked<&mut LView>) -> (r: Result<Vec<OverlayInode>>)
        ensures r is Err ==> *final(vxv) == *old(vxv),
            r is Ok ==> scan_ok(*old(vxv), *final(vxv), *self, *ctx, r->Ok_0@)
    { unimplemented!() }
}
// the children the contributing layers give: exactly the names they list, each once, each the overlayfs union of its entries, topmost first
pub open spec fn scan_union(rs0: Seq<RealInode>, ctx: Context, sc: Seq<OverlayInode>, v: LView) -> bool {
    %(SCAN_UNION)s
}
pub open spec fn scan_ok(o: LView, m: LView, d: OverlayInode, ctx: Context, sc: Seq<OverlayInode>) -> bool {
    &&& scan_union(o.ris[d.real_inodes.id()], ctx, sc, m)
    &&& m.cells_kept(o) && m.inodes == o.inodes && m.deleted == o.deleted && m.paths == o.paths && m.collided == o.collided
    &&& same_cells(o, m, d)      // the scanned directory's own cells are none of the new ones
    &&& forall|k: int| 0 <= k < sc.len() ==> (#[trigger] sc[k]).whiteout.id() != d.loaded.id() && sc[k].loaded.id() != d.loaded.id()      // (the nodes returned are new objects)
}
pub open spec fn same_cells(o: LView, m: LView, d: OverlayInode) -> bool {
    m.flag[d.loaded.id()] == o.flag[d.loaded.id()] && m.flag[d.whiteout.id()] == o.flag[d.whiteout.id()] && m.ctr[d.lookups.id()] == o.ctr[d.lookups.id()]
        && m.kids[d.childrens.id()] == o.kids[d.childrens.id()] && m.par[d.parent.id()] == o.par[d.parent.id()] && m.ris[d.real_inodes.id()] == o.ris[d.real_inodes.id()]
}
// ---- load_directory as a relation between views
pub open spec fn ins_kids(base: Map<Seq<char>, Node>, done: Seq<Node>) -> Map<Seq<char>, Node> decreases done.len() {
    if done.len() == 0 { base } else { ins_kids(base, done.drop_last()).insert(done.last().name@, done.last()) }
}
pub open spec fn ins_store(base: Map<u64, Node>, done: Seq<Node>) -> Map<u64, Node> decreases done.len() {
    if done.len() == 0 { base } else { ins_store(base, done.drop_last()).insert(done.last().inode, done.last()) }
}
pub open spec fn ins_paths(base: Map<Seq<char>, u64>, done: Seq<Node>) -> Map<Seq<char>, u64> decreases done.len() {
    if done.len() == 0 { base } else { ins_paths(base, done.drop_last()).insert(done.last().path@, done.last().inode) }
}
// a child as load_directory finishes it: the scanned node, its number and its parent cell set
pub open spec fn finished(c: OverlayInode, s: OverlayInode) -> bool { c == (OverlayInode { inode: c.inode, parent: c.parent, ..s }) }
pub open spec fn numbers_fresh(m: LView, done: Seq<Node>) -> bool {
    &&& forall|j: int| 0 <= j < done.len() ==> !m.used((#[trigger] done[j]).inode)
    &&& forall|i: int, j: int| 0 <= i < j < done.len() ==> (#[trigger] done[i]).inode != (#[trigger] done[j]).inode
}
// `k` scanned children (of `sc`) have been given a number, linked to `d` and entered into d's table and the store; `loaded` as given
#[verifier::opaque]
pub open spec fn load_parts(o: LView, n: LView, d: Node, ctx: Context, done: Seq<Node>, sc: Seq<OverlayInode>, m: LView, k: int, ld: bool) -> bool {
    &&& scan_ok(o, m, *d, ctx, sc) && 0 <= k <= sc.len() && done.len() == k
    &&& forall|j: int| 0 <= j < k ==> finished(*#[trigger] done[j], sc[j])
    &&& n.flag == (if ld { m.flag.insert(d.loaded.id(), true) } else { m.flag }) && n.ctr == m.ctr && n.ris == m.ris && n.deleted == m.deleted
    &&& n.kids == (if k == 0 { m.kids } else { m.kids.insert(d.childrens.id(), ins_kids(m.kids[d.childrens.id()], done)) })
    &&& n.inodes == ins_store(m.inodes, done) && n.paths == ins_paths(m.paths, done)
    &&& forall|id: int| #[trigger] m.par.contains_key(id) ==> n.par.contains_key(id) && n.par[id] == m.par[id]
    &&& forall|j: int| 0 <= j < k ==> !m.par.contains_key((#[trigger] done[j]).parent.id()) && n.par.contains_key(done[j].parent.id()) && n.par[done[j].parent.id()] == Some(d)
    &&& (!n.collided ==> !o.collided && numbers_fresh(m, done))
}
// the directory `d` was loaded: every scanned child entered, the flag set
pub open spec fn loaded_from(o: LView, n: LView, d: Node, ctx: Context) -> bool {
    exists|done: Seq<Node>, sc: Seq<OverlayInode>, m: LView| #[trigger] load_parts(o, n, d, ctx, done, sc, m, sc.len() as int, true)
}
// load_directory gave up in the middle (the store has no number left: 2^56 live numbers): some children entered, the flag not set
pub open spec fn load_broken(o: LView, n: LView, d: Node, ctx: Context) -> bool {
    exists|done: Seq<Node>, sc: Seq<OverlayInode>, m: LView, k: int| #[trigger] load_parts(o, n, d, ctx, done, sc, m, k, false)
}

// ---- lookup_node as a relation
pub open spec fn lk_self(parent: u64, name: Seq<char>) -> bool { name == dot() || (parent == 1 && name == dotdot()) || name.len() == 0 }
pub open spec fn lk_needs_load(v: LView, p: OverlayInode, ctx: Context) -> bool {
    let st = s_stat(v.ris[p.real_inodes.id()], ctx);
    st is Ok && sp_is_dir(st->Ok_0) && !v.flag[p.loaded.id()]
}
#[verifier::opaque]
pub open spec fn lookup_node_post(o: LView, n: LView, ctx: Context, parent: u64, name: Seq<char>, r: Result<Node>) -> bool {
    if has_slash(name) { r is Err && err_is(r->Err_0, 22) && n == o }
    else if !o.inodes.contains_key(parent) { r is Err && err_is(r->Err_0, 2) && n == o }
    else {
        let p = o.inodes[parent]; let st = s_stat(o.ris[p.real_inodes.id()], ctx);
        if o.flag[p.whiteout.id()] { r is Err && err_is(r->Err_0, 2) && n == o }
        else if st is Err { r == Err::<Node, Error>(st->Err_0) && n == o }
        else if lk_needs_load(o, *p, ctx) && r is Err && !loaded_from(o, n, p, ctx) { n == o || load_broken(o, n, p, ctx) }
        else {
            &&& if lk_needs_load(o, *p, ctx) { loaded_from(o, n, p, ctx) } else { n == o }
            &&& if lk_self(parent, name) { r == Ok::<Node, Error>(p) }
                else if n.kids[p.childrens.id()].contains_key(name) { r == Ok::<Node, Error>(n.kids[p.childrens.id()][name]) }
                else { r is Err && err_is(r->Err_0, 2) }
        }
    }
}

// ---- do_lookup as a relation: lookup_node, then (for a visible node) its attributes, its own directory loaded, ONE reference
pub open spec fn bump(v: LView, nd: Node) -> LView { LView { ctr: v.ctr.insert(nd.lookups.id(), add_wrap(v.ctr[nd.lookups.id()], 1)), ..v } }
pub open spec fn dl_entry(nd: Node, st: stat64, at: Duration, et: Duration) -> Entry {
    Entry { inode: nd.inode, generation: 0, attr: st, attr_flags: 0, attr_timeout: at, entry_timeout: et }
}
pub open spec fn dl_rest(v1: LView, n: LView, ctx: Context, r0: Result<Node>, r: Result<Entry>, at: Duration, et: Duration) -> bool {
    match r0 {
        Err(e) => n == v1 && r == Err::<Entry, Error>(e),
        Ok(nd) => {
            let st = s_stat(v1.ris[nd.real_inodes.id()], ctx);
            if v1.flag[nd.whiteout.id()] { n == v1 && r is Err && err_is(r->Err_0, 2) }
            else if st is Err { n == v1 && r == Err::<Entry, Error>(st->Err_0) }
            else if !lk_needs_load(v1, *nd, ctx) { n == bump(v1, nd) && r == Ok::<Entry, Error>(dl_entry(nd, st->Ok_0, at, et)) }
            else {
                ||| r is Err && (n == v1 || load_broken(v1, n, nd, ctx))
                ||| exists|v2: LView| #[trigger] loaded_from(v1, v2, nd, ctx) && n == bump(v2, nd) && r == Ok::<Entry, Error>(dl_entry(nd, st->Ok_0, at, et))
            }
        }
    }
}
pub open spec fn dl_post(o: LView, n: LView, ctx: Context, parent: u64, name: Seq<char>, r: Result<Entry>, at: Duration, et: Duration) -> bool {
    exists|r0: Result<Node>, v1: LView| #[trigger] lookup_node_post(o, v1, ctx, parent, name, r0) && dl_rest(v1, n, ctx, r0, r, at, et)
}

// =====================================================================================================================================
// do_readdir: the callback `&mut dyn FnMut(DirEntry, Option<Entry>) -> io::Result<usize>` as a generic object with a ghost log of its calls (as in
// units ptreaddir / pseudofs) and the room left in the reply buffer [assumption A-CB-ROOM: a callback never reports more bytes than there is room -
// the Server's add_dirent returns at most what is left of a buffer whose size is a u32]
pub ghost struct CallRec { pub ino: u64, pub off: u64, pub ty: u32, pub name: Seq<u8>, pub entry: Option<Entry>, pub ok: Option<usize> }
pub trait AddEntry2 {
    spec fn log(&self) -> Seq<CallRec>;
    spec fn room(&self) -> nat;
    fn call(&mut self, d: DirEntry<'_>, e: Option<Entry>) -> (r: Result<usize>)
        ensures final(self).log() == old(self).log().push(CallRec { ino: d.ino, off: d.offset, ty: d.type_, name: d.name@, entry: e, ok: match r { Ok(n) => Some(n), Err(_) => None } }),
            r is Ok ==> r->Ok_0 <= old(self).room() && final(self).room() == old(self).room() - r->Ok_0,
            r is Err ==> final(self).room() == old(self).room();
}
pub open spec fn new_calls(log: Seq<CallRec>, log0: Seq<CallRec>) -> Seq<CallRec> { log.skip(log0.len() as int) }
pub open spec fn calls_of(log: Seq<CallRec>, log0: Seq<CallRec>) -> Seq<CallRec> { new_calls(log, log0) }
pub open spec fn extends(log: Seq<CallRec>, log0: Seq<CallRec>) -> bool { log.len() >= log0.len() && log.take(log0.len() as int) =~= log0 }
// the callback took the entry: Ok(n) with n != 0 (Ok(0) = "no room", Err = failure)
pub open spec fn accepted(c: CallRec) -> bool { c.ok is Some && c.ok->Some_0 != 0 }
// d_type of a mode (dirent.h / stat.h): the file type bits, DT_UNKNOWN for anything else
pub open spec fn sp_dtype(mode: u32) -> u8 {
    let t = mode & 0o170000u32;
    if t == 0o060000u32 { 6 } else if t == 0o020000u32 { 2 } else if t == 0o040000u32 { 4 } else if t == 0o010000u32 { 1 } else if t == 0o120000u32 { 10 } else if t == 0o100000u32 { 8 } else if t == 0o140000u32 { 12 } else { 0 }
}
// ---- what a merged directory lists (the code lists "." and ".." itself): the directory, its parent link (the root when there is none), then every child
// that is not a whiteout, in the order of the children table; entry k is resumed after by the offset k + 1
pub open spec fn vis(v: LView, ks: Seq<Node>) -> Seq<(Seq<char>, Node)> decreases ks.len() {
    if ks.len() == 0 { Seq::empty() } else { let p = vis(v, ks.drop_last()); let c = ks.last(); if v.flag[c.whiteout.id()] { p } else { p.push((c.name@, c)) } }
}
pub open spec fn dir_ents(v: LView, d: Node) -> Seq<(Seq<char>, Node)> {
    seq![(dot(), d), (dotdot(), match v.par[d.parent.id()] { Some(p) => p, None => v.inodes[1] })] + vis(v, kids_vals(v.kids[d.childrens.id()]))
}
pub open spec fn vec_ents(c: Seq<(String, Node)>) -> Seq<(Seq<char>, Node)> { Seq::new(c.len(), |i: int| (c[i].0@, c[i].1)) }
// call j of a do_readdir that started at `offset` offers entry offset + j: its name, the st_ino and type of its node's attributes, the continuation offset
// index + 1 (never 0), for READDIRPLUS the entry do_lookup would give for that node (its OWN number)
pub open spec fn call_ok(c: CallRec, e: (Seq<char>, Node), idx: int, v: LView, ctx: Context, plus: bool, at: Duration, et: Duration) -> bool {
    let st = s_stat(v.ris[e.1.real_inodes.id()], ctx);
    &&& st is Ok && c.name == str_bytes(e.0) && c.off == idx + 1 && c.ino == st->Ok_0.st_ino && c.ty == sp_dtype(st->Ok_0.st_mode) as u32
    &&& c.entry == (if plus { Some(dl_entry(e.1, st->Ok_0, at, et)) } else { None::<Entry> })
}
pub open spec fn rd_entries(calls: Seq<CallRec>, es: Seq<(Seq<char>, Node)>, offset: u64, v: LView, ctx: Context, plus: bool, at: Duration, et: Duration) -> bool {
    &&& calls.len() > 0 ==> offset + calls.len() <= es.len()
    &&& forall|j: int| 0 <= j < calls.len() ==> call_ok(#[trigger] calls[j], es[offset + j], offset + j, v, ctx, plus, at, et)
}
// nothing is offered after an entry that was not taken
pub open spec fn rd_order(calls: Seq<CallRec>) -> bool { forall|j: int| 0 <= j < calls.len() - 1 ==> accepted(#[trigger] calls[j]) }
// a successful call that did not offer everything behind `offset` stopped for a reason: the last entry was not taken, or the bytes reported reach `size`
pub open spec fn rd_noskip(calls: Seq<CallRec>, n_es: nat, offset: u64, size: u32, used: int, res: Result<()>) -> bool {
    &&& offset >= n_es ==> calls.len() == 0 && res is Ok
    &&& res is Ok && offset + calls.len() < n_es ==> calls.len() > 0 && (!accepted(calls.last()) || used >= size)
}
// an error of the callback is handed on only when nothing was delivered before it
pub open spec fn rd_err(calls: Seq<CallRec>, res: Result<()>) -> bool {
    res is Err && calls.len() > 0 && !accepted(calls.last()) ==> calls.len() == 1 && calls[0].ok is None
}
// the counters after the calls: one reference per call (all = what the code does) / per DELIVERED entry (the property)
pub open spec fn bump_calls(ctr: Map<int, u64>, es: Seq<(Seq<char>, Node)>, offset: u64, calls: Seq<CallRec>, only_accepted: bool) -> Map<int, u64> decreases calls.len() {
    if calls.len() == 0 { ctr } else {
        let p = bump_calls(ctr, es, offset, calls.drop_last(), only_accepted); let nd = es[offset + calls.len() - 1].1;
        if only_accepted && !accepted(calls.last()) { p } else { p.insert(nd.lookups.id(), add_wrap(p[nd.lookups.id()], 1)) }
    }
}
pub open spec fn rd_list(v1: LView, n: LView, d: Node, ctx: Context, size: u32, offset: u64, plus: bool, calls: Seq<CallRec>, used: int, res: Result<()>, at: Duration, et: Duration) -> bool {
    let es = dir_ents(v1, d);
    &&& n == (LView { ctr: n.ctr, ..v1 })
    &&& rd_entries(calls, es, offset, v1, ctx, plus, at, et) && rd_order(calls) && rd_noskip(calls, es.len(), offset, size, used, res) && rd_err(calls, res)
    &&& n.ctr == (if plus { bump_calls(v1.ctr, es, offset, calls, false) } else { v1.ctr })
}
// which directory a do_readdir lists and in which view: the node the handle was opened on (no lookup, nothing changes), else what lookup_node(inode, ".") resolves - a directory
pub open spec fn rd_pre(hs: HandlesCell, o: LView, v1: LView, d: Node, ctx: Context, inode: u64, handle: u64) -> bool {
    if hs.s_handle(handle) is Some { v1 == o && d == hs.s_handle(handle)->Some_0.node }
    else { let st = s_stat(v1.ris[d.real_inodes.id()], ctx); lookup_node_post(o, v1, ctx, inode, dot(), Ok::<Node, Error>(d)) && st is Ok && sp_is_dir(st->Ok_0) }
}
pub open spec fn rd_post(hs: HandlesCell, o: LView, n: LView, ctx: Context, inode: u64, handle: u64, size: u32, offset: u64, plus: bool, calls: Seq<CallRec>, used: int, res: Result<()>, at: Duration, et: Duration) -> bool {
    if size == 0 { res is Ok && n == o && calls.len() == 0 }
    else if hs.s_handle(handle) is Some { rd_list(o, n, hs.s_handle(handle)->Some_0.node, ctx, size, offset, plus, calls, used, res, at, et) }
    else {
        exists|r0: Result<Node>, v1: LView| #[trigger] lookup_node_post(o, v1, ctx, inode, dot(), r0) && (match r0 {
            Err(e) => n == v1 && res == Err::<(), Error>(e) && calls.len() == 0,
            Ok(nd) => { let st = s_stat(v1.ris[nd.real_inodes.id()], ctx);
                if st is Err { n == v1 && res == Err::<(), Error>(st->Err_0) && calls.len() == 0 }
                else if !sp_is_dir(st->Ok_0) { n == v1 && res is Err && err_is(res->Err_0, 20) && calls.len() == 0 }
                else { rd_list(v1, n, nd, ctx, size, offset, plus, calls, used, res, at, et) } }
        })
    }
}

// ---- the handlers' own callbacks and the closures they hand to do_readdir.  `&mut |dir_entry, _| -> Result<usize> { add_entry(dir_entry) }` (readdir) and
// `&mut |dir_entry, entry| -> Result<usize> { match entry { Some(e) => add_entry(dir_entry, e), None => Err(ENOENT) } }` (readdirplus) capture `&mut add_entry`
// and are passed as `&mut dyn FnMut`: both rejected by Verus.  The closure TEXT is pinned by the rewrite rule (any other text: exit 2) and replaced by an
// adapter object whose contract states what that text does [assumed link A-SINK, as PlusSink in unit pseudofs]: every call the adapter receives is
// handed to the handler's callback with the same DirEntry (and the entry, unwrapped), its result returned unchanged.
pub ghost struct CallRec1 { pub ino: u64, pub off: u64, pub ty: u32, pub name: Seq<u8>, pub ok: Option<usize> }
pub ghost struct PlusRec { pub base: CallRec1, pub entry: Entry }
pub trait AddEntry1 { spec fn log1(&self) -> Seq<CallRec1>; spec fn room1(&self) -> nat; }
pub trait AddEntryPlus { spec fn plog(&self) -> Seq<PlusRec>; spec fn proom(&self) -> nat; }
pub open spec fn base_of(c: CallRec) -> CallRec1 { CallRec1 { ino: c.ino, off: c.off, ty: c.ty, name: c.name, ok: c.ok } }
pub open spec fn proj1(c: Seq<CallRec>) -> Seq<CallRec1> { Seq::new(c.len(), |i: int| base_of(c[i])) }
pub open spec fn projp(c: Seq<CallRec>) -> Seq<PlusRec> { Seq::new(c.len(), |i: int| PlusRec { base: base_of(c[i]), entry: c[i].entry->Some_0 }) }
pub open spec fn all_some(c: Seq<CallRec>) -> bool { forall|i: int| 0 <= i < c.len() ==> (#[trigger] c[i]).entry is Some }
#[verifier::external_body] #[verifier::reject_recursive_types(B)] pub struct Sink<B> { _p: PhantomData<B> }
impl<B> Sink<B> { pub uninterp spec fn slog(&self) -> Seq<CallRec>; pub uninterp spec fn sroom(&self) -> nat; }
impl<B> AddEntry2 for Sink<B> {
    open spec fn log(&self) -> Seq<CallRec> { self.slog() }
    open spec fn room(&self) -> nat { self.sroom() }
    #[verifier::external_body] fn call(&mut self, d: DirEntry<'_>, e: Option<Entry>) -> (r: Result<usize>) { unimplemented!() }
}
#[verifier::external_body] pub fn plain_sink<'a, B: AddEntry1>(inner: &'a mut B) -> (r: &'a mut Sink<B>)
    ensures r.sroom() == old(inner).room1(), final(inner).room1() == final(r).sroom(),
        final(inner).log1() == old(inner).log1() + proj1(new_calls(final(r).slog(), r.slog()))
{ unimplemented!() }
#[verifier::external_body] pub fn plus_sink<'a, B: AddEntryPlus>(inner: &'a mut B) -> (r: &'a mut Sink<B>)
    ensures r.sroom() == old(inner).proom(), final(inner).proom() == final(r).sroom(),
        all_some(new_calls(final(r).slog(), r.slog())) ==> final(inner).plog() == old(inner).plog() + projp(new_calls(final(r).slog(), r.slog()))
{ unimplemented!() }
// ---- forget_one as a function of the view (the PROPERTY's reading: at zero the node's OWN entry leaves its parent's table)
pub open spec fn forget_view(o: LView, inode: u64, count: u64) -> LView {
    if inode == 1 || inode == 0 || o.any_node(inode) is None { o } else {
        let v = o.any_node(inode)->Some_0; let c1 = sub_sat(o.ctr[v.lookups.id()], count);
        let o1 = LView { ctr: o.ctr.insert(v.lookups.id(), c1), ..o };
        if c1 > 0 { o1 } else {
            let pr = o.par[v.parent.id()];
            LView {
                inodes: (if o.inodes.contains_key(inode) { o.inodes.remove(inode) } else { o.inodes }),
                deleted: (if !o.inodes.contains_key(inode) && o.deleted.contains_key(inode) { o.deleted.remove(inode) } else { o.deleted }),
                kids: (if pr is Some && o.kids[pr->Some_0.childrens.id()].contains_key(v.name@) && o.kids[pr->Some_0.childrens.id()][v.name@] == v {
                           o.kids.insert(pr->Some_0.childrens.id(), o.kids[pr->Some_0.childrens.id()].remove(v.name@)) } else { o.kids }),
                ..o1 }
        }
    }
}
pub open spec fn same_but_kids(a: LView, b: LView) -> bool {
    a.flag == b.flag && a.ctr == b.ctr && a.par == b.par && a.ris == b.ris && a.inodes == b.inodes && a.deleted == b.deleted && a.paths == b.paths && a.collided == b.collided
}
pub open spec fn forget_all(o: LView, reqs: Seq<(u64, u64)>) -> LView decreases reqs.len() {
    if reqs.len() == 0 { o } else { let p = forget_all(o, reqs.drop_last()); forget_view(p, reqs.last().0, reqs.last().1) }
}

// ---- checked lemmas about the load relation
pub proof fn lemma_ins_store_dom(base: Map<u64, Node>, done: Seq<Node>)
    ensures forall|i: u64| #[trigger] ins_store(base, done).contains_key(i) <==> (base.contains_key(i) || exists|j: int| 0 <= j < done.len() && (#[trigger] done[j]).inode == i)
    decreases done.len()
{
    if done.len() > 0 {
        let pre = done.drop_last(); let x = done.last();
        lemma_ins_store_dom(base, pre);
        assert(ins_store(base, done) == ins_store(base, pre).insert(x.inode, x));
        assert forall|i: u64| #[trigger] ins_store(base, done).contains_key(i) <==> (base.contains_key(i) || exists|j: int| 0 <= j < done.len() && (#[trigger] done[j]).inode == i) by {
            let before = ins_store(base, pre).contains_key(i);
            if ins_store(base, done).contains_key(i) && !base.contains_key(i) {
                if i == x.inode { assert(done[done.len() - 1].inode == i); }
                else { assert(before); let j = choose|j: int| 0 <= j < pre.len() && (#[trigger] pre[j]).inode == i; assert(pre[j] == done[j]); assert(done[j].inode == i); }
            }
            if exists|j: int| 0 <= j < done.len() && (#[trigger] done[j]).inode == i {
                let j = choose|j: int| 0 <= j < done.len() && (#[trigger] done[j]).inode == i;
                if j < pre.len() { assert(pre[j] == done[j]); assert(pre[j].inode == i); assert(before); } else { assert(done[j] == x); }
            }
            if base.contains_key(i) { assert(before); }
        }
    }
}
pub proof fn lemma_ins_push(bk: Map<Seq<char>, Node>, bs: Map<u64, Node>, bp: Map<Seq<char>, u64>, done: Seq<Node>, x: Node)
    ensures ins_kids(bk, done.push(x)) == ins_kids(bk, done).insert(x.name@, x), ins_store(bs, done.push(x)) == ins_store(bs, done).insert(x.inode, x),
        ins_paths(bp, done.push(x)) == ins_paths(bp, done).insert(x.path@, x.inode)
{
    assert(done.push(x).drop_last() =~= done); assert(done.push(x).last() == x);
}
// distinct names / numbers: every entered child is found under its own name / number; other keys are as before
pub proof fn lemma_ins_kids_get(base: Map<Seq<char>, Node>, done: Seq<Node>)
    requires forall|i: int, j: int| 0 <= i < j < done.len() ==> (#[trigger] done[i]).name@ != (#[trigger] done[j]).name@
    ensures forall|j: int| 0 <= j < done.len() ==> ins_kids(base, done).contains_key((#[trigger] done[j]).name@) && ins_kids(base, done)[done[j].name@] == done[j],
        forall|nm: Seq<char>| #[trigger] ins_kids(base, done).contains_key(nm) <==> (base.contains_key(nm) || exists|j: int| 0 <= j < done.len() && (#[trigger] done[j]).name@ == nm),
        forall|nm: Seq<char>| base.contains_key(nm) && !(exists|j: int| 0 <= j < done.len() && (#[trigger] done[j]).name@ == nm) ==> #[trigger] ins_kids(base, done)[nm] == base[nm]
    decreases done.len()
{
    if done.len() > 0 {
        let pre = done.drop_last(); let x = done.last();
        assert forall|i: int, j: int| 0 <= i < j < pre.len() implies (#[trigger] pre[i]).name@ != (#[trigger] pre[j]).name@ by { assert(pre[i] == done[i] && pre[j] == done[j]); }
        lemma_ins_kids_get(base, pre);
        assert(ins_kids(base, done) == ins_kids(base, pre).insert(x.name@, x));
        assert forall|j: int| 0 <= j < done.len() implies ins_kids(base, done).contains_key((#[trigger] done[j]).name@) && ins_kids(base, done)[done[j].name@] == done[j] by {
            if j < pre.len() { assert(pre[j] == done[j]); assert(done[j].name@ != done[done.len() - 1].name@); assert(ins_kids(base, pre).contains_key(pre[j].name@)); }
        }
        assert forall|nm: Seq<char>| #[trigger] ins_kids(base, done).contains_key(nm) <==> (base.contains_key(nm) || exists|j: int| 0 <= j < done.len() && (#[trigger] done[j]).name@ == nm) by {
            let before = ins_kids(base, pre).contains_key(nm);
            if ins_kids(base, done).contains_key(nm) && !base.contains_key(nm) {
                if nm == x.name@ { assert(done[done.len() - 1].name@ == nm); }
                else { assert(before); let j = choose|j: int| 0 <= j < pre.len() && (#[trigger] pre[j]).name@ == nm; assert(pre[j] == done[j]); assert(done[j].name@ == nm); }
            }
            if exists|j: int| 0 <= j < done.len() && (#[trigger] done[j]).name@ == nm {
                let j = choose|j: int| 0 <= j < done.len() && (#[trigger] done[j]).name@ == nm;
                if j < pre.len() { assert(pre[j] == done[j]); assert(pre[j].name@ == nm); assert(before); } else { assert(done[j] == x); }
            }
            if base.contains_key(nm) { assert(before); }
        }
        assert forall|nm: Seq<char>| base.contains_key(nm) && !(exists|j: int| 0 <= j < done.len() && (#[trigger] done[j]).name@ == nm) implies #[trigger] ins_kids(base, done)[nm] == base[nm] by {
            assert(done[done.len() - 1].name@ != nm);
            if exists|j: int| 0 <= j < pre.len() && (#[trigger] pre[j]).name@ == nm { let j = choose|j: int| 0 <= j < pre.len() && (#[trigger] pre[j]).name@ == nm; assert(pre[j] == done[j]); assert(done[j].name@ == nm); }
            assert(ins_kids(base, pre)[nm] == base[nm]);
        }
    }
}

pub proof fn lemma_ins_store_get(base: Map<u64, Node>, done: Seq<Node>)
    requires forall|i: int, j: int| 0 <= i < j < done.len() ==> (#[trigger] done[i]).inode != (#[trigger] done[j]).inode
    ensures forall|j: int| 0 <= j < done.len() ==> ins_store(base, done).contains_key((#[trigger] done[j]).inode) && ins_store(base, done)[done[j].inode] == done[j],
        forall|i: u64| base.contains_key(i) && !(exists|j: int| 0 <= j < done.len() && (#[trigger] done[j]).inode == i) ==> #[trigger] ins_store(base, done)[i] == base[i]
    decreases done.len()
{
    if done.len() > 0 {
        let pre = done.drop_last(); let x = done.last();
        assert forall|i: int, j: int| 0 <= i < j < pre.len() implies (#[trigger] pre[i]).inode != (#[trigger] pre[j]).inode by { assert(pre[i] == done[i] && pre[j] == done[j]); }
        lemma_ins_store_get(base, pre);
        assert(ins_store(base, done) == ins_store(base, pre).insert(x.inode, x));
        assert forall|j: int| 0 <= j < done.len() implies ins_store(base, done).contains_key((#[trigger] done[j]).inode) && ins_store(base, done)[done[j].inode] == done[j] by {
            if j < pre.len() { assert(pre[j] == done[j]); assert(done[j].inode != done[done.len() - 1].inode); assert(ins_store(base, pre).contains_key(pre[j].inode)); }
        }
        assert forall|i: u64| base.contains_key(i) && !(exists|j: int| 0 <= j < done.len() && (#[trigger] done[j]).inode == i) implies #[trigger] ins_store(base, done)[i] == base[i] by {
            assert(done[done.len() - 1].inode != i);
            if exists|j: int| 0 <= j < pre.len() && (#[trigger] pre[j]).inode == i { let j = choose|j: int| 0 <= j < pre.len() && (#[trigger] pre[j]).inode == i; assert(pre[j] == done[j]); assert(done[j].inode == i); }
            assert(!(exists|j: int| 0 <= j < pre.len() && (#[trigger] pre[j]).inode == i));
            assert(ins_store(base, pre)[i] == base[i]);
        }
    } else { assert(ins_store(base, done) == base); }
}
// CLAUSE 1, spelled out: what "loaded" means for the tree visible through the overlay.  After loading directory `d` its table holds, for EVERY name the
// contributing layers list (cands non-empty; m = the number of d's own layers that contribute), a node of that name that is the overlayfs union of that
// name's entries - topmost entry wins, directories merge until a whiteout / non-directory / opaque directory ends the merge (union_len), hidden iff the
// topmost entry is a whiteout - linked to `d`, and (unless the store handed out a number in use) resolvable by its own number, which no other node had;
// names the layers do not list keep whatever node the table had; no other name appears.
pub proof fn lemma_loaded_children(o: LView, n: LView, d: Node, ctx: Context)
    requires loaded_from(o, n, d, ctx)
    ensures n.flag[d.loaded.id()], // [C10.view.lemma.loaded.flag]
        ({ let rs = o.ris[d.real_inodes.id()]; let mm = union_more(rs, ctx); let tbl = n.kids[d.childrens.id()]; let otbl = o.kids[d.childrens.id()];
            &&& forall|nm: Seq<char>| #[trigger] tbl.contains_key(nm) <==> (otbl.contains_key(nm) || cands(rs, ctx, mm, nm).len() > 0)                                    // [C10.view.lemma.loaded.names]
            &&& forall|nm: Seq<char>| (#[trigger] cands(rs, ctx, mm, nm)).len() > 0 ==> ({ let c = cands(rs, ctx, mm, nm); let ch = tbl[nm];
                    &&& ch.name@ == nm && n.ris[ch.real_inodes.id()] == c.take(union_len(c, Context { uid: 0, gid: 0, pid: 0 }) as int) && n.flag[ch.whiteout.id()] == c[0].whiteout   // [C10.view.lemma.loaded.union]
                    &&& n.par[ch.parent.id()] == Some(d)
                    &&& !n.collided ==> n.inodes.contains_key(ch.inode) && n.inodes[ch.inode] == ch && !o.used(ch.inode) })                                               // [C10.view.lemma.loaded.number]
            &&& forall|nm: Seq<char>| otbl.contains_key(nm) && cands(rs, ctx, mm, nm).len() == 0 ==> #[trigger] tbl[nm] == otbl[nm]                                      // [C10.view.lemma.loaded.others]
        })
{
    reveal(load_parts);
    let (done, sc, m) = choose|done: Seq<Node>, sc: Seq<OverlayInode>, m: LView| #[trigger] load_parts(o, n, d, ctx, done, sc, m, sc.len() as int, true);
    let rs = o.ris[d.real_inodes.id()]; let mm = union_more(rs, ctx); let cid = d.childrens.id();
    let otbl = o.kids[cid]; let tbl = n.kids[cid];
    assert(m.kids[cid] == otbl);
    assert forall|i: int, j: int| 0 <= i < j < done.len() implies (#[trigger] done[i]).name@ != (#[trigger] done[j]).name@ by {
        assert(finished(*done[i], sc[i]) && finished(*done[j], sc[j])); assert(sc[i].name@ != sc[j].name@);
    }
    lemma_ins_kids_get(otbl, done);
    if done.len() == 0 { assert(tbl == otbl); } else { assert(tbl == ins_kids(otbl, done)); }
    assert(tbl == ins_kids(otbl, done));
    assert forall|nm: Seq<char>| #[trigger] tbl.contains_key(nm) <==> (otbl.contains_key(nm) || cands(rs, ctx, mm, nm).len() > 0) by {
        if exists|j: int| 0 <= j < done.len() && (#[trigger] done[j]).name@ == nm {
            let j = choose|j: int| 0 <= j < done.len() && (#[trigger] done[j]).name@ == nm; assert(finished(*done[j], sc[j])); assert(cands(rs, ctx, mm, sc[j].name@).len() > 0);
        }
        if cands(rs, ctx, mm, nm).len() > 0 { let k = choose|k: int| 0 <= k < sc.len() && (#[trigger] sc[k]).name@ == nm; assert(finished(*done[k], sc[k])); assert(done[k].name@ == nm); }
    }
    if !n.collided { lemma_ins_store_get(m.inodes, done); }
    assert forall|nm: Seq<char>| (#[trigger] cands(rs, ctx, mm, nm)).len() > 0 implies ({ let c = cands(rs, ctx, mm, nm); let ch = tbl[nm];
            &&& ch.name@ == nm && n.ris[ch.real_inodes.id()] == c.take(union_len(c, Context { uid: 0, gid: 0, pid: 0 }) as int) && n.flag[ch.whiteout.id()] == c[0].whiteout
            &&& n.par[ch.parent.id()] == Some(d)
            &&& !n.collided ==> n.inodes.contains_key(ch.inode) && n.inodes[ch.inode] == ch && !o.used(ch.inode) }) by {
        let k = choose|k: int| 0 <= k < sc.len() && (#[trigger] sc[k]).name@ == nm;
        assert(finished(*done[k], sc[k])); assert(done[k].name@ == nm); assert(tbl[nm] == done[k]);
        assert(sc[k].whiteout.id() != d.loaded.id());
    }
    assert forall|nm: Seq<char>| otbl.contains_key(nm) && cands(rs, ctx, mm, nm).len() == 0 implies #[trigger] tbl[nm] == otbl[nm] by {
        if exists|j: int| 0 <= j < done.len() && (#[trigger] done[j]).name@ == nm {
            let j = choose|j: int| 0 <= j < done.len() && (#[trigger] done[j]).name@ == nm; assert(finished(*done[j], sc[j])); assert(cands(rs, ctx, mm, sc[j].name@).len() > 0);
        }
    }
}

// CLAUSE 4, spelled out: the listing of a merged directory is ".", "..", then every child of the table that is not a whiteout EXACTLY ONCE (one entry per
// table key whose node is visible, no entry for a whiteout, none for anything else)
pub open spec fn vis_keys(v: LView, tbl: Map<Seq<char>, Node>, ks: Seq<Seq<char>>) -> Seq<Seq<char>> decreases ks.len() {
    if ks.len() == 0 { Seq::empty() } else { let p = vis_keys(v, tbl, ks.drop_last()); if v.flag[tbl[ks.last()].whiteout.id()] { p } else { p.push(ks.last()) } }
}
pub open spec fn vals_of(tbl: Map<Seq<char>, Node>, ks: Seq<Seq<char>>) -> Seq<Node> { Seq::new(ks.len(), |i: int| tbl[ks[i]]) }
pub proof fn lemma_vis_keys(v: LView, tbl: Map<Seq<char>, Node>, ks: Seq<Seq<char>>)
    requires forall|i: int, j: int| 0 <= i < j < ks.len() ==> ks[i] != ks[j]
    ensures ({ let r = vis(v, vals_of(tbl, ks)); let fk = vis_keys(v, tbl, ks);
        &&& r.len() == fk.len()
        &&& forall|j: int| 0 <= j < fk.len() ==> (#[trigger] r[j]) == (tbl[fk[j]].name@, tbl[fk[j]]) && !v.flag[tbl[fk[j]].whiteout.id()] && ks.contains(fk[j])
        &&& forall|i: int| 0 <= i < ks.len() && !v.flag[tbl[#[trigger] ks[i]].whiteout.id()] ==> fk.contains(ks[i])
        &&& forall|i: int, j: int| 0 <= i < j < fk.len() ==> fk[i] != fk[j] })
    decreases ks.len()
{
    if ks.len() > 0 {
        let pre = ks.drop_last(); let k = ks.last();
        assert forall|i: int, j: int| 0 <= i < j < pre.len() implies pre[i] != pre[j] by { assert(pre[i] == ks[i] && pre[j] == ks[j]); }
        lemma_vis_keys(v, tbl, pre);
        assert(vals_of(tbl, ks).drop_last() =~= vals_of(tbl, pre));
        assert(vals_of(tbl, ks).last() == tbl[k]);
        let r0 = vis(v, vals_of(tbl, pre)); let f0 = vis_keys(v, tbl, pre); let r = vis(v, vals_of(tbl, ks)); let fk = vis_keys(v, tbl, ks);
        assert forall|j: int| 0 <= j < fk.len() implies (#[trigger] r[j]) == (tbl[fk[j]].name@, tbl[fk[j]]) && !v.flag[tbl[fk[j]].whiteout.id()] && ks.contains(fk[j]) by {
            if j < f0.len() { assert(r[j] == r0[j]); assert(fk[j] == f0[j]); let q = choose|q: int| 0 <= q < pre.len() && pre[q] == f0[j]; assert(ks[q] == f0[j]); } else { assert(ks[ks.len() - 1] == k); }
        }
        assert forall|i: int| 0 <= i < ks.len() && !v.flag[tbl[#[trigger] ks[i]].whiteout.id()] implies fk.contains(ks[i]) by {
            if i < pre.len() { assert(pre[i] == ks[i]); let q = choose|q: int| 0 <= q < f0.len() && f0[q] == pre[i]; assert(fk[q] == ks[i]); } else { assert(fk[fk.len() - 1] == k); }
        }
        assert forall|i: int, j: int| 0 <= i < j < fk.len() implies fk[i] != fk[j] by {
            if j == f0.len() { assert(fk[i] == f0[i]); assert(r0[i] == (tbl[f0[i]].name@, tbl[f0[i]])); assert(pre.contains(f0[i])); let q = choose|q: int| 0 <= q < pre.len() && pre[q] == f0[i]; assert(ks[q] == f0[i]); assert(ks[q] != ks[ks.len() - 1]); } else { assert(fk[i] == f0[i] && fk[j] == f0[j]); }
        }
    }
}
pub proof fn lemma_listing(v: LView, d: Node)
    ensures ({ let es = dir_ents(v, d); let tbl = v.kids[d.childrens.id()]; let fk = vis_keys(v, tbl, hm_order(tbl));
        &&& es.len() == 2 + fk.len() && es[0] == (dot(), d) && es[1].0 == dotdot()                                                             // [C10.view.lemma.listing.dots]
        &&& forall|j: int| 0 <= j < fk.len() ==> (#[trigger] es[2 + j]) == (tbl[fk[j]].name@, tbl[fk[j]])                                       // [C10.view.lemma.listing.children] entry 2 + j is the child under key fk[j], with its own name
        &&& forall|i: int, j: int| 0 <= i < j < fk.len() ==> fk[i] != fk[j]                                                                      // [C10.view.lemma.listing.once] no child twice
        &&& forall|k: Seq<char>| (tbl.contains_key(k) && !v.flag[tbl[k].whiteout.id()]) <==> #[trigger] fk.contains(k) })                        // [C10.view.lemma.listing.exactly] every visible child, no whiteout, nothing else
{
    broadcast use axiom_hm_order;
    let tbl = v.kids[d.childrens.id()]; let ks = hm_order(tbl);
    lemma_vis_keys(v, tbl, ks);
    assert(vals_of(tbl, ks) =~= kids_vals(tbl));
    let fk = vis_keys(v, tbl, ks); let r = vis(v, kids_vals(tbl)); let es = dir_ents(v, d);
    assert forall|j: int| 0 <= j < fk.len() implies (#[trigger] es[2 + j]) == (tbl[fk[j]].name@, tbl[fk[j]]) by { assert(es[2 + j] == r[j]); }
    assert forall|k: Seq<char>| (tbl.contains_key(k) && !v.flag[tbl[k].whiteout.id()]) <==> #[trigger] fk.contains(k) by {
        if tbl.contains_key(k) && !v.flag[tbl[k].whiteout.id()] { assert(ks.contains(k)); let i = choose|i: int| 0 <= i < ks.len() && ks[i] == k; assert(fk.contains(ks[i])); }
        if fk.contains(k) { let j = choose|j: int| 0 <= j < fk.len() && fk[j] == k; assert(r[j] == (tbl[fk[j]].name@, tbl[fk[j]])); let q = choose|q: int| 0 <= q < ks.len() && ks[q] == fk[j]; assert(tbl.contains_key(ks[q])); }
    }
}
// entry k carries the offset k + 1: never 0, and a do_readdir called with it offers entry k + 1 first (rd_entries: call 0 of a call at `offset` is entry `offset`)
pub proof fn lemma_resume(c: CallRec, e: (Seq<char>, Node), idx: int, v: LView, ctx: Context, plus: bool, at: Duration, et: Duration)
    requires call_ok(c, e, idx, v, ctx, plus, at, et), 0 <= idx
    ensures c.off != 0 && c.off == idx + 1 // [C10.view.lemma.resume]
{ }
'''


def tok(f, callees, path_callees=()):
    f.rules = tuple(getattr(f, 'rules', ())) + ('R23',)
    cs = list(callees) if f.scope == OI else sorted(set(list(callees) + FS_CALLEES))
    f.ghost_token = dict(TOK, callees=cs, path_callees=list(path_callees) or None)
    return f


TO_STRING = (r'\bname\.to_string\(\)', 'str_to_string(name)', '<str as ToString>::to_string: same characters (model str_to_string)')
STORE_RD = ['get_inode', 'get_deleted_inode']
# every method that takes the token (models and functions under contract): threading the token into all of them in every function keeps a call that an
# edit re-routes (get_active_inode -> get_all_inode ..) decidable instead of ending in a front-end error
FS_CALLEES = ['get_inode', 'get_deleted_inode', 'insert_inode', 'remove_inode', 'alloc_inode', 'get_active_inode', 'get_all_inode', 'root_node', 'lookup_node',
              'lookup_node_ignore_enoent', 'load_directory', 'forget_one', 'do_lookup', 'do_readdir', 'child', 'insert_child', 'remove_child', 'stat64',
              'first_layer_inode', 'scan_childrens', 'load', 'store', 'fetch_add', 'upgrade', 'values_vec']
BCAST = ('^', 'after', 'broadcast use axiom_arc_cloned;')


def unit(root='/repo'):
    notes = []
    items = C.common_items(root, notes)
    items.append(Raw(C.COLL))
    items.append(Copy(OVL, r'pub\(crate\) struct RealInode\b'))
    items.append(Raw(C.REAL_SPEC + RL.REAL_PRE))
    items.append(RL.utils_group(root))
    # the union rules for one name (spec functions of unit ovl_merge, everything behind its `impl OverlayInode` block)
    marker = '// ---- the overlayfs union rules for ONE name'
    if marker not in M.OI_SPEC:
        raise X.ExtractError('ovl_view: marker of the union rules not found in ovl_merge.OI_SPEC')
    items.append(Raw(marker + M.OI_SPEC.split(marker, 1)[1]))
    items.append(Raw(VIEW))
    items.append(Copy(OVL, r'pub\(crate\) struct OverlayInode\b', subst=NODE_SUBST))
    items.append(Copy('src/overlayfs/config.rs', r'pub struct Config\b'))
    items.append(Copy(OVL, r'pub enum CachePolicy\b'))
    items.append(Copy(OVL, r'pub struct OverlayFs\b', subst=FS_SUBST))
    items.append(Copy(OVL, r'struct RealHandle\b', subst=[('AtomicU64', 'CounterCell')]))
    items.append(Copy(OVL, r'struct HandleData\b'))
    items.append(Copy(C.FSMOD, r'pub struct DirEntry\b', prefix='#[derive(Clone, Copy)]', subst=[('ino64_t', 'u64')]))
    items.append(Copy(C.ABI, r'pub const ROOT_ID\b'))
    items.append(Raw('pub const FUSE_ROOT_ID: u64 = ROOT_ID;      // `use crate::abi::fuse_abi::ROOT_ID as FUSE_ROOT_ID`'))
    items.append(Copy('src/api/vfs/mod.rs', r'pub const SLASH_ASCII\b'))
    items.append(Raw(NODEM.replace('%(SCAN_UNION)s', scan_union_text())))

    # ------------------------------------------------------------------------------------------------ OverlayInode helpers
    KID = 'old(vxv).kids[self.childrens.id()]'
    child = tok(Fn(OVL, OI, 'child', props=P, splices=[BCAST],
                   ensures=['%s == %s // [C10.view.child.frame]' % (H1, H0),
                            'r == (if %s.contains_key(name@) { Some(%s[name@]) } else { None::<Node> }) // [C10.view.child.exact] the entry of THIS node\'s table under exactly that name' % (KID, KID)]), ['get'])
    insc = tok(Fn(OVL, OI, 'insert_child', props=P, body_resub=[TO_STRING, (r'\*node\.parent\.lock\(\)\.unwrap\(\) = Arc::downgrade\(self\);', 'node.parent.set_parent(arc_downgrade(self), Tracked(vxv));', 'every: assignment through the lock of the parent cell -> model call set_parent (0 or more occurrences: a version without the assignment is verified as it stands and fails the parent-link clause instead of losing the rule; the cell holds the weak link to self afterwards)')],
                  ensures=['%s == (LView { kids: old(vxv).kids.insert(self.childrens.id(), %s.insert(name@, node)), par: old(vxv).par.insert(node.parent.id(), Some(*self)), ..%s }) // [C10.view.insert_child.exact] one entry of one table and the parent link of the entered node (".." of a node is the directory it was entered into), nothing else' % (H1, KID, H0)]), ['insert', 'set_parent'])
    remc = tok(Fn(OVL, OI, 'remove_child', props=P,
                  ensures=['%s == (LView { kids: old(vxv).kids.insert(self.childrens.id(), %s.remove(name@)), ..%s }) // [C10.view.remove_child.exact] one entry of one table, nothing else' % (H1, KID, H0)]), ['remove'])
    items.append(Group('impl OverlayInode {', [child, insc, remc]))

    # ------------------------------------------------------------------------------------------------ the store wrappers
    ANY = 'old(vxv).any_node(inode)'
    fns = [
        Fn(OVL, OF, 'root_inode', props=P, ensures=['r == 1 // [C10.view.root_inode] FUSE_ROOT_ID']),
        tok(Fn(OVL, OF, 'insert_inode', props=P,
               ensures=['%s == (LView { inodes: old(vxv).inodes.insert(inode, node), paths: old(vxv).paths.insert(node.path@, inode), ..%s }) // [C10.view.insert_inode.exact]' % (H1, H0)]), ['insert_inode']),
        tok(Fn(OVL, OF, 'get_active_inode', props=P,
               ensures=['%s == %s // [C10.view.get_active_inode.frame]' % (H1, H0),
                        'r == (if old(vxv).inodes.contains_key(inode) { Some(old(vxv).inodes[inode]) } else { None::<Node> }) // [C10.view.get_active_inode.live_only] only the live table: a node whose removal is delayed does not resolve']), STORE_RD),
        tok(Fn(OVL, OF, 'get_all_inode', props=P,
               ensures=['%s == %s // [C10.view.get_all_inode.frame]' % (H1, H0),
                        'r == %s // [C10.view.get_all_inode.live_first] the live node of that number, else the one whose removal is delayed' % ANY]), STORE_RD),
        tok(Fn(OVL, OF, 'remove_inode', props=P,
               ensures=['store_removed(%s, %s, inode) // [C10.view.remove_inode.exact]' % (H0, H1),
                        'path_removed is None ==> final(vxv).paths == old(vxv).paths',
                        'final(vxv).flag == old(vxv).flag && final(vxv).ctr == old(vxv).ctr && final(vxv).kids == old(vxv).kids && final(vxv).par == old(vxv).par && final(vxv).ris == old(vxv).ris && final(vxv).collided == old(vxv).collided // [C10.view.remove_inode.frame]']), ['remove_inode']),
        tok(Fn(OVL, OF, 'alloc_inode', props=P,
               ensures=['%s == (LView { collided: old(vxv).collided || (r is Ok && old(vxv).used(r->Ok_0)), ..%s }) // [C10.view.alloc_inode.frame]' % (H1, H0),
                        'r is Ok && !old(vxv).paths.contains_key(path@) ==> !old(vxv).used(r->Ok_0) // [C10.view.alloc_inode.unused]']), ['alloc_inode']),
        tok(Fn(OVL, OF, 'root_node', props=P, requires=['old(vxv).inodes.contains_key(1) // [C10.view.root_node.present] the root is in the table (import() puts it there, forget_one never takes it out)'],
               ensures=['%s == %s' % (H1, H0), 'r == old(vxv).inodes[1] // [C10.view.root_node]']), ['get_active_inode']),
    ]
    items.append(Group('impl OverlayFs {', fns))


    # ------------------------------------------------------------------------------------------------ load_directory
    ND = '*node'
    LD_INV = """
            invariant
                0 <= k <= sc.len(), ch_it.rem() == sc.skip(k), done.len() == k, node_children.id() == node.childrens.id(), !old(vxv).flag[node.loaded.id()],
                forall|i: u64| #[trigger] old(vxv).inodes.contains_key(i) ==> vxv.inodes.contains_key(i),
                forall|id: int| #[trigger] old(vxv).ctr.contains_key(id) ==> vxv.ctr.contains_key(id) && vxv.ctr[id] == old(vxv).ctr[id],
                load_parts(*old(vxv), *vxv, *node, *ctx, done, sc, m, k, false), // [C10.view.load_directory.loop] so far: the first k scanned children entered into this directory's table and into the store, each with its number and its parent link; nothing else touched
            ensures k == sc.len(),
            decreases ch_it.rem().len(),
        """
    LD_PRE = """ let ghost s0 = child; let ghost v0 = *vxv;
            proof { reveal(load_parts); assert(sc.skip(k)[0] == sc[k]); assert(sc.skip(k).skip(1) =~= sc.skip(k + 1)); assert(s0 == sc[k]); }"""
    LD_STEP = """proof {
                reveal(load_parts);
                let x = arc_child; let cid = node.childrens.id();
                lemma_ins_push(m.kids[cid], m.inodes, m.paths, done, x);
                lemma_ins_store_dom(m.inodes, done);
                assert(finished(*x, sc[k])); // [C10.view.load_directory.child] the child entered is the scanned node with its number and its parent link
                assert(x.name@ == name@);
                assert(vxv.kids =~= m.kids.insert(cid, ins_kids(m.kids[cid], done.push(x)))); // [C10.view.load_directory.table] entered into THIS directory's table under its own name
                assert(m.kids.insert(cid, ins_kids(m.kids[cid], done))[cid] == ins_kids(m.kids[cid], done));
                let d2 = done.push(x);
                assert forall|j: int| 0 <= j < k + 1 implies finished(*#[trigger] d2[j], sc[j]) by { if j < k { assert(d2[j] == done[j]); } }
                assert forall|j: int| 0 <= j < k + 1 implies !m.par.contains_key((#[trigger] d2[j]).parent.id()) && vxv.par.contains_key(d2[j].parent.id()) && vxv.par[d2[j].parent.id()] == Some(*node) by {
                    if j < k { assert(d2[j] == done[j]); assert(v0.par.contains_key(done[j].parent.id())); }
                }
                if !vxv.collided {
                    assert(!v0.collided && !v0.used(ino));
                    assert forall|j: int| 0 <= j < d2.len() implies !m.used((#[trigger] d2[j]).inode) by { if j < k { assert(d2[j] == done[j]); } }
                    assert forall|i: int, j: int| 0 <= i < j < d2.len() implies (#[trigger] d2[i]).inode != (#[trigger] d2[j]).inode by {
                        assert(d2[i] == done[i]); if j < k { assert(d2[j] == done[j]); } else { assert(done[i].inode != ino); }
                    }
                }
                done = d2; k = k + 1;
            }"""
    ld = tok(Fn(OVL, OF, 'load_directory', props=P, canary=True,
                ensures=['old(vxv).flag[node.loaded.id()] ==> r is Ok && %s == %s // [C10.view.load_directory.once] a directory that is loaded is not scanned again: nothing changes' % (H1, H0),
                         '!old(vxv).flag[node.loaded.id()] && r is Ok ==> loaded_from(%s, %s, %s, *ctx) // [C10.view.load_directory.union] the table becomes the old table + one node per name the contributing layers list (scan_childrens: the overlayfs union per name), each numbered by the store and linked to this directory; `loaded` set; nothing else changes' % (H0, H1, ND),
                         'forall|i: u64| #[trigger] old(vxv).inodes.contains_key(i) ==> final(vxv).inodes.contains_key(i) // [C10.view.load_directory.table_grows] no number stops resolving',
                         'forall|id: int| #[trigger] old(vxv).ctr.contains_key(id) ==> final(vxv).ctr.contains_key(id) && final(vxv).ctr[id] == old(vxv).ctr[id] // [C10.view.load_directory.no_refs] loading takes or drops no reference',
                         '!old(vxv).flag[node.loaded.id()] && r is Err ==> %s == %s || load_broken(%s, %s, %s, *ctx) // [C10.view.load_directory.err] a failed scan changes nothing; a store without a free number leaves the directory not loaded' % (H1, H0, H0, H1, ND)],
                splices=[('let mut node_children = node.childrens.lock().unwrap();', 'after', 'proof { reveal(load_parts); assert(forall|i: u64| #[trigger] old(vxv).inodes.contains_key(i) ==> m.inodes.contains_key(i)); }'),
                         ('let childrens = node.scan_childrens(ctx, Tracked(vxv))?;', 'after', 'let ghost m = *vxv; let ghost sc = childrens@; let ghost mut done: Seq<Node> = Seq::empty(); let ghost mut k: int = 0;'),
                                                  ('Ok(())\n    }', 'before', '''proof { reveal(load_parts);
            assert(load_parts(*old(vxv), *vxv, *node, *ctx, done, sc, m, sc.len() as int, true)); // [C10.view.load_directory.union]
        }''')]),
             ['load', 'store', 'scan_childrens', 'alloc_inode', 'insert', 'insert_inode'])
    ld.body_hooks = [R.resub_hook(r'Mutex::new\(Arc::downgrade\((\w+)\)\)', r'ParentCell::new(arc_downgrade(\1), Tracked(vxv))', 'Mutex::new(Arc::downgrade(X)): a NEW parent cell holding the weak link to X (model ParentCell::new / arc_downgrade; upgrade() yields X: A-WEAK)'),
                     R.r28_for_owned(r'\bfor\s+(mut child)\s+in\s+(childrens)\.into_iter\(\)\s*\{', 'vec_into_iter', 'ch_it', header_extra=LD_INV, body_prefix=LD_PRE,
                                     mid=' proof { assert(sc.skip(0) =~= sc); }'),
                     R.r8_at_loop_end(r'while let Some\(mut child\) = ch_it\.next\(\)[^{]*\{', LD_STEP)]

    # ------------------------------------------------------------------------------------------------ lookup_node
    STRLIT = 'proof { reveal(lookup_node_post); reveal(load_parts); reveal_strlit("."); reveal_strlit(".."); assert("."@ =~= dot()); assert(".."@ =~= dotdot()); }'
    LK_RESUB = [(r'name\.contains\(\[SLASH_ASCII as char\]\)', 'vx_str_contains_byte(name, SLASH_ASCII)', '`name.contains([SLASH_ASCII as char])` (char-array pattern: does the name hold that character) -> model call that requires the constant to be 47 = \'/\''),
                (r'\bname\.eq\("(\.{1,2})"\)', r'vx_str_eq(name, "\1")', 'every: <str as PartialEq>::eq: same characters'),
                (r'\bname\.is_empty\(\)', 'vx_str_is_empty(name)', 'str::is_empty: length 0')]
    LKP = 'lookup_node_post(%s, %s, *ctx, parent, name@, r)' % (H0, H1)
    PN = 'old(vxv).inodes[parent]'
    lk = tok(Fn(OVL, OF, 'lookup_node', props=P, canary=True, body_resub=LK_RESUB,
                ensures=['has_slash(name@) ==> r is Err && err_is(r->Err_0, 22) && %s == %s // [C10.view.lookup_node.slash] a name with a \'/\' is not a single component: EINVAL, nothing touched' % (H1, H0),
                         '!has_slash(name@) && !old(vxv).inodes.contains_key(parent) ==> r is Err && err_is(r->Err_0, 2) && %s == %s // [C10.view.lookup_node.unknown_parent] a number the live table does not hold: ENOENT' % (H1, H0),
                         '!has_slash(name@) && old(vxv).inodes.contains_key(parent) && old(vxv).flag[%s.whiteout.id()] ==> r is Err && err_is(r->Err_0, 2) && %s == %s // [C10.view.lookup_node.whiteout_parent] nothing is below a whiteout: ENOENT' % (PN, H1, H0),
                         '%s == %s || (old(vxv).inodes.contains_key(parent) && lk_needs_load(%s, *%s, *ctx) && (loaded_from(%s, %s, %s, *ctx) || (r is Err && load_broken(%s, %s, %s, *ctx)))) // [C10.view.lookup_node.frame] the only change a lookup makes to the view: loading the parent directory, and only when it is a directory that is not loaded yet' % (H1, H0, H0, PN, H0, H1, PN, H0, H1, PN),
                         'r is Ok && !lk_self(parent, name@) ==> final(vxv).kids[%s.childrens.id()].contains_key(name@) && r->Ok_0 == final(vxv).kids[%s.childrens.id()][name@] // [C10.view.lookup_node.resolves] exactly the node the (loaded) table of the parent holds under that name' % (PN, PN),
                         'r is Ok && lk_self(parent, name@) ==> r->Ok_0 == %s // [C10.view.lookup_node.self] "", "." and ".." at the root: the parent itself' % PN,
                         'forall|i: u64| #[trigger] old(vxv).inodes.contains_key(i) ==> final(vxv).inodes.contains_key(i) // [C10.view.lookup_node.table_grows] no number stops resolving',
                         'forall|id: int| #[trigger] old(vxv).ctr.contains_key(id) ==> final(vxv).ctr.contains_key(id) && final(vxv).ctr[id] == old(vxv).ctr[id] // [C10.view.lookup_node.no_refs] lookup_node takes or drops no reference',
                         'r is Ok ==> !lk_needs_load(%s, *%s, *ctx) // [C10.view.lookup_node.loaded] a successful lookup leaves the parent directory loaded' % (H1, PN),
                         LKP + ' // [C10.view.lookup_node.post] the complete case analysis (incl. ENOENT exactly for a name the table lacks)'],
                splices=[('^', 'after', STRLIT)]),
             ['get_active_inode', 'load', 'stat64', 'load_directory', 'child'])
    lki = tok(Fn(OVL, OF, 'lookup_node_ignore_enoent', props=P, canary=True,
                 ensures=['exists|r0: Result<Node>| #[trigger] lookup_node_post(%s, %s, *ctx, parent, name@, r0) && (match r0 { Ok(n) => r == Ok::<Option<Node>, Error>(Some(n)), Err(e) => if e.os_code() == Some(2i32) { r == Ok::<Option<Node>, Error>(None) } else { r == Err::<Option<Node>, Error>(e) } }) // [C10.view.lookup_node_ignore_enoent.same] the lookup_node outcome with ENOENT turned into None; same effect on the view' % (H0, H1)]),
              ['lookup_node'])
    lki.splices = [('^', 'after', 'proof { reveal(lookup_node_post); }')]
    items.append(Group('impl OverlayFs {', [ld, lk, lki]))

    # ------------------------------------------------------------------------------------------------ forget
    FV = 'forget_view(%s, inode, count)' % H0
    fo = tok(Fn(OVL, OF, 'forget_one', props=P, canary=True,
                ensures=['inode == 1 || inode == 0 ==> %s == %s // [C10.view.forget_one.root] the root (and the number 0) are exempt' % (H1, H0),
                         'old(vxv).any_node(inode) is None ==> %s == %s // [C10.view.forget_one.unknown] a number neither table holds: nothing changes' % (H1, H0),
                         'final(vxv).ctr == %s.ctr // [C10.view.forget_one.decrement] exactly the node the number resolves to loses min(count, its count); no other counter changes' % FV,
                         'final(vxv).inodes == %s.inodes && final(vxv).deleted == %s.deleted && final(vxv).paths == old(vxv).paths // [C10.view.forget_one.store] the node leaves the store only when its count has reached zero; no other number changes its status' % (FV, FV),
                         'final(vxv).kids == %s.kids // [C10.view.forget_one.other_untouched] at zero the node\'s OWN entry leaves its parent\'s table: an entry of that name that is another node (the name was re-used) stays; no other table changes' % FV,
                         'final(vxv).flag == old(vxv).flag && final(vxv).par == old(vxv).par && final(vxv).ris == old(vxv).ris && final(vxv).collided == old(vxv).collided // [C10.view.forget_one.frame]']),
             ['get_all_inode', 'load', 'store', 'remove_inode', 'upgrade', 'child', 'remove_child'])
    fo.body_resub = list(fo.body_resub) + [(r'Arc::ptr_eq\(&c, &v\)', 'node_same(&c, &v)', 'every: Arc::ptr_eq on two nodes -> model: the same node (every node owns cells with identities of their own, so equal values are one node)')]
    items.append(Raw('#[verifier::external_body] pub fn node_same(a: &Arc<OverlayInode>, b: &Arc<OverlayInode>) -> (r: bool) ensures r == (*a == *b) { unimplemented!() }'))
    items.append(Group('impl OverlayFs {', [fo]))
    KT = '[C10.view.forget_one.other_untouched]'
    fg = tok(Fn(OVLS, FSI, 'forget', props=P, canary=True, sig_subst=[('_ctx: &Context', 'ctx_: &Context')],
                ensures=['same_but_kids(%s, %s) // [C10.view.forget.one] FORGET = forget_one of that number and count' % (H1, FV),
                         'final(vxv).kids == %s.kids // %s' % (FV, KT)]), ['forget_one'])
    BF_INV = """
            invariant 0 <= k <= reqs.len(), bf_it.rem() == reqs.skip(k),
                same_but_kids(*vxv, forget_all(*old(vxv), reqs.take(k))), // [C10.view.batch_forget.loop] the first k pairs applied, in order
                vxv.kids == forget_all(*old(vxv), reqs.take(k)).kids, // %s
            ensures k == reqs.len(),
            decreases bf_it.rem().len(),
        """ % KT
    bf = tok(Fn(OVLS, FSI, 'batch_forget', props=P, canary=True, sig_subst=[('_ctx: &Context', 'ctx_: &Context')],
                ensures=['same_but_kids(%s, forget_all(%s, requests@)) // [C10.view.batch_forget.all] every (number, count) pair applied exactly once, in the order given' % (H1, H0),
                         'final(vxv).kids == forget_all(%s, requests@).kids // %s' % (H0, KT)],
                splices=[('^', 'after', 'let ghost reqs = requests@; let ghost mut k: int = 0;')]),
             ['forget_one'])
    bf.body_hooks = [R.r28_for_owned(r'\bfor\s+(\(inode, count\))\s+in\s+(requests)\s*\{', 'vec_into_iter', 'bf_it', header_extra=BF_INV,
                                     body_prefix=' proof { assert(reqs.skip(k)[0] == reqs[k]); assert(reqs.skip(k).skip(1) =~= reqs.skip(k + 1)); }',
                                     mid=' proof { assert(reqs.skip(0) =~= reqs); assert(reqs.take(0) =~= Seq::<(u64, u64)>::empty()); }',
                                     after='proof { assert(reqs.take(reqs.len() as int) =~= reqs); }'),
                     R.r8_at_loop_end(r'while let Some\(\(inode, count\)\) = bf_it\.next\(\)[^{]*\{', 'proof { assert(reqs.take(k + 1).drop_last() =~= reqs.take(k)); assert(reqs.take(k + 1).last() == reqs[k]); k = k + 1; }')]
    items.append(Group('impl OverlayFs {', [fg, bf]))


    # ------------------------------------------------------------------------------------------------ do_lookup / lookup
    DLP = 'dl_post(%s, %s, *ctx, parent, %%s, r, self.config.attr_timeout, self.config.entry_timeout)' % (H0, H1)
    KEPT = 'forall|id: int| #[trigger] old(vxv).ctr.contains_key(id) ==> final(vxv).ctr[id] == old(vxv).ctr[id]'
    dl = tok(Fn(OVL, OF, 'do_lookup', props=P, canary=True,
                ensures=['r is Err ==> (%s) // [C10.view.do_lookup.errors_add_none] a lookup that fails leaves every counter as it was' % KEPT,
                         'r is Ok ==> r->Ok_0.generation == 0 && r->Ok_0.attr_flags == 0 && r->Ok_0.attr_timeout == self.config.attr_timeout && r->Ok_0.entry_timeout == self.config.entry_timeout // [C10.view.do_lookup.entry_consts]',
                         (DLP % 'name@') + ' // [C10.view.do_lookup.post] the node lookup_node resolves; ENOENT for a whiteout; the entry carries the node\'s OWN number and the attributes stat64 reports for it; its own directory is loaded if need be; exactly ONE reference is added, to exactly that node'],
                splices=[('let node = self.lookup_node(ctx, parent, name, Tracked(vxv))?;', 'after', 'let ghost v1 = *vxv; let ghost nd = node; proof { assert(lookup_node_post(*old(vxv), v1, *ctx, parent, name@, Ok::<Node, Error>(nd))); }')]),
             ['lookup_node', 'load', 'stat64', 'load_directory', 'fetch_add'])
    items.append(Group('impl OverlayFs {', [dl]))
    lkh = tok(Fn(OVLS, FSI, 'lookup', props=P, canary=True,
                 body_resub=[(r'name\.to_string_lossy\(\)\.to_string\(\)', 'cstr_to_string_lossy(name)', 'CStr::to_string_lossy().to_string() as one model call (the name as a String: lossy_str)')],
                 ensures=[(DLP % 'lossy_str(name@)') + ' // [C10.view.lookup.same] LOOKUP = do_lookup of (parent, name)']),
              ['do_lookup'])
    items.append(Group('impl OverlayFs {', [lkh]))


    # ------------------------------------------------------------------------------------------------ do_readdir
    items.append(Fn(OVL, None, 'entry_type_from_mode', props=P, ensures=['r == sp_dtype(mode) // [C10.view.entry_type] the d_type that belongs to the file type bits of the mode, DT_UNKNOWN otherwise']))
    HGET = R.resub_hook(r'self\.handles\.lock\(\)\.unwrap\(\)\.get\(&(\w+)\)', r'self.handles.get_handle(&\1)', 'the handle table: model call (which node a directory handle was opened on)')
    DR_SIG = [('fn do_readdir(', 'fn do_readdir<A: AddEntry2>('), ('add_entry: &mut dyn FnMut(DirEntry, Option<Entry>) -> Result<usize>', 'add_entry: &mut A')]
    DR_RESUB = [(r'"(\.{1,2})"\.to_string\(\)', r'str_to_string("\1")', 'every: <str as ToString>::to_string: same characters'),
                (r'\bname\.as_bytes\(\)', 'vx_string_bytes(&name)', 'String::as_bytes: the UTF-8 bytes of the name (model: str_bytes)'),
                (r'\badd_entry\(', 'add_entry.call(', 'call of the `&mut dyn FnMut` callback -> method call on the generic AddEntry2 object (ghost log)'),
                (r'match (add_entry\.call\(dir_entry, entry\)) \{', r'let cb_res = \1; match cb_res {', 'the match scrutinee (the callback\'s result) bound to a name: same evaluation, lets a ghost step sit between the call and the match'),
                (r'let mut childrens = Vec::new\(\);', 'let mut childrens: Vec<(String, Arc<OverlayInode>)> = Vec::new();', 'type ascription only (inference needs it before a loop invariant mentions the vector)')]
    AT, ET = 'self.config.attr_timeout', 'self.config.entry_timeout'
    CALLS = 'new_calls(final(add_entry).log(), old(add_entry).log())'
    USED = '(old(add_entry).room() - final(add_entry).room())'
    HN = 'self.handles.s_handle(handle)->Some_0.node'
    HP = 'size != 0 && self.handles.s_handle(handle) is Some ==> '
    ES0 = 'dir_ents(%s, %s)' % (H0, HN)
    DR_ENTRY = """let ghost log0 = add_entry.log(); let ghost room0 = add_entry.room(); let ghost at = self.config.attr_timeout; let ghost et = self.config.entry_timeout;
        proof { reveal_strlit("."); reveal_strlit(".."); assert("."@ =~= dot()); assert(".."@ =~= dotdot()); assert(new_calls(log0, log0) =~= Seq::<CallRec>::empty()); assert(log0.take(log0.len() as int) =~= log0); }"""
    DR_DIR = """let ghost v1 = *vxv; let ghost d = ovl_inode;
        proof { if self.handles.s_handle(handle) is None { assert(lookup_node_post(*old(vxv), v1, *ctx, inode, dot(), Ok::<Node, Error>(d))); } assert(rd_pre(self.handles, *old(vxv), v1, d, *ctx, inode, handle)); }"""
    DR_KIDS_INV = """
            invariant *vxv == v1, kids_v@ == kv, kit.index@ <= kv.len(), kit.seq().len() == kv.len(), forall|i: int| 0 <= i < kv.len() ==> *kit.seq()[i] == kv[i],
                vec_ents(childrens@) =~= seq![(dot(), d), (dotdot(), pn)] + vis(v1, kv.take(kit.index@)), // [C10.view.do_readdir.visible] so far: ".", "..", and every child seen that is not a whiteout, in table order
        """
    DR_KIDS_PRE = """ let ghost i0 = kit.index@; let ghost c0 = childrens@;
            proof { assert(*child == kv[i0]); assert(kv.take(i0 + 1).drop_last() =~= kv.take(i0)); assert(kv.take(i0 + 1).last() == kv[i0]); }"""
    DR_MAIN_INV = """
            invariant_except_break
                calls_of(add_entry.log(), log0).len() == (if index > offset { index - offset } else { 0 }), // [C10.view.do_readdir.resume] exactly the entries from `offset` on are offered, none before, none skipped
                forall|j: int| 0 <= j < calls_of(add_entry.log(), log0).len() ==> accepted(#[trigger] calls_of(add_entry.log(), log0)[j]), // [C10.view.do_readdir.stop] inside the loop every entry offered so far was taken
                bump_calls(v1.ctr, es, offset, calls_of(add_entry.log(), log0), true) == bump_calls(v1.ctr, es, offset, calls_of(add_entry.log(), log0), false),
                ch_it.rem() == cv.skip(index as int), len == 0 <==> calls_of(add_entry.log(), log0).len() == 0,
            invariant
                size != 0, rd_pre(self.handles, *old(vxv), v1, d, *ctx, inode, handle), log0 == old(add_entry).log(), room0 == old(add_entry).room(), room0 <= 0xffff_ffff,
                es == dir_ents(v1, d), vec_ents(cv) =~= es, offset < cv.len(), cv.len() <= 0xffff_ffff_ffff_ffff, at == self.config.attr_timeout, et == self.config.entry_timeout,
                0 <= index <= cv.len(), extends(add_entry.log(), log0),
                forall|id: int| #[trigger] old(vxv).ctr.contains_key(id) ==> v1.ctr.contains_key(id) && v1.ctr[id] == old(vxv).ctr[id],
                rd_entries(calls_of(add_entry.log(), log0), es, offset, v1, *ctx, is_readdirplus, at, et), // [C10.view.do_readdir.entries] entry k of the listing is offered as call k - offset: own name, own numbers, offset k + 1
                len == room0 - add_entry.room(),
                *vxv == (LView { ctr: (if is_readdirplus { bump_calls(v1.ctr, es, offset, calls_of(add_entry.log(), log0), false) } else { v1.ctr }), ..v1 }), // [C10.view.do_readdir.refs] READDIRPLUS: one reference per entry offered; READDIR: none
            ensures
                rd_order(calls_of(add_entry.log(), log0)),
                offset + calls_of(add_entry.log(), log0).len() < es.len() ==> calls_of(add_entry.log(), log0).len() > 0 && !accepted(calls_of(add_entry.log(), log0).last()), // [C10.view.do_readdir.no_skip]
            decreases ch_it.rem().len(),
        """
    DR_MAIN_PRE = """ let ghost ix = index as int; let ghost calls0 = calls_of(add_entry.log(), log0); let ghost lg0 = add_entry.log();
            proof { assert(cv.skip(ix).len() == cv.len() - ix); assert(ix < cv.len()); assert(cv.skip(ix)[0] == cv[ix]); assert(cv.skip(ix).skip(1) =~= cv.skip(ix + 1)); assert(vec_ents(cv)[ix] == es[ix]); assert(name@ == es[ix].0 && child == es[ix].1); }"""
    DR_STEP = """let ghost c = add_entry.log().last(); let ghost calls1 = calls_of(add_entry.log(), log0);
                proof {
                    assert(calls1 =~= calls0.push(c)); assert(add_entry.log().take(log0.len() as int) =~= lg0.take(log0.len() as int));
                    assert(calls1.drop_last() =~= calls0); assert(calls0.len() == ix - offset);
                    assert(call_ok(c, es[ix], ix, v1, *ctx, is_readdirplus, at, et)); // [C10.view.do_readdir.entries]
                    assert forall|j: int| 0 <= j < calls1.len() implies call_ok(#[trigger] calls1[j], es[offset + j], offset + j, v1, *ctx, is_readdirplus, at, et) by { if j < calls0.len() { assert(calls1[j] == calls0[j]); } }
                    assert forall|j: int| 0 <= j < calls1.len() - 1 implies accepted(#[trigger] calls1[j]) by { assert(calls1[j] == calls0[j]); }
                    if accepted(c) { assert(bump_calls(v1.ctr, es, offset, calls1, true) == bump_calls(v1.ctr, es, offset, calls1, false)); }
                }"""
    dr = tok(Fn(OVL, OF, 'do_readdir', props=P, canary=True, ret_name='res', sig_subst=DR_SIG, body_resub=DR_RESUB,
                requires=['old(vxv).inodes.contains_key(1) // the root is in the table (import() puts it there; forget_one never removes it; lookup_node keeps every number)',
                          'old(add_entry).room() <= 0xffff_ffff // A-CB-ROOM: the reply buffer\'s size is a u32'],
                ensures=['extends(final(add_entry).log(), old(add_entry).log())',
                         'size == 0 ==> res is Ok && %s == %s && %s.len() == 0 // [C10.view.do_readdir.size0]' % (H1, H0, CALLS),
                         HP + '%s == (LView { ctr: final(vxv).ctr, ..%s }) // [C10.view.do_readdir.frame] a listing changes nothing in the view but lookup counters' % (H1, H0),
                         '!is_readdirplus ==> (forall|id: int| #[trigger] old(vxv).ctr.contains_key(id) ==> final(vxv).ctr[id] == old(vxv).ctr[id]) // [C10.view.do_readdir.readdir_no_refs] READDIR takes no reference',
                         HP + 'rd_entries(%s, %s, offset, %s, *ctx, is_readdirplus, %s, %s) // [C10.view.do_readdir.entries] call j offers entry offset + j of [".", "..", visible children in table order]: its own name, the st_ino / type of its node\'s attributes, its node\'s OWN number (READDIRPLUS), and the offset that resumes right after it' % (CALLS, ES0, H0, AT, ET),
                         HP + 'rd_order(%s) && rd_noskip(%s, %s.len(), offset, size, %s, res) // [C10.view.do_readdir.no_skip] nothing is offered after an entry that was not taken (Ok(0) = no room); a successful call stops early only for that reason or because the bytes reported reach `size`; an offset at or beyond the end: empty reply' % (CALLS, CALLS, ES0, USED),
                         HP + 'rd_err(%s, res) // [C10.view.do_readdir.err] a failure of the callback is returned only when nothing was delivered' % CALLS,
                         HP + 'is_readdirplus ==> final(vxv).ctr == bump_calls(old(vxv).ctr, %s, offset, %s, false) // [pin.view.do_readdir.plus_refs_offered] what the code does: one reference per entry OFFERED' % (ES0, CALLS),
                         # (a clause [C10.view.do_readdir.plus_refs] - a reference for exactly the entries DELIVERED - was stated here at first; C10 says nothing about lookup references
                         #  of the overlay, so it demanded more than the property: removed.  That READDIRPLUS keeps the reference of an entry the callback refused is recorded as an
                         #  observation (V2, findings/repro_overlay_view.rs::v2), the same pattern as D17 in the passthrough file system.)
                         'rd_post(self.handles, %s, %s, *ctx, inode, handle, size, offset, is_readdirplus, %s, %s, res, %s, %s) // [C10.view.do_readdir.post] the same for a request without (known) handle: the directory is what lookup_node(inode, ".") resolves, ENOTDIR for a non-directory' % (H0, H1, CALLS, USED, AT, ET)],
                splices=[('^', 'after', DR_ENTRY),
                         ('let mut childrens: Vec<(String, Arc<OverlayInode>)> = Vec::new();', 'before', DR_DIR),
                         ('childrens.push((str_to_string(".."), parent_node));', 'after', 'let ghost pn = parent_node; let ghost kv = kids_vals(v1.kids[d.childrens.id()]); proof { assert(kv.take(0) =~= Seq::<Node>::empty()); assert(vec_ents(childrens@) =~= seq![(dot(), d), (dotdot(), pn)] + vis(v1, kv.take(0))); }'),
                         ('childrens.push((child.name.clone(), child.clone()));', 'after', 'proof { assert(vec_ents(childrens@) =~= vec_ents(c0).push((child.name@, *child))); }'),
                         ('let mut len: usize = 0;', 'before', '''let ghost es = dir_ents(v1, d); let ghost cv = childrens@; proof { assert(kv.take(kv.len() as int) =~= kv);
            assert(vec_ents(cv) =~= es); // [C10.view.do_readdir.listing] what is listed: ".", ".." (the parent link, else the root), every child that is not a whiteout, once, in table order
            assert(cv.skip(0) =~= cv); }'''),
                         ('match cb_res {', 'before', DR_STEP)]),
             ['lookup_node', 'stat64', 'upgrade', 'root_node', 'load', 'fetch_add', 'values_vec'])
    dr.rules = dr.rules + ('R34',)
    dr.body_hooks = [HGET, R.r60_for_map_values(r'ovl_inode\s*\.\s*childrens\s*\.\s*lock\(\)\s*\.\s*unwrap\(\)', 'kids_v', label='kit', header_extra=DR_KIDS_INV, body_prefix=DR_KIDS_PRE),
                     R.r61_zip_from_zero('vec_into_iter', 'ch_it', header_extra=DR_MAIN_INV, body_prefix=DR_MAIN_PRE)]
    items.append(Group('impl OverlayFs {', [dr]))


    # ------------------------------------------------------------------------------------------------ readdir / readdirplus
    def must_resub(rx0, rep, why):
        def hook(body, fired):
            rx = rx0
            n = len(re.findall(rx, body, flags=re.S))
            if n == 0:      # the white space the pattern allows may also hold comments (as for body_resub in vx/build.py)
                rx = rx.replace(r'\s*', r'(?:\s|//[^\n]*\n)*').replace(r'\s+', r'(?:\s|//[^\n]*\n)+')
                n = len(re.findall(rx, body, flags=re.S))
            if n != 1:
                raise X.ExtractError('ANCHOR-LOST closure handed to do_readdir: /%s/ matches %d times' % (rx[:50], n))
            fired.append('ABSTRACT /%s/ -> %s (%s)' % (rx[:60], rep, why))
            return re.sub(rx, lambda m: X._pad(rep, m.group(0)), body, flags=re.S)
        return hook
    RT = r'\s*->\s*Result<\s*usize\s*,?\s*>\s*'
    CL1 = must_resub(r'&mut\s*\|\s*dir_entry\s*,\s*_v?\s*\|' + RT + r'\{\s*add_entry\(dir_entry\)\s*\}', 'plain_sink(add_entry)',
                     'the closure handed to do_readdir (forwards the DirEntry to the handler\'s callback, ignores the entry) -> adapter object plain_sink; its contract states exactly that (A-SINK)')
    CL2 = must_resub(r'&mut\s*\|\s*dir_entry\s*,\s*entry\s*\|' + RT + r'\{\s*match entry \{\s*Some\(e\) => add_entry\(dir_entry, e\),\s*None => Err\(Error::from_raw_os_error\(libc::ENOENT\)\),?\s*\}\s*\}', 'plus_sink(add_entry)',
                     'the closure handed to do_readdir (forwards DirEntry and the unwrapped entry, ENOENT without an entry) -> adapter object plus_sink; its contract states exactly that (A-SINK)')
    RDP = 'rd_post(self.handles, %s, %s, *ctx, inode, handle, size, offset, %%s, calls, used, r, %s, %s)' % (H0, H1, AT, ET)
    rdh = tok(Fn(OVLS, FSI, 'readdir', props=P, canary=True,
                 sig_subst=[('fn readdir(', 'fn readdir<B: AddEntry1>('), ('add_entry: &mut dyn FnMut(DirEntry) -> Result<usize>', 'add_entry: &mut B')],
                 requires=['old(vxv).inodes.contains_key(1)', 'old(add_entry).room1() <= 0xffff_ffff'],
                 ensures=['self.config.no_readdir ==> r is Ok && %s == %s && final(add_entry).log1() == old(add_entry).log1() // [C10.view.readdir.gate] READDIR switched off: an empty reply, nothing done' % (H1, H0),
                          '!self.config.no_readdir ==> exists|calls: Seq<CallRec>, used: int| #[trigger] %s && final(add_entry).log1() == old(add_entry).log1() + proj1(calls) // [C10.view.readdir.same] READDIR = do_readdir without entries (no reference is taken); the client\'s callback sees exactly the calls do_readdir makes' % (RDP % 'false')]),
              ['do_readdir'])
    rdh.body_hooks = [CL1]
    rph = tok(Fn(OVLS, FSI, 'readdirplus', props=P, canary=True,
                 sig_subst=[('fn readdirplus(', 'fn readdirplus<B: AddEntryPlus>('), ('add_entry: &mut dyn FnMut(DirEntry, Entry) -> Result<usize>', 'add_entry: &mut B')],
                 requires=['old(vxv).inodes.contains_key(1)', 'old(add_entry).proom() <= 0xffff_ffff'],
                 ensures=['self.config.no_readdir ==> r is Ok && %s == %s && final(add_entry).plog() == old(add_entry).plog() // [C10.view.readdirplus.gate]' % (H1, H0),
                          '!self.config.no_readdir ==> exists|calls: Seq<CallRec>, used: int| #[trigger] %s && (all_some(calls) ==> final(add_entry).plog() == old(add_entry).plog() + projp(calls)) // [C10.view.readdirplus.same] READDIRPLUS = do_readdir with entries' % (RDP % 'true')]),
              ['do_readdir'])
    rph.body_hooks = [CL2]
    items.append(Group('impl OverlayFs {', [rdh, rph]))


    # ------------------------------------------------------------------------------------------------ getattr
    GA_NODE = 'old(vxv).inodes[inode]'
    GA_HANDLE = '!old(vxv).flag[self.no_open.id()] && handle is Some && self.handles.s_handle(handle->Some_0) is Some && self.handles.s_handle(handle->Some_0)->Some_0.real_handle is Some'
    GA_RH = 'self.handles.s_handle(handle->Some_0)->Some_0.real_handle->Some_0'
    ga = tok(Fn(OVLS, FSI, 'getattr', props=P, canary=True,
                requires=['old(vxv).inodes.contains_key(inode) ==> old(vxv).ris.contains_key(%s.real_inodes.id()) && old(vxv).ris[%s.real_inodes.id()].len() > 0 // a node in the table has a real inode (invariant `ninv` of unit ovl_ops; first_layer_inode panics otherwise)' % (GA_NODE, GA_NODE)],
                ensures=['(%s) ==> %s == %s && r == (match (*%s.layer).s_getattr(*ctx, %s.inode, Some(old(vxv).ctr[%s.handle.id()])) { Ok(p) => Ok::<(stat64, Duration), Error>((p.0, self.config.attr_timeout)), Err(e) => Err::<(stat64, Duration), Error>(e) }) // [C10.view.getattr.handle] with an open file handle: the attributes the handle\'s own layer object reports for it; nothing changes' % (GA_HANDLE, H1, H0, GA_RH, GA_RH, GA_RH),
                         '!(%s) ==> exists|r0: Result<Node>| #[trigger] lookup_node_post(%s, %s, *ctx, inode, Seq::<char>::empty(), r0) && (match r0 { Err(e) => r == Err::<(stat64, Duration), Error>(e), Ok(nd) => ({ let f = final(vxv).ris[nd.real_inodes.id()][0]; r == (match (*f.layer).s_getattr(*ctx, f.inode, None) { Ok(p) => Ok::<(stat64, Duration), Error>((p.0, self.config.attr_timeout)), Err(e) => Err::<(stat64, Duration), Error>(e) }) }) }) // [C10.view.getattr.node] otherwise: the node the number resolves to (lookup_node(inode, "")): the attributes of its TOPMOST real inode' % (GA_HANDLE, H0, H1)],
                splices=[('^', 'after', 'proof { reveal_strlit(""); assert(""@ =~= Seq::<char>::empty()); }'),
                         ('let node = self.lookup_node(ctx, inode, "", Tracked(vxv))?;', 'after', 'proof { reveal(lookup_node_post); reveal(load_parts); assert(lookup_node_post(*old(vxv), *vxv, *ctx, inode, Seq::<char>::empty(), Ok::<Node, Error>(node))); }')]),
             ['load', 'lookup_node', 'first_layer_inode'])
    ga.body_hooks = [HGET]
    items.append(Group('impl OverlayFs {', [ga]))

    u = Unit('ovl_view', items, preludes=['base.rs', 'stdmodel.rs'], generic_tags=dict(C.GENERIC_TAGS), notes='; '.join(notes))
    u.prelude_subst = [C.LIBC_EXTRA, C.NO_STD_HASHMAP, LIBC_VIEW]
    return u
