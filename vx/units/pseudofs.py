"""Unit `pseudofs` (C07, C16: the pseudo file system): src/api/pseudo_fs.rs - PseudoInode::new / insert_child / remove_child, PseudoFs::new / mount /
path_walk / new_inode / insert_inode / create_inode / remove_inode / get_parent_inode / evict_inode / get_entry / do_readdir, the FileSystem methods
lookup / getattr / readdir / readdirplus (+ its closure, lifted) / access, and `From<Attr> for stat64` - all on their real text, none contract-only.

State model (rule R23 only, no R25).  Everything the pseudo fs mutates lives behind `&self`:
  * `PseudoInode::children: ArcSwap<Vec<Arc<PseudoInode>>>`  - reached through shared Arcs (table AND the parent's children vector),
  * `PseudoFs::inodes: ArcSwap<HashMap<u64, Arc<PseudoInode>>>`, `PseudoFs::next_inode: AtomicU64`.
All three are HEAP cells: the cell value carries an identity (`id()`), its content lives in the ghost heap `PHeap` (`kids`, `tabs`, `ctrs`), which
is threaded through every extracted function as an erased `Tracked<&mut PHeap>` parameter (R23).  (Unit pseudopersist models the two PseudoFs
cells by R25 `&self -> &mut self`; that is not possible for `mount`, which keeps `&self.root_inode` borrowed across `self.create_inode(..)`.)
Sequential model: serialised by `PseudoFs::lock`; the optimistic unlocked scans of mount / path_walk and concurrent readers are not modelled.

Abstract view: `PView { next, nodes: Map<ino, PNode { parent, name, kids: Seq<ino> }> }` (`PseudoFs::view`).  Every postcondition speaks about
the WHOLE view (`final view == f(old view)`: add_child, evict_spec, mount_spec, or equality), so that touching any other node fails.
Invariant `wf_m` (concrete) / `vwf` (abstract, lemma_wf_view): root = 1 is its own parent; every number in use is >= 1 and below the counter; one children
cell per node; a children vector holds exactly the table nodes whose parent it is, each once, in creation order (numbers strictly increase), under distinct
names; every non-root node has its parent in the table (closed), is listed there and carries a Component::Normal name.
Established by PseudoFs::new, preserved by create_inode / mount / evict_inode (lemma_create, lemma_evict).

Property-level statements are proof functions over the per-call contracts (checked by Verus): lemma_c07_mount (walk after mount finds the returned inode,
old nodes untouched, new numbers fresh / contiguous / below the limit, idempotent, every other path resolves as before), lemma_c16 / lemma_c16_pseudo
(any session 0 -> ... -> empty reply lists every child exactly once), lemma_resume_after, lemma_dir_entries_ok (no "." / "..", distinct numbers).

Rules: R2 R3 R6 R8 R9 R24 (defaults); R22 (Iterator::position, after a logged rewrite of `.position(..).map(|pos| v.remove(pos)).unwrap()` into
`let pos = ..position(..); v.remove(pos.unwrap());`); R23 (ghost heap token); R28 (`'outer: for c in path.components()` -> `let mut it = ..; 'outer: while let
Some(c) = it.next()`, vx/ovlrules.py, label kept); R17 (readdirplus closure lifted); logged body_resub abstractions: `.load().deref().deref().clone()` ->
load_clone, `for x in CELL.load().iter()` iterator temporary bound to a name, `String == &str` -> str_eq, `S.clone().as_bytes()` -> str_bytes,
`&v[a..]` -> vx_slice_from, `add_entry(..)` -> `add_entry.call(..)` on a generic AddEntry object (as unit ptreaddir), match scrutinee bound to a name,
`SystemTime::UNIX_EPOCH` -> unix_epoch(), `String::from("/")` -> string_from, cell constructors -> heap-cell constructors, the readdirplus closure ->
adapter object `plus_sink` whose `call` contract is the lifted closure's verified contract followed by the continuation.  Loops carry
`#[verifier::loop_isolation(false)]` (ghost attribute) so that `continue 'outer` from the inner scans is accepted together with a `decreases`.

Two obligations FAIL on the unchanged tree (genuine, reproduced by findings/repro_pseudofs.rs; drop with VX_DROP_TAGS to see the rest verify):
  [C16.pseudo.do_readdir.offset_overflow]  `let mut next = offset + 1;` is evaluated before the client's offset is compared with the number of children:
       READDIR(PLUS) with offset u64::MAX on a pseudo directory panics in builds with overflow checks (wraps harmlessly in release builds).
  (first version also demanded d_type == DT_DIR; the code sends 0 = DT_UNKNOWN, which is a legal "type not provided" and the safe answer for a mount point whose
   mounted root need not be a directory: the clause now reads "DT_DIR or DT_UNKNOWN, never another type" - a contract that demanded more than the property, corrected)
"""
import re

from vx.api import Unit, Fn, Copy, Raw, Group, Lifted
from vx import extract as X
from vx import wiremodel
from vx import ovlrules as OR

PFS = 'src/api/pseudo_fs.rs'
ABI = 'src/abi/fuse_abi_linux.rs'
FSMOD = 'src/api/filesystem/mod.rs'
VMOD = 'src/api/vfs/mod.rs'
TOK = dict(param='Tracked(hp): Tracked<&mut PHeap>', arg='Tracked(hp)')

CELLS = r'''
use vstd::std_specs::iter::IteratorSpec;
pub type Result<T> = io::Result<T>;
pub use io::Error;
pub type Inode = u64;
pub type Handle = u64;
// ---- the ghost heap: content of every interior-mutable cell of the pseudo fs, keyed by the identity of the cell
pub tracked struct PHeap {
    pub ghost kids: Map<int, Seq<Arc<PseudoInode>>>,            // PseudoInode::children cells
    pub ghost tabs: Map<int, Map<u64, Arc<PseudoInode>>>,       // PseudoFs::inodes cells
    pub ghost ctrs: Map<int, u64>,                              // PseudoFs::next_inode cells
}
// children cell (ArcSwap<Vec<Arc<PseudoInode>>>)
#[verifier::external_body] #[verifier::accept_recursive_types(T)] pub struct ArcSwapH<T> { _p: PhantomData<T> }
impl<T> ArcSwapH<T> { pub uninterp spec fn id(&self) -> int; }
impl ArcSwapH<Vec<Arc<PseudoInode>>> {
    // a new cell is none of the cells that exist
    #[verifier::external_body] pub fn new(v: Arc<Vec<Arc<PseudoInode>>>, Tracked(hp): Tracked<&mut PHeap>) -> (r: Self)
        ensures !old(hp).kids.contains_key(r.id()), *final(hp) == (PHeap { kids: old(hp).kids.insert(r.id(), v@), ..*old(hp) }) { unimplemented!() }
    #[verifier::external_body] pub fn load(&self, Tracked(hp): Tracked<&mut PHeap>) -> (r: Arc<Vec<Arc<PseudoInode>>>)
        requires old(hp).kids.contains_key(self.id()) ensures r@ == old(hp).kids[self.id()], *final(hp) == *old(hp), r@.len() <= 0x7fff_ffff_ffff_ffff /* a Vec never holds more than isize::MAX bytes */ { unimplemented!() }
    #[verifier::external_body] pub fn load_clone(&self, Tracked(hp): Tracked<&mut PHeap>) -> (r: Vec<Arc<PseudoInode>>)
        requires old(hp).kids.contains_key(self.id()) ensures r@ == old(hp).kids[self.id()], *final(hp) == *old(hp), r@.len() <= 0x7fff_ffff_ffff_ffff /* a Vec never holds more than isize::MAX bytes */ { unimplemented!() }
    #[verifier::external_body] pub fn store(&self, v: Arc<Vec<Arc<PseudoInode>>>, Tracked(hp): Tracked<&mut PHeap>)
        requires old(hp).kids.contains_key(self.id()) ensures *final(hp) == (PHeap { kids: old(hp).kids.insert(self.id(), v@), ..*old(hp) }) { unimplemented!() }
}
// inode table cell (ArcSwap<HashMap<u64, Arc<PseudoInode>>>)
#[verifier::external_body] #[verifier::reject_recursive_types(T)] pub struct ArcSwapT<T> { _p: PhantomData<T> }
impl<T> ArcSwapT<T> { pub uninterp spec fn id(&self) -> int; }
impl ArcSwapT<HashMap<u64, Arc<PseudoInode>>> {
    #[verifier::external_body] pub fn new(v: Arc<HashMap<u64, Arc<PseudoInode>>>, Tracked(hp): Tracked<&mut PHeap>) -> (r: Self)
        ensures !old(hp).tabs.contains_key(r.id()), *final(hp) == (PHeap { tabs: old(hp).tabs.insert(r.id(), v@), ..*old(hp) }) { unimplemented!() }
    #[verifier::external_body] pub fn load(&self, Tracked(hp): Tracked<&mut PHeap>) -> (r: Arc<HashMap<u64, Arc<PseudoInode>>>)
        requires old(hp).tabs.contains_key(self.id()) ensures r@ == old(hp).tabs[self.id()], *final(hp) == *old(hp) { unimplemented!() }
    #[verifier::external_body] pub fn load_clone(&self, Tracked(hp): Tracked<&mut PHeap>) -> (r: HashMap<u64, Arc<PseudoInode>>)
        requires old(hp).tabs.contains_key(self.id()) ensures r@ == old(hp).tabs[self.id()], *final(hp) == *old(hp) { unimplemented!() }
    #[verifier::external_body] pub fn store(&self, v: Arc<HashMap<u64, Arc<PseudoInode>>>, Tracked(hp): Tracked<&mut PHeap>)
        requires old(hp).tabs.contains_key(self.id()) ensures *final(hp) == (PHeap { tabs: old(hp).tabs.insert(self.id(), v@), ..*old(hp) }) { unimplemented!() }
}
// counter cell (AtomicU64): fetch_add returns the previous value and wraps around on overflow (std documentation)
#[verifier::external_body] pub struct AtomicU64H { _p: u8 }
impl AtomicU64H {
    pub uninterp spec fn id(&self) -> int;
    #[verifier::external_body] pub fn new(v: u64, Tracked(hp): Tracked<&mut PHeap>) -> (r: Self)
        ensures !old(hp).ctrs.contains_key(r.id()), *final(hp) == (PHeap { ctrs: old(hp).ctrs.insert(r.id(), v), ..*old(hp) }) { unimplemented!() }
    #[verifier::external_body] pub fn fetch_add(&self, n: u64, o: Ordering, Tracked(hp): Tracked<&mut PHeap>) -> (r: u64)
        requires old(hp).ctrs.contains_key(self.id())
        ensures r == old(hp).ctrs[self.id()], *final(hp) == (PHeap { ctrs: old(hp).ctrs.insert(self.id(), ((r as int + n as int) % 0x1_0000_0000_0000_0000) as u64), ..*old(hp) }) { unimplemented!() }
}
impl<T> Mutex<T> { #[verifier::external_body] pub fn new(v: T) -> (r: Self) { unimplemented!() } }
#[verifier::external_body] pub fn drop<T>(v: T) { unimplemented!() }
// ---- strings: `String == &str` (vstd specifies `String == String` only), String::from(&str)
#[verifier::external_body] pub fn str_eq(a: &String, b: &str) -> (r: bool) ensures r == (a@ == b@) { unimplemented!() }
#[verifier::external_body] pub fn string_from(s: &str) -> (r: String) ensures r@ == s@ { unimplemented!() }
'''

SPEC = r'''
// =====================================================================================================================
// the abstract view of a pseudo file system
pub struct PNode { pub parent: u64, pub name: Seq<char>, pub kids: Seq<u64> }
pub struct PView { pub next: u64, pub nodes: Map<u64, PNode> }
pub open spec fn incr(s: Seq<u64>) -> bool { forall|i: int, j: int| 0 <= i < j < s.len() ==> s[i] < s[j] }
// a name a path component can carry: std::path::Component::Normal is never empty, "." or ".." and holds no separator
#[verifier::opaque]
pub open spec fn normal_name(n: Seq<char>) -> bool { n.len() > 0 && n != seq!['.'] && n != seq!['.', '.'] && !n.contains('/') }
impl PseudoInode { pub open spec fn cell(&self) -> int { self.children.id() } }
pub open spec fn kid_inos(s: Seq<Arc<PseudoInode>>) -> Seq<u64> { s.map_values(|a: Arc<PseudoInode>| a.ino) }
pub open spec fn mkids(m: Map<u64, Arc<PseudoInode>>, h: PHeap, k: u64) -> Seq<Arc<PseudoInode>> { h.kids[m[k].cell()] }
pub open spec fn names_distinct(s: Seq<Arc<PseudoInode>>) -> bool { forall|i: int, j: int| 0 <= i < j < s.len() ==> (#[trigger] s[i]).name@ != (#[trigger] s[j]).name@ }
// well-formedness of the concrete structure (the invariant every operation preserves)
pub open spec fn wf_m(m: Map<u64, Arc<PseudoInode>>, root: Arc<PseudoInode>, next: u64, h: PHeap) -> bool {
    &&& m.contains_key(ROOT_ID) && m[ROOT_ID] == root && root.ino == ROOT_ID && root.parent == ROOT_ID
    // every number in use is below the counter ("a fresh inode number never used before"), 0 is never used
    &&& forall|k: u64| #[trigger] m.contains_key(k) ==> m[k].ino == k && h.kids.contains_key(m[k].cell()) && 1 <= k < next
    &&& forall|k: u64, l: u64| m.contains_key(k) && m.contains_key(l) && (#[trigger] m[k]).cell() == (#[trigger] m[l]).cell() ==> k == l
    // the children vector of a directory holds the very nodes of the table whose parent it is, each once, in creation order, under distinct names
    &&& forall|k: u64, j: int| m.contains_key(k) && 0 <= j < mkids(m, h, k).len() ==> ({ let c = #[trigger] mkids(m, h, k)[j];
            m.contains_key(c.ino) && m[c.ino] == c && c.parent == k && c.ino != ROOT_ID })
    &&& forall|k: u64| #[trigger] m.contains_key(k) ==> incr(kid_inos(mkids(m, h, k))) && names_distinct(mkids(m, h, k))
    &&& forall|c: u64| #[trigger] m.contains_key(c) && c != ROOT_ID ==> m.contains_key(m[c].parent) && mkids(m, h, m[c].parent).contains(m[c]) && normal_name(m[c].name@)
}
pub open spec fn view_m(m: Map<u64, Arc<PseudoInode>>, next: u64, h: PHeap) -> PView {
    PView { next: next, nodes: Map::new(m.dom(), |k: u64| PNode { parent: m[k].parent, name: m[k].name@, kids: kid_inos(mkids(m, h, k)) }) }
}
// ---- the two mutations of the tree, on the abstract view
// a new directory named n under d: numbered by the counter, no children, appended to d's children; nothing else changes
pub open spec fn add_child(v: PView, d: u64, n: Seq<char>) -> PView {
    PView { next: (v.next + 1) as u64,
            nodes: v.nodes.insert(v.next, PNode { parent: d, name: n, kids: Seq::empty() }).insert(d, PNode { kids: v.nodes[d].kids.push(v.next), ..v.nodes[d] }) }
}
// eviction: the root and a directory with children stay; otherwise exactly that node goes, from the table and from its parent's children
pub open spec fn evict_spec(v: PView, ino: u64) -> PView {
    let p = v.nodes[ino].parent;
    if p == ino || v.nodes[ino].kids.len() > 0 { v }
    else { PView { next: v.next, nodes: v.nodes.remove(ino).insert(p, PNode { kids: v.nodes[p].kids.remove(v.nodes[p].kids.index_of(ino)), ..v.nodes[p] }) } }
}
pub proof fn lemma_kid_inos_push(s: Seq<Arc<PseudoInode>>, c: Arc<PseudoInode>)
    ensures kid_inos(s.push(c)) =~= kid_inos(s).push(c.ino)
{ }
pub proof fn lemma_kid_inos_remove(s: Seq<Arc<PseudoInode>>, p: int)
    requires 0 <= p < s.len()
    ensures kid_inos(s.remove(p)) =~= kid_inos(s).remove(p)
{ }
// create_inode: what the three stores (counter, table, parent's children) amount to
pub proof fn lemma_create(m: Map<u64, Arc<PseudoInode>>, root: Arc<PseudoInode>, nx: u64, h: PHeap, p: u64, c: Arc<PseudoInode>, h2: PHeap)
    requires
        wf_m(m, root, nx, h), m.contains_key(p), nx < u64::MAX,
        c.ino == nx && c.parent == p && normal_name(c.name@) && !h.kids.contains_key(c.cell()),
        forall|j: int| 0 <= j < mkids(m, h, p).len() ==> (#[trigger] mkids(m, h, p)[j]).name@ != c.name@,
        h2.kids == h.kids.insert(c.cell(), Seq::<Arc<PseudoInode>>::empty()).insert(m[p].cell(), mkids(m, h, p).push(c)), // the new node is appended to its parent's children [C07.pseudo.create.linked]
    ensures
        wf_m(m.insert(nx, c), root, (nx + 1) as u64, h2),                                                  // [C07.pseudo.create.wf]
        view_m(m.insert(nx, c), (nx + 1) as u64, h2) == add_child(view_m(m, nx, h), p, c.name@),           // [C07.pseudo.create.view]
{
    let m2 = m.insert(nx, c); let n2 = (nx + 1) as u64;
    let kp = mkids(m, h, p);
    assert(!m.contains_key(nx));
    assert(m[p].cell() != c.cell());
    assert forall|k: u64| m.contains_key(k) && k != p implies #[trigger] mkids(m2, h2, k) == mkids(m, h, k) by {
        assert(m[k].cell() != m[p].cell()); assert(m[k].cell() != c.cell());
    }
    assert(mkids(m2, h2, p) == kp.push(c));
    assert(mkids(m2, h2, nx) == Seq::<Arc<PseudoInode>>::empty());
    assert forall|k: u64, j: int| m2.contains_key(k) && 0 <= j < mkids(m2, h2, k).len() implies ({ let cc = #[trigger] mkids(m2, h2, k)[j];
            m2.contains_key(cc.ino) && m2[cc.ino] == cc && cc.parent == k && cc.ino != ROOT_ID }) by {
        if k == p { if j < kp.len() { assert(mkids(m, h, p)[j] == kp[j]); } }
        else if k != nx { assert(mkids(m, h, k)[j] == mkids(m2, h2, k)[j]); }
    }
    assert forall|k: u64| #[trigger] m2.contains_key(k) implies incr(kid_inos(mkids(m2, h2, k))) && names_distinct(mkids(m2, h2, k)) by {
        if k == p {
            lemma_kid_inos_push(kp, c);
            assert forall|i: int, j: int| 0 <= i < j < kid_inos(kp.push(c)).len() implies kid_inos(kp.push(c))[i] < kid_inos(kp.push(c))[j] by {
                if j < kp.len() { assert(kid_inos(kp)[i] < kid_inos(kp)[j]); }
                else { assert(mkids(m, h, p)[i] == kp[i]); assert(m.contains_key(kp[i].ino)); }
            }
            assert forall|i: int, j: int| 0 <= i < j < kp.push(c).len() implies (#[trigger] kp.push(c)[i]).name@ != (#[trigger] kp.push(c)[j]).name@ by {
                if j < kp.len() { assert(kp[i].name@ != kp[j].name@); } else { assert(mkids(m, h, p)[i].name@ != c.name@); }
            }
        } else if k != nx { assert(m.contains_key(k)); }
    }
    assert forall|cc: u64| #[trigger] m2.contains_key(cc) && cc != ROOT_ID implies m2.contains_key(m2[cc].parent) && mkids(m2, h2, m2[cc].parent).contains(m2[cc]) && normal_name(m2[cc].name@) by {
        if cc == nx { assert(kp.push(c)[kp.len() as int] == c); }
        else {
            let q = m[cc].parent;
            assert(m.contains_key(q) && mkids(m, h, q).contains(m[cc]));
            if q == p { let x = choose|x: int| 0 <= x < kp.len() && kp[x] == m[cc]; assert(kp.push(c)[x] == m[cc]); }
        }
    }
    let v = view_m(m, nx, h); let v2 = view_m(m2, n2, h2); let w = add_child(v, p, c.name@);
    lemma_kid_inos_push(kp, c);
    assert(v2.nodes =~= w.nodes) by {
        assert forall|k: u64| v2.nodes.contains_key(k) implies #[trigger] v2.nodes[k] == w.nodes[k] by {
            if k == p { } else if k == nx { assert(kid_inos(mkids(m2, h2, nx)) =~= Seq::<u64>::empty()); } else { assert(mkids(m2, h2, k) == mkids(m, h, k)); }
        }
    }
}
// evict_inode of a childless non-root directory: the two stores (parent's children, table)
pub proof fn lemma_evict(m: Map<u64, Arc<PseudoInode>>, root: Arc<PseudoInode>, nx: u64, h: PHeap, ino: u64, x: int, h2: PHeap)
    requires
        wf_m(m, root, nx, h), m.contains_key(ino), m[ino].parent != ino, mkids(m, h, ino).len() == 0,
        0 <= x < mkids(m, h, m[ino].parent).len(), mkids(m, h, m[ino].parent)[x].name@ == m[ino].name@,
        h2.kids == h.kids.insert(m[m[ino].parent].cell(), mkids(m, h, m[ino].parent).remove(x)),
    ensures
        wf_m(m.remove(ino), root, nx, h2),                                                                  // [C07.pseudo.evict.wf]
        view_m(m.remove(ino), nx, h2) == evict_spec(view_m(m, nx, h), ino),                                 // [C07.pseudo.evict.view]
{
    let p = m[ino].parent; let kp = mkids(m, h, p); let m2 = m.remove(ino);
    assert(ino != ROOT_ID);
    assert(m.contains_key(p) && kp.contains(m[ino]));
    let y = choose|y: int| 0 <= y < kp.len() && kp[y] == m[ino];
    assert(x == y) by { if x < y { assert(kp[x].name@ != kp[y].name@); } if y < x { assert(kp[y].name@ != kp[x].name@); } }
    assert(mkids(m2, h2, p) == kp.remove(x));
    assert forall|k: u64| m2.contains_key(k) && k != p implies #[trigger] mkids(m2, h2, k) == mkids(m, h, k) by { assert(m[k].cell() != m[p].cell()); }
    assert forall|k: u64, j: int| m2.contains_key(k) && 0 <= j < mkids(m2, h2, k).len() implies ({ let cc = #[trigger] mkids(m2, h2, k)[j];
            m2.contains_key(cc.ino) && m2[cc.ino] == cc && cc.parent == k && cc.ino != ROOT_ID }) by {
        if k == p {
            let j0 = if j < x { j } else { j + 1 };
            assert(kp.remove(x)[j] == kp[j0]); assert(mkids(m, h, p)[j0] == kp[j0]);
            assert(kid_inos(kp)[j0] != kid_inos(kp)[x]) by { if j0 < x { assert(kid_inos(kp)[j0] < kid_inos(kp)[x]); } else { assert(kid_inos(kp)[x] < kid_inos(kp)[j0]); } }
        } else {
            let cc = mkids(m, h, k)[j]; assert(mkids(m2, h2, k)[j] == cc);
            assert(cc.parent == k);
            if cc.ino == ino { assert(m[ino] == cc); }
        }
    }
    assert forall|k: u64| #[trigger] m2.contains_key(k) implies incr(kid_inos(mkids(m2, h2, k))) && names_distinct(mkids(m2, h2, k)) by {
        if k == p {
            lemma_kid_inos_remove(kp, x);
            assert forall|i: int, j: int| 0 <= i < j < kid_inos(kp).remove(x).len() implies kid_inos(kp).remove(x)[i] < kid_inos(kp).remove(x)[j] by {
                let i0 = if i < x { i } else { i + 1 }; let j0 = if j < x { j } else { j + 1 };
                assert(kid_inos(kp)[i0] < kid_inos(kp)[j0]);
            }
            assert forall|i: int, j: int| 0 <= i < j < kp.remove(x).len() implies (#[trigger] kp.remove(x)[i]).name@ != (#[trigger] kp.remove(x)[j]).name@ by {
                let i0 = if i < x { i } else { i + 1 }; let j0 = if j < x { j } else { j + 1 };
                assert(kp[i0].name@ != kp[j0].name@);
            }
        } else { assert(m.contains_key(k)); }
    }
    assert forall|cc: u64| #[trigger] m2.contains_key(cc) && cc != ROOT_ID implies m2.contains_key(m2[cc].parent) && mkids(m2, h2, m2[cc].parent).contains(m2[cc]) && normal_name(m2[cc].name@) by {
        let q = m[cc].parent;
        assert(m.contains_key(cc));
        assert(m.contains_key(q) && mkids(m, h, q).contains(m[cc]));
        // a directory whose children vector is empty is nobody's parent
        if q == ino { assert(mkids(m, h, ino).len() > 0); }
        if q == p {
            let z = choose|z: int| 0 <= z < kp.len() && kp[z] == m[cc];
            assert(z != x);
            let z2 = if z < x { z } else { z - 1 };
            assert(kp.remove(x)[z2] == m[cc]);
        }
    }
    let v = view_m(m, nx, h); let v2 = view_m(m2, nx, h2); let w = evict_spec(v, ino);
    lemma_kid_inos_remove(kp, x);
    assert(kid_inos(kp)[x] == ino);
    assert(v.nodes[p].kids.index_of(ino) == x) by {
        let z = v.nodes[p].kids.index_of(ino);
        assert(kid_inos(kp).contains(ino));
        if z < x { assert(kid_inos(kp)[z] < kid_inos(kp)[x]); } if x < z { assert(kid_inos(kp)[x] < kid_inos(kp)[z]); }
    }
    assert(v.nodes[ino].kids.len() == 0);
    assert(v2.nodes =~= w.nodes) by {
        assert forall|k: u64| v2.nodes.contains_key(k) implies #[trigger] v2.nodes[k] == w.nodes[k] by {
            if k != p { assert(mkids(m2, h2, k) == mkids(m, h, k)); }
        }
    }
}
impl PseudoFs {
    pub open spec fn cells_ok(&self, h: PHeap) -> bool { h.tabs.contains_key(self.inodes.id()) && h.ctrs.contains_key(self.next_inode.id()) }
    pub open spec fn im(&self, h: PHeap) -> Map<u64, Arc<PseudoInode>> { h.tabs[self.inodes.id()] }
    pub open spec fn nx(&self, h: PHeap) -> u64 { h.ctrs[self.next_inode.id()] }
    pub open spec fn wf(&self, h: PHeap) -> bool { self.cells_ok(h) && wf_m(self.im(h), self.root_inode, self.nx(h), h) }
    pub open spec fn view(&self, h: PHeap) -> PView { view_m(self.im(h), self.nx(h), h) }
}
'''

PATHS = r"""
// ---- std::path on unix, for a path made from a &str (the only constructor modelled): has_root / components are functions of the text (assumed: std's parser)
#[verifier::external_body] pub struct Path { _p: u8 }
#[verifier::external_body] pub struct OsStr { _p: u8 }
#[verifier::external_body] pub struct PrefixComponent { _p: u8 }
pub enum Component<'a> { Prefix(PrefixComponent), RootDir, CurDir, ParentDir, Normal(&'a OsStr) }
pub enum PComp { Prefix, RootDir, CurDir, ParentDir, Normal(Seq<char>) }
pub uninterp spec fn path_has_root(s: Seq<char>) -> bool;
pub uninterp spec fn path_comps(s: Seq<char>) -> Seq<PComp>;
// std documentation of Component::Normal: "a normal component, e.g. a and b in a/b" - never empty, never "." / ".." (those are CurDir / ParentDir), no separator inside
pub broadcast axiom fn axiom_path_comps_normal(s: Seq<char>, i: int)
    requires 0 <= i < path_comps(s).len(), (#[trigger] path_comps(s)[i]) is Normal
    ensures normal_name(path_comps(s)[i]->Normal_0);
impl OsStr {
    pub uninterp spec fn view(&self) -> Seq<char>;
    pub uninterp spec fn utf8(&self) -> bool;
    #[verifier::external_body] pub fn to_str(&self) -> (r: Option<&str>) ensures r is Some <==> self.utf8(), r is Some ==> r->Some_0@ == self@ { unimplemented!() }
}
pub open spec fn comp_view(c: Component<'_>) -> PComp {
    match c { Component::Prefix(_) => PComp::Prefix, Component::RootDir => PComp::RootDir, Component::CurDir => PComp::CurDir, Component::ParentDir => PComp::ParentDir, Component::Normal(o) => PComp::Normal(o@) }
}
#[verifier::external_body] pub struct Components<'a> { _p: PhantomData<&'a u8> }
impl<'a> Components<'a> {
    pub uninterp spec fn rest(&self) -> Seq<PComp>;
    // Iterator::next: front to back; a component of a path that was made from a &str is valid UTF-8
    #[verifier::external_body] pub fn next(&mut self) -> (r: Option<Component<'a>>)
        ensures old(self).rest().len() == 0 ==> r is None && final(self).rest() == old(self).rest(),
                old(self).rest().len() > 0 ==> r is Some && comp_view(r->Some_0) == old(self).rest()[0] && final(self).rest() == old(self).rest().skip(1)
                    && (r->Some_0 matches Component::Normal(o) ==> o.utf8())
    { unimplemented!() }
}
impl Path {
    pub uninterp spec fn view(&self) -> Seq<char>;
    #[verifier::external_body] pub fn new<'a>(s: &'a str) -> (r: &'a Path) ensures r@ == s@ { unimplemented!() }
    #[verifier::external_body] pub fn has_root(&self) -> (r: bool) ensures r == path_has_root(self@) { unimplemented!() }
    #[verifier::external_body] pub fn components<'a>(&'a self) -> (r: Components<'a>) ensures r.rest() == path_comps(self@) { unimplemented!() }
}
"""

WALK = r"""
// =====================================================================================================================
// path resolution on the abstract view
pub open spec fn has_child_named(v: PView, d: u64, n: Seq<char>, j: int) -> bool { 0 <= j < v.nodes[d].kids.len() && v.nodes[v.nodes[d].kids[j]].name == n }
// THE child of directory d named n (names of siblings are distinct in a well-formed tree)
pub open spec fn child_named(v: PView, d: u64, n: Seq<char>) -> Option<u64> {
    if exists|j: int| has_child_named(v, d, n, j) { Some(v.nodes[d].kids[choose|j: int| has_child_named(v, d, n, j)]) } else { None }
}
pub enum PWalk { Found(u64), Missing, Bad }
// "every component exists": RootDir / CurDir stay, ParentDir goes to the parent (the root is its own parent), a name goes to the child of that name
pub open spec fn walk_spec(v: PView, cur: u64, cs: Seq<PComp>) -> PWalk decreases cs.len() {
    if cs.len() == 0 { PWalk::Found(cur) } else { match cs[0] {
        PComp::Prefix => PWalk::Bad,
        PComp::RootDir => walk_spec(v, cur, cs.skip(1)),
        PComp::CurDir => walk_spec(v, cur, cs.skip(1)),
        PComp::ParentDir => walk_spec(v, v.nodes[cur].parent, cs.skip(1)),
        PComp::Normal(n) => match child_named(v, cur, n) { Some(c) => walk_spec(v, c, cs.skip(1)), None => PWalk::Missing },
    } }
}
// mount: the same walk, a missing name is created (add_child) and entered
pub open spec fn mount_spec(v: PView, cur: u64, cs: Seq<PComp>) -> Option<(PView, u64)> decreases cs.len() {
    if cs.len() == 0 { Some((v, cur)) } else { match cs[0] {
        PComp::Prefix => None,
        PComp::RootDir => mount_spec(v, cur, cs.skip(1)),
        PComp::CurDir => mount_spec(v, cur, cs.skip(1)),
        PComp::ParentDir => mount_spec(v, v.nodes[cur].parent, cs.skip(1)),
        PComp::Normal(n) => match child_named(v, cur, n) { Some(c) => mount_spec(v, c, cs.skip(1)), None => mount_spec(add_child(v, cur, n), v.next, cs.skip(1)) },
    } }
}
// the concrete scan of a children vector decides child_named
pub proof fn lemma_child_named(m: Map<u64, Arc<PseudoInode>>, root: Arc<PseudoInode>, nx: u64, h: PHeap, d: u64, n: Seq<char>)
    requires wf_m(m, root, nx, h), m.contains_key(d)
    ensures forall|j: int| 0 <= j < mkids(m, h, d).len() && (#[trigger] mkids(m, h, d)[j]).name@ == n ==> child_named(view_m(m, nx, h), d, n) == Some(mkids(m, h, d)[j].ino),
            (forall|j: int| 0 <= j < mkids(m, h, d).len() ==> (#[trigger] mkids(m, h, d)[j]).name@ != n) ==> child_named(view_m(m, nx, h), d, n) is None,
{
    let v = view_m(m, nx, h); let ks = mkids(m, h, d);
    assert forall|j: int| 0 <= j < ks.len() implies v.nodes[d].kids[j] == (#[trigger] ks[j]).ino && v.nodes[ks[j].ino].name == ks[j].name@ by {
        assert(mkids(m, h, d)[j] == ks[j]); assert(m.contains_key(ks[j].ino) && m[ks[j].ino] == ks[j]);
    }
    assert forall|j: int| 0 <= j < ks.len() && (#[trigger] ks[j]).name@ == n implies child_named(v, d, n) == Some(ks[j].ino) by {
        assert(has_child_named(v, d, n, j));
        let c = choose|c: int| has_child_named(v, d, n, c);
        assert(ks[c].name@ == n);
        if c < j { assert(ks[c].name@ != ks[j].name@); } if j < c { assert(ks[j].name@ != ks[c].name@); }
    }
    if forall|j: int| 0 <= j < ks.len() ==> (#[trigger] ks[j]).name@ != n {
        if exists|j: int| has_child_named(v, d, n, j) { let c = choose|c: int| has_child_named(v, d, n, c); assert(ks[c].name@ == n); }
    }
}
// =====================================================================================================================
// C07, the statement about mount / path_walk in the words of the property (proof functions over the abstract view; checked by Verus)
// well-formedness of a view (what wf_m says about the abstract tree)
pub open spec fn kname(v: PView, k: u64, i: int) -> Seq<char> { v.nodes[v.nodes[k].kids[i]].name }
pub open spec fn kid_ok(v: PView, k: u64, j: int) -> bool { let c = v.nodes[k].kids[j]; v.nodes.contains_key(c) && v.nodes[c].parent == k && c != ROOT_ID && c < v.next }
pub open spec fn kid_names_distinct(v: PView, k: u64) -> bool { forall|i: int, j: int| 0 <= i < j < v.nodes[k].kids.len() ==> #[trigger] kname(v, k, i) != #[trigger] kname(v, k, j) }
pub open spec fn listed(v: PView, c: u64) -> bool { exists|z: int| 0 <= z < v.nodes[v.nodes[c].parent].kids.len() && #[trigger] v.nodes[v.nodes[c].parent].kids[z] == c }
#[verifier::opaque]
pub open spec fn vwf(v: PView) -> bool {
    &&& v.nodes.contains_key(ROOT_ID) && v.nodes[ROOT_ID].parent == ROOT_ID
    &&& forall|k: u64| #[trigger] v.nodes.contains_key(k) ==> 1 <= k < v.next && v.nodes.contains_key(v.nodes[k].parent)
    &&& forall|k: u64, j: int| v.nodes.contains_key(k) && 0 <= j < v.nodes[k].kids.len() ==> #[trigger] kid_ok(v, k, j)
    &&& forall|k: u64| #[trigger] v.nodes.contains_key(k) ==> incr(v.nodes[k].kids)
    &&& forall|k: u64| #[trigger] v.nodes.contains_key(k) ==> kid_names_distinct(v, k)
    &&& forall|c: u64| #[trigger] v.nodes.contains_key(c) && c != ROOT_ID ==> listed(v, c) && normal_name(v.nodes[c].name)
}
pub open spec fn comps_normal(cs: Seq<PComp>) -> bool { forall|j: int| 0 <= j < cs.len() && (#[trigger] cs[j]) is Normal ==> normal_name(cs[j]->Normal_0) }
// v2 extends v: every node of v is still there with its parent and name, its children list only grew at the end; every other node carries a number
// the counter handed out in between, and every such number names a node
#[verifier::opaque]
pub open spec fn extends_view(v: PView, v2: PView) -> bool {
    &&& v.next <= v2.next
    &&& forall|k: u64| #[trigger] v.nodes.contains_key(k) ==> v2.nodes.contains_key(k) && v2.nodes[k].parent == v.nodes[k].parent && v2.nodes[k].name == v.nodes[k].name
            && v.nodes[k].kids.is_prefix_of(v2.nodes[k].kids)
    &&& forall|k: u64| (#[trigger] v2.nodes.contains_key(k) && !v.nodes.contains_key(k)) <==> v.next <= k < v2.next
}
pub proof fn lemma_child_named_is(v: PView, d: u64, n: Seq<char>, j: int)
    requires vwf(v), v.nodes.contains_key(d), has_child_named(v, d, n, j)
    ensures child_named(v, d, n) == Some(v.nodes[d].kids[j])
{
    reveal(vwf); reveal(extends_view);
    let c = choose|c: int| has_child_named(v, d, n, c);
    if c < j { assert(kname(v, d, c) != kname(v, d, j)); }
    if j < c { assert(kname(v, d, j) != kname(v, d, c)); }
}
proof fn lemma_add_child_kids(v: PView, d: u64, n: Seq<char>, k: u64, j: int)
    requires vwf(v), v.nodes.contains_key(d), v.next < u64::MAX, add_child(v, d, n).nodes.contains_key(k), 0 <= j < add_child(v, d, n).nodes[k].kids.len()
    ensures kid_ok(add_child(v, d, n), k, j), k != v.next,
            k == d && j == v.nodes[d].kids.len() ==> add_child(v, d, n).nodes[k].kids[j] == v.next && kname(add_child(v, d, n), k, j) == n,
            !(k == d && j == v.nodes[d].kids.len()) ==> v.nodes.contains_key(k) && j < v.nodes[k].kids.len() && add_child(v, d, n).nodes[k].kids[j] == v.nodes[k].kids[j] && kname(add_child(v, d, n), k, j) == kname(v, k, j),
{
    reveal(vwf); reveal(extends_view);
    let x = v.next;
    assert(!v.nodes.contains_key(x));
    if k == d && j == v.nodes[d].kids.len() { }
    else { assert(kid_ok(v, k, j)); }
}
proof fn lemma_add_child_incr(v: PView, d: u64, n: Seq<char>, k: u64)
    requires vwf(v), v.nodes.contains_key(d), v.next < u64::MAX, add_child(v, d, n).nodes.contains_key(k)
    ensures incr(add_child(v, d, n).nodes[k].kids)
{
    reveal(vwf); reveal(extends_view);
    let x = v.next; let kd = v.nodes[d].kids;
    assert(!v.nodes.contains_key(x));
    if k == d {
        assert(incr(kd));
        assert forall|i: int, j: int| 0 <= i < j < kd.push(x).len() implies kd.push(x)[i] < kd.push(x)[j] by {
            if j < kd.len() { assert(kd[i] < kd[j]); } else { assert(kid_ok(v, d, i)); }
        }
    } else if k != x { assert(v.nodes.contains_key(k)); assert(incr(v.nodes[k].kids)); }
}
proof fn lemma_add_child_names(v: PView, d: u64, n: Seq<char>, k: u64)
    requires vwf(v), v.nodes.contains_key(d), v.next < u64::MAX, add_child(v, d, n).nodes.contains_key(k), child_named(v, d, n) is None
    ensures kid_names_distinct(add_child(v, d, n), k)
{
    reveal(vwf); reveal(extends_view);
    let w = add_child(v, d, n); let kd = v.nodes[d].kids;
    assert forall|i: int, j: int| 0 <= i < j < w.nodes[k].kids.len() implies #[trigger] kname(w, k, i) != #[trigger] kname(w, k, j) by {
        lemma_add_child_kids(v, d, n, k, i); lemma_add_child_kids(v, d, n, k, j);
        if k == d && j == kd.len() { if kname(v, d, i) == n { assert(has_child_named(v, d, n, i)); } }
        else { assert(kid_names_distinct(v, k)); assert(kname(v, k, i) != kname(v, k, j)); }
    }
}
proof fn lemma_add_child_listed(v: PView, d: u64, n: Seq<char>, c: u64)
    requires vwf(v), v.nodes.contains_key(d), v.next < u64::MAX, add_child(v, d, n).nodes.contains_key(c), c != ROOT_ID, normal_name(n)
    ensures listed(add_child(v, d, n), c), normal_name(add_child(v, d, n).nodes[c].name)
{
    reveal(vwf); reveal(extends_view);
    let w = add_child(v, d, n); let x = v.next; let kd = v.nodes[d].kids;
    assert(!v.nodes.contains_key(x));
    if c == x { assert(w.nodes[c].parent == d); assert(w.nodes[w.nodes[c].parent].kids[kd.len() as int] == c); }
    else {
        assert(v.nodes.contains_key(c)); assert(listed(v, c)); let q = v.nodes[c].parent;
        let z = choose|z: int| 0 <= z < v.nodes[q].kids.len() && #[trigger] v.nodes[q].kids[z] == c;
        assert(v.nodes.contains_key(q));
        assert(w.nodes[c].parent == q); assert(w.nodes[w.nodes[c].parent].kids[z] == c);
    }
}
proof fn lemma_add_child_ext(v: PView, d: u64, n: Seq<char>)
    requires vwf(v), v.nodes.contains_key(d), v.next < u64::MAX
    ensures extends_view(v, add_child(v, d, n))
{
    reveal(vwf); reveal(extends_view);
    let w = add_child(v, d, n); let x = v.next; let kd = v.nodes[d].kids;
    assert(!v.nodes.contains_key(x));
    assert forall|k: u64| #[trigger] v.nodes.contains_key(k) implies w.nodes.contains_key(k) && w.nodes[k].parent == v.nodes[k].parent && w.nodes[k].name == v.nodes[k].name && v.nodes[k].kids.is_prefix_of(w.nodes[k].kids) by {
        if k == d { assert(kd.is_prefix_of(kd.push(x))); }
    }
}
pub proof fn lemma_add_child(v: PView, d: u64, n: Seq<char>)
    requires vwf(v), v.nodes.contains_key(d), child_named(v, d, n) is None, v.next < u64::MAX, normal_name(n)
    ensures vwf(add_child(v, d, n)), extends_view(v, add_child(v, d, n)), add_child(v, d, n).nodes.contains_key(v.next),
            has_child_named(add_child(v, d, n), d, n, v.nodes[d].kids.len() as int), add_child(v, d, n).nodes[d].kids[v.nodes[d].kids.len() as int] == v.next,
{
    reveal(vwf); reveal(extends_view);
    let w = add_child(v, d, n); let x = v.next; let kd = v.nodes[d].kids;
    assert(!v.nodes.contains_key(x));
    lemma_add_child_ext(v, d, n);
    assert forall|k: u64, j: int| w.nodes.contains_key(k) && 0 <= j < w.nodes[k].kids.len() implies #[trigger] kid_ok(w, k, j) by { lemma_add_child_kids(v, d, n, k, j); }
    assert forall|k: u64| #[trigger] w.nodes.contains_key(k) implies incr(w.nodes[k].kids) by { lemma_add_child_incr(v, d, n, k); }
    assert forall|k: u64| #[trigger] w.nodes.contains_key(k) implies kid_names_distinct(w, k) by { lemma_add_child_names(v, d, n, k); }
    assert forall|c: u64| #[trigger] w.nodes.contains_key(c) && c != ROOT_ID implies listed(w, c) && normal_name(w.nodes[c].name) by { lemma_add_child_listed(v, d, n, c); }
    lemma_add_child_kids(v, d, n, d, kd.len() as int);
}
pub proof fn lemma_vwf_parent(v: PView, k: u64)
    requires vwf(v), v.nodes.contains_key(k)
    ensures v.nodes.contains_key(v.nodes[k].parent), 1 <= k < v.next
{ reveal(vwf); }
pub proof fn lemma_vwf_kid(v: PView, k: u64, j: int)
    requires vwf(v), v.nodes.contains_key(k), 0 <= j < v.nodes[k].kids.len()
    ensures kid_ok(v, k, j)
{ reveal(vwf); }
pub proof fn lemma_extends_refl(v: PView) ensures extends_view(v, v) { reveal(extends_view); }
pub proof fn lemma_extends_node(v: PView, v2: PView, k: u64)
    requires extends_view(v, v2), v.nodes.contains_key(k)
    ensures v2.nodes.contains_key(k), v2.nodes[k].parent == v.nodes[k].parent, v2.nodes[k].name == v.nodes[k].name, v.nodes[k].kids.is_prefix_of(v2.nodes[k].kids), v.next <= v2.next
{ reveal(extends_view); }
pub proof fn lemma_extends_trans(a: PView, b: PView, c: PView)
    requires extends_view(a, b), extends_view(b, c)
    ensures extends_view(a, c)
{
    reveal(vwf); reveal(extends_view);
    assert forall|k: u64| #[trigger] a.nodes.contains_key(k) implies a.nodes[k].kids.is_prefix_of(c.nodes[k].kids) by {
        assert(b.nodes.contains_key(k));
        let x = a.nodes[k].kids; let y = b.nodes[k].kids; let z = c.nodes[k].kids;
        assert(x.is_prefix_of(y) && y.is_prefix_of(z));
        assert(x =~= z.subrange(0, x.len() as int)) by { assert(x =~= y.subrange(0, x.len() as int)); assert(y =~= z.subrange(0, y.len() as int)); }
    }
    assert forall|k: u64| #[trigger] c.nodes.contains_key(k) && !a.nodes.contains_key(k) <==> a.next <= k < c.next by {
        if c.nodes.contains_key(k) && !a.nodes.contains_key(k) { if b.nodes.contains_key(k) { assert(a.next <= k < b.next); } else { assert(b.next <= k < c.next); } }
        if a.next <= k < c.next { if k < b.next { assert(b.nodes.contains_key(k) && !a.nodes.contains_key(k)); } else { assert(c.nodes.contains_key(k) && !b.nodes.contains_key(k)); if a.nodes.contains_key(k) { assert(b.nodes.contains_key(k)); } } }
    }
}
// what mount does to the tree, in the words of the property
pub proof fn lemma_mount_frame(v: PView, cur: u64, cs: Seq<PComp>)
    requires vwf(v), v.nodes.contains_key(cur), v.next + cs.len() <= VFS_MAX_INO + 1, mount_spec(v, cur, cs) is Some, comps_normal(cs)
    ensures ({ let v2 = mount_spec(v, cur, cs)->Some_0.0; let r = mount_spec(v, cur, cs)->Some_0.1;
        &&& vwf(v2) && v2.nodes.contains_key(r)
        &&& extends_view(v, v2)                                  // [C07.pseudo.mount.frame]
        &&& v2.next <= v.next + cs.len()                         // [C07.pseudo.mount.limit]
    }),
    decreases cs.len()
{
    if cs.len() == 0 { lemma_extends_refl(v); }
    else {
        let rest = cs.skip(1);
        assert(comps_normal(rest)) by { assert forall|j: int| 0 <= j < rest.len() && (#[trigger] rest[j]) is Normal implies normal_name(rest[j]->Normal_0) by { assert(rest[j] == cs[j + 1]); } }
        match cs[0] {
            PComp::Prefix => { }
            PComp::RootDir => { lemma_mount_frame(v, cur, rest); }
            PComp::CurDir => { lemma_mount_frame(v, cur, rest); }
            PComp::ParentDir => { lemma_vwf_parent(v, cur); lemma_mount_frame(v, v.nodes[cur].parent, rest); }
            PComp::Normal(n) => {
                match child_named(v, cur, n) {
                    Some(c) => { let j = choose|j: int| has_child_named(v, cur, n, j); lemma_vwf_kid(v, cur, j); lemma_mount_frame(v, c, rest); }
                    None => {
                        lemma_vwf_parent(v, cur);
                        lemma_add_child(v, cur, n);
                        let v1 = add_child(v, cur, n);
                        lemma_mount_frame(v1, v.next, rest);
                        lemma_extends_trans(v, v1, mount_spec(v, cur, cs)->Some_0.0);
                    }
                }
            }
        }
    }
}
// idempotent: mounting a path whose components all exist changes nothing and returns what path_walk finds
pub proof fn lemma_mount_idempotent(v: PView, cur: u64, cs: Seq<PComp>)
    requires walk_spec(v, cur, cs) is Found
    ensures mount_spec(v, cur, cs) == Some((v, walk_spec(v, cur, cs)->Found_0))          // [C07.pseudo.mount.idempotent]
    decreases cs.len()
{
    if cs.len() > 0 {
        let rest = cs.skip(1);
        match cs[0] {
            PComp::Prefix => { }
            PComp::RootDir => { lemma_mount_idempotent(v, cur, rest); }
            PComp::CurDir => { lemma_mount_idempotent(v, cur, rest); }
            PComp::ParentDir => { lemma_mount_idempotent(v, v.nodes[cur].parent, rest); }
            PComp::Normal(n) => { match child_named(v, cur, n) { Some(c) => { lemma_mount_idempotent(v, c, rest); } None => { } } }
        }
    }
}
// a resolved name stays resolved, to the same node, in every extension of the tree
pub proof fn lemma_child_named_extends(v: PView, v2: PView, d: u64, n: Seq<char>)
    requires vwf(v), vwf(v2), extends_view(v, v2), v.nodes.contains_key(d), child_named(v, d, n) is Some
    ensures child_named(v2, d, n) == child_named(v, d, n)
{
    reveal(vwf); reveal(extends_view);
    let j = choose|j: int| has_child_named(v, d, n, j);
    let c = v.nodes[d].kids[j];
    assert(kid_ok(v, d, j));
    assert(v.nodes[d].kids.is_prefix_of(v2.nodes[d].kids));
    assert(v2.nodes[d].kids[j] == c);
    assert(has_child_named(v2, d, n, j));
    lemma_child_named_is(v2, d, n, j);
}
pub proof fn lemma_walk_extends(v: PView, v2: PView, cur: u64, cs: Seq<PComp>)
    requires vwf(v), vwf(v2), extends_view(v, v2), v.nodes.contains_key(cur), walk_spec(v, cur, cs) is Found
    ensures walk_spec(v2, cur, cs) == walk_spec(v, cur, cs), v.nodes.contains_key(walk_spec(v, cur, cs)->Found_0)   // creating directories never changes what an existing path resolves to [C07.pseudo.walk.stable]
    decreases cs.len()
{
    if cs.len() > 0 {
        let rest = cs.skip(1);
        match cs[0] {
            PComp::Prefix => { }
            PComp::RootDir => { lemma_walk_extends(v, v2, cur, rest); }
            PComp::CurDir => { lemma_walk_extends(v, v2, cur, rest); }
            PComp::ParentDir => { lemma_vwf_parent(v, cur); lemma_extends_node(v, v2, cur); lemma_walk_extends(v, v2, v.nodes[cur].parent, rest); }
            PComp::Normal(n) => { match child_named(v, cur, n) {
                Some(c) => { let j = choose|j: int| has_child_named(v, cur, n, j); lemma_vwf_kid(v, cur, j); lemma_child_named_extends(v, v2, cur, n); lemma_walk_extends(v, v2, c, rest); }
                None => { } } }
        }
    }
}
// after mount(path), path_walk(path) finds exactly the inode mount returned
pub proof fn lemma_mount_then_walk(v: PView, cur: u64, cs: Seq<PComp>)
    requires vwf(v), v.nodes.contains_key(cur), v.next + cs.len() <= VFS_MAX_INO + 1, mount_spec(v, cur, cs) is Some, comps_normal(cs)
    ensures walk_spec(mount_spec(v, cur, cs)->Some_0.0, cur, cs) == PWalk::Found(mount_spec(v, cur, cs)->Some_0.1)     // [C07.pseudo.mount.then_walk]
    decreases cs.len()
{
    let v2 = mount_spec(v, cur, cs)->Some_0.0;
    lemma_mount_frame(v, cur, cs);
    if cs.len() > 0 {
        let rest = cs.skip(1);
        assert(comps_normal(rest)) by { assert forall|j: int| 0 <= j < rest.len() && (#[trigger] rest[j]) is Normal implies normal_name(rest[j]->Normal_0) by { assert(rest[j] == cs[j + 1]); } }
        match cs[0] {
            PComp::Prefix => { }
            PComp::RootDir => { lemma_mount_then_walk(v, cur, rest); }
            PComp::CurDir => { lemma_mount_then_walk(v, cur, rest); }
            PComp::ParentDir => { lemma_vwf_parent(v, cur); lemma_extends_node(v, v2, cur); lemma_mount_then_walk(v, v.nodes[cur].parent, rest); }
            PComp::Normal(n) => { match child_named(v, cur, n) {
                Some(c) => { let j = choose|j: int| has_child_named(v, cur, n, j); lemma_vwf_kid(v, cur, j); lemma_child_named_extends(v, v2, cur, n); lemma_mount_then_walk(v, c, rest); }
                None => {
                    lemma_vwf_parent(v, cur);
                    lemma_add_child(v, cur, n);
                    let v1 = add_child(v, cur, n);
                    lemma_mount_frame(v1, v.next, rest);
                    lemma_mount_then_walk(v1, v.next, rest);
                    lemma_child_named_is(v1, cur, n, v.nodes[cur].kids.len() as int);
                    lemma_child_named_extends(v1, v2, cur, n);
                } } }
        }
    }
}

// the concrete invariant gives the abstract one
pub proof fn lemma_wf_view(m: Map<u64, Arc<PseudoInode>>, root: Arc<PseudoInode>, nx: u64, h: PHeap)
    requires wf_m(m, root, nx, h)
    ensures vwf(view_m(m, nx, h))                                                           // [C07.pseudo.view.wf]
{
    reveal(vwf);
    let v = view_m(m, nx, h);
    assert forall|k: u64, j: int| v.nodes.contains_key(k) && 0 <= j < v.nodes[k].kids.len() implies #[trigger] kid_ok(v, k, j) by {
        let c = mkids(m, h, k)[j]; assert(m.contains_key(c.ino) && m[c.ino] == c && c.parent == k);
    }
    assert forall|k: u64| #[trigger] v.nodes.contains_key(k) implies kid_names_distinct(v, k) by {
        assert forall|i: int, j: int| 0 <= i < j < v.nodes[k].kids.len() implies #[trigger] kname(v, k, i) != #[trigger] kname(v, k, j) by {
            let a = mkids(m, h, k)[i]; let b = mkids(m, h, k)[j];
            assert(m[a.ino] == a && m[b.ino] == b); assert(a.name@ != b.name@);
        }
    }
    assert forall|c: u64| #[trigger] v.nodes.contains_key(c) && c != ROOT_ID implies listed(v, c) && normal_name(v.nodes[c].name) by {
        let q = m[c].parent; assert(mkids(m, h, q).contains(m[c]));
        let z = choose|z: int| 0 <= z < mkids(m, h, q).len() && mkids(m, h, q)[z] == m[c];
        assert(v.nodes[c].parent == q); assert(v.nodes[v.nodes[c].parent].kids[z] == c);
    }
}

// ---- C07 for the pseudo tree, top level: what the postcondition of `mount` (clause C07.pseudo.mount.result) means for a well-formed pseudo fs
pub proof fn lemma_c07_mount(m: Map<u64, Arc<PseudoInode>>, root: Arc<PseudoInode>, nx: u64, h: PHeap, cs: Seq<PComp>, other: Seq<PComp>)
    requires wf_m(m, root, nx, h), nx + cs.len() <= VFS_MAX_INO + 1, comps_normal(cs), mount_spec(view_m(m, nx, h), ROOT_ID, cs) is Some
    ensures ({ let v = view_m(m, nx, h); let v2 = mount_spec(v, ROOT_ID, cs)->Some_0.0; let r = mount_spec(v, ROOT_ID, cs)->Some_0.1;
        &&& walk_spec(v2, ROOT_ID, cs) == PWalk::Found(r)                       // walking the mount path afterwards ends in the inode mount returned [C07.pseudo.mount.then_walk]
        &&& extends_view(v, v2)                                                 // old nodes keep parent, name and the order of their children; new nodes are numbered v.next .. v2.next - 1, each number once [C07.pseudo.mount.frame]
        &&& v2.next <= VFS_MAX_INO + 1 && vwf(v2)                               // every number in use stays below the pseudo-inode limit [C07.pseudo.mount.limit]
        &&& (walk_spec(v, ROOT_ID, cs) is Found ==> v2 == v && PWalk::Found(r) == walk_spec(v, ROOT_ID, cs))        // [C07.pseudo.mount.idempotent]
        &&& (walk_spec(v, ROOT_ID, other) is Found ==> walk_spec(v2, ROOT_ID, other) == walk_spec(v, ROOT_ID, other))   // every other existing path resolves as before [C07.pseudo.walk.stable]
    }),
{
    let v = view_m(m, nx, h);
    lemma_wf_view(m, root, nx, h);
    assert(v.nodes.contains_key(ROOT_ID)) by { reveal(vwf); }
    lemma_mount_frame(v, ROOT_ID, cs);
    lemma_mount_then_walk(v, ROOT_ID, cs);
    if walk_spec(v, ROOT_ID, cs) is Found { lemma_mount_idempotent(v, ROOT_ID, cs); }
    if walk_spec(v, ROOT_ID, other) is Found { lemma_walk_extends(v, mount_spec(v, ROOT_ID, cs)->Some_0.0, ROOT_ID, other); }
}
"""

FSM = r"""
// =====================================================================================================================
// ---- models for the FileSystem methods
pub type mode_t = u32; pub type nlink_t = u64; pub type dev_t = u64; pub type blksize_t = i64;
pub open spec fn zero_stat64() -> stat64 {
    stat64 { st_dev: 0, st_ino: 0, st_nlink: 0, st_mode: 0, st_uid: 0, st_gid: 0, st_rdev: 0, st_size: 0, st_blksize: 0, st_blocks: 0,
             st_atime: 0, st_atime_nsec: 0, st_mtime: 0, st_mtime_nsec: 0, st_ctime: 0, st_ctime_nsec: 0 }
}
// std::mem::zeroed::<libc::stat64>() (inside `unsafe`): the all-zero bit pattern of a plain-old-data struct (rule R9)
pub mod mem {
    use vstd::prelude::*;
    #[verifier::external_body] pub unsafe fn zeroed() -> (r: super::stat64) ensures r == super::zero_stat64() { unimplemented!() }
}
pub open spec fn stat_of_attr(a: Attr) -> stat64 {
    stat64 { st_ino: a.ino, st_size: a.size as i64, st_blocks: a.blocks as i64, st_atime: a.atime as i64, st_mtime: a.mtime as i64, st_ctime: a.ctime as i64,
             st_atime_nsec: a.atimensec as i64, st_mtime_nsec: a.mtimensec as i64, st_ctime_nsec: a.ctimensec as i64, st_mode: a.mode, st_nlink: a.nlink as u64,
             st_uid: a.uid, st_gid: a.gid, st_rdev: a.rdev as u64, st_blksize: a.blksize as i64, ..zero_stat64() }
}
impl vstd::std_specs::convert::FromSpecImpl<Attr> for stat64 {
    open spec fn obeys_from_spec() -> bool { true }
    open spec fn from_spec(a: Attr) -> stat64 { stat_of_attr(a) }
}
impl Duration { pub fn from_secs(secs: u64) -> (r: Duration) ensures r == (Duration { secs: secs, nanos: 0 }) { Duration { secs: secs, nanos: 0 } } }
// std::time::SystemTime: the clock is opaque; it does not stand before 1970 (assumed: `.unwrap()` in get_entry)
#[verifier::external_body] pub struct SystemTime { _p: u8 }
#[verifier::external_body] #[derive(Debug)] pub struct SystemTimeError { _p: u8 }
impl SystemTime {
    #[verifier::external_body] pub fn now() -> (r: SystemTime) { unimplemented!() }
    #[verifier::external_body] pub fn unix_epoch() -> (r: SystemTime) { unimplemented!() }
    #[verifier::external_body] pub fn duration_since(&self, earlier: SystemTime) -> (r: core::result::Result<Duration, SystemTimeError>) ensures r is Ok { unimplemented!() }
}
// UTF-8: String / &str <-> bytes (assumed: an inverse pair)
pub uninterp spec fn utf8_enc(s: Seq<char>) -> Seq<u8>;
pub uninterp spec fn utf8_dec(b: Seq<u8>) -> Seq<char>;
pub uninterp spec fn is_utf8(b: Seq<u8>) -> bool;
pub broadcast axiom fn axiom_utf8_inverse(s: Seq<char>) ensures is_utf8(#[trigger] utf8_enc(s)), utf8_dec(utf8_enc(s)) == s;
#[verifier::external_body] pub struct Utf8Error { _p: u8 }
impl CStr {
    #[verifier::external_body] pub fn to_str(&self) -> (r: core::result::Result<&str, Utf8Error>) ensures r is Ok <==> is_utf8(self@), r is Ok ==> r->Ok_0@ == utf8_dec(self@) { unimplemented!() }
}
// `S.clone().as_bytes()`: the UTF-8 bytes of (a copy of) the string
#[verifier::external_body] pub fn str_bytes(s: &String) -> (r: &[u8]) ensures r@ == utf8_enc(s@) { unimplemented!() }
pub const DT_DIR: u32 = 4;          // libc::DT_DIR (dirent.h): the entry is a directory
// "with its ... type": never a type that is not the entry's own - DT_DIR, or DT_UNKNOWN (0: "not provided"; what the code sends; a pseudo directory that is a
// mount point shows the mounted root's type to the client, which the pseudo fs cannot know)
pub open spec fn ty_ok(t: u32) -> bool { t == 0 || t == DT_DIR }
// ---- the callback `&mut dyn FnMut(DirEntry) -> io::Result<usize>`: a generic object with a ghost log of its calls (as in unit ptreaddir)
pub ghost struct CallRec { pub ino: u64, pub off: u64, pub ty: u32, pub name: Seq<u8>, pub ok: Option<usize> }
pub trait AddEntry {
    spec fn log(&self) -> Seq<CallRec>;
    spec fn inv(&self) -> bool;          // a property of the object that every call preserves (used by the readdirplus adapter)
    fn call(&mut self, d: DirEntry<'_>) -> (r: Result<usize>)
        ensures final(self).log() == old(self).log().push(CallRec { ino: d.ino, off: d.offset, ty: d.type_, name: d.name@, ok: match r { Ok(n) => Some(n), Err(_) => None } }),
                old(self).inv() ==> final(self).inv();
}
pub open spec fn new_calls(log: Seq<CallRec>, log0: Seq<CallRec>) -> Seq<CallRec> { log.skip(log0.len() as int) }
pub open spec fn extends(log: Seq<CallRec>, log0: Seq<CallRec>) -> bool { log.len() >= log0.len() && log.take(log0.len() as int) =~= log0 }
// the callback took the entry: Ok(n) with n != 0 (Ok(0) = "no room", Err = failure)
pub open spec fn accepted(c: CallRec) -> bool { c.ok is Some && c.ok->Some_0 != 0 }
// ---- what a pseudo directory lists: every child once, in creation order, entry i resumable by offset i + 1; no "." / ".." (they are no children)
pub struct PEnt { pub ino: u64, pub off: u64, pub name: Seq<u8> }
pub open spec fn dir_entries(v: PView, d: u64) -> Seq<PEnt> {
    Seq::new(v.nodes[d].kids.len(), |i: int| PEnt { ino: v.nodes[d].kids[i], off: (i + 1) as u64, name: utf8_enc(v.nodes[v.nodes[d].kids[i]].name) })
}
pub open spec fn run_after(es: Seq<PEnt>, offset: u64) -> Seq<PEnt> { if offset >= es.len() { Seq::empty() } else { es.skip(offset as int) } }
pub open spec fn call_matches(c: CallRec, e: PEnt) -> bool { c.ino == e.ino && c.off == e.off && c.name == e.name }
// what one do_readdir call may do with the run after the resume offset: offer its entries in order, each with its own ino / offset / name, never go on
// after an entry was not accepted (nothing is skipped), and stop early only for that reason
pub open spec fn delivered_ok(run: Seq<PEnt>, calls: Seq<CallRec>) -> bool {
    &&& calls.len() <= run.len()
    &&& forall|j: int| 0 <= j < calls.len() ==> call_matches(#[trigger] calls[j], run[j])
    &&& forall|j: int| 0 <= j < calls.len() - 1 ==> accepted(#[trigger] calls[j])
    &&& calls.len() < run.len() ==> calls.len() > 0 && !accepted(calls.last())
}
// the entry every pseudo inode is described by: a directory rwxrwxrwx, block size 4096, the three times equal, cacheable for 2^32 s
pub open spec fn pseudo_entry(e: Entry, ino: u64) -> bool {
    &&& e.inode == ino && e.generation == 0 && e.attr_flags == 0
    &&& e.attr == (stat64 { st_ino: ino, st_mode: 0o040777u32, st_blksize: 4096, st_atime: e.attr.st_ctime, st_mtime: e.attr.st_ctime, st_ctime: e.attr.st_ctime, ..zero_stat64() })
    &&& e.attr_timeout == (Duration { secs: 0x1_0000_0000, nanos: 0 }) && e.entry_timeout == e.attr_timeout
}
// =====================================================================================================================
// C16, the statement across calls (proof functions; checked by Verus)
// entry i of a pseudo directory carries the continuation offset i + 1 (never 0)
pub open spec fn entries_ok(es: Seq<PEnt>) -> bool { es.len() <= u64::MAX && forall|i: int| 0 <= i < es.len() ==> (#[trigger] es[i]).off == i + 1 }
// resuming from the offset delivered with entry i starts right after entry i; offset 0 starts at the beginning
pub proof fn lemma_resume_after(es: Seq<PEnt>, i: int)
    requires entries_ok(es), 0 <= i < es.len()
    ensures es[i].off != 0, run_after(es, es[i].off) =~= es.skip(i + 1), run_after(es, 0) =~= es       // [C16.pseudo.lemma.resume]
{ }
// the accepted calls of one do_readdir: all of them, or all but the last
pub open spec fn n_accepted(calls: Seq<CallRec>) -> int { if calls.len() > 0 && !accepted(calls.last()) { calls.len() - 1 } else { calls.len() as int } }
// one READDIR exchange as the client sees it: asked for `off`, was delivered `got` - a prefix of the run after `off`
pub open spec fn exchange_ok(es: Seq<PEnt>, off: u64, got: Seq<PEnt>) -> bool { got.is_prefix_of(run_after(es, off)) }
// an empty reply only when nothing is left (the callback log says so if the first entry offered is accepted: "buffer sizes that can hold at least the next entry")
pub open spec fn progress(es: Seq<PEnt>, off: u64, got: Seq<PEnt>) -> bool { got.len() == 0 ==> run_after(es, off).len() == 0 }
pub proof fn lemma_exchange_from_calls(es: Seq<PEnt>, off: u64, calls: Seq<CallRec>) -> (got: Seq<PEnt>)
    requires delivered_ok(run_after(es, off), calls)
    ensures exchange_ok(es, off, got), got.len() == n_accepted(calls),
            forall|j: int| 0 <= j < got.len() ==> accepted(#[trigger] calls[j]) && call_matches(calls[j], got[j]),    // what was delivered are entries of the directory with their own ino / offset / name [C16.pseudo.lemma.exchange]
            (calls.len() > 0 ==> accepted(calls[0])) ==> progress(es, off, got),                                      // [C16.pseudo.lemma.progress]
{
    let run = run_after(es, off);
    let got = run.take(n_accepted(calls));
    got
}
pub open spec fn concat(g: Seq<Seq<PEnt>>) -> Seq<PEnt> decreases g.len() { if g.len() == 0 { Seq::empty() } else { concat(g.drop_last()) + g.last() } }
// a client that starts at 0 and resumes each time from the offset of the last entry it was delivered
pub open spec fn session(es: Seq<PEnt>, offs: Seq<u64>, gots: Seq<Seq<PEnt>>) -> bool {
    offs.len() == gots.len() && offs.len() > 0 && offs[0] == 0
    && (forall|k: int| 0 <= k < offs.len() ==> exchange_ok(es, #[trigger] offs[k], gots[k]) && progress(es, offs[k], gots[k]))
    && (forall|k: int| 0 <= k < offs.len() - 1 ==> (#[trigger] gots[k]).len() > 0 && offs[k + 1] == gots[k].last().off)
}
pub proof fn lemma_c16(es: Seq<PEnt>, offs: Seq<u64>, gots: Seq<Seq<PEnt>>, k: int)
    requires entries_ok(es), session(es, offs, gots), 0 <= k < offs.len()
    ensures offs[k] <= es.len(),
            concat(gots.take(k)) =~= es.take(offs[k] as int),                 // before exchange k the client holds exactly the first offs[k] children, each once, in order [C16.pseudo.lemma.prefix]
            gots[k].len() == 0 ==> concat(gots.take(k + 1)) =~= es,            // the listing that ends with an empty reply is the whole directory, every child exactly once [C16.pseudo.lemma.exactly_once]
    decreases k
{
    if k == 0 {
        assert(gots.take(0) =~= Seq::<Seq<PEnt>>::empty());
    } else {
        lemma_c16(es, offs, gots, k - 1);
        let off = offs[k - 1]; let got = gots[k - 1];
        assert(got.len() > 0 && exchange_ok(es, off, got));
        let run = run_after(es, off);
        assert(got.last() == run[got.len() - 1]);
        assert(run[got.len() - 1] == es[off + got.len() - 1]);
        assert(gots.take(k).drop_last() =~= gots.take(k - 1));
        assert(gots.take(k).last() == got);
        assert(got =~= es.subrange(off as int, off + got.len()));
    }
    if gots[k].len() == 0 {
        assert(progress(es, offs[k], gots[k]));
        assert(gots.take(k + 1).drop_last() =~= gots.take(k));
        assert(gots.take(k + 1).last() == gots[k]);
        assert(concat(gots.take(k + 1)) =~= concat(gots.take(k)) + gots[k]);
    }
}

pub proof fn lemma_incr_bound(s: Seq<u64>, i: int)
    requires incr(s), 0 <= i < s.len(), s[0] >= 1
    ensures s[i] >= i + 1
    decreases i
{ if i > 0 { lemma_incr_bound(s, i - 1); assert(s[i - 1] < s[i]); } }
// what a pseudo directory lists is its children: each exactly once (numbers strictly increase), offset i + 1 with entry i, never "." or ".."
pub proof fn lemma_dir_entries_ok(v: PView, d: u64)
    requires vwf(v), v.nodes.contains_key(d)
    ensures entries_ok(dir_entries(v, d)), dir_entries(v, d).len() == v.nodes[d].kids.len(),
            forall|i: int, j: int| 0 <= i < j < dir_entries(v, d).len() ==> (#[trigger] dir_entries(v, d)[i]).ino != (#[trigger] dir_entries(v, d)[j]).ino,    // [C16.pseudo.lemma.each_child_once]
            forall|i: int| 0 <= i < dir_entries(v, d).len() ==> (#[trigger] dir_entries(v, d)[i]).name != utf8_enc(dot()) && dir_entries(v, d)[i].name != utf8_enc(dotdot()),   // [C16.pseudo.lemma.no_dots]
{
    reveal(vwf); reveal(normal_name);
    let es = dir_entries(v, d); let ks = v.nodes[d].kids;
    if ks.len() > 0 { assert(kid_ok(v, d, 0)); lemma_incr_bound(ks, ks.len() - 1); }
    assert forall|i: int, j: int| 0 <= i < j < es.len() implies (#[trigger] es[i]).ino != (#[trigger] es[j]).ino by { assert(ks[i] < ks[j]); }
    assert forall|i: int| 0 <= i < es.len() implies (#[trigger] es[i]).name != utf8_enc(dot()) && es[i].name != utf8_enc(dotdot()) by {
        assert(kid_ok(v, d, i));
        let n = v.nodes[ks[i]].name; assert(normal_name(n));
        axiom_utf8_inverse(n); axiom_utf8_inverse(dot()); axiom_utf8_inverse(dotdot());
    }
}
pub open spec fn last_refused(calls: Seq<CallRec>) -> bool { calls.len() > 0 && !accepted(calls.last()) }

// ---- C16 for a pseudo directory, top level: any session that starts at 0, resumes from the offset of the last entry delivered and ends with an empty reply
// has listed every child of the (unchanged) directory exactly once, in order, "." and ".." never
pub proof fn lemma_c16_pseudo(v: PView, d: u64, offs: Seq<u64>, gots: Seq<Seq<PEnt>>, k: int)
    requires vwf(v), v.nodes.contains_key(d), session(dir_entries(v, d), offs, gots), 0 <= k < offs.len(), gots[k].len() == 0
    ensures concat(gots.take(k + 1)) =~= dir_entries(v, d),                                             // [C16.pseudo.lemma.exactly_once]
            forall|i: int, j: int| 0 <= i < j < dir_entries(v, d).len() ==> (#[trigger] dir_entries(v, d)[i]).ino != (#[trigger] dir_entries(v, d)[j]).ino,   // [C16.pseudo.lemma.each_child_once]
{
    lemma_dir_entries_ok(v, d);
    lemma_c16(dir_entries(v, d), offs, gots, k);
}
// the steps of the listing loop (checked)
#[verifier::opaque]
pub open spec fn all_accepted(calls: Seq<CallRec>, pre: Seq<PEnt>) -> bool {
    calls.len() == pre.len() && forall|j: int| 0 <= j < calls.len() ==> call_matches(#[trigger] calls[j], pre[j]) && accepted(calls[j])
}
pub proof fn lemma_all_accepted_empty(run: Seq<PEnt>) ensures all_accepted(Seq::<CallRec>::empty(), run.take(0)) { reveal(all_accepted); }
pub proof fn lemma_step_accept(run: Seq<PEnt>, i: int, calls: Seq<CallRec>, c: CallRec)
    requires 0 <= i < run.len(), all_accepted(calls, run.take(i)), call_matches(c, run[i]), accepted(c)
    ensures all_accepted(calls.push(c), run.take(i + 1))
{ reveal(all_accepted); }
pub proof fn lemma_step_stop(run: Seq<PEnt>, i: int, calls: Seq<CallRec>, c: CallRec)
    requires 0 <= i < run.len(), all_accepted(calls, run.take(i)), call_matches(c, run[i]), !accepted(c)
    ensures delivered_ok(run, calls.push(c))
{
    reveal(all_accepted);
    let cs = calls.push(c);
    assert forall|j: int| 0 <= j < cs.len() implies call_matches(#[trigger] cs[j], run[j]) by { if j < calls.len() { assert(cs[j] == calls[j]); assert(run.take(i)[j] == run[j]); } }
    assert forall|j: int| 0 <= j < cs.len() - 1 implies accepted(#[trigger] cs[j]) by { assert(cs[j] == calls[j]); }
}
pub proof fn lemma_step_done(run: Seq<PEnt>, calls: Seq<CallRec>)
    requires all_accepted(calls, run.take(run.len() as int))
    ensures delivered_ok(run, calls), calls.len() == run.len(), calls.len() > 0 ==> accepted(calls.last())
{ reveal(all_accepted); assert(run.take(run.len() as int) =~= run); }
pub open spec fn dot() -> Seq<char> { seq!['.'] }
pub open spec fn dotdot() -> Seq<char> { seq!['.', '.'] }
// lookup(parent, name): "." is the directory itself, ".." its parent (the root is its own parent), any other name the child of that name
pub open spec fn lookup_target(v: PView, parent: u64, n: Seq<char>) -> Option<u64> {
    if n == dot() { Some(parent) } else if n == dotdot() { Some(v.nodes[parent].parent) } else { child_named(v, parent, n) }
}
"""

SLICE = r"""
// `&v[a..]` on a Vec behind an Arc (Index<RangeFrom<usize>>): panics unless a <= len
#[verifier::external_body] pub fn vx_slice_from<'a, T>(v: &'a Arc<Vec<T>>, a: usize) -> (r: &'a [T]) requires a <= v@.len() ensures r@ == v@.skip(a as int) { unimplemented!() }
"""

PLUS = r"""
// ---- readdirplus: the callback `&mut dyn FnMut(DirEntry, Entry) -> io::Result<usize>` as a generic object with a ghost log, and the closure readdirplus
// hands to do_readdir as an adapter object.  R17: that closure is its lifted text (fn readdirplus_entry below, VERIFIED: same dir_entry, the entry
// get_entry builds for its number) followed by the continuation add_entry; the adapter's `call` contract states exactly this composition (assumed link).
pub ghost struct PlusRec { pub base: CallRec, pub entry: Entry }
pub trait AddEntryPlus {
    spec fn plog(&self) -> Seq<PlusRec>;
    fn call(&mut self, d: DirEntry<'_>, e: Entry) -> (r: Result<usize>)
        ensures final(self).plog() == old(self).plog().push(PlusRec { base: CallRec { ino: d.ino, off: d.offset, ty: d.type_, name: d.name@, ok: match r { Ok(n) => Some(n), Err(_) => None } }, entry: e });
}
pub open spec fn bases(l: Seq<PlusRec>) -> Seq<CallRec> { l.map_values(|r: PlusRec| r.base) }
#[verifier::external_body] #[verifier::reject_recursive_types(B)] pub struct PlusSink<B> { _p: PhantomData<B> }
impl<B: AddEntryPlus> PlusSink<B> {
    pub uninterp spec fn plog(&self) -> Seq<PlusRec>;
    pub uninterp spec fn all_pseudo(&self) -> bool;     // every entry this adapter has handed on carried the directory attributes of its own number
}
impl<B: AddEntryPlus> AddEntry for PlusSink<B> {
    open spec fn log(&self) -> Seq<CallRec> { bases(self.plog()) }
    open spec fn inv(&self) -> bool { self.all_pseudo() }
    #[verifier::external_body] fn call(&mut self, d: DirEntry<'_>) -> (r: Result<usize>)
        ensures exists|e: Entry| pseudo_entry(e, d.ino) && final(self).plog() == old(self).plog().push(PlusRec { base: CallRec { ino: d.ino, off: d.offset, ty: d.type_, name: d.name@, ok: match r { Ok(n) => Some(n), Err(_) => None } }, entry: e })
    { unimplemented!() }
}
// the adapter borrows the callback: what it logs is what the callback logs
#[verifier::external_body] pub fn plus_sink<'a, B: AddEntryPlus>(fs: &'a PseudoFs, inner: &'a mut B) -> (r: &'a mut PlusSink<B>)
    ensures r.plog() == old(inner).plog(), final(inner).plog() == final(r).plog(), r.all_pseudo(),
            final(r).all_pseudo() ==> (forall|j: int| old(inner).plog().len() <= j < final(inner).plog().len() ==> pseudo_entry((#[trigger] final(inner).plog()[j]).entry, final(inner).plog()[j].base.ino))
{ unimplemented!() }
pub proof fn lemma_bases_skip(l: Seq<PlusRec>, n: int)
    requires 0 <= n <= l.len()
    ensures bases(l).skip(n) =~= bases(l.skip(n)), bases(l).take(n) =~= bases(l.take(n)), bases(l).len() == l.len()
{ }
"""


def tok(f, callees):
    f.rules = tuple(getattr(f, 'rules', ())) + ('R23',)
    f.ghost_token = dict(TOK, callees=list(callees))
    return f


LOADCLONE_K = (r'self\.children\.load\(\)\.deref\(\)\.deref\(\)\.clone\(\)', 'self.children.load_clone(Tracked(hp))', 'snapshot of the children vector held by the cell (Guard -> Arc -> Vec, cloned), with the ghost heap (R23)')
NEW_K = (r'ArcSwap::new\(Arc::new\(Vec::new\(\)\)\)', 'ArcSwapH::new(Arc::new(Vec::new()), Tracked(hp))', 'heap cell + ghost heap token (R23)')
LOADCLONE_T = (r'self\.inodes\.load\(\)\.deref\(\)\.deref\(\)\.clone\(\)', 'self.inodes.load_clone(Tracked(hp))', 'snapshot of the table held by the cell (Guard -> Arc -> HashMap, cloned), with the ghost heap (R23)')


def remove_child_hook(body, fired):
    """`E.iter().position(|x| C).map(|pos| E.remove(pos)).unwrap();`  ->  `let pos = E.iter().position(|x| { C }); E.remove(pos.unwrap());`
    (Option::map then unwrap: None panics, Some(pos) evaluates the closure on pos; the removed element is dropped either way), then R22."""
    rx = r'children\s*\.iter\(\)\s*\.position\(\|x\|\s*([^;]+?)\)\s*\.map\(\|pos\|\s*children\.remove\(pos\)\)\s*\.unwrap\(\);'
    n = len(re.findall(rx, body, flags=re.S))
    if n != 1:
        raise X.ExtractError('ANCHOR-LOST remove_child: position/map/unwrap chain matches %d times' % n)
    body = re.sub(rx, lambda m: X._pad('let pos = children.iter().position(|x| { %s }); children.remove(pos.unwrap());' % m.group(1), m.group(0)), body, flags=re.S)
    fired.append('ABSTRACT E.iter().position(|x| C).map(|pos| E.remove(pos)).unwrap(); -> let pos = E.iter().position(|x| {C}); E.remove(pos.unwrap()); (Option::map + unwrap by definition: panics on None, removes at pos otherwise)')
    return X.r22_iter_position(body, fired)


def unit(root='/repo'):
    H0, H1 = '*old(hp)', '*final(hp)'
    items = [
        Copy(ABI, r'pub const ROOT_ID\b'),
        Copy(VMOD, r'pub const VFS_MAX_INO\b'),
        Copy(PFS, r'const PSEUDOFS_NEXT_INODE\b'),
        Raw(CELLS),
        Copy(PFS, r'struct PseudoInode\b', subst=[('children: ArcSwap<Vec<Arc<PseudoInode>>>', 'children: ArcSwapH<Vec<Arc<PseudoInode>>>')]),
        Copy(PFS, r'pub struct PseudoFs\b', subst=[('next_inode: AtomicU64', 'next_inode: AtomicU64H'),
                                                   ('inodes: ArcSwap<HashMap<u64, Arc<PseudoInode>>>', 'inodes: ArcSwapT<HashMap<u64, Arc<PseudoInode>>>')]),
        Raw(SPEC), Raw(PATHS), Raw(WALK),
        Copy(ABI, r'pub struct Attr\b', prefix='#[derive(Clone, Copy)]'),
        Raw(wiremodel.default_text('Attr', wiremodel.parse_struct(root, ABI, 'Attr'))),
        Copy(FSMOD, r'pub struct Context\b', prefix='#[derive(Clone, Copy)]', subst=[('libc::uid_t', 'u32'), ('libc::gid_t', 'u32'), ('libc::pid_t', 'i32')]),
        Copy(FSMOD, r'pub struct Entry\b', prefix='#[derive(Clone, Copy)]'),
        Copy(FSMOD, r'pub struct DirEntry\b', prefix='#[derive(Clone, Copy)]', subst=[('ino64_t', 'u64')]),
        Copy(PFS, r'const PSEUDOFS_DEFAULT_ATTR_TIMEOUT\b'),
        Copy(PFS, r'const PSEUDOFS_DEFAULT_ENTRY_TIMEOUT\b'),
        Raw(FSM),
    ]
    P7 = ['C07']
    # ---------------------------------------------------------------- PseudoInode
    new = tok(Fn(PFS, 'impl PseudoInode', 'new', props=P7, canary=True, body_resub=[NEW_K],
                 ensures=['r.ino == ino && r.parent == parent && r.name == name // [C07.pseudo.node.fields]',
                          '!old(hp).kids.contains_key(r.cell()) && %s == (PHeap { kids: old(hp).kids.insert(r.cell(), Seq::<Arc<PseudoInode>>::empty()), ..%s }) // [C07.pseudo.node.no_children]' % (H1, H0)]), [])
    ins = tok(Fn(PFS, 'impl PseudoInode', 'insert_child', props=P7, canary=True, body_resub=[LOADCLONE_K],
                 requires=['old(hp).kids.contains_key(self.cell()) // [C07.pseudo.insert_child.cell]'],
                 ensures=['%s == (PHeap { kids: old(hp).kids.insert(self.cell(), old(hp).kids[self.cell()].push(child)), ..%s }) // [C07.pseudo.insert_child.appended]' % (H1, H0)]), ['store'])
    rmc = tok(Fn(PFS, 'impl PseudoInode', 'remove_child', props=P7, canary=True, body_resub=[LOADCLONE_K],
                 requires=['old(hp).kids.contains_key(self.cell()) // [C07.pseudo.remove_child.cell]',
                           'exists|j: int| 0 <= j < old(hp).kids[self.cell()].len() && (#[trigger] old(hp).kids[self.cell()][j]).name@ == child.name@ // [C07.pseudo.remove_child.present]'],
                 ensures=['''exists|p: int| 0 <= p < old(hp).kids[self.cell()].len() && (#[trigger] old(hp).kids[self.cell()][p]).name@ == child.name@
                        && (forall|j: int| 0 <= j < p ==> (#[trigger] old(hp).kids[self.cell()][j]).name@ != child.name@)
                        && %s == (PHeap { kids: old(hp).kids.insert(self.cell(), old(hp).kids[self.cell()].remove(p)), ..%s }) // [C07.pseudo.remove_child.first_named]''' % (H1, H0)],
                 splices=[('while pos_i < children.len() {', 'replace', '''while pos_i < children.len()
                invariant_except_break pos is None,
                invariant pos_i <= children@.len(), children@ == old(hp).kids[self.cell()], *hp == *old(hp),
                    forall|j: int| 0 <= j < pos_i ==> (#[trigger] children@[j]).name@ != child.name@, // [C07.pseudo.remove_child.first_named]
                ensures pos is Some ==> pos->Some_0 < children@.len() && children@[pos->Some_0 as int].name@ == child.name@ && (forall|j: int| 0 <= j < pos->Some_0 ==> (#[trigger] children@[j]).name@ != child.name@), // [C07.pseudo.remove_child.first_named]
                        pos is None ==> (forall|j: int| 0 <= j < children@.len() ==> (#[trigger] children@[j]).name@ != child.name@),
                        children@ == old(hp).kids[self.cell()], *hp == *old(hp),
                decreases children@.len() - pos_i
            {''')]), ['store'])
    rmc.body_hooks = [remove_child_hook]
    items.append(Group('impl PseudoInode {', [new, ins, rmc]))
    PP = 'impl PseudoFs'
    NEWCALL = (r'PseudoInode::new\(((?:[^()]|\([^()]*\))*?),?\s*\)', r'PseudoInode::new(\1, Tracked(hp))', 'ghost heap token (R23) for the associated function')
    IM0, IM1, NX0 = 'old(self).im(*old(hp))', 'self.im(*final(hp))', 'self.nx(*old(hp))'
    newi = tok(Fn(PFS, PP, 'new_inode', props=P7, canary=True, body_resub=[NEWCALL],
                  requires=['self.cells_ok(*old(hp))',
                            # the counter is never checked by the code: below the limit of the VFS inode encoding only while fewer than 2^56 pseudo inodes were ever created
                            'self.nx(*old(hp)) <= VFS_MAX_INO // [C07.pseudo.new_inode.limit]'],
                  ensures=['r.ino == self.nx(*old(hp)) && r.ino <= VFS_MAX_INO // the number handed out is the counter value: never used before, below the pseudo-inode limit [C07.pseudo.new_inode.fresh]',
                           'r.parent == parent && r.name@ == name@ // [C07.pseudo.new_inode.fields]',
                           '!old(hp).kids.contains_key(r.cell())',
                           '%s == (PHeap { kids: old(hp).kids.insert(r.cell(), Seq::<Arc<PseudoInode>>::empty()), ctrs: old(hp).ctrs.insert(self.next_inode.id(), (r.ino + 1) as u64), tabs: old(hp).tabs }) // the counter moves on by one; table and every existing directory untouched [C07.pseudo.new_inode.counter]' % H1]),
               ['fetch_add'])
    insi = tok(Fn(PFS, PP, 'insert_inode', props=P7, canary=True, body_resub=[LOADCLONE_T],
                  requires=['old(hp).tabs.contains_key(self.inodes.id()) // [C07.pseudo.insert_inode.cell]'],
                  ensures=['%s == (PHeap { tabs: old(hp).tabs.insert(self.inodes.id(), old(hp).tabs[self.inodes.id()].insert(inode.ino, inode)), ..%s }) // [C07.pseudo.insert_inode.table]' % (H1, H0)]), ['store'])
    rmi = tok(Fn(PFS, PP, 'remove_inode', props=P7, canary=True, body_resub=[LOADCLONE_T],
                 requires=['old(hp).tabs.contains_key(self.inodes.id())'],
                 ensures=['%s == (PHeap { tabs: old(hp).tabs.insert(self.inodes.id(), old(hp).tabs[self.inodes.id()].remove(inode.ino)), ..%s }) // [C07.pseudo.remove_inode.table]' % (H1, H0)]), ['store'])
    crt = tok(Fn(PFS, PP, 'create_inode', props=P7, canary=True,
                 requires=['self.wf(*old(hp)) // [C07.pseudo.create.wf]',
                           'self.im(*old(hp)).contains_key(parent.ino) && self.im(*old(hp))[parent.ino] == *parent // the new directory goes under a directory of THIS tree [C07.pseudo.create.parent]',
                           'normal_name(name@) // [C07.pseudo.create.name]', 'self.nx(*old(hp)) <= VFS_MAX_INO // [C07.pseudo.create.limit]',
                           'forall|j: int| 0 <= j < old(hp).kids[parent.cell()].len() ==> (#[trigger] old(hp).kids[parent.cell()][j]).name@ != name@ // only a MISSING component is created: no sibling carries the name [C07.pseudo.create.missing]'],
                 ensures=['self.wf(*final(hp)) // [C07.pseudo.create.wf]',
                          'self.view(*final(hp)) == add_child(self.view(*old(hp)), parent.ino, name@) // one new directory: numbered by the counter, child of `parent`, appended once to its children; every other node untouched [C07.pseudo.create.view]',
                          'r.ino == self.nx(*old(hp)) && r.ino <= VFS_MAX_INO && self.im(*final(hp)) == self.im(*old(hp)).insert(r.ino, r) // [C07.pseudo.create.result]'],
                 splices=[('inode\n    }', 'before', '''proof {
            let h0 = *old(hp);
            lemma_create(self.im(h0), self.root_inode, self.nx(h0), h0, parent.ino, inode, *hp);
        }''')]),
              ['new_inode', 'insert_inode', 'insert_child'])
    gpi = tok(Fn(PFS, PP, 'get_parent_inode', props=P7, canary=True,
                 requires=['self.cells_ok(*old(hp))'],
                 ensures=['r == (if self.view(*old(hp)).nodes.contains_key(ino) { Some(self.view(*old(hp)).nodes[ino].parent) } else { None::<u64> }) // [C07.pseudo.get_parent.result]',
                          '%s == %s // [C07.pseudo.get_parent.frame]' % (H1, H0)],
                 splices=[('|o|', 'closure', '|o: &Arc<PseudoInode>| -> (q: u64) ensures q == o.parent, // [C07.pseudo.get_parent.result]\n')]),
              ['load'])
    evi = tok(Fn(PFS, PP, 'evict_inode', props=P7, canary=True,
                 requires=['self.wf(*old(hp))',
                           # the caller (Vfs::umount) evicts the inode path_walk has just returned
                           'self.im(*old(hp)).contains_key(ino) // [C07.pseudo.evict.known]'],
                 ensures=['self.wf(*final(hp)) // [C07.pseudo.evict.wf]',
                          'self.view(*final(hp)) == evict_spec(self.view(*old(hp)), ino) // exactly that node goes (table and parent\'s children), never the root, never a directory with children; every other node untouched [C07.pseudo.evict.view]'],
                 splices=[('let parent = inodes.get(&inode.parent).unwrap();', 'after', '''let ghost h0 = *old(hp); let ghost m0 = self.im(h0);
        proof {
            assert(*hp == h0);
            assert(m0[ino] == *inode && ino != ROOT_ID); // the root (its own parent) is never evicted [C07.pseudo.evict.root]
            assert(m0.contains_key(m0[ino].parent) && mkids(m0, h0, m0[ino].parent).contains(m0[ino]));
        }'''),
                          ('self.remove_inode(inode, Tracked(hp));', 'after', '''proof {
            let kp = mkids(m0, h0, m0[ino].parent);
            let x = choose|x: int| 0 <= x < kp.len() && (#[trigger] kp[x]).name@ == m0[ino].name@ && (forall|j: int| 0 <= j < x ==> (#[trigger] kp[j]).name@ != m0[ino].name@)
                && hp.kids == h0.kids.insert(m0[m0[ino].parent].cell(), kp.remove(x));
            assert(mkids(m0, h0, ino).len() == 0); // a directory with children is never evicted [C07.pseudo.evict.childless]
            lemma_evict(m0, self.root_inode, self.nx(h0), h0, ino, x, *hp);
        }''')]),
              ['load', 'remove_child', 'remove_inode'])
    items.append(Group('impl PseudoFs {', [newi, insi, rmi, crt, gpi, evi]))

    # ---------------------------------------------------------------- path_walk / mount
    # the `for` iterator temporaries bound to names (Verus binds the iterator itself with `let`); the two scans of a directory get their own names
    KIDS_LOCKED = (r'(let _guard = self\.lock\.lock\(\);(?:\s|//[^\n]*\n)*)for child in inode\.children\.load\(Tracked\(hp\)\)\.iter\(\) \{',
                   r'\1let kids2 = inode.children.load(Tracked(hp)); for child in kids2.iter() {', 'the temporary of the `for` iterator expression (lives for the whole loop) bound to a name (scan under the lock)')
    KIDS_OPT = (r'for child in inode\.children\.load\(Tracked\(hp\)\)\.iter\(\) \{',
                r'let kids1 = inode.children.load(Tracked(hp)); for child in kids1.iter() {', 'the temporary of the `for` iterator expression bound to a name (optimistic scan)')
    STREQ = (r'\bchild\.name == (\w+)\b', r'str_eq(&child.name, \1)', 'every: `String == &str` (PartialEq<&str> for String: same characters) -> model str_eq')
    EINVAL_CL = '|| -> (q: Error) ensures q.os_code() == Some(libc::EINVAL), // [C07.pseudo.path_walk.bad_component]\n'
    SCAN1 = """#[verifier::loop_isolation(false)]
                    for child in it1: kids1.iter()
                        invariant *inode == cur0, forall|j: int| 0 <= j < it1.index@ ==> (#[trigger] kids1@[j]).name@ != name@, // [C07.pseudo.walk.scan]
                    {"""
    SCAN2 = SCAN1.replace('it1', 'it2').replace('kids1', 'kids2')
    FOUND = """let ghost cur0 = *inode; proof { lemma_child_named(self.im(*hp), self.root_inode, self.nx(*hp), *hp, inode.ino, name@); } // [C07.pseudo.%s.child] the component resolves to THE child of that name"""
    WALK_INV = """
            invariant
                *hp == *old(hp), self.wf(*hp), inodes@ == self.im(*hp), path@ == mountpoint@,
                self.im(*hp).contains_key(inode.ino) && self.im(*hp)[inode.ino] == *inode,
                walk_spec(self.view(*hp), ROOT_ID, path_comps(mountpoint@)) == walk_spec(self.view(*hp), inode.ino, comp_it.rest()), // each component is resolved from where the previous one ended [C07.pseudo.path_walk.step]
            decreases comp_it.rest().len()
        """
    pw = tok(Fn(PFS, PP, 'path_walk', props=P7, canary=True, body_resub=[KIDS_LOCKED, KIDS_OPT, STREQ],
                requires=['self.wf(*old(hp))'],
                ensures=['%s == %s // walking changes nothing [C07.pseudo.path_walk.frame]' % (H1, H0),
                         '!path_has_root(mountpoint@) ==> r is Err && r->Err_0.os_code() == Some(libc::EINVAL) // [C07.pseudo.path_walk.relative]',
                         """path_has_root(mountpoint@) ==> (match walk_spec(self.view(*old(hp)), ROOT_ID, path_comps(mountpoint@)) {
                            PWalk::Found(i) => r is Ok && r->Ok_0 == Some(i),
                            PWalk::Missing => r is Ok && r->Ok_0 is None,
                            PWalk::Bad => r is Err && r->Err_0.os_code() == Some(libc::EINVAL) }) // Some(ino) iff every component exists, and then the inode the walk ends in; None as soon as one is missing [C07.pseudo.path_walk.result]"""],
                splices=[('||', 'closure', EINVAL_CL),
                         ('for child in kids1.iter() {', 'replace', SCAN1), ('for child in kids2.iter() {', 'replace', SCAN2),
                         ('let kids1 = ', 'before', FOUND % 'path_walk')]),
             ['load'])
    pw.body_hooks = [OR.r28_for_owned(r"'outer:\s*for\s+(component)\s+in\s+(path\.components\(\))\s*\{", '', 'comp_it', header_extra=WALK_INV,
                                      mid="#[verifier::loop_isolation(false)] 'outer:")]

    MOUNT_INV = """
            invariant
                self.wf(*hp), inodes@ == self.im(*hp), path@ == mountpoint@,
                self.im(*hp).contains_key(inode.ino) && self.im(*hp)[inode.ino] == *inode,
                mount_spec(self.view(*old(hp)), ROOT_ID, path_comps(mountpoint@)) == mount_spec(self.view(*hp), inode.ino, comp_it.rest()), // each component is resolved - or created - from where the previous one ended [C07.pseudo.mount.step]
                self.nx(*hp) + comp_it.rest().len() <= VFS_MAX_INO + 1,
                forall|j: int| 0 <= j < comp_it.rest().len() && (#[trigger] comp_it.rest()[j]) is Normal ==> normal_name(comp_it.rest()[j]->Normal_0),
            decreases comp_it.rest().len()
        """
    mnt = tok(Fn(PFS, PP, 'mount', props=P7, canary=True, body_resub=[KIDS_LOCKED, KIDS_OPT, STREQ],
                 requires=['self.wf(*old(hp))',
                           # the code never checks the counter: numbers stay below the limit of the VFS inode encoding only while fewer than 2^56 pseudo inodes were ever created (resource assumption)
                           'self.nx(*old(hp)) + path_comps(mountpoint@).len() <= VFS_MAX_INO + 1 // [C07.pseudo.mount.limit]'],
                 ensures=['self.wf(*final(hp)) // [C07.pseudo.mount.wf]',
                          '!path_has_root(mountpoint@) ==> r is Err && r->Err_0.os_code() == Some(libc::EINVAL) && %s == %s // [C07.pseudo.mount.relative]' % (H1, H0),
                          """path_has_root(mountpoint@) ==> (match mount_spec(self.view(*old(hp)), ROOT_ID, path_comps(mountpoint@)) {
                            Some(vi) => r is Ok && r->Ok_0 == vi.1 && self.view(*final(hp)) == vi.0,
                            None => r is Err && r->Err_0.os_code() == Some(libc::EINVAL) }) // exactly the missing components are created (each once, under the right parent, numbered by the counter), the inode of the last component is returned, every other node is untouched [C07.pseudo.mount.result]"""],
                 splices=[('for child in kids1.iter() {', 'replace', SCAN1), ('for child in kids2.iter() {', 'replace', SCAN2),
                          ('let kids1 = ', 'before', FOUND % 'mount')]),
              ['load', 'create_inode'])
    mnt.body_hooks = [OR.r28_for_owned(r"'outer:\s*for\s+(component)\s+in\s+(path\.components\(\))\s*\{", '', 'comp_it', header_extra=MOUNT_INV,
                                       mid="proof { broadcast use axiom_path_comps_normal; } #[verifier::loop_isolation(false)] 'outer:")]
    items.append(Group('impl PseudoFs {', [pw, mnt]))

    # ---------------------------------------------------------------- FileSystem methods
    P16 = ['C16']
    FS = 'impl FileSystem for PseudoFs'
    items.append(Group('impl From<Attr> for stat64 {', [
        Fn(ABI, 'impl From<Attr> for stat64', 'from', props=P7, ensures=['r == stat_of_attr(attr) // [C07.pseudo.attr.fields]'])]))
    EPOCH = (r'SystemTime::UNIX_EPOCH', 'SystemTime::unix_epoch()', 'associated constant of an opaque model type -> constructor function')
    ge = Fn(PFS, PP, 'get_entry', props=P7, canary=True, body_resub=[EPOCH],
            ensures=['pseudo_entry(r, ino) // the number asked for, described as a directory [C07.pseudo.get_entry.dir]'],
            splices=[('attr.blksize = 4096;', 'after', 'proof { assert(0o040000u32 | 0o700u32 | 0o070u32 | 0o007u32 == 0o040777u32) by (bit_vector); assert(1u64 << 32 == 0x1_0000_0000u64) by (bit_vector); }')])
    ENOENT_CL = '|| -> (q: Error) ensures q.os_code() == Some(libc::ENOENT), // [%s]\n'
    KIDS_P = (r'for child in pinode\.children\.load\(Tracked\(hp\)\)\.iter\(\) \{', r'let kidsp = pinode.children.load(Tracked(hp)); for child in kidsp.iter() {',
              'the temporary of the `for` iterator expression bound to a name')
    LK_SCAN = """proof { assert forall|j: int| 0 <= j < kidsp@.len() implies (#[trigger] kidsp@[j]).ino != 0 by { assert(mkids(self.im(*hp), *hp, parent)[j] == kidsp@[j]); } }
                #[verifier::loop_isolation(false)]
                for child in itp: kidsp.iter()
                    invariant_except_break ino == 0, forall|j: int| 0 <= j < itp.index@ ==> (#[trigger] kidsp@[j]).name@ != child_name@, // [C07.pseudo.lookup.scan]
                    ensures ino == 0 ==> (forall|j: int| 0 <= j < kidsp@.len() ==> (#[trigger] kidsp@[j]).name@ != child_name@),
                            ino != 0 ==> (exists|j: int| 0 <= j < kidsp@.len() && (#[trigger] kidsp@[j]).name@ == child_name@ && ino == kidsp@[j].ino), // [C07.pseudo.lookup.scan]
                {"""
    lk = tok(Fn(PFS, FS, 'lookup', props=P7, canary=True, body_resub=[KIDS_P, STREQ], sig_subst=[('_: &Context', '_ctx: &Context')],     # R3 for a parameter: `_` named (the verus! macro wants identifiers)
                requires=['self.wf(*old(hp))'],
                ensures=['%s == %s // [C07.pseudo.lookup.frame]' % (H1, H0),
                         '!self.view(*old(hp)).nodes.contains_key(parent) ==> r is Err && r->Err_0.os_code() == Some(libc::ENOENT) // [C07.pseudo.lookup.unknown_parent]',
                         'self.view(*old(hp)).nodes.contains_key(parent) && !is_utf8(name@) ==> r is Err && r->Err_0.os_code() == Some(libc::EINVAL) // [C07.pseudo.lookup.bad_name]',
                         """self.view(*old(hp)).nodes.contains_key(parent) && is_utf8(name@) ==> (match lookup_target(self.view(*old(hp)), parent, utf8_dec(name@)) {
                            Some(i) => r is Ok && pseudo_entry(r->Ok_0, i),
                            None => r is Err && r->Err_0.os_code() == Some(libc::ENOENT) }) // the child of `parent` with that name (its inode number, directory attributes), `.` = the directory, `..` = its parent, ENOENT otherwise [C07.pseudo.lookup.result]"""],
                splices=[('||', 'closure', ENOENT_CL % 'C07.pseudo.lookup.unknown_parent'),
                         ('|_v|', 'closure', '|_v: Utf8Error| -> (q: Error) ensures q.os_code() == Some(libc::EINVAL), // [C07.pseudo.lookup.bad_name]\n'),
                         ('let mut ino: u64 = 0;', 'after', """proof {
            reveal_strlit("."); reveal_strlit(".."); assert("."@ =~= dot()); assert(".."@ =~= dotdot());
            lemma_child_named(self.im(*hp), self.root_inode, self.nx(*hp), *hp, parent, child_name@);
        }"""),
                         ('for child in kidsp.iter() {', 'replace', LK_SCAN)]),
             ['load'])
    ga = tok(Fn(PFS, FS, 'getattr', props=P7, canary=True, sig_subst=[('_: &Context', '_ctx: &Context'), ('_: Option<u64>', '_fh: Option<u64>')],
                requires=['self.cells_ok(*old(hp))', 'forall|k: u64| #[trigger] self.im(*old(hp)).contains_key(k) ==> self.im(*old(hp))[k].ino == k'],
                ensures=['%s == %s // [C07.pseudo.getattr.frame]' % (H1, H0),
                         '!self.view(*old(hp)).nodes.contains_key(inode) ==> r is Err && r->Err_0.os_code() == Some(libc::ENOENT) // [C07.pseudo.getattr.unknown]',
                         'self.view(*old(hp)).nodes.contains_key(inode) ==> r is Ok && (exists|e: Entry| pseudo_entry(e, inode) && r->Ok_0.0 == e.attr && r->Ok_0.1 == e.attr_timeout) // the attributes lookup reports for the same number [C07.pseudo.getattr.dir]'],
                splices=[('||', 'closure', ENOENT_CL % 'C07.pseudo.getattr.unknown'),
                         ('|inode|', 'closure', '|inode: &Arc<PseudoInode>| -> (q: u64) ensures q == inode.ino, // [C07.pseudo.getattr.dir]\n')]),
             ['load'])
    acc = Fn(PFS, FS, 'access', props=P7, canary=True, ensures=['r is Ok // every pseudo directory is accessible to everyone (mode rwxrwxrwx) [C07.pseudo.access.ok]'])
    items.append(Group('impl PseudoFs {', [ge, lk, ga, acc]))

    # ---------------------------------------------------------------- do_readdir / readdir / readdirplus (C16)
    DR_SIG = [('fn do_readdir(', 'fn do_readdir<A: AddEntry>('), ('add_entry: &mut dyn FnMut(DirEntry) -> Result<usize>', 'add_entry: &mut A')]
    CALLS = 'new_calls(final(add_entry).log(), old(add_entry).log())'
    ENTS = 'dir_entries(self.view(*old(hp)), parent)'
    DR_RESUB = [(r'\badd_entry\(', 'add_entry.call(', 'call of the `&mut dyn FnMut` callback -> method call on the generic AddEntry object (ghost log)'),
                (r'child\.name\.clone\(\)\.as_bytes\(\)', 'str_bytes(&child.name)', 'String::clone().as_bytes(): the UTF-8 bytes of a copy of the name -> model str_bytes'),
                (r'for child in children\[([^\]]*?)\.\.\]\.iter\(\) \{', r'let run = vx_slice_from(&children, \1); for child in run.iter() {',
                 'range indexing `&v[a..]` -> model vx_slice_from (in-bounds is its precondition, i.e. "cannot panic" is proved); the `for` iterator temporary bound to a name'),
                (r'match (add_entry\.call\(DirEntry \{[^{}]*\}\)) \{', r'let cb_res = \1; match cb_res {',
                 'the scrutinee of the match bound to a name (same value, same arms): a ghost step can then stand between the call and the arms')]
    NC = 'new_calls(add_entry.log(), log0)'
    DR_LOOP = """let ghost es = dir_entries(self.view(*hp), parent); let ghost log0 = add_entry.log(); let ghost kp = mkids(self.im(*hp), *hp, parent); let ghost run_e = run_after(es, offset);
        proof {
            assert(es.len() == kp.len());
            assert(run_e.len() == run@.len()); // the run offered is ALL that follows the resume offset [C16.pseudo.do_readdir.resume]
            assert forall|j: int| 0 <= j < kp.len() implies es[j].ino == (#[trigger] kp[j]).ino && es[j].name == utf8_enc(kp[j].name@) by {
                assert(mkids(self.im(*hp), *hp, parent)[j] == kp[j]); assert(self.im(*hp)[kp[j].ino] == kp[j]);
            }
            lemma_all_accepted_empty(run_e);
        }
        #[verifier::loop_isolation(false)]
        for child in it: run.iter()
            invariant_except_break
                !last_refused(NC), // Ok(0) = no room, Err = failure: the walk stops there, the entry is not skipped [C16.pseudo.do_readdir.stop]
                all_accepted(NC, run_e.take(it.index@ as int)), // every child of the run so far was offered once, in order, and accepted [C16.pseudo.do_readdir.loop]
                next == offset + 1 + it.index@, // entry i carries offset i + 1: resuming from it starts right after that entry [C16.pseudo.do_readdir.offsets]
            invariant
                extends(add_entry.log(), log0), old(add_entry).inv() ==> add_entry.inv(),
                forall|j: int| 0 <= j < NC.len() ==> ty_ok((#[trigger] NC[j]).ty), // [C16.pseudo.do_readdir.type]
            ensures
                last_refused(NC) ==> delivered_ok(run_e, NC), // [C16.pseudo.do_readdir.stop]
                last_refused(NC) ==> NC.last().ok is Some, // a failure of the callback is handed on, never swallowed [C16.pseudo.do_readdir.err]
                !last_refused(NC) ==> all_accepted(NC, run_e.take(run_e.len() as int)), // [C16.pseudo.do_readdir.loop]
        {
            let ghost log1 = add_entry.log(); let ghost i = it.index@ as int;
            proof {
                assert(*child == kp[offset + i]); // the run starts at the child right after the resume offset [C16.pseudo.do_readdir.resume]
                assert(run_e[i] == es[offset + i]);
            }""".replace('NC', NC)
    DR_STEP = """proof {
                let calls1 = new_calls(log1, log0); let c = add_entry.log().last();
                assert(NC =~= calls1.push(c)); assert(add_entry.log().take(log0.len() as int) =~= log1.take(log0.len() as int));
                assert(call_matches(c, run_e[i])); // the child is offered with its own number, offset and name [C16.pseudo.do_readdir.entry]
                if accepted(c) { lemma_step_accept(run_e, i, calls1, c); } else { lemma_step_stop(run_e, i, calls1, c); }
            }""".replace('NC', NC)
    dr = tok(Fn(PFS, PP, 'do_readdir', props=P16, canary=True, ret_name='res', sig_subst=DR_SIG, body_resub=DR_RESUB,
                requires=['self.wf(*old(hp))'],
                ensures=['%s == %s // listing changes nothing [C16.pseudo.do_readdir.frame]' % (H1, H0),
                         'extends(final(add_entry).log(), old(add_entry).log())',
                         'old(add_entry).inv() ==> final(add_entry).inv()',
                         'size == 0 ==> res is Ok && %s.len() == 0 // [C16.pseudo.do_readdir.size0]' % CALLS,
                         'size != 0 && !self.view(*old(hp)).nodes.contains_key(parent) ==> res is Err && res->Err_0.os_code() == Some(libc::ENOENT) && %s.len() == 0 // [C16.pseudo.do_readdir.unknown]' % CALLS,
                         # the core: from offset 0 or the offset of any entry delivered before, the run that starts right after it is offered, each entry once, in order
                         'size != 0 && self.view(*old(hp)).nodes.contains_key(parent) ==> delivered_ok(run_after(%s, offset), %s) // the entries after the resume offset are offered each once, in order, nothing after a refusal, nothing skipped; an offset at or beyond the end gives the empty reply [C16.pseudo.do_readdir.resume]' % (ENTS, CALLS),
                         'forall|j: int| 0 <= j < %s.len() ==> ty_ok((#[trigger] %s[j]).ty) // every pseudo inode is a directory [C16.pseudo.do_readdir.type]' % (CALLS, CALLS),
                         'size != 0 && self.view(*old(hp)).nodes.contains_key(parent) ==> (res is Err <==> %s.len() > 0 && %s.last().ok is None) // an error is the callback\'s own, handed on; the listing itself cannot fail [C16.pseudo.do_readdir.err]' % (CALLS, CALLS)],
                splices=[('||', 'closure', ENOENT_CL % 'C16.pseudo.do_readdir.unknown'),
                         ('^', 'after', 'proof { let l = add_entry.log(); assert(l.take(l.len() as int) =~= l); assert(new_calls(l, l) =~= Seq::<CallRec>::empty()); }'),
                         ('let mut next = ', 'before', '''proof {
            assert(offset < u64::MAX); // [C16.pseudo.do_readdir.offset_overflow]
        }'''),
                         ('for child in run.iter() {', 'replace', DR_LOOP),
                         ('match cb_res {', 'before', DR_STEP),
                         ('Ok(())\n    }', 'before', 'proof { if !last_refused(%s) { lemma_step_done(run_e, %s); } }' % (NC, NC))]),
             ['load'])
    RD_SIG = [('fn readdir(', 'fn readdir<A: AddEntry>('), ('add_entry: &mut dyn FnMut(DirEntry) -> Result<usize>', 'add_entry: &mut A'), ('_: u64', '_fh: u64')]
    rd = tok(Fn(PFS, FS, 'readdir', props=P16, canary=True, ret_name='res', sig_subst=RD_SIG,
                requires=['self.wf(*old(hp))'],
                ensures=[c.replace('parent', 'inode').replace('do_readdir', 'readdir') for c in dr.ensures]),
             ['do_readdir'])
    items.append(Raw(SLICE))
    items.append(Group('impl PseudoFs {', [dr, rd]))

    # ---------------------------------------------------------------- PseudoFs::new
    NEW_RESUB = [NEWCALL,
                 (r'AtomicU64::new\(PSEUDOFS_NEXT_INODE\)', 'AtomicU64H::new(PSEUDOFS_NEXT_INODE, Tracked(hp))', 'heap cell + ghost heap token (R23)'),
                 (r'ArcSwap::new\(Arc::new\(HashMap::new\(\)\)\)', 'ArcSwapT::new(Arc::new(HashMap::new()), Tracked(hp))', 'heap cell + ghost heap token (R23)'),
                 (r'String::from\("/"\)', 'string_from("/")', 'String::from(&str): same characters')]
    nw = tok(Fn(PFS, PP, 'new', props=P7, canary=True, body_resub=NEW_RESUB,
                ensures=['r.wf(*final(hp)) // a new pseudo fs satisfies the invariant [C07.pseudo.new.wf]',
                         'r.view(*final(hp)).next == 2 && r.view(*final(hp)).nodes.dom() =~= set![ROOT_ID] && r.view(*final(hp)).nodes[ROOT_ID].parent == ROOT_ID && r.view(*final(hp)).nodes[ROOT_ID].kids.len() == 0 // only the root, its own parent, no children; numbers start at 2 [C07.pseudo.new.view]',
                         'forall|c: int| #[trigger] old(hp).kids.contains_key(c) ==> final(hp).kids.contains_key(c) && final(hp).kids[c] == old(hp).kids[c]',
                         'forall|c: int| #[trigger] old(hp).tabs.contains_key(c) ==> final(hp).tabs.contains_key(c) && final(hp).tabs[c] == old(hp).tabs[c]',
                         'forall|c: int| #[trigger] old(hp).ctrs.contains_key(c) ==> final(hp).ctrs.contains_key(c) && final(hp).ctrs[c] == old(hp).ctrs[c]'],
                splices=[('fs\n    }', 'before', 'proof { assert(fs.im(*hp) =~= Map::<u64, Arc<PseudoInode>>::empty().insert(ROOT_ID, fs.root_inode)); assert(kid_inos(mkids(fs.im(*hp), *hp, ROOT_ID)) =~= Seq::<u64>::empty()); }')]),
             ['insert_inode'])
    items.append(Group('impl PseudoFs {', [nw]))

    # ---------------------------------------------------------------- readdirplus
    DE = "DirEntry<'b>"
    lifted = Lifted(PFS, FS, 'readdirplus', 0, "fn readdirplus_entry<'b>(&self, inode: u64, dir_entry: %s) -> (res: Result<(%s, Entry)>)" % (DE, DE), 'add_entry',
                    ensures=['res is Ok && res->Ok_0.0 == dir_entry && pseudo_entry(res->Ok_0.1, dir_entry.ino) // the entry is handed on unchanged, together with the directory attributes of ITS number [C16.pseudo.readdirplus.entry]'],
                    props=P16, canary=True)
    RP_SIG = [('fn readdirplus(', 'fn readdirplus<B: AddEntryPlus>('), ('add_entry: &mut dyn FnMut(DirEntry, Entry) -> Result<usize>', 'add_entry: &mut B')]
    RP_CLOSURE = (r'&mut \|dir_entry\| \{(?:[^{}]|\{[^{}]*\})*\}', 'plus_sink(self, add_entry)',
                  'the closure handed to do_readdir -> adapter object plus_sink (R17: the closure text is verified as the lifted function readdirplus_entry against the contract the adapter assumes, then add_entry)')
    PC = 'bases(new_plus(final(add_entry).plog(), old(add_entry).plog()))'
    rp = tok(Fn(PFS, FS, 'readdirplus', props=P16, canary=True, ret_name='res', sig_subst=RP_SIG, body_resub=[RP_CLOSURE],
                requires=['self.wf(*old(hp))'],
                ensures=['%s == %s // [C16.pseudo.readdirplus.frame]' % (H1, H0),
                         'extends(bases(final(add_entry).plog()), bases(old(add_entry).plog()))',
                         'size == 0 ==> res is Ok && %s.len() == 0 // [C16.pseudo.readdirplus.size0]' % PC,
                         'size != 0 && !self.view(*old(hp)).nodes.contains_key(inode) ==> res is Err && res->Err_0.os_code() == Some(libc::ENOENT) && %s.len() == 0 // [C16.pseudo.readdirplus.unknown]' % PC,
                         'size != 0 && self.view(*old(hp)).nodes.contains_key(inode) ==> delivered_ok(run_after(dir_entries(self.view(*old(hp)), inode), offset), %s) // the same listing as readdir: same directory, same resume offset [C16.pseudo.readdirplus.resume]' % PC,
                         'forall|j: int| 0 <= j < %s.len() ==> ty_ok((#[trigger] %s[j]).ty) // [C16.pseudo.readdirplus.type]' % (PC, PC),
                         'forall|j: int| 0 <= j < new_plus(final(add_entry).plog(), old(add_entry).plog()).len() ==> pseudo_entry((#[trigger] new_plus(final(add_entry).plog(), old(add_entry).plog())[j]).entry, new_plus(final(add_entry).plog(), old(add_entry).plog())[j].base.ino) // every entry comes with the directory attributes of its own number [C16.pseudo.readdirplus.attrs]'],
                splices=[('self.do_readdir(', 'replace', 'let ghost l0 = add_entry.plog(); let res_ = self.do_readdir('),
                         ('Tracked(hp))', 'replace', '''Tracked(hp));
        proof {
            let l1 = add_entry.plog();
            assert(extends(bases(l1), bases(l0)));
            lemma_bases_skip(l1, l0.len() as int); lemma_bases_skip(l0, l0.len() as int);
        }
        res_''')]),
             ['do_readdir'])
    items.append(Raw(PLUS))
    items.append(Raw('pub open spec fn new_plus(l: Seq<PlusRec>, l0: Seq<PlusRec>) -> Seq<PlusRec> { l.skip(l0.len() as int) }'))
    items.append(Group('impl PseudoFs {', [lifted, rp]))
    u = Unit('pseudofs', items, preludes=['base.rs', 'stdmodel.rs'], generic_tags={})
    return u
