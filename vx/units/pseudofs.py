"""Unit `pseudofs` (C07, C16: the pseudo file system): src/api/pseudo_fs.rs - PseudoInode::new / insert_child / remove_child, PseudoFs::new / mount /
path_walk / new_inode / insert_inode / create_inode / remove_inode / get_parent_inode / evict_inode / get_entry / do_readdir and the FileSystem
methods lookup / getattr / readdir / readdirplus / access, on their real text.

State model (rule R23 only, no R25).  Everything the pseudo fs mutates lives behind `&self`:
  * `PseudoInode::children: ArcSwap<Vec<Arc<PseudoInode>>>`  - reached through shared Arcs (table AND the parent's children vector),
  * `PseudoFs::inodes: ArcSwap<HashMap<u64, Arc<PseudoInode>>>`, `PseudoFs::next_inode: AtomicU64`.
All three are HEAP cells: the cell value carries an identity (`id()`), its content lives in the ghost heap `PHeap` (`kids`, `tabs`, `ctrs`), which
is threaded through every extracted function as an erased `Tracked<&mut PHeap>` parameter (R23).  (Unit pseudopersist models the two PseudoFs
cells by R25 `&self -> &mut self`; that is not possible for `mount`, which keeps `&self.root_inode` borrowed across `self.create_inode(..)`.)
Sequential model: serialised by `PseudoFs::lock`; the optimistic unlocked scans of mount / path_walk and concurrent readers are not modelled.

Abstract view: `PView { next, nodes: Map<ino, PNode { parent, name, kids: Seq<ino> }> }` (`PseudoFs::view`).  Every postcondition speaks about
the WHOLE view (`final view == f(old view)`), so that touching any other node fails.
"""
import re

from vx.api import Unit, Fn, Copy, Raw, Group, Lifted
from vx import extract as X
from vx import wiremodel
from vx import ovlrules as OR

PFS = 'src/api/pseudo_fs.rs'
ABI = 'src/abi/fuse_abi_linux.rs'
FSMOD = 'src/api/filesystem/mod.rs'
VMOD = 'src/api/vfs/mod.rs'
TOK = dict(param='Tracked(hp): Tracked<&mut PHeap>', arg='Tracked(hp)')

CELLS = r'''
use vstd::std_specs::iter::IteratorSpec;
pub type Result<T> = io::Result<T>;
pub use io::Error;
pub type Inode = u64;
pub type Handle = u64;
// ---- the ghost heap: content of every interior-mutable cell of the pseudo fs, keyed by the identity of the cell
pub tracked struct PHeap {
    pub ghost kids: Map<int, Seq<Arc<PseudoInode>>>,            // PseudoInode::children cells
    pub ghost tabs: Map<int, Map<u64, Arc<PseudoInode>>>,       // PseudoFs::inodes cells
    pub ghost ctrs: Map<int, u64>,                              // PseudoFs::next_inode cells
}
// children cell (ArcSwap<Vec<Arc<PseudoInode>>>)
#[verifier::external_body] #[verifier::accept_recursive_types(T)] pub struct ArcSwapH<T> { _p: PhantomData<T> }
impl<T> ArcSwapH<T> { pub uninterp spec fn id(&self) -> int; }
impl ArcSwapH<Vec<Arc<PseudoInode>>> {
    // a new cell is none of the cells that exist
    #[verifier::external_body] pub fn new(v: Arc<Vec<Arc<PseudoInode>>>, Tracked(hp): Tracked<&mut PHeap>) -> (r: Self)
        ensures !old(hp).kids.contains_key(r.id()), *final(hp) == (PHeap { kids: old(hp).kids.insert(r.id(), v@), ..*old(hp) }) { unimplemented!() }
    #[verifier::external_body] pub fn load(&self, Tracked(hp): Tracked<&mut PHeap>) -> (r: Arc<Vec<Arc<PseudoInode>>>)
        requires old(hp).kids.contains_key(self.id()) ensures r@ == old(hp).kids[self.id()], *final(hp) == *old(hp), r@.len() <= 0x7fff_ffff_ffff_ffff /* a Vec never holds more than isize::MAX bytes */ { unimplemented!() }
    #[verifier::external_body] pub fn load_clone(&self, Tracked(hp): Tracked<&mut PHeap>) -> (r: Vec<Arc<PseudoInode>>)
        requires old(hp).kids.contains_key(self.id()) ensures r@ == old(hp).kids[self.id()], *final(hp) == *old(hp), r@.len() <= 0x7fff_ffff_ffff_ffff /* a Vec never holds more than isize::MAX bytes */ { unimplemented!() }
    #[verifier::external_body] pub fn store(&self, v: Arc<Vec<Arc<PseudoInode>>>, Tracked(hp): Tracked<&mut PHeap>)
        requires old(hp).kids.contains_key(self.id()) ensures *final(hp) == (PHeap { kids: old(hp).kids.insert(self.id(), v@), ..*old(hp) }) { unimplemented!() }
}
// inode table cell (ArcSwap<HashMap<u64, Arc<PseudoInode>>>)
#[verifier::external_body] #[verifier::reject_recursive_types(T)] pub struct ArcSwapT<T> { _p: PhantomData<T> }
impl<T> ArcSwapT<T> { pub uninterp spec fn id(&self) -> int; }
impl ArcSwapT<HashMap<u64, Arc<PseudoInode>>> {
    #[verifier::external_body] pub fn new(v: Arc<HashMap<u64, Arc<PseudoInode>>>, Tracked(hp): Tracked<&mut PHeap>) -> (r: Self)
        ensures !old(hp).tabs.contains_key(r.id()), *final(hp) == (PHeap { tabs: old(hp).tabs.insert(r.id(), v@), ..*old(hp) }) { unimplemented!() }
    #[verifier::external_body] pub fn load(&self, Tracked(hp): Tracked<&mut PHeap>) -> (r: Arc<HashMap<u64, Arc<PseudoInode>>>)
        requires old(hp).tabs.contains_key(self.id()) ensures r@ == old(hp).tabs[self.id()], *final(hp) == *old(hp) { unimplemented!() }
    #[verifier::external_body] pub fn load_clone(&self, Tracked(hp): Tracked<&mut PHeap>) -> (r: HashMap<u64, Arc<PseudoInode>>)
        requires old(hp).tabs.contains_key(self.id()) ensures r@ == old(hp).tabs[self.id()], *final(hp) == *old(hp) { unimplemented!() }
    #[verifier::external_body] pub fn store(&self, v: Arc<HashMap<u64, Arc<PseudoInode>>>, Tracked(hp): Tracked<&mut PHeap>)
        requires old(hp).tabs.contains_key(self.id()) ensures *final(hp) == (PHeap { tabs: old(hp).tabs.insert(self.id(), v@), ..*old(hp) }) { unimplemented!() }
}
// counter cell (AtomicU64): fetch_add returns the previous value and wraps around on overflow (std documentation)
#[verifier::external_body] pub struct AtomicU64H { _p: u8 }
impl AtomicU64H {
    pub uninterp spec fn id(&self) -> int;
    #[verifier::external_body] pub fn new(v: u64, Tracked(hp): Tracked<&mut PHeap>) -> (r: Self)
        ensures !old(hp).ctrs.contains_key(r.id()), *final(hp) == (PHeap { ctrs: old(hp).ctrs.insert(r.id(), v), ..*old(hp) }) { unimplemented!() }
    #[verifier::external_body] pub fn fetch_add(&self, n: u64, o: Ordering, Tracked(hp): Tracked<&mut PHeap>) -> (r: u64)
        requires old(hp).ctrs.contains_key(self.id())
        ensures r == old(hp).ctrs[self.id()], *final(hp) == (PHeap { ctrs: old(hp).ctrs.insert(self.id(), ((r as int + n as int) % 0x1_0000_0000_0000_0000) as u64), ..*old(hp) }) { unimplemented!() }
}
impl<T> Mutex<T> { #[verifier::external_body] pub fn new(v: T) -> (r: Self) { unimplemented!() } }
#[verifier::external_body] pub fn drop<T>(v: T) { unimplemented!() }
// ---- strings: `String == &str` (vstd specifies `String == String` only), String::from(&str)
#[verifier::external_body] pub fn str_eq(a: &String, b: &str) -> (r: bool) ensures r == (a@ == b@) { unimplemented!() }
#[verifier::external_body] pub fn string_from(s: &str) -> (r: String) ensures r@ == s@ { unimplemented!() }
'''

SPEC = r'''
// =====================================================================================================================
// the abstract view of a pseudo file system
pub struct PNode { pub parent: u64, pub name: Seq<char>, pub kids: Seq<u64> }
pub struct PView { pub next: u64, pub nodes: Map<u64, PNode> }
pub open spec fn incr(s: Seq<u64>) -> bool { forall|i: int, j: int| 0 <= i < j < s.len() ==> s[i] < s[j] }
// a name a path component can carry: std::path::Component::Normal is never empty, "." or ".." and holds no separator
pub open spec fn normal_name(n: Seq<char>) -> bool { n.len() > 0 && n != seq!['.'] && n != seq!['.', '.'] && !n.contains('/') }
impl PseudoInode { pub open spec fn cell(&self) -> int { self.children.id() } }
pub open spec fn kid_inos(s: Seq<Arc<PseudoInode>>) -> Seq<u64> { s.map_values(|a: Arc<PseudoInode>| a.ino) }
pub open spec fn mkids(m: Map<u64, Arc<PseudoInode>>, h: PHeap, k: u64) -> Seq<Arc<PseudoInode>> { h.kids[m[k].cell()] }
pub open spec fn names_distinct(s: Seq<Arc<PseudoInode>>) -> bool { forall|i: int, j: int| 0 <= i < j < s.len() ==> (#[trigger] s[i]).name@ != (#[trigger] s[j]).name@ }
// well-formedness of the concrete structure (the invariant every operation preserves)
pub open spec fn wf_m(m: Map<u64, Arc<PseudoInode>>, root: Arc<PseudoInode>, next: u64, h: PHeap) -> bool {
    &&& m.contains_key(ROOT_ID) && m[ROOT_ID] == root && root.ino == ROOT_ID && root.parent == ROOT_ID
    // every number in use is below the counter ("a fresh inode number never used before"), 0 is never used
    &&& forall|k: u64| #[trigger] m.contains_key(k) ==> m[k].ino == k && h.kids.contains_key(m[k].cell()) && 1 <= k < next
    &&& forall|k: u64, l: u64| m.contains_key(k) && m.contains_key(l) && (#[trigger] m[k]).cell() == (#[trigger] m[l]).cell() ==> k == l
    // the children vector of a directory holds the very nodes of the table whose parent it is, each once, in creation order, under distinct names
    &&& forall|k: u64, j: int| m.contains_key(k) && 0 <= j < mkids(m, h, k).len() ==> ({ let c = #[trigger] mkids(m, h, k)[j];
            m.contains_key(c.ino) && m[c.ino] == c && c.parent == k && c.ino != ROOT_ID })
    &&& forall|k: u64| #[trigger] m.contains_key(k) ==> incr(kid_inos(mkids(m, h, k))) && names_distinct(mkids(m, h, k))
    &&& forall|c: u64| #[trigger] m.contains_key(c) && c != ROOT_ID ==> m.contains_key(m[c].parent) && mkids(m, h, m[c].parent).contains(m[c]) && normal_name(m[c].name@)
}
pub open spec fn view_m(m: Map<u64, Arc<PseudoInode>>, next: u64, h: PHeap) -> PView {
    PView { next: next, nodes: Map::new(m.dom(), |k: u64| PNode { parent: m[k].parent, name: m[k].name@, kids: kid_inos(mkids(m, h, k)) }) }
}
// ---- the two mutations of the tree, on the abstract view
// a new directory named n under d: numbered by the counter, no children, appended to d's children; nothing else changes
pub open spec fn add_child(v: PView, d: u64, n: Seq<char>) -> PView {
    PView { next: (v.next + 1) as u64,
            nodes: v.nodes.insert(v.next, PNode { parent: d, name: n, kids: Seq::empty() }).insert(d, PNode { kids: v.nodes[d].kids.push(v.next), ..v.nodes[d] }) }
}
// eviction: the root and a directory with children stay; otherwise exactly that node goes, from the table and from its parent's children
pub open spec fn evict_spec(v: PView, ino: u64) -> PView {
    let p = v.nodes[ino].parent;
    if p == ino || v.nodes[ino].kids.len() > 0 { v }
    else { PView { next: v.next, nodes: v.nodes.remove(ino).insert(p, PNode { kids: v.nodes[p].kids.remove(v.nodes[p].kids.index_of(ino)), ..v.nodes[p] }) } }
}
pub proof fn lemma_kid_inos_push(s: Seq<Arc<PseudoInode>>, c: Arc<PseudoInode>)
    ensures kid_inos(s.push(c)) =~= kid_inos(s).push(c.ino)
{ }
pub proof fn lemma_kid_inos_remove(s: Seq<Arc<PseudoInode>>, p: int)
    requires 0 <= p < s.len()
    ensures kid_inos(s.remove(p)) =~= kid_inos(s).remove(p)
{ }
// create_inode: what the three stores (counter, table, parent's children) amount to
pub proof fn lemma_create(m: Map<u64, Arc<PseudoInode>>, root: Arc<PseudoInode>, nx: u64, h: PHeap, p: u64, c: Arc<PseudoInode>, h2: PHeap)
    requires
        wf_m(m, root, nx, h), m.contains_key(p), nx < u64::MAX,
        c.ino == nx && c.parent == p && normal_name(c.name@) && !h.kids.contains_key(c.cell()),
        forall|j: int| 0 <= j < mkids(m, h, p).len() ==> (#[trigger] mkids(m, h, p)[j]).name@ != c.name@,
        h2.kids == h.kids.insert(c.cell(), Seq::<Arc<PseudoInode>>::empty()).insert(m[p].cell(), mkids(m, h, p).push(c)),
    ensures
        wf_m(m.insert(nx, c), root, (nx + 1) as u64, h2),                                                  // [C07.pseudo.create.wf]
        view_m(m.insert(nx, c), (nx + 1) as u64, h2) == add_child(view_m(m, nx, h), p, c.name@),           // [C07.pseudo.create.view]
{
    let m2 = m.insert(nx, c); let n2 = (nx + 1) as u64;
    let kp = mkids(m, h, p);
    assert(!m.contains_key(nx));
    assert(m[p].cell() != c.cell());
    assert forall|k: u64| m.contains_key(k) && k != p implies #[trigger] mkids(m2, h2, k) == mkids(m, h, k) by {
        assert(m[k].cell() != m[p].cell()); assert(m[k].cell() != c.cell());
    }
    assert(mkids(m2, h2, p) == kp.push(c));
    assert(mkids(m2, h2, nx) == Seq::<Arc<PseudoInode>>::empty());
    assert forall|k: u64, j: int| m2.contains_key(k) && 0 <= j < mkids(m2, h2, k).len() implies ({ let cc = #[trigger] mkids(m2, h2, k)[j];
            m2.contains_key(cc.ino) && m2[cc.ino] == cc && cc.parent == k && cc.ino != ROOT_ID }) by {
        if k == p { if j < kp.len() { assert(mkids(m, h, p)[j] == kp[j]); } }
        else if k != nx { assert(mkids(m, h, k)[j] == mkids(m2, h2, k)[j]); }
    }
    assert forall|k: u64| #[trigger] m2.contains_key(k) implies incr(kid_inos(mkids(m2, h2, k))) && names_distinct(mkids(m2, h2, k)) by {
        if k == p {
            lemma_kid_inos_push(kp, c);
            assert forall|i: int, j: int| 0 <= i < j < kid_inos(kp.push(c)).len() implies kid_inos(kp.push(c))[i] < kid_inos(kp.push(c))[j] by {
                if j < kp.len() { assert(kid_inos(kp)[i] < kid_inos(kp)[j]); }
                else { assert(mkids(m, h, p)[i] == kp[i]); assert(m.contains_key(kp[i].ino)); }
            }
            assert forall|i: int, j: int| 0 <= i < j < kp.push(c).len() implies (#[trigger] kp.push(c)[i]).name@ != (#[trigger] kp.push(c)[j]).name@ by {
                if j < kp.len() { assert(kp[i].name@ != kp[j].name@); } else { assert(mkids(m, h, p)[i].name@ != c.name@); }
            }
        } else if k != nx { assert(m.contains_key(k)); }
    }
    assert forall|cc: u64| #[trigger] m2.contains_key(cc) && cc != ROOT_ID implies m2.contains_key(m2[cc].parent) && mkids(m2, h2, m2[cc].parent).contains(m2[cc]) && normal_name(m2[cc].name@) by {
        if cc == nx { assert(kp.push(c)[kp.len() as int] == c); }
        else {
            let q = m[cc].parent;
            assert(m.contains_key(q) && mkids(m, h, q).contains(m[cc]));
            if q == p { let x = choose|x: int| 0 <= x < kp.len() && kp[x] == m[cc]; assert(kp.push(c)[x] == m[cc]); }
        }
    }
    let v = view_m(m, nx, h); let v2 = view_m(m2, n2, h2); let w = add_child(v, p, c.name@);
    lemma_kid_inos_push(kp, c);
    assert(v2.nodes =~= w.nodes) by {
        assert forall|k: u64| v2.nodes.contains_key(k) implies #[trigger] v2.nodes[k] == w.nodes[k] by {
            if k == p { } else if k == nx { assert(kid_inos(mkids(m2, h2, nx)) =~= Seq::<u64>::empty()); } else { assert(mkids(m2, h2, k) == mkids(m, h, k)); }
        }
    }
}
// evict_inode of a childless non-root directory: the two stores (parent's children, table)
pub proof fn lemma_evict(m: Map<u64, Arc<PseudoInode>>, root: Arc<PseudoInode>, nx: u64, h: PHeap, ino: u64, x: int, h2: PHeap)
    requires
        wf_m(m, root, nx, h), m.contains_key(ino), m[ino].parent != ino, mkids(m, h, ino).len() == 0,
        0 <= x < mkids(m, h, m[ino].parent).len(), mkids(m, h, m[ino].parent)[x].name@ == m[ino].name@,
        h2.kids == h.kids.insert(m[m[ino].parent].cell(), mkids(m, h, m[ino].parent).remove(x)),
    ensures
        wf_m(m.remove(ino), root, nx, h2),                                                                  // [C07.pseudo.evict.wf]
        view_m(m.remove(ino), nx, h2) == evict_spec(view_m(m, nx, h), ino),                                 // [C07.pseudo.evict.view]
{
    let p = m[ino].parent; let kp = mkids(m, h, p); let m2 = m.remove(ino);
    assert(ino != ROOT_ID);
    assert(m.contains_key(p) && kp.contains(m[ino]));
    let y = choose|y: int| 0 <= y < kp.len() && kp[y] == m[ino];
    assert(x == y) by { if x < y { assert(kp[x].name@ != kp[y].name@); } if y < x { assert(kp[y].name@ != kp[x].name@); } }
    assert(mkids(m2, h2, p) == kp.remove(x));
    assert forall|k: u64| m2.contains_key(k) && k != p implies #[trigger] mkids(m2, h2, k) == mkids(m, h, k) by { assert(m[k].cell() != m[p].cell()); }
    assert forall|k: u64, j: int| m2.contains_key(k) && 0 <= j < mkids(m2, h2, k).len() implies ({ let cc = #[trigger] mkids(m2, h2, k)[j];
            m2.contains_key(cc.ino) && m2[cc.ino] == cc && cc.parent == k && cc.ino != ROOT_ID }) by {
        if k == p {
            let j0 = if j < x { j } else { j + 1 };
            assert(kp.remove(x)[j] == kp[j0]); assert(mkids(m, h, p)[j0] == kp[j0]);
            assert(kid_inos(kp)[j0] != kid_inos(kp)[x]) by { if j0 < x { assert(kid_inos(kp)[j0] < kid_inos(kp)[x]); } else { assert(kid_inos(kp)[x] < kid_inos(kp)[j0]); } }
        } else {
            let cc = mkids(m, h, k)[j]; assert(mkids(m2, h2, k)[j] == cc);
            assert(cc.parent == k);
            if cc.ino == ino { assert(m[ino] == cc); }
        }
    }
    assert forall|k: u64| #[trigger] m2.contains_key(k) implies incr(kid_inos(mkids(m2, h2, k))) && names_distinct(mkids(m2, h2, k)) by {
        if k == p {
            lemma_kid_inos_remove(kp, x);
            assert forall|i: int, j: int| 0 <= i < j < kid_inos(kp).remove(x).len() implies kid_inos(kp).remove(x)[i] < kid_inos(kp).remove(x)[j] by {
                let i0 = if i < x { i } else { i + 1 }; let j0 = if j < x { j } else { j + 1 };
                assert(kid_inos(kp)[i0] < kid_inos(kp)[j0]);
            }
            assert forall|i: int, j: int| 0 <= i < j < kp.remove(x).len() implies (#[trigger] kp.remove(x)[i]).name@ != (#[trigger] kp.remove(x)[j]).name@ by {
                let i0 = if i < x { i } else { i + 1 }; let j0 = if j < x { j } else { j + 1 };
                assert(kp[i0].name@ != kp[j0].name@);
            }
        } else { assert(m.contains_key(k)); }
    }
    assert forall|cc: u64| #[trigger] m2.contains_key(cc) && cc != ROOT_ID implies m2.contains_key(m2[cc].parent) && mkids(m2, h2, m2[cc].parent).contains(m2[cc]) && normal_name(m2[cc].name@) by {
        let q = m[cc].parent;
        assert(m.contains_key(cc));
        assert(m.contains_key(q) && mkids(m, h, q).contains(m[cc]));
        // a directory whose children vector is empty is nobody's parent
        if q == ino { assert(mkids(m, h, ino).len() > 0); }
        if q == p {
            let z = choose|z: int| 0 <= z < kp.len() && kp[z] == m[cc];
            assert(z != x);
            let z2 = if z < x { z } else { z - 1 };
            assert(kp.remove(x)[z2] == m[cc]);
        }
    }
    let v = view_m(m, nx, h); let v2 = view_m(m2, nx, h2); let w = evict_spec(v, ino);
    lemma_kid_inos_remove(kp, x);
    assert(kid_inos(kp)[x] == ino);
    assert(v.nodes[p].kids.index_of(ino) == x) by {
        let z = v.nodes[p].kids.index_of(ino);
        assert(kid_inos(kp).contains(ino));
        if z < x { assert(kid_inos(kp)[z] < kid_inos(kp)[x]); } if x < z { assert(kid_inos(kp)[x] < kid_inos(kp)[z]); }
    }
    assert(v.nodes[ino].kids.len() == 0);
    assert(v2.nodes =~= w.nodes) by {
        assert forall|k: u64| v2.nodes.contains_key(k) implies #[trigger] v2.nodes[k] == w.nodes[k] by {
            if k != p { assert(mkids(m2, h2, k) == mkids(m, h, k)); }
        }
    }
}
impl PseudoFs {
    pub open spec fn cells_ok(&self, h: PHeap) -> bool { h.tabs.contains_key(self.inodes.id()) && h.ctrs.contains_key(self.next_inode.id()) }
    pub open spec fn im(&self, h: PHeap) -> Map<u64, Arc<PseudoInode>> { h.tabs[self.inodes.id()] }
    pub open spec fn nx(&self, h: PHeap) -> u64 { h.ctrs[self.next_inode.id()] }
    pub open spec fn wf(&self, h: PHeap) -> bool { self.cells_ok(h) && wf_m(self.im(h), self.root_inode, self.nx(h), h) }
    pub open spec fn view(&self, h: PHeap) -> PView { view_m(self.im(h), self.nx(h), h) }
}
'''

PATHS = r"""
// ---- std::path on unix, for a path made from a &str (the only constructor modelled): has_root / components are functions of the text (assumed: std's parser)
#[verifier::external_body] pub struct Path { _p: u8 }
#[verifier::external_body] pub struct OsStr { _p: u8 }
#[verifier::external_body] pub struct PrefixComponent { _p: u8 }
pub enum Component<'a> { Prefix(PrefixComponent), RootDir, CurDir, ParentDir, Normal(&'a OsStr) }
pub enum PComp { Prefix, RootDir, CurDir, ParentDir, Normal(Seq<char>) }
pub uninterp spec fn path_has_root(s: Seq<char>) -> bool;
pub uninterp spec fn path_comps(s: Seq<char>) -> Seq<PComp>;
// std documentation of Component::Normal: "a normal component, e.g. a and b in a/b" - never empty, never "." / ".." (those are CurDir / ParentDir), no separator inside
pub broadcast axiom fn axiom_path_comps_normal(s: Seq<char>, i: int)
    requires 0 <= i < path_comps(s).len(), (#[trigger] path_comps(s)[i]) is Normal
    ensures normal_name(path_comps(s)[i]->Normal_0);
impl OsStr {
    pub uninterp spec fn view(&self) -> Seq<char>;
    pub uninterp spec fn utf8(&self) -> bool;
    #[verifier::external_body] pub fn to_str(&self) -> (r: Option<&str>) ensures r is Some <==> self.utf8(), r is Some ==> r->Some_0@ == self@ { unimplemented!() }
}
pub open spec fn comp_view(c: Component<'_>) -> PComp {
    match c { Component::Prefix(_) => PComp::Prefix, Component::RootDir => PComp::RootDir, Component::CurDir => PComp::CurDir, Component::ParentDir => PComp::ParentDir, Component::Normal(o) => PComp::Normal(o@) }
}
#[verifier::external_body] pub struct Components<'a> { _p: PhantomData<&'a u8> }
impl<'a> Components<'a> {
    pub uninterp spec fn rest(&self) -> Seq<PComp>;
    // Iterator::next: front to back; a component of a path that was made from a &str is valid UTF-8
    #[verifier::external_body] pub fn next(&mut self) -> (r: Option<Component<'a>>)
        ensures old(self).rest().len() == 0 ==> r is None && final(self).rest() == old(self).rest(),
                old(self).rest().len() > 0 ==> r is Some && comp_view(r->Some_0) == old(self).rest()[0] && final(self).rest() == old(self).rest().skip(1)
                    && (r->Some_0 matches Component::Normal(o) ==> o.utf8())
    { unimplemented!() }
}
impl Path {
    pub uninterp spec fn view(&self) -> Seq<char>;
    #[verifier::external_body] pub fn new<'a>(s: &'a str) -> (r: &'a Path) ensures r@ == s@ { unimplemented!() }
    #[verifier::external_body] pub fn has_root(&self) -> (r: bool) ensures r == path_has_root(self@) { unimplemented!() }
    #[verifier::external_body] pub fn components<'a>(&'a self) -> (r: Components<'a>) ensures r.rest() == path_comps(self@) { unimplemented!() }
}
"""

WALK = r"""
// =====================================================================================================================
// path resolution on the abstract view
pub open spec fn has_child_named(v: PView, d: u64, n: Seq<char>, j: int) -> bool { 0 <= j < v.nodes[d].kids.len() && v.nodes[v.nodes[d].kids[j]].name == n }
// THE child of directory d named n (names of siblings are distinct in a well-formed tree)
pub open spec fn child_named(v: PView, d: u64, n: Seq<char>) -> Option<u64> {
    if exists|j: int| has_child_named(v, d, n, j) { Some(v.nodes[d].kids[choose|j: int| has_child_named(v, d, n, j)]) } else { None }
}
pub enum PWalk { Found(u64), Missing, Bad }
// "every component exists": RootDir / CurDir stay, ParentDir goes to the parent (the root is its own parent), a name goes to the child of that name
pub open spec fn walk_spec(v: PView, cur: u64, cs: Seq<PComp>) -> PWalk decreases cs.len() {
    if cs.len() == 0 { PWalk::Found(cur) } else { match cs[0] {
        PComp::Prefix => PWalk::Bad,
        PComp::RootDir => walk_spec(v, cur, cs.skip(1)),
        PComp::CurDir => walk_spec(v, cur, cs.skip(1)),
        PComp::ParentDir => walk_spec(v, v.nodes[cur].parent, cs.skip(1)),
        PComp::Normal(n) => match child_named(v, cur, n) { Some(c) => walk_spec(v, c, cs.skip(1)), None => PWalk::Missing },
    } }
}
// mount: the same walk, a missing name is created (add_child) and entered
pub open spec fn mount_spec(v: PView, cur: u64, cs: Seq<PComp>) -> Option<(PView, u64)> decreases cs.len() {
    if cs.len() == 0 { Some((v, cur)) } else { match cs[0] {
        PComp::Prefix => None,
        PComp::RootDir => mount_spec(v, cur, cs.skip(1)),
        PComp::CurDir => mount_spec(v, cur, cs.skip(1)),
        PComp::ParentDir => mount_spec(v, v.nodes[cur].parent, cs.skip(1)),
        PComp::Normal(n) => match child_named(v, cur, n) { Some(c) => mount_spec(v, c, cs.skip(1)), None => mount_spec(add_child(v, cur, n), v.next, cs.skip(1)) },
    } }
}
// the concrete scan of a children vector decides child_named
pub proof fn lemma_child_named(m: Map<u64, Arc<PseudoInode>>, root: Arc<PseudoInode>, nx: u64, h: PHeap, d: u64, n: Seq<char>)
    requires wf_m(m, root, nx, h), m.contains_key(d)
    ensures forall|j: int| 0 <= j < mkids(m, h, d).len() && (#[trigger] mkids(m, h, d)[j]).name@ == n ==> child_named(view_m(m, nx, h), d, n) == Some(mkids(m, h, d)[j].ino),
            (forall|j: int| 0 <= j < mkids(m, h, d).len() ==> (#[trigger] mkids(m, h, d)[j]).name@ != n) ==> child_named(view_m(m, nx, h), d, n) is None,
{
    let v = view_m(m, nx, h); let ks = mkids(m, h, d);
    assert forall|j: int| 0 <= j < ks.len() implies v.nodes[d].kids[j] == (#[trigger] ks[j]).ino && v.nodes[ks[j].ino].name == ks[j].name@ by {
        assert(mkids(m, h, d)[j] == ks[j]); assert(m.contains_key(ks[j].ino) && m[ks[j].ino] == ks[j]);
    }
    assert forall|j: int| 0 <= j < ks.len() && (#[trigger] ks[j]).name@ == n implies child_named(v, d, n) == Some(ks[j].ino) by {
        assert(has_child_named(v, d, n, j));
        let c = choose|c: int| has_child_named(v, d, n, c);
        assert(ks[c].name@ == n);
        if c < j { assert(ks[c].name@ != ks[j].name@); } if j < c { assert(ks[j].name@ != ks[c].name@); }
    }
    if forall|j: int| 0 <= j < ks.len() ==> (#[trigger] ks[j]).name@ != n {
        if exists|j: int| has_child_named(v, d, n, j) { let c = choose|c: int| has_child_named(v, d, n, c); assert(ks[c].name@ == n); }
    }
}
"""

FSM = r"""
// =====================================================================================================================
// ---- models for the FileSystem methods
pub type mode_t = u32; pub type nlink_t = u64; pub type dev_t = u64; pub type blksize_t = i64;
pub open spec fn zero_stat64() -> stat64 {
    stat64 { st_dev: 0, st_ino: 0, st_nlink: 0, st_mode: 0, st_uid: 0, st_gid: 0, st_rdev: 0, st_size: 0, st_blksize: 0, st_blocks: 0,
             st_atime: 0, st_atime_nsec: 0, st_mtime: 0, st_mtime_nsec: 0, st_ctime: 0, st_ctime_nsec: 0 }
}
// std::mem::zeroed::<libc::stat64>() (inside `unsafe`): the all-zero bit pattern of a plain-old-data struct (rule R9)
pub mod mem {
    use vstd::prelude::*;
    #[verifier::external_body] pub unsafe fn zeroed() -> (r: super::stat64) ensures r == super::zero_stat64() { unimplemented!() }
}
pub open spec fn stat_of_attr(a: Attr) -> stat64 {
    stat64 { st_ino: a.ino, st_size: a.size as i64, st_blocks: a.blocks as i64, st_atime: a.atime as i64, st_mtime: a.mtime as i64, st_ctime: a.ctime as i64,
             st_atime_nsec: a.atimensec as i64, st_mtime_nsec: a.mtimensec as i64, st_ctime_nsec: a.ctimensec as i64, st_mode: a.mode, st_nlink: a.nlink as u64,
             st_uid: a.uid, st_gid: a.gid, st_rdev: a.rdev as u64, st_blksize: a.blksize as i64, ..zero_stat64() }
}
impl vstd::std_specs::convert::FromSpecImpl<Attr> for stat64 {
    open spec fn obeys_from_spec() -> bool { true }
    open spec fn from_spec(a: Attr) -> stat64 { stat_of_attr(a) }
}
impl Duration { pub fn from_secs(secs: u64) -> (r: Duration) ensures r == (Duration { secs: secs, nanos: 0 }) { Duration { secs: secs, nanos: 0 } } }
// std::time::SystemTime: the clock is opaque; it does not stand before 1970 (assumed: `.unwrap()` in get_entry)
#[verifier::external_body] pub struct SystemTime { _p: u8 }
#[verifier::external_body] #[derive(Debug)] pub struct SystemTimeError { _p: u8 }
impl SystemTime {
    #[verifier::external_body] pub fn now() -> (r: SystemTime) { unimplemented!() }
    #[verifier::external_body] pub fn unix_epoch() -> (r: SystemTime) { unimplemented!() }
    #[verifier::external_body] pub fn duration_since(&self, earlier: SystemTime) -> (r: core::result::Result<Duration, SystemTimeError>) ensures r is Ok { unimplemented!() }
}
// UTF-8: String / &str <-> bytes (assumed: an inverse pair)
pub uninterp spec fn utf8_enc(s: Seq<char>) -> Seq<u8>;
pub uninterp spec fn utf8_dec(b: Seq<u8>) -> Seq<char>;
pub uninterp spec fn is_utf8(b: Seq<u8>) -> bool;
pub broadcast axiom fn axiom_utf8_inverse(s: Seq<char>) ensures is_utf8(#[trigger] utf8_enc(s)), utf8_dec(utf8_enc(s)) == s;
#[verifier::external_body] pub struct Utf8Error { _p: u8 }
impl CStr {
    #[verifier::external_body] pub fn to_str(&self) -> (r: core::result::Result<&str, Utf8Error>) ensures r is Ok <==> is_utf8(self@), r is Ok ==> r->Ok_0@ == utf8_dec(self@) { unimplemented!() }
}
// `S.clone().as_bytes()`: the UTF-8 bytes of (a copy of) the string
#[verifier::external_body] pub fn str_bytes(s: &String) -> (r: &[u8]) ensures r@ == utf8_enc(s@) { unimplemented!() }
pub const DT_DIR: u32 = 4;          // libc::DT_DIR (dirent.h): the entry is a directory
// ---- the callback `&mut dyn FnMut(DirEntry) -> io::Result<usize>`: a generic object with a ghost log of its calls (as in unit ptreaddir)
pub ghost struct CallRec { pub ino: u64, pub off: u64, pub ty: u32, pub name: Seq<u8>, pub ok: Option<usize> }
pub trait AddEntry {
    spec fn log(&self) -> Seq<CallRec>;
    fn call(&mut self, d: DirEntry<'_>) -> (r: Result<usize>)
        ensures final(self).log() == old(self).log().push(CallRec { ino: d.ino, off: d.offset, ty: d.type_, name: d.name@, ok: match r { Ok(n) => Some(n), Err(_) => None } });
}
pub open spec fn new_calls(log: Seq<CallRec>, log0: Seq<CallRec>) -> Seq<CallRec> { log.skip(log0.len() as int) }
pub open spec fn extends(log: Seq<CallRec>, log0: Seq<CallRec>) -> bool { log.len() >= log0.len() && log.take(log0.len() as int) =~= log0 }
// the callback took the entry: Ok(n) with n != 0 (Ok(0) = "no room", Err = failure)
pub open spec fn accepted(c: CallRec) -> bool { c.ok is Some && c.ok->Some_0 != 0 }
// ---- what a pseudo directory lists: every child once, in creation order, entry i resumable by offset i + 1; no "." / ".." (they are no children)
pub struct PEnt { pub ino: u64, pub off: u64, pub name: Seq<u8> }
pub open spec fn dir_entries(v: PView, d: u64) -> Seq<PEnt> {
    Seq::new(v.nodes[d].kids.len(), |i: int| PEnt { ino: v.nodes[d].kids[i], off: (i + 1) as u64, name: utf8_enc(v.nodes[v.nodes[d].kids[i]].name) })
}
pub open spec fn run_after(es: Seq<PEnt>, offset: u64) -> Seq<PEnt> { if offset >= es.len() { Seq::empty() } else { es.skip(offset as int) } }
pub open spec fn call_matches(c: CallRec, e: PEnt) -> bool { c.ino == e.ino && c.off == e.off && c.name == e.name }
// what one do_readdir call may do with the run after the resume offset: offer its entries in order, each with its own ino / offset / name, never go on
// after an entry was not accepted (nothing is skipped), and stop early only for that reason
pub open spec fn delivered_ok(run: Seq<PEnt>, calls: Seq<CallRec>) -> bool {
    &&& calls.len() <= run.len()
    &&& forall|j: int| 0 <= j < calls.len() ==> call_matches(#[trigger] calls[j], run[j])
    &&& forall|j: int| 0 <= j < calls.len() - 1 ==> accepted(#[trigger] calls[j])
    &&& calls.len() < run.len() ==> calls.len() > 0 && !accepted(calls.last())
}
// the entry every pseudo inode is described by: a directory rwxrwxrwx, block size 4096, the three times equal, cacheable for 2^32 s
pub open spec fn pseudo_entry(e: Entry, ino: u64) -> bool {
    &&& e.inode == ino && e.generation == 0 && e.attr_flags == 0
    &&& e.attr == (stat64 { st_ino: ino, st_mode: 0o040777u32, st_blksize: 4096, st_atime: e.attr.st_ctime, st_mtime: e.attr.st_ctime, st_ctime: e.attr.st_ctime, ..zero_stat64() })
    &&& e.attr_timeout == (Duration { secs: 0x1_0000_0000, nanos: 0 }) && e.entry_timeout == e.attr_timeout
}
// the steps of the listing loop (checked)
#[verifier::opaque]
pub open spec fn all_accepted(calls: Seq<CallRec>, pre: Seq<PEnt>) -> bool {
    calls.len() == pre.len() && forall|j: int| 0 <= j < calls.len() ==> call_matches(#[trigger] calls[j], pre[j]) && accepted(calls[j])
}
pub proof fn lemma_all_accepted_empty(run: Seq<PEnt>) ensures all_accepted(Seq::<CallRec>::empty(), run.take(0)) { reveal(all_accepted); }
pub proof fn lemma_step_accept(run: Seq<PEnt>, i: int, calls: Seq<CallRec>, c: CallRec)
    requires 0 <= i < run.len(), all_accepted(calls, run.take(i)), call_matches(c, run[i]), accepted(c)
    ensures all_accepted(calls.push(c), run.take(i + 1))
{ reveal(all_accepted); }
pub proof fn lemma_step_stop(run: Seq<PEnt>, i: int, calls: Seq<CallRec>, c: CallRec)
    requires 0 <= i < run.len(), all_accepted(calls, run.take(i)), call_matches(c, run[i]), !accepted(c)
    ensures delivered_ok(run, calls.push(c))
{
    reveal(all_accepted);
    let cs = calls.push(c);
    assert forall|j: int| 0 <= j < cs.len() implies call_matches(#[trigger] cs[j], run[j]) by { if j < calls.len() { assert(cs[j] == calls[j]); assert(run.take(i)[j] == run[j]); } }
    assert forall|j: int| 0 <= j < cs.len() - 1 implies accepted(#[trigger] cs[j]) by { assert(cs[j] == calls[j]); }
}
pub proof fn lemma_step_done(run: Seq<PEnt>, calls: Seq<CallRec>)
    requires all_accepted(calls, run.take(run.len() as int))
    ensures delivered_ok(run, calls), calls.len() == run.len(), calls.len() > 0 ==> accepted(calls.last())
{ reveal(all_accepted); assert(run.take(run.len() as int) =~= run); }
pub open spec fn dot() -> Seq<char> { seq!['.'] }
pub open spec fn dotdot() -> Seq<char> { seq!['.', '.'] }
// lookup(parent, name): "." is the directory itself, ".." its parent (the root is its own parent), any other name the child of that name
pub open spec fn lookup_target(v: PView, parent: u64, n: Seq<char>) -> Option<u64> {
    if n == dot() { Some(parent) } else if n == dotdot() { Some(v.nodes[parent].parent) } else { child_named(v, parent, n) }
}
"""

SLICE = r"""
// `&v[a..]` on a Vec behind an Arc (Index<RangeFrom<usize>>): panics unless a <= len
#[verifier::external_body] pub fn vx_slice_from<'a, T>(v: &'a Arc<Vec<T>>, a: usize) -> (r: &'a [T]) requires a <= v@.len() ensures r@ == v@.skip(a as int) { unimplemented!() }
"""


def tok(f, callees):
    f.rules = tuple(getattr(f, 'rules', ())) + ('R23',)
    f.ghost_token = dict(TOK, callees=list(callees))
    return f


LOADCLONE_K = (r'self\.children\.load\(\)\.deref\(\)\.deref\(\)\.clone\(\)', 'self.children.load_clone(Tracked(hp))', 'snapshot of the children vector held by the cell (Guard -> Arc -> Vec, cloned), with the ghost heap (R23)')
STORE_K = (r'self\.children\.store\(Arc::new\(children\)\)', 'self.children.store(Arc::new(children), Tracked(hp))', 'ghost heap token (R23) for the ArcSwap store')
NEW_K = (r'ArcSwap::new\(Arc::new\(Vec::new\(\)\)\)', 'ArcSwapH::new(Arc::new(Vec::new()), Tracked(hp))', 'heap cell + ghost heap token (R23)')
LOADCLONE_T = (r'self\.inodes\.load\(\)\.deref\(\)\.deref\(\)\.clone\(\)', 'self.inodes.load_clone(Tracked(hp))', 'snapshot of the table held by the cell (Guard -> Arc -> HashMap, cloned), with the ghost heap (R23)')
STORE_T = (r'self\.inodes\.store\(Arc::new\(hashmap\)\)', 'self.inodes.store(Arc::new(hashmap), Tracked(hp))', 'ghost heap token (R23) for the ArcSwap store')


def remove_child_hook(body, fired):
    """`E.iter().position(|x| C).map(|pos| E.remove(pos)).unwrap();`  ->  `let pos = E.iter().position(|x| { C }); E.remove(pos.unwrap());`
    (Option::map then unwrap: None panics, Some(pos) evaluates the closure on pos; the removed element is dropped either way), then R22."""
    rx = r'children\s*\.iter\(\)\s*\.position\(\|x\|\s*(x\.name == child\.name)\)\s*\.map\(\|pos\|\s*children\.remove\(pos\)\)\s*\.unwrap\(\);'
    n = len(re.findall(rx, body, flags=re.S))
    if n != 1:
        raise X.ExtractError('ANCHOR-LOST remove_child: position/map/unwrap chain matches %d times' % n)
    body = re.sub(rx, lambda m: X._pad('let pos = children.iter().position(|x| { %s }); children.remove(pos.unwrap());' % m.group(1), m.group(0)), body, flags=re.S)
    fired.append('ABSTRACT E.iter().position(|x| C).map(|pos| E.remove(pos)).unwrap(); -> let pos = E.iter().position(|x| {C}); E.remove(pos.unwrap()); (Option::map + unwrap by definition: panics on None, removes at pos otherwise)')
    return X.r22_iter_position(body, fired)


def unit(root='/repo'):
    H0, H1 = '*old(hp)', '*final(hp)'
    items = [
        Copy(ABI, r'pub const ROOT_ID\b'),
        Copy(VMOD, r'pub const VFS_MAX_INO\b'),
        Copy(PFS, r'const PSEUDOFS_NEXT_INODE\b'),
        Raw(CELLS),
        Copy(PFS, r'struct PseudoInode\b', subst=[('children: ArcSwap<Vec<Arc<PseudoInode>>>', 'children: ArcSwapH<Vec<Arc<PseudoInode>>>')]),
        Copy(PFS, r'pub struct PseudoFs\b', subst=[('next_inode: AtomicU64', 'next_inode: AtomicU64H'),
                                                   ('inodes: ArcSwap<HashMap<u64, Arc<PseudoInode>>>', 'inodes: ArcSwapT<HashMap<u64, Arc<PseudoInode>>>')]),
        Raw(SPEC), Raw(PATHS), Raw(WALK),
        Copy(ABI, r'pub struct Attr\b', prefix='#[derive(Clone, Copy)]'),
        Raw(wiremodel.default_text('Attr', wiremodel.parse_struct(root, ABI, 'Attr'))),
        Copy(FSMOD, r'pub struct Context\b', prefix='#[derive(Clone, Copy)]', subst=[('libc::uid_t', 'u32'), ('libc::gid_t', 'u32'), ('libc::pid_t', 'i32')]),
        Copy(FSMOD, r'pub struct Entry\b', prefix='#[derive(Clone, Copy)]'),
        Copy(FSMOD, r'pub struct DirEntry\b', prefix='#[derive(Clone, Copy)]', subst=[('ino64_t', 'u64')]),
        Copy(PFS, r'const PSEUDOFS_DEFAULT_ATTR_TIMEOUT\b'),
        Copy(PFS, r'const PSEUDOFS_DEFAULT_ENTRY_TIMEOUT\b'),
        Raw(FSM),
    ]
    P7 = ['C07']
    # ---------------------------------------------------------------- PseudoInode
    new = tok(Fn(PFS, 'impl PseudoInode', 'new', props=P7, canary=True, body_resub=[NEW_K],
                 ensures=['r.ino == ino && r.parent == parent && r.name == name // [C07.pseudo.node.fields]',
                          '!old(hp).kids.contains_key(r.cell()) && %s == (PHeap { kids: old(hp).kids.insert(r.cell(), Seq::<Arc<PseudoInode>>::empty()), ..%s }) // [C07.pseudo.node.no_children]' % (H1, H0)]), [])
    ins = tok(Fn(PFS, 'impl PseudoInode', 'insert_child', props=P7, canary=True, body_resub=[LOADCLONE_K, STORE_K],
                 requires=['old(hp).kids.contains_key(self.cell())'],
                 ensures=['%s == (PHeap { kids: old(hp).kids.insert(self.cell(), old(hp).kids[self.cell()].push(child)), ..%s }) // [C07.pseudo.insert_child.appended]' % (H1, H0)]), [])
    rmc = tok(Fn(PFS, 'impl PseudoInode', 'remove_child', props=P7, canary=True, body_resub=[LOADCLONE_K, STORE_K],
                 requires=['old(hp).kids.contains_key(self.cell())',
                           'exists|j: int| 0 <= j < old(hp).kids[self.cell()].len() && (#[trigger] old(hp).kids[self.cell()][j]).name@ == child.name@ // [C07.pseudo.remove_child.present]'],
                 ensures=['''exists|p: int| 0 <= p < old(hp).kids[self.cell()].len() && (#[trigger] old(hp).kids[self.cell()][p]).name@ == child.name@
                        && (forall|j: int| 0 <= j < p ==> (#[trigger] old(hp).kids[self.cell()][j]).name@ != child.name@)
                        && %s == (PHeap { kids: old(hp).kids.insert(self.cell(), old(hp).kids[self.cell()].remove(p)), ..%s }) // [C07.pseudo.remove_child.first_named]''' % (H1, H0)],
                 splices=[('while pos_i < children.len() {', 'replace', '''while pos_i < children.len()
                invariant_except_break pos is None,
                invariant pos_i <= children@.len(), children@ == old(hp).kids[self.cell()], *hp == *old(hp),
                    forall|j: int| 0 <= j < pos_i ==> (#[trigger] children@[j]).name@ != child.name@,
                ensures pos is Some ==> pos->Some_0 < children@.len() && children@[pos->Some_0 as int].name@ == child.name@ && (forall|j: int| 0 <= j < pos->Some_0 ==> (#[trigger] children@[j]).name@ != child.name@),
                        pos is None ==> (forall|j: int| 0 <= j < children@.len() ==> (#[trigger] children@[j]).name@ != child.name@),
                        children@ == old(hp).kids[self.cell()], *hp == *old(hp),
                decreases children@.len() - pos_i
            {''')]), [])
    rmc.body_hooks = [remove_child_hook]
    items.append(Group('impl PseudoInode {', [new, ins, rmc]))
    PP = 'impl PseudoFs'
    NEWCALL = (r'PseudoInode::new\(((?:[^()]|\([^()]*\))*?),?\s*\)', r'PseudoInode::new(\1, Tracked(hp))', 'ghost heap token (R23) for the associated function')
    IM0, IM1, NX0 = 'old(self).im(*old(hp))', 'self.im(*final(hp))', 'self.nx(*old(hp))'
    newi = tok(Fn(PFS, PP, 'new_inode', props=P7, canary=True, body_resub=[NEWCALL],
                  requires=['self.cells_ok(*old(hp))',
                            # the counter is never checked by the code: below the limit of the VFS inode encoding only while fewer than 2^56 pseudo inodes were ever created
                            'self.nx(*old(hp)) <= VFS_MAX_INO // [C07.pseudo.new_inode.limit]'],
                  ensures=['r.ino == self.nx(*old(hp)) && r.ino <= VFS_MAX_INO // [C07.pseudo.new_inode.fresh] the number handed out is the counter value: never used before, below the pseudo-inode limit',
                           'r.parent == parent && r.name@ == name@ // [C07.pseudo.new_inode.fields]',
                           '!old(hp).kids.contains_key(r.cell())',
                           '%s == (PHeap { kids: old(hp).kids.insert(r.cell(), Seq::<Arc<PseudoInode>>::empty()), ctrs: old(hp).ctrs.insert(self.next_inode.id(), (r.ino + 1) as u64), tabs: old(hp).tabs }) // [C07.pseudo.new_inode.counter] the counter moves on by one; table and every existing directory untouched' % H1]),
               ['fetch_add'])
    insi = tok(Fn(PFS, PP, 'insert_inode', props=P7, canary=True, body_resub=[LOADCLONE_T, STORE_T],
                  requires=['old(hp).tabs.contains_key(self.inodes.id())'],
                  ensures=['%s == (PHeap { tabs: old(hp).tabs.insert(self.inodes.id(), old(hp).tabs[self.inodes.id()].insert(inode.ino, inode)), ..%s }) // [C07.pseudo.insert_inode.table]' % (H1, H0)]), [])
    rmi = tok(Fn(PFS, PP, 'remove_inode', props=P7, canary=True, body_resub=[LOADCLONE_T, STORE_T],
                 requires=['old(hp).tabs.contains_key(self.inodes.id())'],
                 ensures=['%s == (PHeap { tabs: old(hp).tabs.insert(self.inodes.id(), old(hp).tabs[self.inodes.id()].remove(inode.ino)), ..%s }) // [C07.pseudo.remove_inode.table]' % (H1, H0)]), [])
    crt = tok(Fn(PFS, PP, 'create_inode', props=P7, canary=True,
                 requires=['self.wf(*old(hp))', 'self.im(*old(hp)).contains_key(parent.ino) && self.im(*old(hp))[parent.ino] == *parent',
                           'normal_name(name@)', 'self.nx(*old(hp)) <= VFS_MAX_INO',
                           'forall|j: int| 0 <= j < old(hp).kids[parent.cell()].len() ==> (#[trigger] old(hp).kids[parent.cell()][j]).name@ != name@'],
                 ensures=['self.wf(*final(hp)) // [C07.pseudo.create.wf]',
                          'self.view(*final(hp)) == add_child(self.view(*old(hp)), parent.ino, name@) // [C07.pseudo.create.view] one new directory: numbered by the counter, child of `parent`, appended once to its children; every other node untouched',
                          'r.ino == self.nx(*old(hp)) && r.ino <= VFS_MAX_INO && self.im(*final(hp)) == self.im(*old(hp)).insert(r.ino, r) // [C07.pseudo.create.result]'],
                 splices=[('inode\n    }', 'before', '''proof {
            let h0 = *old(hp);
            lemma_create(self.im(h0), self.root_inode, self.nx(h0), h0, parent.ino, inode, *hp);
        }''')]),
              ['new_inode', 'insert_inode', 'insert_child'])
    gpi = tok(Fn(PFS, PP, 'get_parent_inode', props=P7, canary=True,
                 requires=['self.cells_ok(*old(hp))'],
                 ensures=['r == (if self.view(*old(hp)).nodes.contains_key(ino) { Some(self.view(*old(hp)).nodes[ino].parent) } else { None::<u64> }) // [C07.pseudo.get_parent.result]',
                          '%s == %s // [C07.pseudo.get_parent.frame]' % (H1, H0)],
                 splices=[('|o|', 'closure', '|o: &Arc<PseudoInode>| -> (q: u64) ensures q == o.parent,')]),
              ['load'])
    evi = tok(Fn(PFS, PP, 'evict_inode', props=P7, canary=True,
                 requires=['self.wf(*old(hp))',
                           # the caller (Vfs::umount) evicts the inode path_walk has just returned
                           'self.im(*old(hp)).contains_key(ino) // [C07.pseudo.evict.known]'],
                 ensures=['self.wf(*final(hp)) // [C07.pseudo.evict.wf]',
                          'self.view(*final(hp)) == evict_spec(self.view(*old(hp)), ino) // [C07.pseudo.evict.view] exactly that node goes (table and parent\'s children), never the root, never a directory with children; every other node untouched'],
                 splices=[('let parent = inodes.get(&inode.parent).unwrap();', 'after', '''let ghost h0 = *old(hp); let ghost m0 = self.im(h0);
        proof {
            assert(*hp == h0);
            assert(m0[ino] == *inode && m0.contains_key(m0[ino].parent) && mkids(m0, h0, m0[ino].parent).contains(m0[ino]));
        }'''),
                          ('self.remove_inode(inode, Tracked(hp));', 'after', '''proof {
            let kp = mkids(m0, h0, m0[ino].parent);
            let x = choose|x: int| 0 <= x < kp.len() && (#[trigger] kp[x]).name@ == m0[ino].name@ && (forall|j: int| 0 <= j < x ==> (#[trigger] kp[j]).name@ != m0[ino].name@)
                && hp.kids == h0.kids.insert(m0[m0[ino].parent].cell(), kp.remove(x));
            lemma_evict(m0, self.root_inode, self.nx(h0), h0, ino, x, *hp);
        }''')]),
              ['load', 'remove_child', 'remove_inode'])
    items.append(Group('impl PseudoFs {', [newi, insi, rmi, crt, gpi, evi]))

    # ---------------------------------------------------------------- path_walk / mount
    # the `for` iterator temporaries bound to names (Verus binds the iterator itself with `let`); the two scans of a directory get their own names
    KIDS_LOCKED = (r'(let _guard = self\.lock\.lock\(\);(?:\s|//[^\n]*\n)*)for child in inode\.children\.load\(Tracked\(hp\)\)\.iter\(\) \{',
                   r'\1let kids2 = inode.children.load(Tracked(hp)); for child in kids2.iter() {', 'the temporary of the `for` iterator expression (lives for the whole loop) bound to a name (scan under the lock)')
    KIDS_OPT = (r'for child in inode\.children\.load\(Tracked\(hp\)\)\.iter\(\) \{',
                r'let kids1 = inode.children.load(Tracked(hp)); for child in kids1.iter() {', 'the temporary of the `for` iterator expression bound to a name (optimistic scan)')
    STREQ = (r'\bchild\.name == (name|child_name)\b', r'str_eq(&child.name, \1)', 'every: `String == &str` (PartialEq<&str> for String: same characters) -> model str_eq')
    EINVAL_CL = '|| -> (q: Error) ensures q.os_code() == Some(libc::EINVAL),'
    SCAN1 = """#[verifier::loop_isolation(false)]
                    for child in it1: kids1.iter()
                        invariant *inode == cur0, forall|j: int| 0 <= j < it1.index@ ==> (#[trigger] kids1@[j]).name@ != name@,
                    {"""
    SCAN2 = SCAN1.replace('it1', 'it2').replace('kids1', 'kids2')
    FOUND = """let ghost cur0 = *inode; proof { lemma_child_named(self.im(*hp), self.root_inode, self.nx(*hp), *hp, inode.ino, name@); } // [C07.pseudo.%s.child] the component resolves to THE child of that name"""
    WALK_INV = """
            invariant
                *hp == *old(hp), self.wf(*hp), inodes@ == self.im(*hp), path@ == mountpoint@,
                self.im(*hp).contains_key(inode.ino) && self.im(*hp)[inode.ino] == *inode,
                walk_spec(self.view(*hp), ROOT_ID, path_comps(mountpoint@)) == walk_spec(self.view(*hp), inode.ino, comp_it.rest()), // [C07.pseudo.path_walk.step] each component is resolved from where the previous one ended
            decreases comp_it.rest().len()
        """
    pw = tok(Fn(PFS, PP, 'path_walk', props=P7, canary=True, body_resub=[KIDS_LOCKED, KIDS_OPT, STREQ],
                requires=['self.wf(*old(hp))'],
                ensures=['%s == %s // [C07.pseudo.path_walk.frame] walking changes nothing' % (H1, H0),
                         '!path_has_root(mountpoint@) ==> r is Err && r->Err_0.os_code() == Some(libc::EINVAL) // [C07.pseudo.path_walk.relative]',
                         """path_has_root(mountpoint@) ==> (match walk_spec(self.view(*old(hp)), ROOT_ID, path_comps(mountpoint@)) {
                            PWalk::Found(i) => r is Ok && r->Ok_0 == Some(i),
                            PWalk::Missing => r is Ok && r->Ok_0 is None,
                            PWalk::Bad => r is Err && r->Err_0.os_code() == Some(libc::EINVAL) }) // [C07.pseudo.path_walk.result] Some(ino) iff every component exists, and then the inode the walk ends in; None as soon as one is missing"""],
                splices=[('||', 'closure', EINVAL_CL),
                         ('for child in kids1.iter() {', 'replace', SCAN1), ('for child in kids2.iter() {', 'replace', SCAN2),
                         ('let kids1 = ', 'before', FOUND % 'path_walk')]),
             ['load'])
    pw.body_hooks = [OR.r28_for_owned(r"'outer:\s*for\s+(component)\s+in\s+(path\.components\(\))\s*\{", '', 'comp_it', header_extra=WALK_INV,
                                      mid="#[verifier::loop_isolation(false)] 'outer:")]

    MOUNT_INV = """
            invariant
                self.wf(*hp), inodes@ == self.im(*hp), path@ == mountpoint@,
                self.im(*hp).contains_key(inode.ino) && self.im(*hp)[inode.ino] == *inode,
                mount_spec(self.view(*old(hp)), ROOT_ID, path_comps(mountpoint@)) == mount_spec(self.view(*hp), inode.ino, comp_it.rest()), // [C07.pseudo.mount.step] each component is resolved - or created - from where the previous one ended
                self.nx(*hp) + comp_it.rest().len() <= VFS_MAX_INO + 1,
                forall|j: int| 0 <= j < comp_it.rest().len() && (#[trigger] comp_it.rest()[j]) is Normal ==> normal_name(comp_it.rest()[j]->Normal_0),
            decreases comp_it.rest().len()
        """
    mnt = tok(Fn(PFS, PP, 'mount', props=P7, canary=True, body_resub=[KIDS_LOCKED, KIDS_OPT, STREQ],
                 requires=['self.wf(*old(hp))',
                           # the code never checks the counter: numbers stay below the limit of the VFS inode encoding only while fewer than 2^56 pseudo inodes were ever created (resource assumption)
                           'self.nx(*old(hp)) + path_comps(mountpoint@).len() <= VFS_MAX_INO + 1 // [C07.pseudo.mount.limit]'],
                 ensures=['self.wf(*final(hp)) // [C07.pseudo.mount.wf]',
                          '!path_has_root(mountpoint@) ==> r is Err && r->Err_0.os_code() == Some(libc::EINVAL) && %s == %s // [C07.pseudo.mount.relative]' % (H1, H0),
                          """path_has_root(mountpoint@) ==> (match mount_spec(self.view(*old(hp)), ROOT_ID, path_comps(mountpoint@)) {
                            Some(vi) => r is Ok && r->Ok_0 == vi.1 && self.view(*final(hp)) == vi.0,
                            None => r is Err && r->Err_0.os_code() == Some(libc::EINVAL) }) // [C07.pseudo.mount.result] exactly the missing components are created (each once, under the right parent, numbered by the counter), the inode of the last component is returned, every other node is untouched"""],
                 splices=[('for child in kids1.iter() {', 'replace', SCAN1), ('for child in kids2.iter() {', 'replace', SCAN2),
                          ('let kids1 = ', 'before', FOUND % 'mount')]),
              ['load', 'create_inode'])
    mnt.body_hooks = [OR.r28_for_owned(r"'outer:\s*for\s+(component)\s+in\s+(path\.components\(\))\s*\{", '', 'comp_it', header_extra=MOUNT_INV,
                                       mid="proof { broadcast use axiom_path_comps_normal; } #[verifier::loop_isolation(false)] 'outer:")]
    items.append(Group('impl PseudoFs {', [pw, mnt]))

    # ---------------------------------------------------------------- FileSystem methods
    P16 = ['C16']
    FS = 'impl FileSystem for PseudoFs'
    items.append(Group('impl From<Attr> for stat64 {', [
        Fn(ABI, 'impl From<Attr> for stat64', 'from', props=P7, ensures=['r == stat_of_attr(attr) // [C07.pseudo.attr.fields]'])]))
    EPOCH = (r'SystemTime::UNIX_EPOCH', 'SystemTime::unix_epoch()', 'associated constant of an opaque model type -> constructor function')
    ge = Fn(PFS, PP, 'get_entry', props=P7, canary=True, body_resub=[EPOCH],
            ensures=['pseudo_entry(r, ino) // [C07.pseudo.get_entry.dir] the number asked for, described as a directory'],
            splices=[('attr.blksize = 4096;', 'after', 'proof { assert(0o040000u32 | 0o700u32 | 0o070u32 | 0o007u32 == 0o040777u32) by (bit_vector); assert(1u64 << 32 == 0x1_0000_0000u64) by (bit_vector); }')])
    ENOENT_CL = '|| -> (q: Error) ensures q.os_code() == Some(libc::ENOENT),'
    KIDS_P = (r'for child in pinode\.children\.load\(Tracked\(hp\)\)\.iter\(\) \{', r'let kidsp = pinode.children.load(Tracked(hp)); for child in kidsp.iter() {',
              'the temporary of the `for` iterator expression bound to a name')
    LK_SCAN = """proof { assert forall|j: int| 0 <= j < kidsp@.len() implies (#[trigger] kidsp@[j]).ino != 0 by { assert(mkids(self.im(*hp), *hp, parent)[j] == kidsp@[j]); } }
                #[verifier::loop_isolation(false)]
                for child in itp: kidsp.iter()
                    invariant_except_break ino == 0, forall|j: int| 0 <= j < itp.index@ ==> (#[trigger] kidsp@[j]).name@ != child_name@,
                    ensures ino == 0 ==> (forall|j: int| 0 <= j < kidsp@.len() ==> (#[trigger] kidsp@[j]).name@ != child_name@),
                            ino != 0 ==> (exists|j: int| 0 <= j < kidsp@.len() && (#[trigger] kidsp@[j]).name@ == child_name@ && ino == kidsp@[j].ino),
                {"""
    lk = tok(Fn(PFS, FS, 'lookup', props=P7, canary=True, body_resub=[KIDS_P, STREQ], sig_subst=[('_: &Context', '_ctx: &Context')],     # R3 for a parameter: `_` named (the verus! macro wants identifiers)
                requires=['self.wf(*old(hp))'],
                ensures=['%s == %s // [C07.pseudo.lookup.frame]' % (H1, H0),
                         '!self.view(*old(hp)).nodes.contains_key(parent) ==> r is Err && r->Err_0.os_code() == Some(libc::ENOENT) // [C07.pseudo.lookup.unknown_parent]',
                         'self.view(*old(hp)).nodes.contains_key(parent) && !is_utf8(name@) ==> r is Err && r->Err_0.os_code() == Some(libc::EINVAL) // [C07.pseudo.lookup.bad_name]',
                         """self.view(*old(hp)).nodes.contains_key(parent) && is_utf8(name@) ==> (match lookup_target(self.view(*old(hp)), parent, utf8_dec(name@)) {
                            Some(i) => r is Ok && pseudo_entry(r->Ok_0, i),
                            None => r is Err && r->Err_0.os_code() == Some(libc::ENOENT) }) // [C07.pseudo.lookup.result] the child of `parent` with that name (its inode number, directory attributes), `.` = the directory, `..` = its parent, ENOENT otherwise"""],
                splices=[('||', 'closure', ENOENT_CL),
                         ('|_v|', 'closure', '|_v: Utf8Error| -> (q: Error) ensures q.os_code() == Some(libc::EINVAL),'),
                         ('let mut ino: u64 = 0;', 'after', """proof {
            reveal_strlit("."); reveal_strlit(".."); assert("."@ =~= dot()); assert(".."@ =~= dotdot());
            lemma_child_named(self.im(*hp), self.root_inode, self.nx(*hp), *hp, parent, child_name@);
        }"""),
                         ('for child in kidsp.iter() {', 'replace', LK_SCAN)]),
             ['load'])
    ga = tok(Fn(PFS, FS, 'getattr', props=P7, canary=True, sig_subst=[('_: &Context', '_ctx: &Context'), ('_: Option<u64>', '_fh: Option<u64>')],
                requires=['self.cells_ok(*old(hp))', 'forall|k: u64| #[trigger] self.im(*old(hp)).contains_key(k) ==> self.im(*old(hp))[k].ino == k'],
                ensures=['%s == %s // [C07.pseudo.getattr.frame]' % (H1, H0),
                         '!self.view(*old(hp)).nodes.contains_key(inode) ==> r is Err && r->Err_0.os_code() == Some(libc::ENOENT) // [C07.pseudo.getattr.unknown]',
                         'self.view(*old(hp)).nodes.contains_key(inode) ==> r is Ok && (exists|e: Entry| pseudo_entry(e, inode) && r->Ok_0.0 == e.attr && r->Ok_0.1 == e.attr_timeout) // [C07.pseudo.getattr.dir] the attributes lookup reports for the same number'],
                splices=[('||', 'closure', ENOENT_CL),
                         ('|inode|', 'closure', '|inode: &Arc<PseudoInode>| -> (q: u64) ensures q == inode.ino,')]),
             ['load'])
    acc = Fn(PFS, FS, 'access', props=P7, canary=True, ensures=['r is Ok // [C07.pseudo.access.ok] every pseudo directory is accessible to everyone (mode rwxrwxrwx)'])
    items.append(Group('impl PseudoFs {', [ge, lk, ga, acc]))

    # ---------------------------------------------------------------- do_readdir / readdir / readdirplus (C16)
    DR_SIG = [('fn do_readdir(', 'fn do_readdir<A: AddEntry>('), ('add_entry: &mut dyn FnMut(DirEntry) -> Result<usize>', 'add_entry: &mut A')]
    CALLS = 'new_calls(final(add_entry).log(), old(add_entry).log())'
    ENTS = 'dir_entries(self.view(*old(hp)), parent)'
    DR_RESUB = [(r'\badd_entry\(', 'add_entry.call(', 'call of the `&mut dyn FnMut` callback -> method call on the generic AddEntry object (ghost log)'),
                (r'child\.name\.clone\(\)\.as_bytes\(\)', 'str_bytes(&child.name)', 'String::clone().as_bytes(): the UTF-8 bytes of a copy of the name -> model str_bytes'),
                (r'for child in children\[offset as usize\.\.\]\.iter\(\) \{', 'let run = vx_slice_from(&children, offset as usize); for child in run.iter() {',
                 'range indexing `&v[a..]` -> model vx_slice_from (in-bounds is its precondition, i.e. "cannot panic" is proved); the `for` iterator temporary bound to a name')]
    DR_LOOP = """let ghost es = dir_entries(self.view(*hp), parent); let ghost log0 = add_entry.log(); let ghost kp = mkids(self.im(*hp), *hp, parent); let ghost run_e = run_after(es, offset);
        proof {
            assert(es.len() == kp.len() && run_e.len() == run@.len());
            assert forall|j: int| 0 <= j < kp.len() implies es[j].ino == (#[trigger] kp[j]).ino && es[j].name == utf8_enc(kp[j].name@) by {
                assert(mkids(self.im(*hp), *hp, parent)[j] == kp[j]); assert(self.im(*hp)[kp[j].ino] == kp[j]);
            }
            lemma_all_accepted_empty(run_e);
        }
        let ghost mut stopped = false;
        #[verifier::loop_isolation(false)]
        for child in it: run.iter()
            invariant_except_break !stopped,
            invariant
                extends(add_entry.log(), log0),
                !stopped ==> next == offset + 1 + it.index@, // [C16.pseudo.do_readdir.offsets] entry i carries offset i + 1: resuming from it starts right after that entry
                !stopped ==> all_accepted(new_calls(add_entry.log(), log0), run_e.take(it.index@ as int)), // [C16.pseudo.do_readdir.loop] every child of the run so far was offered once, in order, and accepted
                stopped ==> delivered_ok(run_e, new_calls(add_entry.log(), log0)) && new_calls(add_entry.log(), log0).len() > 0 && new_calls(add_entry.log(), log0).last().ok == Some(0usize), // [C16.pseudo.do_readdir.stop] Ok(0) = no room: stop there without skipping the entry
                forall|j: int| 0 <= j < new_calls(add_entry.log(), log0).len() ==> (#[trigger] new_calls(add_entry.log(), log0)[j]).ty == DT_DIR, // [C16.pseudo.do_readdir.type]
        {
            let ghost log1 = add_entry.log(); let ghost i = it.index@ as int;
            proof { assert(*child == kp[offset + i]); assert(run_e[i] == es[offset + i]); }"""
    DR_ARM = 'proof { let calls1 = new_calls(log1, log0); let c = add_entry.log().last(); assert(new_calls(add_entry.log(), log0) =~= calls1.push(c)); assert(add_entry.log().take(log0.len() as int) =~= log1.take(log0.len() as int)); assert(call_matches(c, run_e[i])); /* [C16.pseudo.do_readdir.entry] the child is offered with its own number, offset and name */ %s }'
    dr = tok(Fn(PFS, PP, 'do_readdir', props=P16, canary=True, ret_name='res', sig_subst=DR_SIG, body_resub=DR_RESUB,
                requires=['self.wf(*old(hp))'],
                ensures=['%s == %s // [C16.pseudo.do_readdir.frame] listing changes nothing' % (H1, H0),
                         'extends(final(add_entry).log(), old(add_entry).log())',
                         'size == 0 ==> res is Ok && %s.len() == 0 // [C16.pseudo.do_readdir.size0]' % CALLS,
                         'size != 0 && !self.view(*old(hp)).nodes.contains_key(parent) ==> res is Err && res->Err_0.os_code() == Some(libc::ENOENT) && %s.len() == 0 // [C16.pseudo.do_readdir.unknown]' % CALLS,
                         # the core: from offset 0 or the offset of any entry delivered before, the run that starts right after it is offered, each entry once, in order
                         'size != 0 && self.view(*old(hp)).nodes.contains_key(parent) ==> delivered_ok(run_after(%s, offset), %s) // [C16.pseudo.do_readdir.resume] the entries after the resume offset are offered each once, in order, nothing after a refusal, nothing skipped; an offset at or beyond the end gives the empty reply' % (ENTS, CALLS),
                         'forall|j: int| 0 <= j < %s.len() ==> (#[trigger] %s[j]).ty == DT_DIR // [C16.pseudo.do_readdir.type] every pseudo inode is a directory' % (CALLS, CALLS),
                         'size != 0 && self.view(*old(hp)).nodes.contains_key(parent) ==> (res is Err <==> %s.len() > 0 && %s.last().ok is None) // [C16.pseudo.do_readdir.err] an error is the callback\'s own, handed on; the listing itself cannot fail' % (CALLS, CALLS)],
                splices=[('||', 'closure', ENOENT_CL),
                         ('^', 'after', 'proof { let l = add_entry.log(); assert(l.take(l.len() as int) =~= l); assert(new_calls(l, l) =~= Seq::<CallRec>::empty()); }'),
                         ('let mut next = offset + 1;', 'before', '''proof {
            assert(offset < u64::MAX); // [C16.pseudo.do_readdir.offset_overflow]
        }'''),
                         ('let run = vx_slice_from(&children, offset as usize); for child in run.iter() {', 'replace', 'let run = vx_slice_from(&children, offset as usize);\n' + DR_LOOP),
                         ('Ok(0) => break,', 'replace', 'Ok(0) => { ' + DR_ARM % 'lemma_step_stop(run_e, i, calls1, c); stopped = true;' + ' break },'),
                         ('Ok(_) => next += 1,', 'replace', 'Ok(_) => { ' + DR_ARM % 'lemma_step_accept(run_e, i, calls1, c);' + ' next += 1 },'),
                         ('Err(r) => return Err(r),', 'replace', 'Err(r) => { ' + DR_ARM % 'lemma_step_stop(run_e, i, calls1, c);' + ' return Err(r) },'),
                         ('Ok(())\n    }', 'before', 'proof { if !stopped { lemma_step_done(run_e, new_calls(add_entry.log(), log0)); } }')]),
             ['load'])
    RD_SIG = [('fn readdir(', 'fn readdir<A: AddEntry>('), ('add_entry: &mut dyn FnMut(DirEntry) -> Result<usize>', 'add_entry: &mut A'), ('_: u64', '_fh: u64')]
    rd = tok(Fn(PFS, FS, 'readdir', props=P16, canary=True, ret_name='res', sig_subst=RD_SIG,
                requires=['self.wf(*old(hp))'],
                ensures=[c.replace('parent', 'inode').replace('do_readdir', 'readdir') for c in dr.ensures]),
             ['do_readdir'])
    items.append(Raw(SLICE))
    items.append(Group('impl PseudoFs {', [dr, rd]))
    u = Unit('pseudofs', items, preludes=['base.rs', 'stdmodel.rs'], generic_tags={})
    return u
