"""Unit `virtiofsw` (C17, C04): the virtio-fs writer (src/transport/virtiofs/mod.rs VirtioFsWriter::{write, write_from, write_from_at,
write_all_from, split_at, commit, check_available_space, available_bytes, bytes_written}) and the file-transfer / split operations of
Reader (src/transport/mod.rs Reader::{read_to, read_to_at, split_at, bytes_read}) on top of the IoBuffers contracts PROVED in unit
`iobuffers` (imported here as signature + contract, same clause text).

C17, phrased per call over the ghost dirty log (see units/iobuffers.py):
  (1) every writer operation appends to the log exactly the addresses it filled - the prefix of the cursor it consumed;
  (2) nothing else is appended: failed operations, reads (Reader::*), split_at and commit leave the log as it was.
"The addresses it filled" is fixed by the callback each operation hands to consume_for_write:
  * write: the real closure text is verified - with the raw `copy_nonoverlapping` abstracted (logged) by a model call that records the
    destination range in a closure-local ghost log - to fill exactly the first `total` offered addresses and to return `total`;
  * write_from / write_from_at: the file's `read_vectored(_at)_volatile` is a dependency (trait FileReadWriteVolatile): ASSUMED to fill
    exactly the first `n` offered bytes when it returns Ok(n) (readv/preadv semantics) and nothing on Err."""
from vx.api import Unit, Fn, Copy, Raw, Group
from vx.units import iobuffers as IO

T = 'src/transport/mod.rs'
V = 'src/transport/virtiofs/mod.rs'

MODEL2 = r'''
// std::cmp::min on usize (the only instantiation used)
pub mod cmp { use vstd::prelude::*; pub fn min(a: usize, b: usize) -> (r: usize) ensures r == (if a <= b { a } else { b }) { if a <= b { a } else { b } } }
#[verifier::external_body] pub fn fmt_opaque() -> String { unimplemented!() }
// crate::transport::Writer (enum over the transports): only passed through by commit
#[verifier::external_body] #[verifier::reject_recursive_types(S)] pub struct Writer<'a, S> { _p: PhantomData<&'a S> }
// crate::file_traits::FileReadWriteVolatile: a dependency.  ASSUMED: Ok(n) => n <= the bytes offered (and, for C17, that exactly the
// first n offered bytes were filled, nothing on Err - the meaning of the result, not expressible without a memory model).
// The receiver is `&mut self` in the real trait; the model takes `&self` because the file position is not modelled
// (Verus rejects closures that capture a mutable reference; the closure texts `|bufs| src.read_vectored_volatile(bufs)` are unchanged).
pub trait FileReadWriteVolatile {
    fn read_vectored_volatile(&self, bufs: &[FileVolatileSlice]) -> (r: io::Result<usize>) ensures r is Ok ==> r->Ok_0 <= fcells(bufs@).len();
    fn read_vectored_at_volatile(&self, bufs: &[FileVolatileSlice], offset: u64) -> (r: io::Result<usize>) ensures r is Ok ==> r->Ok_0 <= fcells(bufs@).len();
    fn write_vectored_volatile(&self, bufs: &[FileVolatileSlice]) -> (r: io::Result<usize>) ensures r is Ok ==> r->Ok_0 <= fcells(bufs@).len();
    fn write_vectored_at_volatile(&self, bufs: &[FileVolatileSlice], offset: u64) -> (r: io::Result<usize>) ensures r is Ok ==> r->Ok_0 <= fcells(bufs@).len();
}
// `impl<T: FileReadWriteVolatile + ?Sized> FileReadWriteVolatile for &mut T` (file_traits.rs): forwards to T
impl<T: FileReadWriteVolatile> FileReadWriteVolatile for &mut T {
    #[verifier::external_body] fn read_vectored_volatile(&self, bufs: &[FileVolatileSlice]) -> (r: io::Result<usize>) { unimplemented!() }
    #[verifier::external_body] fn read_vectored_at_volatile(&self, bufs: &[FileVolatileSlice], offset: u64) -> (r: io::Result<usize>) { unimplemented!() }
    #[verifier::external_body] fn write_vectored_volatile(&self, bufs: &[FileVolatileSlice]) -> (r: io::Result<usize>) { unimplemented!() }
    #[verifier::external_body] fn write_vectored_at_volatile(&self, bufs: &[FileVolatileSlice], offset: u64) -> (r: io::Result<usize>) { unimplemented!() }
}
// ---- the raw copy into guest memory.  `unsafe { copy_nonoverlapping(SRC.as_ptr(), DST.as_ptr(), N); }` with DST a
// FileVolatileSlice is abstracted (ABSTRACT, logged) by this call: it needs N bytes on both sides (memory safety of the raw copy)
// and writes the N guest bytes starting at DST's address, recorded in a ghost log local to the calling closure.
pub tracked struct GuestWrites { pub ghost written: Seq<int> }
#[verifier::external_body]
pub fn vx_copy_to_guest(src: &[u8], dst: &FileVolatileSlice<'_>, n: usize, Tracked(gw): Tracked<&mut GuestWrites>)
    requires n <= src@.len(), n <= dst.slen(), // [C04.vwrite.copy_in_bounds]
    ensures final(gw).written =~= old(gw).written + range(dst.addr(), n as nat)
{ unimplemented!() }
pub proof fn lemma_fcells_take_next(b: Seq<FileVolatileSlice<'_>>, i: int)
    requires 0 <= i < b.len()
    ensures fcells(b.take(i + 1)) =~= fcells(b.take(i)) + range(b[i].addr(), b[i].slen())
{
    assert(b.take(i + 1) =~= b.take(i).push(b[i]));
    lemma_fcells_push(b.take(i), b[i]);
}
'''

OLDW = 'cells(old(self).buffers.buffers@)'
NO_OVF = 'old(self).buffers.bytes_consumed + %s.len() <= usize::MAX' % OLDW
UNMARKED = IO.UNMARKED
STAYS = 'final(self).buffers.buffers@ == old(self).buffers.buffers@ && final(self).buffers.bytes_consumed == old(self).buffers.bytes_consumed'


def advance(n):
    return ('final(self).buffers.bytes_consumed == old(self).buffers.bytes_consumed + %s && cells(final(self).buffers.buffers@) =~= %s.skip(%s as int)' % (n, OLDW, n))


def parts():
    """the Fn lists and contract builders of this unit (also used by unit `virtiofsw_async`, which assumes what is proved here)"""
    SW = "impl<'a, S: BitmapSlice> VirtioFsWriter<'a, S>"
    SWIO = "impl<S: BitmapSlice> io::Write for VirtioFsWriter<'_, S>"
    SR = "impl<S: BitmapSlice> Reader<'_, S>"
    SIO = "impl<S: BitmapSlice> IoBuffers<'_, S>"

    def tok(f, callees=None):
        f.rules = ('R23',)
        f.ghost_token = dict(IO.TOK, callees=['consume', 'consume_for_read', 'consume_for_write', 'mark_dirty'] + list(callees or []))
        return f
    CB = "|bufs: &[FileVolatileSlice]| -> (q: io::Result<usize>) ensures q is Ok ==> q->Ok_0 <= fcells(bufs@).len()"
    # ---- C17 clauses of the three single-shot writer operations (count = the requested amount)
    def wr_contract(op, amount=None):
        e = ['r is Err ==> %s // [C04.%s.err_nothing_moves]' % (STAYS, op),
             'r is Ok ==> r->Ok_0 <= %s.len() && %s // [C04.%s.advance]' % (OLDW, advance('r->Ok_0'), op),
             # (1)+(2): exactly the filled addresses - the first r bytes of the reply space in front of the cursor - are marked
             'r is Ok ==> final(dm).marked =~= old(dm).marked + %s.subrange(0, r->Ok_0 as int) // [C17.%s.written_marked_exactly]' % (OLDW, op),
             # (2): a refused or failed operation marks nothing
             'r is Err && %s ==> %s // [C17.%s.err_unmarked]' % (NO_OVF, UNMARKED, op)]
        if amount:
            e.append('r is Ok ==> r->Ok_0 == minn(%s as int, %s.len() as int) // [C04.%s.amount]' % (amount, OLDW, op))
            # "an operation that would exceed the remaining space fails without writing"
            e.append('%s.len() <= usize::MAX && %s > %s.len() ==> r is Err // [C04.%s.exceeds_fails]' % (OLDW, amount, OLDW, op))
        else:
            e.append('r is Ok ==> r->Ok_0 <= count')
            # the space check comes first: a request beyond the remaining space is refused (and then nothing moves, nothing is marked)
            e.append('%s.len() <= usize::MAX && count > %s.len() ==> r is Err // [C04.%s.exceeds_fails]' % (OLDW, OLDW, op))
        return e
    writer = [
        Fn(V, SW, 'available_bytes', ensures=['cells(self.buffers.buffers@).len() <= usize::MAX ==> r == cells(self.buffers.buffers@).len()'], props=['C04']),
        Fn(V, SW, 'bytes_written', ensures=['r == self.buffers.bytes_consumed'], props=['C04']),
        Fn(V, SW, 'check_available_space',
           ensures=['r is Ok ==> len1 + len2 + len3 <= usize::MAX // [C04.vwriter.space]',
                    'r is Ok && cells(self.buffers.buffers@).len() <= usize::MAX ==> len1 + len2 + len3 <= cells(self.buffers.buffers@).len() // [C04.vwriter.space]',
                    'cells(self.buffers.buffers@).len() <= usize::MAX && len1 + len2 + len3 > cells(self.buffers.buffers@).len() ==> r is Err // [C04.vwriter.space]'],
           props=['C04'], canary=True),
        tok(Fn(V, SWIO, 'write', ensures=wr_contract('vwrite', 'buf@.len()'), props=['C17'], canary=True,
               body_resub=[(r'unsafe\s*\{(?:\s*//[^\n]*\n)*\s*copy_nonoverlapping\((\w+)\.as_ptr\(\),\s*(\w+)\.as_ptr\(\),\s*(\w+)\);\s*\}',
                            r'vx_copy_to_guest(\1, \2, \3, Tracked(&mut gw));',
                            'raw copy into guest memory -> model call recording the destination range (n bytes at dst)')],
               splices=[('|bufs|', 'closure', "|bufs: &[FileVolatileSlice]| -> (q: io::Result<usize>) ensures q is Ok, q->Ok_0 == minn(buf@.len() as int, fcells(bufs@).len() as int)"),
                        ('let mut rem = buf;', 'before', 'let tracked mut gw = GuestWrites { written: Seq::empty() }; let ghost data = buf@; proof { axiom_slice_len(buf); assert(bufs@.take(0) =~= Seq::empty()); assert(bufs@.take(bufs@.len() as int) =~= bufs@); }'),
                        ('for buf in bufs {', 'replace', '''for buf in it: bufs
                invariant
                    it.index@ <= bufs@.len(), total + rem@.len() == data.len(), data.len() <= 0x7fff_ffff_ffff_ffff,
                    total <= fcells(bufs@.take(it.index@)).len(),
                    rem@.len() > 0 ==> total == fcells(bufs@.take(it.index@)).len(), // [C17.vwrite.fills_reported_prefix]
                    // the closure has filled exactly the first `total` offered addresses (and returns `total`): this ties the result of
                    // consume_for_write - the marked prefix - to the guest memory actually modified
                    gw.written =~= fcells(bufs@.take(it.index@)).subrange(0, total as int), // [C17.vwrite.fills_reported_prefix]
                    bufs@.take(bufs@.len() as int) =~= bufs@,
            {
                proof { lemma_fcells_take_next(bufs@, it.index@); }'''),
                        ]),
            ),
        tok(Fn(V, SW, 'write_from', ensures=wr_contract('write_from'), props=['C17'], canary=True,
               splices=[('|bufs|', 'closure', CB)])),
        tok(Fn(V, SW, 'write_from_at', ensures=wr_contract('write_from_at'), props=['C17'], canary=True,
               splices=[('|bufs|', 'closure', CB)])),
        tok(Fn(V, SW, 'write_all_from',
               ensures=[
                   # whatever happens, the log grows by exactly the addresses the cursor moved over (every partial transfer included)
                   '''%s ==> ({ let n = final(self).buffers.bytes_consumed - old(self).buffers.bytes_consumed;
                        0 <= n <= count_init && n <= %s.len() && cells(final(self).buffers.buffers@) =~= %s.skip(n)
                        && final(dm).marked =~= old(dm).marked + %s.subrange(0, n) && (r is Ok ==> n == count_init) }) // [C17.write_all_from.written_marked_exactly]''' % (NO_OVF, OLDW, OLDW, OLDW),
                   # "an operation that would exceed the remaining space fails without writing"
                   '%s && count_init > %s.len() ==> r is Err && %s && %s // [C04.write_all_from.exceeds_fails]' % (NO_OVF, OLDW, STAYS, UNMARKED)],
               # a `mut` parameter has no name for its initial value inside a loop body: renamed in the signature and rebound at entry (logged)
               sig_subst=[('mut count: usize', 'count_init: usize')],
               attrs=['#[verifier::exec_allows_no_decreases_clause]'], props=['C17'], canary=True,
               splices=[('^', 'after', 'let mut count = count_init;'),
                        ('while count > 0 {', 'replace', '''let ghost count0 = count; let ghost all = cells(self.buffers.buffers@); let ghost bc0 = self.buffers.bytes_consumed; let ghost m0 = dm.marked;
        let ghost novf = bc0 + all.len() <= usize::MAX;
        proof { assert(all.skip(0) =~= all); assert(all.subrange(0, 0) =~= Seq::<int>::empty()); }
        while count > 0
            invariant
                count <= count0, count0 == count_init, all == cells(old(self).buffers.buffers@), bc0 == old(self).buffers.bytes_consumed, m0 == old(dm).marked,
                novf == (bc0 + all.len() <= usize::MAX),
                novf ==> count0 <= all.len(), // [C04.write_all_from.exceeds_fails]
                novf ==> (count0 - count) <= all.len() && self.buffers.bytes_consumed == bc0 + (count0 - count)
                    && cells(self.buffers.buffers@) =~= all.skip(count0 - count) && dm.marked =~= m0 + all.subrange(0, count0 - count), // [C17.write_all_from.loop]
        {
            let ghost k = count0 - count;
            proof {
                if novf { assert(self.buffers.bytes_consumed + all.skip(k).len() <= usize::MAX); }
                assert forall|n: int| 0 <= n && k + n <= all.len() implies #[trigger] all.skip(k).subrange(0, n) =~= all.subrange(k, k + n)
                    && all.subrange(0, k) + all.subrange(k, k + n) =~= all.subrange(0, k + n) && #[trigger] all.skip(k).skip(n) =~= all.skip(k + n) by { }
            }'''),
                        ]),
            ['write_from']),
        Fn(V, SW, 'split_at',
           ensures=['r is Ok <==> offset <= %s.len() // [C04.vsplit_at.bounds]' % OLDW,
                    'r is Err ==> %s // [C04.vsplit_at.err_nothing_moves]' % STAYS,
                    'r is Ok ==> cells(final(self).buffers.buffers@) =~= %s.subrange(0, offset as int) && final(self).buffers.bytes_consumed == old(self).buffers.bytes_consumed // [C04.vsplit_at.first]' % OLDW,
                    'r is Ok ==> cells(r->Ok_0.buffers.buffers@) =~= %s.skip(offset as int) && r->Ok_0.buffers.bytes_consumed == 0 // [C04.vsplit_at.second]' % OLDW],
           splices=[('|buffers|', 'closure', "|buffers: IoBuffers<'a, S>| -> (q: VirtioFsWriter<'a, S>) ensures q.buffers == buffers")],
           props=['C04'], canary=True),
        Fn(V, SW, 'commit', ensures=['r == Ok::<usize, io::Error>(0usize) && %s // [C17.commit.noop]' % STAYS], props=['C17']),
    ]

    def rd_contract(op):
        return ['r is Err ==> final(self).buffers.buffers@ == old(self).buffers.buffers@ && final(self).buffers.bytes_consumed == old(self).buffers.bytes_consumed',
                'r is Ok ==> r->Ok_0 <= count && r->Ok_0 <= %s.len() && %s // [C04.%s.advance]' % (OLDW, advance('r->Ok_0'), op),
                # (2): request buffers the server only read are never marked
                '%s // [C17.%s.unmarked]' % (UNMARKED, op)]
    reader = [
        Fn(T, SR, 'bytes_read', ensures=['r == self.buffers.bytes_consumed'], props=['C04']),
        tok(Fn(T, SR, 'read_to', ensures=rd_contract('read_to'), props=['C17'], canary=True, splices=[('|bufs|', 'closure', CB)])),
        tok(Fn(T, SR, 'read_to_at', ensures=rd_contract('read_to_at'), props=['C17'], canary=True, splices=[('|bufs|', 'closure', CB)])),
        tok(Fn(T, SR, 'read_exact_to', ensures=['%s // [C17.read_exact_to.unmarked]' % UNMARKED], props=['C17'], canary=True,
               attrs=['#[verifier::exec_allows_no_decreases_clause]'],
               splices=[('while count > 0 {', 'replace', 'while count > 0 invariant dm.marked =~= old(dm).marked, // [C17.read_exact_to.unmarked]\n        {')]),
            ['read_to']),
        Fn(T, SR, 'split_at',
           ensures=['r is Ok <==> offset <= %s.len() // [C04.rsplit_at.bounds]' % OLDW,
                    'r is Ok ==> cells(final(self).buffers.buffers@) =~= %s.subrange(0, offset as int) && final(self).buffers.bytes_consumed == old(self).buffers.bytes_consumed // [C04.rsplit_at.first]' % OLDW,
                    'r is Ok ==> cells(r->Ok_0.buffers.buffers@) =~= %s.skip(offset as int) && r->Ok_0.buffers.bytes_consumed == 0 // [C04.rsplit_at.second]' % OLDW],
           splices=[('|buffers|', 'closure', "|buffers: IoBuffers<'a, S>| -> (q: Reader<'a, S>) ensures q.buffers == buffers")],
           props=['C04'], canary=True),
    ]
    # IoBuffers::available_bytes folds over the buffer list with an iterator adapter (no Verus specification): contract only (ASSUMED)
    avail = Fn(T, SIO, 'available_bytes', ensures=['cells(self.buffers@).len() <= usize::MAX ==> r == cells(self.buffers@).len()'], external_body=True, props=['C04'])
    # every IoBuffers entry point that takes the token is declared, so that a writer that reaches the cursor some other way
    # (consume / consume_for_read instead of consume_for_write, mark_used without mark_dirty) still type-checks and fails its contract
    io_ext = [f for f in IO.iobuffers_fns(external=True) if f.name in ('consume', 'consume_for_read', 'consume_for_write', 'mark_dirty', 'mark_used', 'split_at')]
    io_group = [avail, Fn(T, SIO, 'bytes_consumed', ensures=['r == self.bytes_consumed'], props=['C04'])] + io_ext
    return dict(writer=writer, reader=reader, io_group=io_group, tok=tok, wr_contract=wr_contract, advance=advance)


def as_external(f):
    """signature + contract only (assumed; proved in the unit that owns the function)"""
    f.external_body, f.splices, f.body_resub, f.attrs, f.canary = True, [], [], [], False
    return f


def unit(root='/repo'):
    P = parts()
    items = [
        Raw(IO.MODEL),
        Copy(T, r"struct IoBuffers<'a, S>", prefix='#[verifier::reject_recursive_types(S)]'),
        Copy(V, r"pub struct VirtioFsWriter<'a, S", subst=[('S = ()', 'S')], prefix='#[verifier::reject_recursive_types(S)]'),
        Copy(T, r"pub struct Reader<'a, S", subst=[('S = ()', 'S')], prefix='#[verifier::reject_recursive_types(S)]'),
        Raw(IO.SPEC),
        Raw(MODEL2),
        # proved in unit `iobuffers` (same clause text), assumed here
        Group("impl<'a, S: BitmapSlice> IoBuffers<'a, S> {", P['io_group']),
        Group("impl<'a, S: BitmapSlice> VirtioFsWriter<'a, S> {", P['writer']),
        Group("impl<'a, S: BitmapSlice> Reader<'a, S> {", P['reader']),
    ]
    return Unit('virtiofsw', items, preludes=['base.rs'])
