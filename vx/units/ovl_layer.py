"""Unit `ovl_layer` (C10, C11): src/api/filesystem/overlay.rs - the whiteout / opaque predicates and the Layer helper operations.

Decided on the real text:
  * is_whiteout(stat)  <=>  character device with device number 0 (major 0, minor 0 by libc's split of the 64-bit number, proved to cover
    all 64 bits), is_dir / is_chardev  - [C10.is_whiteout.*]
  * Layer::create_whiteout makes exactly such a node (the only mknod it may issue has S_IFCHR and rdev 0), under the given name only, only
    where lookup finds nothing; an existing non-whiteout entry is never replaced (EEXIST); an existing whiteout is returned as it is.
  * Layer::delete_whiteout unlinks only when lookup shows a whiteout under that name (EINVAL for anything else that exists).
  * Layer::is_whiteout(inode) <=> getattr shows a whiteout;  Layer::is_opaque(inode) <=> one of the three opaque xattrs holds "y"/"Y" on a
    directory;  Layer::set_opaque writes one of the names is_opaque looks at, with a value is_opaque accepts, on a directory only.
Assumed: the layer's own FileSystem operations (model in ovl_common), kernel meaning of mknod / xattrs, UTF-8 encoding of names (str_bytes)."""
from vx.api import Unit, Fn, Copy, Raw, Group
from vx import ovlrules as R
from vx.units import ovl_common as C

LAYER = C.LAYER
T = C.LAYER_TRAIT


def unit(root='/repo'):
    notes = []
    items = C.common_items(root, notes)
    lit_raw, lit_subs = C.byte_literals(root, LAYER, T, 'set_opaque', 'set_opaque')
    items.append(lit_raw)
    items += [
        Fn(LAYER, None, 'is_dir', props=['C10'], ensures=['r == sp_is_dir(st) // [C10.is_dir]']),
        Fn(LAYER, None, 'is_chardev', props=['C10'], ensures=['r == (st.st_mode & 0o170000u32 == 0o020000u32) // [C10.is_chardev]']),
        Fn(LAYER, None, 'is_whiteout', props=['C10'], canary=True, body_resub=[C.LIBC_DEV],
           ensures=['r == sp_whiteout(st) // [C10.is_whiteout.chardev00] a whiteout is a character device with device number 0/0, nothing else'],
           splices=[('^', 'after', 'proof { libc_dev::lemma_dev00(st.st_rdev); }')]),
        Fn(LAYER, None, 'to_cstring', props=['C10'], external_body=True, ensures=['r is Ok ==> r->Ok_0@ == str_bytes(name@)']),
    ]
    fns = {f.name: f for f in C.layer_trait(root, external=False)}
    fns['set_opaque'].body_resub = fns['set_opaque'].body_resub + lit_subs
    fns['create_whiteout'].splices = [('^', 'after', 'proof { assert((0o020000u32 | 0o777u32) & 0o170000u32 == 0o020000u32) by (bit_vector); }')]
    # is_opaque: the local closure `check_attr` becomes a method (R26); it captures `self` and `ctx` immutably
    fns['is_opaque'].body_hooks = [R.r26_parent_hook('check_attr', 'self.check_attr(ctx, ')]
    NAMES = ('^', 'after', 'proof { lemma_str_consts(); }')      # the bytes of the crate's name constants (R11); the specification has its own (pinned) names
    fns['is_opaque'].splices = list(fns['is_opaque'].splices) + [NAMES]
    fns['set_opaque'].splices = list(fns['set_opaque'].splices) + [NAMES]
    check_attr = Fn(LAYER, T, 'check_attr', props=['C10'], sig_subst=C.LAYER_SIG,
                    body_resub=[(r'CString::new\(attr_name\)\?', 'cstring_new_io(attr_name)?', 'CString::new + `?` (NulError -> io::Error by From) as one model call')],
                    ensures=['r is Ok ==> (r->Ok_0 <==> sp_xattr_opaque(self.s_getxattr(*ctx, inode, str_bytes(attr_name@), attr_size))) // [C10.layer.is_opaque.value] an xattr marks a directory opaque iff its value is "y" (one byte)'])
    check_attr.locate = R.r26_locate(T, 'is_opaque', 'check_attr', '&self', ['ctx: &Context'])
    trait_items = [Raw('    fn root_inode(&self) -> u64;')] + [fns[n] for n in ('create_whiteout', 'delete_whiteout', 'is_whiteout', 'set_opaque')] + [check_attr, fns['is_opaque']]
    items.append(Group('pub trait Layer: FileSystem {', trait_items))
    items.append(C.layer_impl())
    # what set_opaque writes, is_opaque reads (one statement, checked by Verus): the value "y" under the name set_opaque uses is an opaque mark
    items.append(Raw('''
proof fn lemma_set_opaque_is_opaque<L: FileSystem>(l: &L, ctx: Context, ino: u64)
    requires l.s_getxattr(ctx, ino, opq_name0(), OPAQUE_XATTR_LEN) is Ok, l.s_getxattr(ctx, ino, opq_name0(), OPAQUE_XATTR_LEN)->Ok_0 is Value,
             l.s_getxattr(ctx, ino, opq_name0(), OPAQUE_XATTR_LEN)->Ok_0->Value_0@ == seq![121u8]      // getxattr returns what set_opaque wrote
    ensures opaque_marked(l, ctx, ino) && sp_opaque_name(opq_name0()) && sp_opaque_value(seq![121u8])   // [C10.set_opaque.is_opaque]
{ }
'''))
    u = Unit('ovl_layer', items, preludes=['base.rs', 'stdmodel.rs'], generic_tags=C.GENERIC_TAGS, notes='; '.join(notes))
    u.prelude_subst = [C.LIBC_EXTRA]
    return u
