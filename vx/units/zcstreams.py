"""Unit `zcstreams` (C04; async twins C20): the "zero copy" stream layer between the request handlers and the transports.

 1. src/api/filesystem/mod.rs - the PROVIDED methods of `trait ZeroCopyReader` (read_exact_to, copy_to_end) and `trait ZeroCopyWriter`
    (write_all_from, copy_to_end) on their real text, against the trait-level contract of the one REQUIRED transfer method (read_to /
    write_from) they are built on.  Every operation on the stream is recorded in a ghost log (`ZcLog`, one erased token threaded by rule
    R23): (operation kind, file identity, count, offset, result).  With C = the log afterwards, L0 = its length before
    (tags `C04.zc.<fn>.<aspect>`; copy_to_end of the reader / writer trait: `r_copy_to_end` / `w_copy_to_end`):
      [.log_grows]          the old log is a prefix of the new one;
      [.chain]              exact_chain(C, L0, ..): every new entry is a call of THE transfer method on THE given file (no read / write / flush in
                            between) with count > 0; the first carries (count, off) as given; each later call carries a count that SHRANK and
                            an offset that GREW by exactly what the call before reported; every call but the last one moved something or was
                            interrupted - i.e. every byte once, in order, the file offset following;
      [.exact]              Ok(()) <=> the last call moved all that was left (or count was 0, the range fits and no call was made);
      [.short_fails]        a last call that reports 0 (before the end: calls are only made while count > 0) => Err of the kind the code uses
                            (read side: WriteZero, write side: UnexpectedEof); nothing is tried afterwards (it IS the last call);
      [.err_passthrough]    a last call that failed => that very error is returned, and it is not Interrupted (Interrupted => the same call
                            again: same count, same offset, by [.chain]);
      [.range_checked]      off + count > u64::MAX => Err(InvalidInput) before any call ("fails without writing");
      [.no_spurious_refusal] an Err without any call happens only then;
      copy_to_end: [.chain] toend_chain: count = usize::MAX every time, offset following; [.until_zero] Ok(n) <=> the last call reported 0;
                   [.total] n = the distance the file offset travelled = the sum of the reports (lemma); [.err_passthrough] as above.
    Checked lemmas (proof fns): in an exact chain call i asks for count - (moved before) at off + (moved before) - the file ranges are
    consecutive, disjoint and in order; a chain that ends exactly has moved `count` bytes in all; copy_to_end's result is the sum of the reports.
    Termination of the retry loops (a stream that reports Interrupted for ever) is NOT claimed (`exec_allows_no_decreases_clause`).
    What the code does with error kinds (pinned, judged harmless): read_exact_to answers a 0-report with WriteZero although the transport's own
    Reader::read_exact_to and std's read_exact use UnexpectedEof for "source exhausted"; the kind is nowhere documented for this method.

 2. src/api/server/mod.rs `ZcReader` / `ZcWriter` and, with feature async-io (on for this unit only, rule R18), src/api/server/async_io.rs
    `AsyncZcReader` / `AsyncZcWriter`: every method forwards to ONE operation of the wrapped transport `Reader` / `Writer` (opaque objects:
    capability `allowed(op, args)` in the CURRENT state, result `res_*(op)`, post-state `after(op)` - the idiom of units arcfs / writerenum):
          read_to(f, count, off)          -> Reader::read_to_at(f, count, off)            (right: Reader::read_to has no offset)
          read(buf)                       -> Reader::read(buf)
          write_from(f, count, off)       -> Writer::write_from_at(f, count, off)
          available_bytes()               -> Writer::available_bytes()                     (not bytes_written)
          write(buf) / flush()            -> Writer::write(buf) / Writer::flush()
          async_read_to(f, count, off)    -> Reader::async_read_to_at(&f, count, off)
          async_write_from(f, count, off) -> Writer::async_write_from_at(&f, count, off)
    [.forward] same operation, same arguments (a capability for exactly these; a failure shows as `zcstreams.<fn>.cap` at the call),
    [.result] result unchanged, [.once] the wrapped object made exactly this one step, [.same_file] / [.delivered] the file keeps its identity /
    the destination buffer holds what the Reader delivered into THIS buffer.  A forward to another method, to another offset / count, a second
    call or a made-up result is a missing capability or an unprovable postcondition.  [.meets_trait.at_most_count] /
    [.meets_trait.file_offset_range]: the adapter's result satisfies the trait-level clauses part 1 relies on - from the corresponding facts
    about the transport operations (ASSUMED here; `r <= count` is proved in units virtiofsw / fusedevw, see the model).

 3. src/overlayfs/mod.rs `impl ZeroCopyReader for File` / `impl ZeroCopyWriter for File` (real code: copy-up streams a lower file through a
    temporary file with them) over the byte-access log of unit filebuf (In / Out accesses with their file position; same text):
    one transfer from the source into a private buffer of `count` bytes (every raw window inside the allocation - proved,
    [C04.zc.ovl.window_in_bounds]), then ONE transfer of the first bytes obtained to the sink [.relays_in_order];
    The position of the SEQUENTIALLY used stream is ghost state of this unit (`Host.spos`, added to filebuf's vocabulary here; read_volatile /
    write_volatile move it by what they report, positional transfers leave it alone, `seek(SeekFrom::Current(d))` moves it by d).
    read_to (self = a SEQUENTIAL source), stated on the NET effect on self - a byte taken and given back by seeking is not taken:
    [.reports_what_was_taken] Ok(n) => the position of self has moved by exactly n (and by [.relays_in_order] the n bytes that went to f are the
    first n taken, in order); [.err_nothing_taken] Err => the position of self is where it was (the trait's documented error clause);
    [.err_nothing_put] Err => nothing went to f.  On the tree WITHOUT the Z1 repair the first two FAIL (findings/repro_zcstreams.rs: a short or
    failing write to `f` loses bytes already consumed from `self`); on the repaired text (give-back by `seek(Current(-(taken - written)))`,
    also on the error path) they are PROVED - under the assumption that self is seekable (model of `seek`).
    write_from (f = a POSITIONAL source, nothing is consumed by reading it): [.relays_in_order] the n bytes appended to self are f's bytes
    off .. off + n in order, [.err_nothing_put], [.position_follows] self's position moves by what is reported; these hold.

Other `impl ZeroCopyReader / ZeroCopyWriter` in the tree are test code (`#[cfg(test)] mod tests` of src/api/vfs/async_io.rs and
src/passthrough/async_io.rs: MemWriter / MemReader) and are not covered; src/passthrough has no adapter of its own (it only CALLS
w.write_from / r.read_to: unit ptops).

Rules: R23 (ghost token), R18 (async twins), R24; SIG: `mut count` / `mut off` parameters renamed and rebound at entry (a `mut` parameter has
no name for its initial value; as units virtiofsw / filebuf); `&mut dyn FileReadWriteVolatile` and `Arc<dyn AsyncFileReadWriteVolatile>` are
kept as written (this Verus accepts them); the supertraits io::Read / io::Write are folded into the two traits (their methods declared,
logged); trait impls of parts 2 / 3 are emitted as INHERENT methods (a trait impl cannot hold the `__canary` copies; as unit filebuf);
ABSTRACT (part 3): `unsafe { FileVolatileSlice::from_raw_ptr(V.as_mut_ptr(), N) }` -> `vx_vec_window(&mut V, N)` (requires N <= V.len(): PROVED).
ASSUMED (models): every `external_body` / `uninterp` / trait-method declaration in MODEL_* below; listed in the sub-agent's report."""
import re

from vx.api import Unit, Fn, Copy, Raw, Group

FS = 'src/api/filesystem/mod.rs'
SV = 'src/api/server/mod.rs'
SA = 'src/api/server/async_io.rs'
OV = 'src/overlayfs/mod.rs'

# =================================================================================================================================
# part 1: the stream log and the trait-level contracts
K_READ_TO, K_WRITE_FROM, K_READ, K_WRITE, K_FLUSH = 0, 1, 2, 3, 4

MODEL_LOG = r'''
// ===== the files handed through.  A file object is known by its identity `fid` (ASSUMED: an object keeps its identity across calls)
pub uninterp spec fn fid<F: ?Sized>(f: &F) -> int;
// ===== the ghost log of a zero-copy stream: every operation performed on it, in order
//   kind 0 = read_to(f, count, off), 1 = write_from(f, count, off), 2 = read(buf), 3 = write(buf), 4 = flush()
pub ghost struct ZcCall { pub kind: int, pub fid: int, pub count: usize, pub off: u64, pub res: io::Result<usize> }
pub tracked struct ZcLog { pub ghost calls: Seq<ZcCall> }
// what a call reported as moved
pub open spec fn moved_of(c: ZcCall) -> int { match c.res { Ok(n) => n as int, Err(_) => 0 } }
// a call after which a transfer loop goes on: it moved something, or it was interrupted (then it moved nothing: documented error clause)
pub open spec fn goes_on(c: ZcCall) -> bool { match c.res { Ok(n) => n > 0, Err(e) => e.skind() == io::ErrorKind::Interrupted } }
// the calls cs[l0..] of an EXACT transfer of `count0` bytes at file offset `off0`: THE operation on THE file; the first call carries
// (count0, off0), each later one a count that shrank and an offset that grew by what the call before reported; all but the last one go on
pub open spec fn exact_chain(cs: Seq<ZcCall>, l0: int, kind: int, f: int, count0: usize, off0: u64) -> bool {
    &&& forall|i: int| #![trigger cs[i]] l0 <= i < cs.len() ==> cs[i].kind == kind && cs[i].fid == f && cs[i].count > 0
    &&& cs.len() > l0 ==> cs[l0].count == count0 && cs[l0].off == off0
    &&& forall|i: int, j: int| #![trigger cs[i], cs[j]] l0 <= i && j == i + 1 && j < cs.len() ==> goes_on(cs[i]) && cs[j].count == cs[i].count - moved_of(cs[i]) && cs[j].off == cs[i].off + moved_of(cs[i])
}
// the calls cs[l0..] of a transfer TO THE END starting at file offset off0: count = usize::MAX every time, the offset following
pub open spec fn toend_chain(cs: Seq<ZcCall>, l0: int, kind: int, f: int, off0: u64) -> bool {
    &&& forall|i: int| #![trigger cs[i]] l0 <= i < cs.len() ==> cs[i].kind == kind && cs[i].fid == f && cs[i].count == usize::MAX
    &&& cs.len() > l0 ==> cs[l0].off == off0
    &&& forall|i: int, j: int| #![trigger cs[i], cs[j]] l0 <= i && j == i + 1 && j < cs.len() ==> goes_on(cs[i]) && cs[j].off == cs[i].off + moved_of(cs[i])
}
// ---- the summation reading (checked lemmas): what the calls cs[l0..i] moved in all
pub open spec fn total(cs: Seq<ZcCall>, l0: int, i: int) -> int decreases i - l0 { if i <= l0 { 0 } else { total(cs, l0, i - 1) + moved_of(cs[i - 1]) } }
// in an exact chain call i asks for what is left after the calls before it and starts where they ended: the file ranges
// [off0 + total(i), off0 + total(i) + n_i) are consecutive, disjoint and in order - every byte once
pub proof fn lemma_exact_chain_total(cs: Seq<ZcCall>, l0: int, kind: int, f: int, count0: usize, off0: u64, i: int)
    requires exact_chain(cs, l0, kind, f, count0, off0), 0 <= l0 <= i < cs.len()
    ensures cs[i].count == count0 - total(cs, l0, i), cs[i].off == off0 + total(cs, l0, i), total(cs, l0, i) >= 0,
    decreases i - l0
{
    if i > l0 { lemma_exact_chain_total(cs, l0, kind, f, count0, off0, i - 1); let c = cs[i - 1]; let d = cs[i]; assert(goes_on(c)); }
}
// a chain whose last call moved all that was left has moved exactly count0 bytes
pub proof fn lemma_exact_chain_complete(cs: Seq<ZcCall>, l0: int, kind: int, f: int, count0: usize, off0: u64)
    requires exact_chain(cs, l0, kind, f, count0, off0), 0 <= l0 < cs.len(), cs.last().res == Ok::<usize, io::Error>(cs.last().count)
    ensures total(cs, l0, cs.len() as int) == count0
{
    lemma_exact_chain_total(cs, l0, kind, f, count0, off0, cs.len() - 1);
}
// in a to-the-end chain call i starts where the calls before it ended; the distance the offset travelled is the sum of the reports
pub proof fn lemma_toend_chain_total(cs: Seq<ZcCall>, l0: int, kind: int, f: int, off0: u64, i: int)
    requires toend_chain(cs, l0, kind, f, off0), 0 <= l0 <= i < cs.len()
    ensures cs[i].off == off0 + total(cs, l0, i), total(cs, l0, i) >= 0,
    decreases i - l0
{
    if i > l0 { lemma_toend_chain_total(cs, l0, kind, f, off0, i - 1); let c = cs[i - 1]; let d = cs[i]; assert(goes_on(c)); }
}
pub proof fn lemma_toend_chain_complete(cs: Seq<ZcCall>, l0: int, kind: int, f: int, off0: u64)
    requires toend_chain(cs, l0, kind, f, off0), 0 <= l0 < cs.len(), cs.last().res == Ok::<usize, io::Error>(0usize)
    ensures cs.last().off - off0 == total(cs, l0, cs.len() as int)
{
    lemma_toend_chain_total(cs, l0, kind, f, off0, cs.len() - 1);
}
'''


MODEL_STD = r'''
// ASSUMED (Rust: `#[derive(PartialEq)]` on a field-less enum compares the variants): the exec `==` on ErrorKind is equality.  Needed for the
// facts a match guard `e.kind() == io::ErrorKind::Interrupted` provides in its arm and refutes in the arms below it.
impl vstd::std_specs::cmp::PartialEqSpecImpl for io::ErrorKind {
    open spec fn obeys_eq_spec() -> bool { true }
    open spec fn eq_spec(&self, other: &io::ErrorKind) -> bool { *self == *other }
}
impl io::Error {
    // std::io::Error::new(kind, payload): an error of that kind without an OS code
    #[verifier::external_body]
    pub fn new<E>(kind: io::ErrorKind, e: E) -> (r: io::Error) ensures r.os_code() is None, r.skind() == kind { unimplemented!() }
}
pub trait BitmapSlice {}
'''

TOK = dict(param='Tracked(lg): Tracked<&mut ZcLog>', arg='Tracked(lg)')
L0 = 'old(lg).calls.len()'
C = 'final(lg).calls'
LOGGED = ['read_to', 'write_from', 'read', 'write', 'flush']


def req_decl(name, kind):
    """trait-level contract of a REQUIRED transfer method (read_to / write_from): what the provided loops rely on, what the adapters of
    part 2 are shown to meet.  From the trait documentation: Ok(n) => 0 <= n <= count."""
    return '''    fn %(n)s(&mut self, f: &mut dyn FileReadWriteVolatile, count: usize, off: u64, Tracked(lg): Tracked<&mut ZcLog>) -> (r: io::Result<usize>)
        ensures
            final(lg).calls == old(lg).calls.push(ZcCall { kind: %(k)d, fid: fid(old(f)), count, off, res: r }), // [C04.zc.trait.%(n)s.logged]
            fid(final(f)) == fid(old(f)), // [C04.zc.trait.%(n)s.same_file]
            // documented: "If the return value is Ok(n) then it must be guaranteed that 0 <= n <= count"
            r is Ok ==> r->Ok_0 <= count, // [C04.zc.trait.%(n)s.at_most_count]
            // ASSUMED: no file has a byte beyond offset i64::MAX (off64_t; unit filebuf `file_offset_range`) - keeps copy_to_end's total representable
            r is Ok && r->Ok_0 > 0 ==> off + r->Ok_0 <= i64::MAX, // [C04.zc.trait.%(n)s.file_offset_range]
    ;''' % dict(n=name, k=kind)


def other_decl(name, params, ret, kind):
    """the other operations of the stream (supertrait io::Read / io::Write): declared so that a provided method that used them type-checks
    and shows up in the log (where [.chain] excludes it)"""
    return '''    fn %s(&mut self%s, Tracked(lg): Tracked<&mut ZcLog>) -> (r: %s)
        ensures final(lg).calls.len() == old(lg).calls.len() + 1, final(lg).calls.take(old(lg).calls.len() as int) =~= old(lg).calls, final(lg).calls.last().kind == %d, // [C04.zc.trait.%s.logged]
    ;''' % (name, params, ret, kind, name)


def _tag(name):
    return lambda a: '// [C04.zc.%s.%s]' % (name, a)


def exact_fn(scope, name, kind, ekind):
    """read_exact_to / write_all_from"""
    T = _tag(name)
    inv = '''while count > 0
            invariant
                l0 == old(lg).calls.len(), lg.calls.len() >= l0, lg.calls.take(l0 as int) =~= old(lg).calls, %(log)s
                fid(f) == fid(old(f)), %(same)s
                off0 + count0 <= u64::MAX, %(range)s
                exact_chain(lg.calls, l0 as int, %(k)d, fid(old(f)), count0, off0), %(chain)s
                lg.calls.len() == l0 ==> count == count0 && off == off0, %(first)s
                lg.calls.len() > l0 ==> goes_on(lg.calls.last()) && count == lg.calls.last().count - moved_of(lg.calls.last()) && off == lg.calls.last().off + moved_of(lg.calls.last()), %(next)s
        {''' % dict(k=kind, log=T('loop.log_grows'), chain=T('loop.chain'), first=T('loop.first_call'), next=T('loop.next_call'), same=T('loop.same_file'), range=T('loop.range_checked'))
    f = Fn(FS, scope, name, props=['C04'], canary=True,
           # a `mut` parameter has no name for its initial value: renamed in the signature and rebound at entry (logged; as units virtiofsw / filebuf)
           sig_subst=[('mut count: usize', 'count0: usize'), ('mut off: u64', 'off0: u64')],
           attrs=['#[verifier::exec_allows_no_decreases_clause]'],
           ensures=[
               '%s.len() >= %s && %s.take(%s as int) =~= old(lg).calls %s' % (C, L0, C, L0, T('log_grows')),
               # THE transfer method on THE file only; count shrinks / offset grows by what each call reported; all but the last call go on
               'exact_chain(%s, %s as int, %d, fid(old(f)), count0, off0) %s' % (C, L0, kind, T('chain')),
               'fid(final(f)) == fid(old(f)) ' + T('same_file'),
               # moves exactly `count` bytes: Ok iff the last call moved all that was left (or there was nothing to move)
               'r is Ok <==> (count0 == 0 && %s.len() == %s && off0 + count0 <= u64::MAX) || (%s.len() > %s && %s.last().res == Ok::<usize, io::Error>(%s.last().count)) %s' % (C, L0, C, L0, C, C, T('exact')),
               # a call that reports 0 before the end
               '%s.len() > %s && %s.last().res == Ok::<usize, io::Error>(0usize) ==> r is Err && r->Err_0.skind() == io::ErrorKind::%s %s' % (C, L0, C, ekind, T('short_fails')),
               # every error other than Interrupted is passed through unchanged (and ends the transfer); Interrupted is never the last word
               '%s.len() > %s && %s.last().res is Err ==> r is Err && r->Err_0 == %s.last().res->Err_0 && r->Err_0.skind() != io::ErrorKind::Interrupted %s' % (C, L0, C, C, T('err_passthrough')),
               # the range check comes first: nothing is transferred
               'off0 + count0 > u64::MAX ==> r is Err && r->Err_0.skind() == io::ErrorKind::InvalidInput && %s.len() == %s %s' % (C, L0, T('range_checked')),
               'r is Err && %s.len() == %s ==> off0 + count0 > u64::MAX %s' % (C, L0, T('no_spurious_refusal')),
           ],
           splices=[('^', 'after', 'let mut count = count0; let mut off = off0; let ghost l0 = lg.calls.len();'),
                    ('while count > 0 {', 'replace', inv)])
    f.rules = ('R23',)
    f.ghost_token = dict(TOK, callees=LOGGED)
    return f


def toend_fn(scope, name, kind, tagname):
    """copy_to_end (both traits)"""
    T = _tag(tagname)
    inv = '''loop
            invariant
                l0 == old(lg).calls.len(), lg.calls.len() >= l0, lg.calls.take(l0 as int) =~= old(lg).calls, %(log)s
                fid(f) == fid(old(f)), %(same)s
                toend_chain(lg.calls, l0 as int, %(k)d, fid(old(f)), off0), %(chain)s
                lg.calls.len() == l0 ==> off == off0, %(first)s
                lg.calls.len() > l0 ==> goes_on(lg.calls.last()) && off == lg.calls.last().off + moved_of(lg.calls.last()), %(next)s
                out == off - off0, out <= i64::MAX, %(total)s
        {''' % dict(k=kind, log=T('loop.log_grows'), chain=T('loop.chain'), first=T('loop.first_call'), next=T('loop.next_call'), total=T('loop.total'), same=T('loop.same_file'))
    f = Fn(FS, scope, name, props=['C04'], canary=True,
           sig_subst=[('mut off: u64', 'off0: u64')],
           attrs=['#[verifier::exec_allows_no_decreases_clause]'],
           ensures=[
               '%s.len() > %s && %s.take(%s as int) =~= old(lg).calls %s' % (C, L0, C, L0, T('log_grows')),
               # THE transfer method on THE file only, count = usize::MAX, the offset growing by what each call reported; all but the last call go on
               'toend_chain(%s, %s as int, %d, fid(old(f)), off0) %s' % (C, L0, kind, T('chain')),
               'fid(final(f)) == fid(old(f)) ' + T('same_file'),
               # repeats until a call reports 0
               'r is Ok <==> %s.last().res == Ok::<usize, io::Error>(0usize) %s' % (C, T('until_zero')),
               # and returns the total: the distance the file offset travelled = the sum of the reports (lemma_toend_chain_complete)
               'r is Ok ==> r->Ok_0 == %s.last().off - off0 %s' % (C, T('total')),
               '%s.last().res is Err ==> r is Err && r->Err_0 == %s.last().res->Err_0 && r->Err_0.skind() != io::ErrorKind::Interrupted %s' % (C, C, T('err_passthrough')),
           ],
           splices=[('^', 'after', 'let mut off = off0; let ghost l0 = lg.calls.len();'),
                    ('loop {', 'replace', inv)])
    f.rules = ('R23',)
    f.ghost_token = dict(TOK, callees=LOGGED)
    return f


SZR = 'pub trait ZeroCopyReader: io::Read'
SZW = 'pub trait ZeroCopyWriter: io::Write'


def trait_items():
    rd = [Raw(req_decl('read_to', K_READ_TO)), Raw(other_decl('read', ', buf: &mut [u8]', 'io::Result<usize>', K_READ)),
          exact_fn(SZR, 'read_exact_to', K_READ_TO, 'WriteZero'), toend_fn(SZR, 'copy_to_end', K_READ_TO, 'r_copy_to_end')]
    wr = [Raw(req_decl('write_from', K_WRITE_FROM)), Raw(other_decl('write', ', buf: &[u8]', 'io::Result<usize>', K_WRITE)),
          Raw(other_decl('flush', '', 'io::Result<()>', K_FLUSH)),
          # `fn available_bytes(&self) -> usize;` - required, no effect on the stream
          Raw('    fn available_bytes(&self) -> usize;'),
          exact_fn(SZW, 'write_all_from', K_WRITE_FROM, 'UnexpectedEof'), toend_fn(SZW, 'copy_to_end', K_WRITE_FROM, 'w_copy_to_end')]
    # the supertraits io::Read / io::Write are folded into the traits (their `read` / `write` / `flush` are declared above, logged)
    return [Group('pub trait ZeroCopyReader {', rd), Group('pub trait ZeroCopyWriter {', wr)]


# =================================================================================================================================
# part 2: the adapters the server wraps around the transport Reader / Writer
MODEL_FILES = r'''
use std::sync::Arc;
// crate::file_traits::{FileReadWriteVolatile, AsyncFileReadWriteVolatile}: only handed through in parts 1 and 2
pub trait AsyncFileReadWriteVolatile {}
impl<T: AsyncFileReadWriteVolatile + ?Sized> AsyncFileReadWriteVolatile for Arc<T> {}
'''

# op code, name, generics, parameters, capability arguments (n1, n2, id, data), result kind, &mut self, extra ensures (ASSUMED facts about the result)
AT_MOST = 'r is Ok ==> r->Ok_0 <= count'
OFFRANGE = 'r is Ok && r->Ok_0 > 0 ==> off + r->Ok_0 <= i64::MAX'
E = 'Seq::<u8>::empty()'
READER_OPS = [
    (1, 'read_to', '<F: FileReadWriteVolatile + ?Sized>', 'dst: &mut F, count: usize', ('count as int', '0', 'fid(old(dst))', E), 'usize', True, [AT_MOST], 'dst'),
    (2, 'read_to_at', '<F: FileReadWriteVolatile + ?Sized>', 'dst: &mut F, count: usize, off: u64', ('count as int', 'off as int', 'fid(old(dst))', E), 'usize', True, [AT_MOST, OFFRANGE], 'dst'),
    (3, 'read_exact_to', '<F: FileReadWriteVolatile + ?Sized>', 'dst: &mut F, count: usize', ('count as int', '0', 'fid(old(dst))', E), 'unit', True, [], 'dst'),
    (4, 'available_bytes', '', '', ('0', '0', '0', E), 'plain', False, [], None),
    (5, 'bytes_read', '', '', ('0', '0', '0', E), 'plain', False, [], None),
    (6, 'read', '', 'buf: &mut [u8]', ('old(buf)@.len() as int', '0', '0', E), 'usize', True, ['final(buf)@ == old(self).res_bytes(6, old(buf)@)'], None),
    (7, 'async_read_to_at', '<F: AsyncFileReadWriteVolatile>', 'dst: &F, count: usize, off: u64', ('count as int', 'off as int', 'fid(dst)', E), 'usize', True, [AT_MOST, OFFRANGE], None),
]
WRITER_OPS = [
    (1, 'write_from_at', '<F: FileReadWriteVolatile + ?Sized>', 'src: &mut F, count: usize, off: u64', ('count as int', 'off as int', 'fid(old(src))', E), 'usize', True, [AT_MOST, OFFRANGE], 'src'),
    (3, 'available_bytes', '', '', ('0', '0', '0', E), 'plain', False, [], None),
    (4, 'bytes_written', '', '', ('0', '0', '0', E), 'plain', False, [], None),
    (6, 'write', '', 'buf: &[u8]', ('0', '0', '0', 'buf@'), 'usize', True, [], None),
    (8, 'flush', '', '', ('0', '0', '0', E), 'unit', True, [], None),
    (15, 'async_write_from_at', '<F: AsyncFileReadWriteVolatile>', 'src: &F, count: usize, off: u64', ('count as int', 'off as int', 'fid(src)', E), 'usize', True, [AT_MOST, OFFRANGE], None),
]
RET = {'usize': 'io::Result<usize>', 'unit': 'io::Result<()>', 'plain': 'usize'}


def opaque(ty, ops, what):
    """an opaque transport object: per operation a capability in the CURRENT state, the result and the post-state (units arcfs / writerenum)"""
    L = ['// crate::transport::%s - opaque here; %s' % (ty, what),
         "#[verifier::external_body] #[verifier::reject_recursive_types(S)] pub struct %s<'a, S> { _p: PhantomData<&'a S> }" % ty,
         "impl<'a, S: BitmapSlice> %s<'a, S> {" % ty,
         '    pub uninterp spec fn allowed(&self, op: int, n1: int, n2: int, id: int, data: Seq<u8>) -> bool;   // [cap]',
         '    pub uninterp spec fn res_usize(&self, op: int) -> io::Result<usize>;', '    pub uninterp spec fn res_unit(&self, op: int) -> io::Result<()>;',
         '    pub uninterp spec fn res_plain(&self, op: int) -> usize;', '    pub uninterp spec fn res_bytes(&self, op: int, before: Seq<u8>) -> Seq<u8>;',
         '    pub uninterp spec fn after(&self, op: int) -> Self;']
    for (op, name, gen, params, cap, kind, mut, extra, fileparam) in ops:
        me = 'old(self)' if mut else 'self'
        ens = ['r == %s.res_%s(%d)' % (me, kind, op)] + (['*final(self) == old(self).after(%d)' % op] if mut else []) + list(extra)
        if fileparam:
            ens.append('fid(final(%s)) == fid(old(%s))' % (fileparam, fileparam))
        L.append('    #[verifier::external_body] pub fn %s%s(%s%s) -> (r: %s)' % (name, gen, '&mut self' if mut else '&self', (', ' + params) if params else '', RET[kind]))
        L.append('        requires %s.allowed(%d, %s), // [cap]' % (me, op, ', '.join(cap)))
        L.append('        ensures %s,' % ', '.join(ens))
        L.append('    { unimplemented!() }')
    L.append('}')
    return '\n'.join(L)


# adapter method -> (transport op code, capability arguments in the adapter's own parameter names, result kind, &mut self, meets-trait clauses, file parameter)
def adapter_fn(file, scope, ty, name, op, cap, kind, mut, prop, extra=(), fileparam=None, async_=False, canary=True):
    P = prop
    tg = lambda a: '// [%s.zc.%s.%s.%s]' % (P, ty.lower(), name, a)
    me = 'old(self)' if mut else 'self'
    # [.forward] the capability for THIS operation of the wrapped object with THESE arguments; [.result] the wrapped object's result, unchanged;
    # [.once] the wrapped object made exactly this one step
    req = ['%s.0.allowed(%d, %s) %s' % (me, op, ', '.join(cap), tg('forward'))]
    ens = ['r == %s.0.res_%s(%d) %s' % (me, kind, op, tg('result'))]
    if mut:
        ens.append('final(self).0 == old(self).0.after(%d) %s' % (op, tg('once')))
    if fileparam:
        ens.append('fid(final(f)) == fid(old(f)) ' + tg('same_file'))
    for (c, a) in extra:
        ens.append('%s %s' % (c, tg(a)))
    f = Fn(file, scope, name, props=[P], canary=canary, requires=req, ensures=ens)
    if async_:
        f.rules = ('R18',)
    f.gtag_props = {'cap': [P]}
    return f


MEETS = [(AT_MOST, 'meets_trait.at_most_count'), (OFFRANGE, 'meets_trait.file_offset_range')]
FCAP = ('count as int', 'off as int', 'fid(old(f))', E)
ACAP = ('count as int', 'off as int', 'fid(&f)', E)
RDCAP = ('old(buf)@.len() as int', '0', '0', E)
DELIV = [('final(buf)@ == old(self).0.res_bytes(6, old(buf)@)', 'delivered')]


def adapter_items():
    def sync_reader(file, ty, hdr_zc, hdr_rd, prop):
        return [adapter_fn(file, hdr_zc, ty, 'read_to', 2, FCAP, 'usize', True, prop, MEETS, 'f'),
                adapter_fn(file, hdr_rd, ty, 'read', 6, RDCAP, 'usize', True, prop, DELIV)]

    def sync_writer(file, ty, hdr_zc, hdr_wr, prop):
        return [adapter_fn(file, hdr_zc, ty, 'write_from', 1, FCAP, 'usize', True, prop, MEETS, 'f'),
                adapter_fn(file, hdr_zc, ty, 'available_bytes', 3, ('0', '0', '0', E), 'plain', False, prop),
                adapter_fn(file, hdr_wr, ty, 'write', 6, ('0', '0', '0', 'buf@'), 'usize', True, prop),
                adapter_fn(file, hdr_wr, ty, 'flush', 8, ('0', '0', '0', E), 'unit', True, prop)]
    items = [
        Copy(SV, r"struct ZcReader<'a, S: BitmapSlice = \(\)>", subst=[('S: BitmapSlice = ()', 'S: BitmapSlice')], prefix='#[verifier::reject_recursive_types(S)]'),
        Copy(SV, r"struct ZcWriter<'a, S: BitmapSlice = \(\)>", subst=[('S: BitmapSlice = ()', 'S: BitmapSlice')], prefix='#[verifier::reject_recursive_types(S)]'),
        Copy(SA, r"struct AsyncZcReader<'a, S: BitmapSlice = \(\)>", subst=[('S: BitmapSlice = ()', 'S: BitmapSlice')], prefix='#[verifier::reject_recursive_types(S)]'),
        Copy(SA, r"struct AsyncZcWriter<'a, S: BitmapSlice = \(\)>", subst=[('S: BitmapSlice = ()', 'S: BitmapSlice')], prefix='#[verifier::reject_recursive_types(S)]'),
        # trait impls emitted as INHERENT methods (a trait impl cannot hold the `__canary` copies)
        Group("impl<'a, S: BitmapSlice> ZcReader<'a, S> {",
              sync_reader(SV, 'ZcReader', "impl<S: BitmapSlice> ZeroCopyReader for ZcReader<'_, S>", "impl<S: BitmapSlice> io::Read for ZcReader<'_, S>", 'C04')),
        Group("impl<'a, S: BitmapSlice> ZcWriter<'a, S> {",
              sync_writer(SV, 'ZcWriter', "impl<S: BitmapSlice> ZeroCopyWriter for ZcWriter<'_, S>", "impl<S: BitmapSlice> io::Write for ZcWriter<'_, S>", 'C04')),
        Group("impl<'a, S: BitmapSlice> AsyncZcReader<'a, S> {",
              [adapter_fn(SA, "impl<'a, S: BitmapSlice> AsyncZeroCopyReader for AsyncZcReader<'a, S>", 'AsyncZcReader', 'async_read_to', 7, ACAP, 'usize', True, 'C20', MEETS, None, async_=True)]
              + sync_reader(SA, 'AsyncZcReader', "impl<'a, S: BitmapSlice> ZeroCopyReader for AsyncZcReader<'a, S>", "impl<'a, S: BitmapSlice> io::Read for AsyncZcReader<'a, S>", 'C20')),
        Group("impl<'a, S: BitmapSlice> AsyncZcWriter<'a, S> {",
              [adapter_fn(SA, "impl<'a, S: BitmapSlice> AsyncZeroCopyWriter for AsyncZcWriter<'a, S>", 'AsyncZcWriter', 'async_write_from', 15, ACAP, 'usize', True, 'C20', MEETS, None, async_=True)]
              + sync_writer(SA, 'AsyncZcWriter', "impl<'a, S: BitmapSlice> ZeroCopyWriter for AsyncZcWriter<'a, S>", "impl<'a, S: BitmapSlice> io::Write for AsyncZcWriter<'a, S>", 'C20')),
    ]
    return items


# =================================================================================================================================
# part 3: the overlay's `impl ZeroCopyReader / ZeroCopyWriter for File` (copy-up streams a file through a temporary file with them)
def _fb_vocabulary():
    """the byte-access log of unit filebuf (MemOp / Host / range / in_ops / out_ops ..): the SAME text, taken from that unit's model"""
    from vx.units import filebuf as FBU
    m = FBU.MODEL
    a = m.index('// ===== memory and host as ghost state')
    b = m.index('// contents: THE byte a read of address a yields')
    v = m[a:b]
    # NEW vocabulary of this unit (not in filebuf): `spos` = the position of THE stream that is used sequentially (read_volatile / write_volatile /
    # seek); positional transfers leave it alone.  A byte taken and given back by seeking is not taken: the NET effect on the stream.
    h = 'pub tracked struct Host { pub ghost mem: Seq<MemOp>, pub ghost calls: Seq<HostCall>, pub ghost errno: i32 }'
    if v.count(h) != 1:
        raise RuntimeError('unit filebuf: the Host struct changed its text')
    v = v.replace(h, h[:-2] + ', pub ghost spos: nat }')
    return FBU, v


def _with_position(FBU, n):
    """filebuf's trait-level contract of method n (same clause text) plus the clause for the new field `spos`"""
    d = FBU._trait_decl(n).rstrip()
    assert d.endswith(';')
    if n.endswith('_at_volatile'):
        c = 'final(hs).spos == old(hs).spos, // [C04.zc.ovl.trait.%s.position] a positional transfer does not move the stream position' % n
    else:
        c = 'final(hs).spos == old(hs).spos + (if r is Ok { r->Ok_0 as int } else { 0 }), // [C04.zc.ovl.trait.%s.position] a sequential transfer moves the position by what it reports' % n
    return d[:-1].rstrip() + '\n            ' + c + '\n    ;'


MODEL_OVL = r"""
    // crate::file_buf::FileVolatileSlice: an (address, length) pair (proved a plain view in unit filebuf)
    #[verifier::external_body] #[derive(Clone, Copy)] pub struct FileVolatileSlice<'a> { _p: PhantomData<&'a u8> }
    impl<'a> FileVolatileSlice<'a> {
        pub uninterp spec fn addr(&self) -> int;
        pub uninterp spec fn slen(&self) -> nat;
    }
    // where a Vec's allocation lives
    pub uninterp spec fn vec_base(v: &Vec<u8>) -> int;
    // ABSTRACT `unsafe { FileVolatileSlice::from_raw_ptr(V.as_mut_ptr(), N) }`: a window over the first N bytes of V's allocation.  Memory safe
    // only if the N bytes exist - PROVED at each call.  Whoever holds the window may store into V: nothing is promised about V's contents.
    #[verifier::external_body] pub fn vx_vec_window<'b>(v: &mut Vec<u8>, n: usize) -> (r: FileVolatileSlice<'b>)
        requires n <= old(v)@.len(), // [C04.zc.ovl.window_in_bounds]
        ensures r.addr() == vec_base(old(v)), r.slen() == n, final(v)@.len() == old(v)@.len(), vec_base(final(v)) == vec_base(old(v)),
            old(v)@.len() <= isize::MAX,      // ASSUMED (language guarantee): an allocation has at most isize::MAX bytes
    { unimplemented!() }
    // std::fs::File: implements the trait through `volatile_impl!(File)` (unit filebuf: each method is ONE host call and meets the trait-level
    // contract - `REFINE` there); assumed here with exactly that contract
    #[verifier::external_body] pub struct File { _p: u8 }
    impl FileReadWriteVolatile for File {
%(IMPL)s
    }
    // std::io::SeekFrom / <File as Seek>::seek = lseek(2).  ASSUMED: the file is SEEKABLE (the overlay streams through a regular temporary file): a
    // relative seek fails only if the target position would be negative (lseek(2) EINVAL; ESPIPE / EBADF are excluded by this assumption).  Memory is not touched.
    pub enum SeekFrom { Start(u64), End(i64), Current(i64) }
    impl File {
        #[verifier::external_body] pub fn seek(&mut self, pos: SeekFrom, Tracked(hs): Tracked<&mut Host>) -> (r: Result<u64>)
            ensures final(hs).mem == old(hs).mem,
                r is Err ==> final(hs).spos == old(hs).spos,
                pos matches SeekFrom::Current(d) ==> (old(hs).spos + d >= 0 ==> r is Ok) && (r is Ok ==> final(hs).spos == old(hs).spos + d && r->Ok_0 == final(hs).spos),
        { unimplemented!() }
    }
    pub open spec fn addr_of(o: MemOp) -> int { match o { MemOp::Rd { a } => a, MemOp::Wr { a, v } => a, MemOp::In { a, pos } => a, MemOp::Out { a, pos } => a } }
    // the log m1 is m0 followed by: `taken` bytes taken from a source (file positions src, src + 1, .. or none) into consecutive addresses, then the first
    // `put` of these very addresses, in order, put to a sink (file positions dst, dst + 1, .. or none).  Nothing else touched memory.
    pub open spec fn relayed(m0: Seq<MemOp>, m1: Seq<MemOp>, taken: int, put: int, src: Option<int>, dst: Option<int>) -> bool {
        &&& 0 <= put <= taken && m1.len() == m0.len() + taken + put && m1.take(m0.len() as int) =~= m0
        &&& forall|i: int| 0 <= i < taken ==> (#[trigger] m1[m0.len() + i]) == (MemOp::In { a: addr_of(m1[m0.len() as int]) + i, pos: pos_at(src, i) })
        &&& forall|i: int| 0 <= i < put ==> (#[trigger] m1[m0.len() + taken + i]) == (MemOp::Out { a: addr_of(m1[m0.len() as int]) + i, pos: pos_at(dst, i) })
    }
"""

HTOK = dict(param='Tracked(hs): Tracked<&mut Host>', arg='Tracked(hs)')
M0, M1 = 'old(hs).mem', 'final(hs).mem'
NEWOPS = '(%s.len() - %s.len())' % (M1, M0)
WINDOW = (r'unsafe\s*\{\s*FileVolatileSlice::from_raw_ptr\(\s*(\w+)\.as_mut_ptr\(\)\s*,\s*([^(){};]+?)\s*\)\s*\}', r'vx_vec_window(&mut \1, \2)',
          'every: raw window over a Vec\'s allocation -> model call (address = the allocation\'s, length as given; in bounds iff N <= len: PROVED)')
SOR = 'impl ZeroCopyReader for File'
SOW = 'impl ZeroCopyWriter for File'


def ovl_items():
    FBU, vocab = _fb_vocabulary()
    decls = '\n'.join(_with_position(FBU, n) for n in FBU.REQUIRED)
    impl = '\n'.join('        #[verifier::external_body] fn %s(&mut self, slice: FileVolatileSlice%s, Tracked(hs): Tracked<&mut Host>) -> (r: Result<usize>) { unimplemented!() }'
                     % (n, ', offset: u64' if n.endswith('_at_volatile') else '') for n in FBU.REQUIRED)
    N = 'r->Ok_0'
    rt = _tag('ovl_read_to')
    wt = _tag('ovl_write_from')
    read_to = Fn(OV, SOR, 'read_to', props=['C04'], canary=True, body_resub=[WINDOW],
                 ensures=[
                     'r is Ok ==> %s <= count %s' % (N, rt('at_most_count')),
                     '%s <= 2 * count %s' % (NEWOPS, rt('buffer_of_count_bytes')),
                     # what the code does: one read from the stream into a private buffer, then one positional write of the first bytes of that buffer:
                     # the n bytes that went to f at off.. are the FIRST n bytes taken from self, in order
                     'r is Ok ==> relayed(%s, %s, %s - %s, %s as int, None, Some(off as int)) %s' % (M0, M1, NEWOPS, N, N, rt('relays_in_order')),
                     # "a transfer reports exactly what was transferred": self is a SEQUENTIAL source - what was taken from it is gone; every byte taken
                     # from self went to f: n taken, n put
                     # - stated on the NET effect on self ("none skipped or repeated"): its position has moved by exactly n; what was taken beyond n was given back
                     'r is Ok ==> final(hs).spos == old(hs).spos + %s %s' % (N, rt('reports_what_was_taken')),
                     # trait documentation: "If any error is returned then the implementation must guarantee that no bytes were copied from self":
                     # net effect on self = none
                     'r is Err ==> final(hs).spos == old(hs).spos %s' % rt('err_nothing_taken'),
                     # and nothing went to f
                     'r is Err ==> relayed(%s, %s, %s, 0, None, Some(off as int)) %s' % (M0, M1, NEWOPS, rt('err_nothing_put')),
                 ])
    write_from = Fn(OV, SOW, 'write_from', props=['C04'], canary=True, body_resub=[WINDOW],
                    ensures=[
                        'r is Ok ==> %s <= count %s' % (N, wt('at_most_count')),
                        '%s <= 2 * count %s' % (NEWOPS, wt('buffer_of_count_bytes')),
                        # f is a POSITIONAL source (nothing is consumed by reading it): the n bytes appended to self are f's bytes off .. off + n, in order
                        'r is Ok ==> relayed(%s, %s, %s - %s, %s as int, Some(off as int), None) %s' % (M0, M1, NEWOPS, N, N, wt('relays_in_order')),
                        # an error: nothing was appended to self
                        'r is Err ==> relayed(%s, %s, %s, 0, Some(off as int), None) %s' % (M0, M1, NEWOPS, wt('err_nothing_put')),
                        # self is the SEQUENTIAL sink: its position follows what was reported
                        'final(hs).spos == old(hs).spos + (if r is Ok { %s as int } else { 0 }) %s' % (N, wt('position_follows')),
                    ])
    for f in (read_to, write_from):
        f.rules = ('R23',)
        f.ghost_token = dict(HTOK, callees=FBU.REQUIRED + ['seek'])
        f.splices = [('^', 'after', 'proof { assert(%s.take(%s.len() as int) =~= %s); }' % ('hs.mem', 'hs.mem', 'hs.mem'))]
    avail = Fn(OV, SOW, 'available_bytes', props=['C04'], ensures=['r == usize::MAX // [C04.zc.ovl_available_bytes.unbounded]'])      # a file has no fixed room
    hdr = ('pub mod ovl {\n    use super::*;\n    use super::io::{Error, ErrorKind, Result};\n    ' + vocab.replace('\n', '\n    ')
           + '\n    // crate::file_traits::FileReadWriteVolatile: the four single-slice methods with the trait-level contract of unit filebuf (same clause text)\n'
           + '    pub trait FileReadWriteVolatile {\n' + decls + '\n    }\n' + MODEL_OVL % dict(IMPL=impl))
    return [Group(hdr, [Group('impl File {', [read_to, write_from, avail])])]


def unit(root='/repo'):
    items = [Raw(MODEL_STD), Raw('pub trait FileReadWriteVolatile {}'), Raw(MODEL_LOG)] + trait_items() + [
        Raw(MODEL_FILES),
        Raw(opaque('Reader', READER_OPS, 'its own behaviour is decided in units readerrd / virtiofsw (read, read_to_at: `r <= count` is [C04.read_to_at.advance] there); async_read_to_at is covered by no unit')),
        Raw(opaque('Writer', WRITER_OPS, 'the enum is decided in unit writerenum, the two writers in units fusedevw / asyncdevw / virtiofsw / virtiofsw_async (`r <= count`: [C04.fdw.write_from_at.amount], [C04.write_from_at.advance])')),
    ] + adapter_items() + ovl_items()
    u = Unit('zcstreams', items, preludes=['base.rs'], generic_tags={'cap': ['C04']},
             notes='the wrapped transport Reader / Writer are opaque (capability / result / post-state per operation); termination of the retry loops is not claimed')
    u.cfg_features = {'async-io'}
    return u
