"""Unit `ptreaddir` (C16, the passthrough side): PassthroughFs::do_readdir, skip_to_cookie, last_cookie_in_buf, consume_cached_cookie,
cache_cookie (src/passthrough/sync_io.rs) on top of an abstract model of the kernel's directory stream.

The directory behind a descriptor is a sequence of entries `Seq<Dirent{ino, off, ty, name}>` (`off` = the cookie that resumes AFTER the
entry).  The position of a descriptor is an index into that sequence.  getdents64 returns a byte buffer that `parse`s to a contiguous run
starting at the position and advances the position to the end of the run; lseek64(fd, c) positions after the entry whose `off` is c.
All host calls are capability-free models in module `sys` threaded with a ghost token `ks: &mut KState` (R23); the callback
`&mut dyn FnMut(DirEntry, RawFd)` is a generic `A: AddEntry` with a ghost log of its calls."""
import os
import re

from vx import extract as X
from vx.api import Unit, Fn, Copy, Raw, Group, ByteConst

PT = 'src/passthrough/mod.rs'
PTS = 'src/passthrough/sync_io.rs'
PTMOD = 'src/passthrough/mod.rs'
UTIL = 'src/passthrough/util.rs'
OSC = 'src/passthrough/os_compat.rs'
FSMOD = 'src/api/filesystem/mod.rs'
VFSMOD = 'src/api/vfs/mod.rs'
IMPL = 'impl<S: BitmapSlice + Send + Sync> PassthroughFs<S>'

LIBC_TY = {'libc::ino64_t': ('u64', 8), 'libc::off64_t': ('i64', 8), 'libc::c_ushort': ('u16', 2), 'libc::c_uchar': ('u8', 1),
           'u64': ('u64', 8), 'i64': ('i64', 8), 'u16': ('u16', 2), 'u8': ('u8', 1)}


def dirent_layout(root):
    """(size, [(field, prim, offset, size)]) of LinuxDirent64, computed from the struct text in /repo and its #[repr] attribute
    (packed: no padding; otherwise C rules) - so an edit of the struct changes the verified text."""
    src = X.Source(root, OSC)
    text, _line, attrs = src.find_item(r'pub struct LinuxDirent64\b')
    packed = any(re.match(r'\s*repr\s*\(.*\bpacked\b', a) for a in attrs)
    body = re.sub(r'//[^\n]*', '', text[text.index('{') + 1:text.rindex('}')])
    off, al, out = 0, 1, []
    for part in X.split_top(body):
        part = X.norm_ws(part)
        if not part:
            continue
        m = re.match(r'^(?:pub\s+)?(\w+)\s*:\s*(.+)$', part)
        if not m or m.group(2).strip() not in LIBC_TY:
            raise X.ExtractError('LinuxDirent64: cannot lay out field %r' % part)
        prim, sz = LIBC_TY[m.group(2).strip()]
        a = 1 if packed else sz
        off = (off + a - 1) // a * a
        out.append((m.group(1), prim, off, sz))
        off += sz
        al = max(al, a)
    return (off + al - 1) // al * al, out


def layout_text(root):
    size, fields = dirent_layout(root)

    def le(prim, o, n):
        e = ' | '.join('((b[%d] as u64) << %du64)' % (o + k, 8 * k) if k else '(b[%d] as u64)' % o for k in range(n))
        return '((%s) as %s)' % (e, prim)
    inits = ', '.join('%s: %s' % (f, le(p, o, n)) for (f, p, o, n) in fields)
    return '''// ---- memory image of LinuxDirent64 (generated from the struct text: %(lay)s; little-endian x86_64)
pub const HDR: usize = %(size)d;
#[verifier::opaque]
pub open spec fn hdr_of(b: Seq<u8>) -> LinuxDirent64 { LinuxDirent64 { %(inits)s } }
pub trait HasSsize { spec fn ssize() -> nat; }
impl HasSsize for LinuxDirent64 { open spec fn ssize() -> nat { %(size)d } }
#[verifier::external_body] pub fn size_of<T: HasSsize>() -> (r: usize) ensures r == T::ssize() { unimplemented!() }
impl LinuxDirent64 {
    // vm_memory::ByteValued::from_slice: reinterpret a slice of exactly size_of bytes (every bit pattern is a valid value)
    #[verifier::external_body]
    pub fn from_slice(bytes: &[u8]) -> (r: Option<&LinuxDirent64>)
        ensures r is Some <==> bytes@.len() == %(size)d, r is Some ==> *r->Some_0 == hdr_of(bytes@)
    { unimplemented!() }
}
''' % dict(size=size, inits=inits, lay=', '.join('%s@%d' % (f, o) for (f, _p, o, _n) in fields))


SPEC = r'''
pub type Inode = u64;
pub type Handle = u64;
pub type RawFd = i32;
pub trait BitmapSlice {}
pub mod mem { pub fn drop<T>(x: T) {} }
pub struct PassthroughFs<S> { pub no_opendir: AtomicBool, pub handle_map: HandleMap, pub phantom: PhantomData<S> }
// HandleMap: only the side-table of directory positions matters here.  It is modelled at TWO levels over the same ghost map `ks.cache`: the methods
// set_cookie / remove_cookie (below), and the table itself - `cookies: Mutex<HashMap<Handle, u64>>` as a lock whose guard offers the HashMap
// operations - so that code which reaches into the table directly (instead of through the two methods) is still verified, not given up
pub struct HandleMap { pub cookies: CookieMutex }
#[verifier::external_body] pub struct CookieMutex { _p: u8 }
#[verifier::external_body] pub struct CookieLocked<'a> { _p: PhantomData<&'a u8> }
#[verifier::external_body] pub struct CookieGuard<'a> { _p: PhantomData<&'a u8> }
// Option<&u64> == Some(&x): PartialEq of Option / of references
pub fn vx_opt_ref_eq(o: Option<&u64>, x: u64) -> (r: bool) ensures r == (o is Some && *o->Some_0 == x) { match o { Some(v) => *v == x, None => false } }
impl CookieMutex { #[verifier::external_body] pub fn lock(&self) -> (r: CookieLocked<'_>) { unimplemented!() } }
impl<'a> CookieLocked<'a> { #[verifier::external_body] pub fn unwrap(self) -> (r: CookieGuard<'a>) { unimplemented!() } }      // locks are never poisoned (sequential model)
impl<'a> CookieGuard<'a> {
    #[verifier::external_body] pub fn get(&self, k: &Handle, Tracked(ks): Tracked<&mut KState>) -> (r: Option<&u64>)
        ensures *final(ks) == *old(ks), r is Some <==> old(ks).cache.dom().contains(*k), r is Some ==> *r->Some_0 == old(ks).cache[*k]
    { unimplemented!() }
    #[verifier::external_body] pub fn contains_key(&self, k: &Handle, Tracked(ks): Tracked<&mut KState>) -> (r: bool)
        ensures *final(ks) == *old(ks), r == old(ks).cache.dom().contains(*k)
    { unimplemented!() }
    #[verifier::external_body] pub fn remove(&mut self, k: &Handle, Tracked(ks): Tracked<&mut KState>) -> (r: Option<u64>)
        ensures final(ks).cache == old(ks).cache.remove(*k), final(ks).pos == old(ks).pos, final(ks).pending == old(ks).pending,
                r == (if old(ks).cache.dom().contains(*k) { Some(old(ks).cache[*k]) } else { None::<u64> })
    { unimplemented!() }
    #[verifier::external_body] pub fn insert(&mut self, k: Handle, v: u64, Tracked(ks): Tracked<&mut KState>) -> (r: Option<u64>)
        ensures final(ks).cache == old(ks).cache.insert(k, v), final(ks).pos == old(ks).pos, final(ks).pending == old(ks).pending
    { unimplemented!() }
}

// ---- names: bytes up to the first NUL (same definitions as in the server prelude)
#[verifier::opaque]
pub open spec fn has_nul(s: Seq<u8>) -> bool { exists|i: int| 0 <= i < s.len() && s[i] == 0u8 }
pub open spec fn first_nul(s: Seq<u8>) -> int { choose|i: int| 0 <= i < s.len() && s[i] == 0u8 && forall|j: int| 0 <= j < i ==> s[j] != 0u8 }
#[verifier::opaque]
pub open spec fn cstr_of(s: Seq<u8>) -> Seq<u8> { s.subrange(0, first_nul(s)) }
#[verifier::external_body] pub struct CrateError { _p: u8 }
// crate::bytes_to_cstr (src/lib.rs): contract only (std meaning of iter().position + CStr::from_bytes_with_nul), as in unit `server`
#[verifier::external_body]
pub fn bytes_to_cstr(buf: &[u8]) -> (r: core::result::Result<&CStr, CrateError>)
    ensures r is Ok <==> has_nul(buf@), r is Ok ==> r->Ok_0@ == cstr_of(buf@)
{ unimplemented!() }
pub proof fn lemma_first_nul(s: Seq<u8>)
    requires has_nul(s)
    ensures 0 <= first_nul(s) < s.len(), s[first_nul(s)] == 0u8, forall|j: int| 0 <= j < first_nul(s) ==> s[j] != 0u8
{
    reveal(has_nul);
    let i0 = choose|i: int| 0 <= i < s.len() && s[i] == 0u8;
    lemma_least_nul(s, i0);
}
pub proof fn lemma_least_nul(s: Seq<u8>, i: int)
    requires 0 <= i < s.len(), s[i] == 0u8
    ensures exists|k: int| 0 <= k < s.len() && s[k] == 0u8 && forall|j: int| 0 <= j < k ==> s[j] != 0u8
    decreases i
{
    if forall|j: int| 0 <= j < i ==> s[j] != 0u8 { }
    else { let j = choose|j: int| 0 <= j < i && s[j] == 0u8; lemma_least_nul(s, j); }
}

// ---- the abstract directory: what the kernel lists for an unchanged directory
pub ghost struct Dirent { pub ino: u64, pub off: u64, pub ty: u8, pub name: Seq<u8> }
pub open spec fn is_dot(n: Seq<u8>) -> bool { n =~= seq![46u8] }
pub open spec fn is_dotdot(n: Seq<u8>) -> bool { n =~= seq![46u8, 46u8] }
pub open spec fn hidden(e: Dirent) -> bool { is_dot(e.name) || is_dotdot(e.name) }

// ---- linux_dirent64 records in a getdents64 buffer: d_ino u64, d_off i64, d_reclen u16, d_type u8, d_name NUL-terminated, record padded to 8
pub open spec fn rec_hdr(b: Seq<u8>) -> LinuxDirent64 { hdr_of(b.subrange(0, HDR as int)) }
pub open spec fn rec_len(b: Seq<u8>) -> int { rec_hdr(b).d_reclen as int }
pub open spec fn rec_name(b: Seq<u8>) -> Seq<u8> { b.subrange(HDR as int, rec_len(b)) }
pub open spec fn rec_ent(b: Seq<u8>) -> Dirent {
    Dirent { ino: rec_hdr(b).d_ino, off: rec_hdr(b).d_off as u64, ty: rec_hdr(b).d_ty, name: cstr_of(rec_name(b)) }
}
// well-formed buffer: the records tile it; each is at least a header, a multiple of 8 and contains the terminating NUL of its name
// (what the kernel's filldir64 produces - assumption on getdents64, see sys::getdents64)
pub open spec fn rec_ok(b: Seq<u8>) -> bool {
    b.len() >= HDR && HDR <= rec_len(b) <= b.len() && rec_len(b) % 8 == 0 && has_nul(rec_name(b))
}
pub open spec fn wf(b: Seq<u8>) -> bool decreases b.len() {
    b.len() == 0 || (rec_ok(b) && wf(b.skip(rec_len(b))))
}
pub open spec fn parse(b: Seq<u8>) -> Seq<Dirent> decreases b.len() {
    if b.len() < HDR || rec_len(b) < HDR || rec_len(b) > b.len() { Seq::empty() } else { seq![rec_ent(b)] + parse(b.skip(rec_len(b))) }
}
// index of the first entry whose cookie is c (es.len() if there is none)
pub open spec fn find_off(es: Seq<Dirent>, c: u64) -> int decreases es.len() {
    if es.len() == 0 { 0 } else if es[0].off == c { 0 } else { 1 + find_off(es.skip(1), c) }
}
pub proof fn lemma_find_off(es: Seq<Dirent>, c: u64)
    ensures 0 <= find_off(es, c) <= es.len(),
            find_off(es, c) < es.len() ==> es[find_off(es, c)].off == c,
            forall|j: int| 0 <= j < find_off(es, c) ==> (#[trigger] es[j]).off != c,
    decreases es.len()
{
    if es.len() > 0 && es[0].off != c {
        lemma_find_off(es.skip(1), c);
        assert forall|j: int| 0 <= j < find_off(es, c) implies (#[trigger] es[j]).off != c by { if j > 0 { assert(es[j] == es.skip(1)[j - 1]); } }
    }
}
pub proof fn lemma_find_off_is(es: Seq<Dirent>, c: u64, i: int)
    requires 0 <= i <= es.len(), i < es.len() ==> es[i].off == c, forall|j: int| 0 <= j < i ==> (#[trigger] es[j]).off != c
    ensures find_off(es, c) == i
{
    lemma_find_off(es, c);
    let f = find_off(es, c);
    if f < i { assert(es[f].off != c); }
}
// Vec::drain(..n) with the Drain iterator dropped at once (std: "removes the specified range ... panics if the end point is greater than the length")
#[verifier::external_body]
pub fn vec_drain_to(v: &mut Vec<u8>, n: usize)
    requires n <= old(v)@.len(), // [C16.skip_to_cookie.inbounds]
    ensures final(v)@ == old(v)@.skip(n as int)
{ unimplemented!() }
pub proof fn lemma_parse_step(b: Seq<u8>)
    requires wf(b), b.len() > 0
    ensures rec_ok(b), wf(b.skip(rec_len(b))), parse(b) =~= seq![rec_ent(b)] + parse(b.skip(rec_len(b))),
            parse(b).len() == 1 + parse(b.skip(rec_len(b))).len(), parse(b)[0] == rec_ent(b), parse(b).skip(1) =~= parse(b.skip(rec_len(b)))
{ }
'''


SKIP_INV = '''while cur + size_of::<LinuxDirent64>() <= buf.len()
            invariant_except_break !found,
            invariant
                buf@ == old(buf)@, cur <= buf@.len(), buf@.len() <= 0x7fff_ffff_ffff_ffff, wf(buf@.skip(cur as int)), // [C16.skip_to_cookie.scan] the cursor stays on record boundaries
                es =~= pre + parse(buf@.skip(cur as int)), // [C16.skip_to_cookie.scan]
                forall|j: int| 0 <= j < pre.len() ==> (#[trigger] pre[j]).off != offset, // [C16.skip_to_cookie.scan] no record before the cursor carries the cookie
                found ==> cur < buf@.len() && target_reclen as int == rec_len(buf@.skip(cur as int)) && rec_ent(buf@.skip(cur as int)).off == offset, // [C16.skip_to_cookie.found] the match is the record at the cursor, compared by d_off
            ensures !found ==> cur == buf@.len(),
            decreases buf@.len() - cur
        {'''
SKIP_POST = '''let ghost cur0 = cur;
        proof {
            let rest = buf@.skip(cur as int);
            if found {
                lemma_parse_step(rest);
                assert(es =~= pre.push(rec_ent(rest)) + parse(rest.skip(rec_len(rest))));
                lemma_find_off_is(es, offset, pre.len() as int);
                assert(es.skip(pre.len() as int + 1) =~= parse(rest.skip(rec_len(rest))));
            } else {
                assert(rest.len() == 0);
                assert(es =~= pre);
                lemma_find_off_is(es, offset, es.len() as int);
            }
        }'''


LAST_INV = '''while buf.len() >= size_of::<LinuxDirent64>()
            invariant wf(buf@), parse(buf0) =~= pre + parse(buf@), // [C16.last_cookie.last]
                last == (if pre.len() == 0 { None::<u64> } else { Some(pre.last().off) }), // [C16.last_cookie.last]
            ensures buf@.len() < HDR,
            decreases buf@.len()
        {'''

KS = r'''
// =====================================================================================================================
// ---- the kernel side (ASSUMED model): directory streams, descriptor positions, and the cookie side-table of HandleMap
pub uninterp spec fn dir_content(inode: u64) -> Seq<Dirent>;     // what an UNCHANGED directory lists, in the kernel's order
pub uninterp spec fn fd_ino(fd: int) -> u64;                     // the directory a descriptor was opened on
pub open spec fn dir_of(fd: int) -> Seq<Dirent> { dir_content(fd_ino(fd)) }
pub uninterp spec fn handle_fd(h: u64) -> int;                   // the descriptor owned by an open handle (HandleMap::handles)
// cookies identify positions: non-zero ("0 = from the beginning") and pairwise distinct
pub open spec fn dir_ok(d: Seq<Dirent>) -> bool {
    (forall|i: int| 0 <= i < d.len() ==> (#[trigger] d[i]).off != 0)
    && (forall|i: int, j: int| 0 <= i < d.len() && 0 <= j < d.len() && i != j ==> (#[trigger] d[i]).off != (#[trigger] d[j]).off)
}
pub open spec fn known(d: Seq<Dirent>, c: u64) -> bool { c == 0 || find_off(d, c) < d.len() }
// the position "right after cookie c"
pub open spec fn after(d: Seq<Dirent>, c: u64) -> int { if c == 0 { 0 } else { find_off(d, c) + 1 } }
pub tracked struct KState {
    pub ghost pos: Map<int, int>,          // descriptor -> number of entries already consumed from its stream
    pub ghost cache: Map<u64, u64>,        // HandleMap::cookies
    pub ghost pending: Seq<u8>,            // bytes the last getdents64 wrote into the spare capacity of the buffer
    pub ghost errno: i32,
}
// each handle owns its own open file description
pub open spec fn fds_distinct() -> bool { forall|a: u64, b: u64| a != b ==> #[trigger] handle_fd(a) != #[trigger] handle_fd(b) }
// THE invariant of the cookie cache: a cached (handle -> cookie) pair means the handle's descriptor is positioned right after that cookie
pub open spec fn cache_inv(ks: KState) -> bool {
    forall|h: u64| #[trigger] ks.cache.dom().contains(h) ==> ({
        let fd = handle_fd(h); let d = dir_of(fd); let c = ks.cache[h];
        c != 0 && find_off(d, c) < d.len() && ks.pos[fd] == find_off(d, c) + 1 })
}
// ... and no cached handle owns the descriptor fd (so moving fd's position cannot break it)
pub open spec fn cache_inv_except(ks: KState, fd: int) -> bool {
    cache_inv(ks) && forall|h: u64| #[trigger] ks.cache.dom().contains(h) ==> handle_fd(h) != fd
}
pub proof fn lemma_cache_frame(k0: KState, k1: KState, fd: int)
    requires cache_inv_except(k0, fd), k1.cache == k0.cache, forall|f: int| f != fd ==> k1.pos[f] == k0.pos[f]
    ensures cache_inv_except(k1, fd)
{
    assert forall|h: u64| #[trigger] k1.cache.dom().contains(h) implies ({
        let f = handle_fd(h); let d = dir_of(f); let c = k1.cache[h];
        c != 0 && find_off(d, c) < d.len() && k1.pos[f] == find_off(d, c) + 1 }) by { assert(k0.cache.dom().contains(h)); }
}
pub open spec fn pos_ok(ks: KState, fd: int) -> bool { 0 <= ks.pos[fd] <= dir_of(fd).len() }
// what both resume paths leave behind: `b` holds the run of records that ends at the descriptor's position and (for a known cookie)
// starts right after the cookie; it is empty only at the end of the directory
pub open spec fn batch_ok(ks: KState, fd: int, offset: u64, b: Seq<u8>) -> bool {
    let d = dir_of(fd); let n = parse(b).len(); let p = ks.pos[fd];
    wf(b) && b.len() <= 0xffff_ffff && 0 <= p - n && p <= d.len() && parse(b) =~= d.subrange(p - n, p)
    && (known(d, offset) ==> p - n == after(d, offset) && (n == 0 ==> p == d.len()))
}
pub mod sys {
    use super::*;
    // lseek64(fd, off, SEEK_SET) on a directory: off = 0 rewinds, off = d_off of an entry positions right after it; for any other
    // value the resulting position is filesystem specific (left open).  A failing call changes nothing.  Rewinding never fails with EINVAL.
    #[verifier::external_body]
    pub fn lseek64(fd: i32, off: i64, whence: i32, Tracked(ks): Tracked<&mut KState>) -> (r: i64)
        requires whence == 0,
        ensures final(ks).cache == old(ks).cache, final(ks).pending == old(ks).pending,
                forall|f: int| f != fd ==> final(ks).pos[f] == old(ks).pos[f],
                r < 0 ==> final(ks).pos == old(ks).pos,
                r < 0 && off == 0 ==> final(ks).errno != 22,
                pos_ok(*old(ks), fd as int) ==> pos_ok(*final(ks), fd as int),
                r >= 0 && known(dir_of(fd as int), off as u64) ==> final(ks).pos[fd as int] == after(dir_of(fd as int), off as u64),
    { unimplemented!() }
    // getdents64(fd, buf, count): writes whole linux_dirent64 records for a contiguous run of the stream starting at the descriptor's
    // position (at most `count` bytes, at least one record unless at the end - a buffer too small for the next record is EINVAL),
    // and advances the position to the end of that run.  0 <=> end of directory.
    #[verifier::external_body]
    pub fn getdents64(fd: i32, buf: &Vec<u8>, count: i32, Tracked(ks): Tracked<&mut KState>) -> (r: i64)
        requires pos_ok(*old(ks), fd as int),
        ensures final(ks).cache == old(ks).cache,
                forall|f: int| f != fd ==> final(ks).pos[f] == old(ks).pos[f],
                r < 0 ==> final(ks).pos == old(ks).pos,
                r >= 0 ==> ({ let d = dir_of(fd as int); let p0 = old(ks).pos[fd as int]; let p1 = final(ks).pos[fd as int];
                    p0 <= p1 <= d.len() && final(ks).pending.len() == r && r <= count as u32 && wf(final(ks).pending)
                    && parse(final(ks).pending) =~= d.subrange(p0, p1) && (r == 0 <==> p1 == p0) && (r == 0 ==> p0 == d.len()) }),
    { unimplemented!() }
    // unsafe { buf.set_len(n) } after getdents64 wrote n bytes at buf.as_mut_ptr(): the vector is exactly what the kernel wrote
    #[verifier::external_body]
    pub fn vec_set_len(buf: &mut Vec<u8>, n: usize, Tracked(ks): Tracked<&mut KState>)
        requires n == old(ks).pending.len(), // [C16.do_readdir.set_len] the length taken is the number of bytes the kernel wrote
        ensures *final(ks) == *old(ks), final(buf)@ == old(ks).pending
    { unimplemented!() }
    #[verifier::external_body]
    pub fn last_os_error(Tracked(ks): Tracked<&mut KState>) -> (r: io::Error)
        ensures *final(ks) == *old(ks), r.os_code() == Some(old(ks).errno)
    { unimplemented!() }
}
// ---- host objects
#[verifier::external_body] pub struct File { _p: u8 }
#[verifier::external_body] pub struct BorrowedFd<'a> { _p: PhantomData<&'a u8> }
pub trait AsRawFd { spec fn sfd(&self) -> i32; fn as_raw_fd(&self) -> (r: RawFd) ensures r == self.sfd(); }
impl AsRawFd for File { uninterp spec fn sfd(&self) -> i32; #[verifier::external_body] fn as_raw_fd(&self) -> (r: RawFd) { unimplemented!() } }
impl<'a> AsRawFd for BorrowedFd<'a> { uninterp spec fn sfd(&self) -> i32; #[verifier::external_body] fn as_raw_fd(&self) -> (r: RawFd) { unimplemented!() } }
#[verifier::external_body] pub struct HandleData { _p: u8 }
impl HandleData {
    pub uninterp spec fn hfd(&self) -> i32;
    #[verifier::external_body] pub fn borrow_fd(&self) -> (r: BorrowedFd<'_>) ensures r.sfd() == self.hfd() { unimplemented!() }
    // (self.lock.lock().unwrap(), &self.file): sequential model, the guard is an opaque value
    #[verifier::external_body] pub fn get_file_mut(&self) -> (r: (MutexGuard<()>, &File)) ensures r.1.sfd() == self.hfd() { unimplemented!() }
}
impl HandleMap {
    // self.cookies.lock().unwrap().insert(handle, cookie) / .remove(&handle): HashMap semantics on the side-table
    #[verifier::external_body]
    pub fn set_cookie(&self, handle: Handle, cookie: u64, Tracked(ks): Tracked<&mut KState>)
        ensures final(ks).cache == old(ks).cache.insert(handle, cookie), final(ks).pos == old(ks).pos, final(ks).pending == old(ks).pending
    { unimplemented!() }
    #[verifier::external_body]
    pub fn remove_cookie(&self, handle: Handle, Tracked(ks): Tracked<&mut KState>) -> (r: Option<u64>)
        ensures final(ks).cache == old(ks).cache.remove(handle), final(ks).pos == old(ks).pos, final(ks).pending == old(ks).pending,
                r == (if old(ks).cache.dom().contains(handle) { Some(old(ks).cache[handle]) } else { None::<u64> })
    { unimplemented!() }
}
pub assume_specification<T, F: FnOnce(T) -> bool + core::marker::Destruct>[Option::<T>::is_some_and](o: Option<T>, f: F) -> (r: bool)
    requires o is Some ==> f.requires((o->Some_0,)),
    ensures o is None ==> !r, o is Some ==> f.ensures((o->Some_0,), r);
'''

CB = r'''
// =====================================================================================================================
// ---- the callback `&mut dyn FnMut(DirEntry, RawFd) -> io::Result<usize>`: a generic object with a ghost log of its calls
pub ghost struct CallRec { pub ino: u64, pub off: u64, pub ty: u32, pub name: Seq<u8>, pub fd: int, pub ok: Option<usize> }
pub trait AddEntry {
    spec fn log(&self) -> Seq<CallRec>;
    fn call(&mut self, d: DirEntry<'_>, fd: RawFd) -> (r: io::Result<usize>)
        ensures final(self).log() == old(self).log().push(CallRec { ino: d.ino, off: d.offset, ty: d.type_, name: d.name@, fd: fd as int,
                    ok: match r { Ok(n) => Some(n), Err(_) => None } });
}
// "omits . and ..": what a listing shows of a run of entries (in order)
pub open spec fn visible(s: Seq<Dirent>) -> Seq<Dirent> decreases s.len() {
    if s.len() == 0 { Seq::empty() } else if hidden(s.last()) { visible(s.drop_last()) } else { visible(s.drop_last()).push(s.last()) }
}
pub open spec fn call_matches(c: CallRec, e: Dirent, fd: int) -> bool {
    c.ino == e.ino && c.off == e.off && c.ty == e.ty as u32 && c.name == e.name && c.fd == fd
}
// the callback took the entry: Ok(n) with n != 0 (Ok(0) = "does not fit", Err = failure)
pub open spec fn accepted(c: CallRec) -> bool { c.ok is Some && c.ok->Some_0 != 0 }
#[verifier::opaque]
pub open spec fn all_accepted(calls: Seq<CallRec>, vis: Seq<Dirent>, fd: int) -> bool {
    calls.len() == vis.len() && forall|j: int| 0 <= j < calls.len() ==> call_matches(#[trigger] calls[j], vis[j], fd) && accepted(calls[j])
}
// what one do_readdir call may do with the batch it read: offer the visible entries in order, each with its own ino/off/type/name,
// never continue after an entry was not accepted, and stop early only for that reason
#[verifier::opaque]
pub open spec fn delivered_ok(batch: Seq<Dirent>, calls: Seq<CallRec>, fd: int) -> bool {
    let vis = visible(batch);
    calls.len() <= vis.len()
    && (forall|j: int| 0 <= j < calls.len() ==> call_matches(#[trigger] calls[j], vis[j], fd))
    && (forall|j: int| 0 <= j < calls.len() - 1 ==> accepted(#[trigger] calls[j]))
    && (calls.len() < vis.len() ==> calls.len() > 0 && !accepted(calls.last()))
}
pub open spec fn new_calls(log: Seq<CallRec>, log0: Seq<CallRec>) -> Seq<CallRec> { log.skip(log0.len() as int) }
pub open spec fn extends(log: Seq<CallRec>, log0: Seq<CallRec>) -> bool { log.len() >= log0.len() && log.take(log0.len() as int) =~= log0 }
pub proof fn lemma_visible_add(a: Seq<Dirent>, b: Seq<Dirent>)
    ensures visible(a + b) =~= visible(a) + visible(b)
    decreases b.len()
{
    if b.len() == 0 { assert(a + b =~= a); }
    else { assert((a + b).drop_last() =~= a + b.drop_last()); assert((a + b).last() == b.last()); lemma_visible_add(a, b.drop_last()); }
}
pub proof fn lemma_visible_take(s: Seq<Dirent>, i: int)
    requires 0 <= i < s.len()
    ensures visible(s.take(i + 1)) =~= (if hidden(s[i]) { visible(s.take(i)) } else { visible(s.take(i)).push(s[i]) }),
            visible(s.take(i + 1)).len() <= visible(s).len(),
            forall|j: int| 0 <= j < visible(s.take(i + 1)).len() ==> visible(s.take(i + 1))[j] == visible(s)[j],
{
    assert(s.take(i + 1).drop_last() =~= s.take(i));
    assert(s =~= s.take(i + 1) + s.skip(i + 1));
    lemma_visible_add(s.take(i + 1), s.skip(i + 1));
}
// ---- the per-call statement of C16 and the steps of the record loop (checked by Verus)
pub open spec fn resume_post(inode: u64, offset: u64, calls: Seq<CallRec>) -> bool {
    let dd = dir_content(inode);
    exists|e: int, fd: int| after(dd, offset) <= e <= dd.len() && (e == after(dd, offset) ==> e == dd.len()) && fd_ino(fd) == inode
        && #[trigger] delivered_ok(dd.subrange(after(dd, offset), e), calls, fd)
}
pub open spec fn batch_pre(inode: u64, offset: u64, fd: int, p: int, batch: Seq<Dirent>) -> bool {
    let dd = dir_content(inode);
    fd_ino(fd) == inode && (known(dd, offset) ==> batch == dd.subrange(after(dd, offset), p) && after(dd, offset) <= p <= dd.len() && (p == after(dd, offset) ==> p == dd.len()))
}
pub proof fn lemma_exit(inode: u64, offset: u64, fd: int, p: int, batch: Seq<Dirent>, calls: Seq<CallRec>)
    requires batch_pre(inode, offset, fd, p, batch), delivered_ok(batch, calls, fd)
    ensures known(dir_content(inode), offset) ==> resume_post(inode, offset, calls)
{
    let dd = dir_content(inode);
    if known(dd, offset) { assert(delivered_ok(dd.subrange(after(dd, offset), p), calls, fd)); }
}
pub proof fn lemma_step_hidden(batch: Seq<Dirent>, i: int, calls: Seq<CallRec>, fd: int)
    requires 0 <= i < batch.len(), hidden(batch[i]), all_accepted(calls, visible(batch.take(i)), fd)
    ensures all_accepted(calls, visible(batch.take(i + 1)), fd)
{ lemma_visible_take(batch, i); }
pub proof fn lemma_step_accept(batch: Seq<Dirent>, i: int, calls: Seq<CallRec>, c: CallRec, fd: int)
    requires 0 <= i < batch.len(), !hidden(batch[i]), all_accepted(calls, visible(batch.take(i)), fd), call_matches(c, batch[i], fd), accepted(c)
    ensures all_accepted(calls.push(c), visible(batch.take(i + 1)), fd)
{ reveal(all_accepted); lemma_visible_take(batch, i); }
pub proof fn lemma_step_stop(batch: Seq<Dirent>, i: int, calls: Seq<CallRec>, c: CallRec, fd: int)
    requires 0 <= i < batch.len(), !hidden(batch[i]), all_accepted(calls, visible(batch.take(i)), fd), call_matches(c, batch[i], fd), !accepted(c)
    ensures delivered_ok(batch, calls.push(c), fd), c.ok is None && calls.len() == 0 ==> calls.push(c).len() == 1 && calls.push(c)[0].ok is None,
{
    reveal(all_accepted); reveal(delivered_ok); lemma_visible_take(batch, i);
    let vt = visible(batch.take(i)); let vt1 = visible(batch.take(i + 1)); let cs = calls.push(c);
    assert(vt1 =~= vt.push(batch[i]));
    assert forall|j: int| 0 <= j < cs.len() implies call_matches(#[trigger] cs[j], visible(batch)[j], fd) by {
        assert(vt1[j] == visible(batch)[j]);
        if j < calls.len() { assert(cs[j] == calls[j]); assert(vt1[j] == vt[j]); }
    }
    assert forall|j: int| 0 <= j < cs.len() - 1 implies accepted(#[trigger] cs[j]) by { assert(cs[j] == calls[j]); }
}
pub proof fn lemma_step_done(batch: Seq<Dirent>, calls: Seq<CallRec>, fd: int)
    requires all_accepted(calls, visible(batch.take(batch.len() as int)), fd)
    ensures delivered_ok(batch, calls, fd)
{ reveal(all_accepted); reveal(delivered_ok); assert(batch.take(batch.len() as int) =~= batch); }
pub proof fn lemma_all_accepted_empty(batch: Seq<Dirent>, fd: int)
    ensures all_accepted(Seq::<CallRec>::empty(), visible(batch.take(0)), fd)
{ reveal(all_accepted); assert(batch.take(0) =~= Seq::<Dirent>::empty()); }
pub proof fn lemma_all_accepted_len0(calls: Seq<CallRec>, batch: Seq<Dirent>, fd: int)
    requires all_accepted(calls, visible(batch.take(0)), fd)
    ensures calls.len() == 0
{ reveal(all_accepted); assert(batch.take(0) =~= Seq::<Dirent>::empty()); }
// a name that starts with ".\0" / "..\0" in its NUL-padded field is exactly "." / ".."
pub proof fn lemma_dot_names(s: Seq<u8>)
    requires has_nul(s)
    ensures is_dot(cstr_of(s)) <==> seq![46u8, 0u8].is_prefix_of(s),
            is_dotdot(cstr_of(s)) <==> seq![46u8, 46u8, 0u8].is_prefix_of(s),
{
    lemma_first_nul(s); reveal(cstr_of);
    let n = first_nul(s);
    let d1 = seq![46u8, 0u8]; let d2 = seq![46u8, 46u8, 0u8];
    if d1.is_prefix_of(s) { assert(s[0] == d1[0] && s[1] == d1[1]); assert(s.subrange(0, 2) =~= d1); if n > 1 { assert(s[1] != 0u8); } assert(n == 1); assert(cstr_of(s) =~= seq![46u8]); }
    if d2.is_prefix_of(s) { assert(s[0] == d2[0] && s[1] == d2[1] && s[2] == d2[2]); if n > 2 { assert(s[2] != 0u8); } assert(n == 2); assert(cstr_of(s) =~= seq![46u8, 46u8]); }
    if is_dot(cstr_of(s)) { assert(n == 1); assert(cstr_of(s)[0] == s[0]); assert(s.subrange(0, 2) =~= d1); }
    if is_dotdot(cstr_of(s)) { assert(n == 2); assert(cstr_of(s)[0] == s[0]); assert(cstr_of(s)[1] == s[1]); assert(s.subrange(0, 3) =~= d2); }
}
'''


TOP = r'''
// =====================================================================================================================
// ---- C16, the statement across calls (proof functions over the abstract stream; checked by Verus)
pub proof fn lemma_cookie_index(d: Seq<Dirent>, k: int)
    requires dir_ok(d), 0 <= k < d.len()
    ensures find_off(d, d[k].off) == k, d[k].off != 0, known(d, d[k].off), after(d, d[k].off) == k + 1
{ lemma_find_off_is(d, d[k].off, k); }
// the accepted calls of one do_readdir: all of them, or all but the last
pub open spec fn n_accepted(calls: Seq<CallRec>) -> int { if calls.len() > 0 && !accepted(calls.last()) { calls.len() - 1 } else { calls.len() as int } }
pub proof fn lemma_delivered_prefix(batch: Seq<Dirent>, calls: Seq<CallRec>, fd: int)
    requires delivered_ok(batch, calls, fd)
    ensures 0 <= n_accepted(calls) <= visible(batch).len(),
            forall|j: int| 0 <= j < n_accepted(calls) ==> call_matches(#[trigger] calls[j], visible(batch)[j], fd) && accepted(calls[j]),
            // fewer delivered than listed: the next one was offered and refused (reply full / error), nothing was skipped silently
            n_accepted(calls) < visible(batch).len() ==> calls.len() == n_accepted(calls) + 1 && call_matches(calls.last(), visible(batch)[n_accepted(calls)], fd), // [C16.lemma.delivered_prefix]
{ reveal(delivered_ok); }
// the m-th visible entry of a run sits at some index j, and the visible part of the run up to and including j is exactly the first m
pub proof fn lemma_visible_index(s: Seq<Dirent>, m: int) -> (j: int)
    requires 1 <= m <= visible(s).len()
    ensures 0 <= j < s.len(), s[j] == visible(s)[m - 1], visible(s.take(j + 1)) =~= visible(s).take(m)
    decreases s.len()
{
    let p = s.drop_last();
    if hidden(s.last()) {
        let j = lemma_visible_index(p, m);
        assert(s.take(j + 1) =~= p.take(j + 1));
        j
    } else if m == visible(s).len() {
        assert(s.take(s.len() as int) =~= s);
        assert(visible(s).take(m) =~= visible(s));
        s.len() - 1
    } else {
        let j = lemma_visible_index(p, m);
        assert(s.take(j + 1) =~= p.take(j + 1));
        assert(visible(s).take(m) =~= visible(p).take(m));
        j
    }
}
pub open spec fn concat(g: Seq<Seq<Dirent>>) -> Seq<Dirent> decreases g.len() {
    if g.len() == 0 { Seq::empty() } else { concat(g.drop_last()) + g.last() }
}
// one READDIR exchange as the client sees it: it asked for `off` and was delivered `got` - a prefix of the visible part of a run of the
// directory that starts right after `off` and is empty only at the end (what [C16.do_readdir.resume] + lemma_delivered_prefix give)
pub open spec fn exchange_ok(d: Seq<Dirent>, off: u64, got: Seq<Dirent>) -> bool {
    known(d, off) && exists|e: int| after(d, off) <= e <= d.len() && (e == after(d, off) ==> e == d.len())
        && #[trigger] got.is_prefix_of(visible(d.subrange(after(d, off), e)))
}
// "ends with an empty reply" read the other way round: an empty reply is given only when nothing visible is left.  On the callback log of
// one do_readdir call this is call_progress - the CHECKED postcondition [C16.do_readdir.progress] - and for the client it is `progress`,
// which follows from it (lemma_exchange_from_calls) under the property's premise that the reply buffer holds at least the next entry
// (the first entry offered is accepted).
pub open spec fn call_progress(inode: u64, off: u64, calls: Seq<CallRec>) -> bool {
    calls.len() == 0 ==> visible(dir_content(inode).skip(after(dir_content(inode), off))).len() == 0
}
pub open spec fn progress(d: Seq<Dirent>, off: u64, got: Seq<Dirent>) -> bool {
    got.len() == 0 ==> visible(d.skip(after(d, off))).len() == 0
}
// a client that starts at 0 and resumes each time from the `off` of the last entry it was delivered
pub open spec fn session(d: Seq<Dirent>, offs: Seq<u64>, gots: Seq<Seq<Dirent>>) -> bool {
    offs.len() == gots.len() && offs.len() > 0 && offs[0] == 0
    && (forall|k: int| 0 <= k < offs.len() ==> exchange_ok(d, #[trigger] offs[k], gots[k]) && progress(d, offs[k], gots[k]))
    && (forall|k: int| 0 <= k < offs.len() - 1 ==> (#[trigger] gots[k]).len() > 0 && offs[k + 1] == gots[k].last().off)
}
// bridge: what [C16.do_readdir.resume] says about the callback log is an exchange in the sense above
pub proof fn lemma_exchange_from_calls(inode: u64, off: u64, calls: Seq<CallRec>) -> (got: Seq<Dirent>)
    requires known(dir_content(inode), off), resume_post(inode, off, calls)
    ensures exchange_ok(dir_content(inode), off, got), got.len() == n_accepted(calls),
            forall|j: int| 0 <= j < got.len() ==> accepted(#[trigger] calls[j]) && calls[j].ino == got[j].ino && calls[j].off == got[j].off
                && calls[j].ty == got[j].ty as u32 && calls[j].name == got[j].name && fd_ino(calls[j].fd) == inode, // [C16.lemma.exchange] each delivered entry carries the ino, cookie, type and name of its directory entry
            // the client's progress = the call's postcondition + "the reply buffer holds at least the next entry"
            call_progress(inode, off, calls) && (calls.len() > 0 ==> accepted(calls[0])) ==> progress(dir_content(inode), off, got), // [C16.lemma.progress]
{
    let dd = dir_content(inode);
    let (e, fd) = choose|e: int, fd: int| after(dd, off) <= e <= dd.len() && (e == after(dd, off) ==> e == dd.len()) && fd_ino(fd) == inode
        && #[trigger] delivered_ok(dd.subrange(after(dd, off), e), calls, fd);
    let batch = dd.subrange(after(dd, off), e);
    lemma_delivered_prefix(batch, calls, fd);
    let got = visible(batch).take(n_accepted(calls));
    assert(got.is_prefix_of(visible(batch)));
    got
}
pub proof fn lemma_c16_step(d: Seq<Dirent>, off: u64, got: Seq<Dirent>)
    requires dir_ok(d), exchange_ok(d, off, got), got.len() > 0
    ensures known(d, got.last().off), after(d, off) < after(d, got.last().off) <= d.len(),
            visible(d.take(after(d, got.last().off))) =~= visible(d.take(after(d, off))) + got, // [C16.lemma.step] what was delivered is exactly the visible part between the two cookies
{
    let s = after(d, off);
    lemma_find_off(d, off);
    let e = choose|e: int| s <= e <= d.len() && (e == s ==> e == d.len()) && #[trigger] got.is_prefix_of(visible(d.subrange(s, e)));
    let batch = d.subrange(s, e); let m = got.len() as int;
    let j = lemma_visible_index(batch, m);
    assert(got.last() == visible(batch)[m - 1]);
    assert(batch[j] == d[s + j]);
    lemma_cookie_index(d, s + j);
    assert(d.take(s + j + 1) =~= d.take(s) + batch.take(j + 1));
    lemma_visible_add(d.take(s), batch.take(j + 1));
    assert(visible(batch).take(m) =~= got);
}
pub proof fn lemma_c16(d: Seq<Dirent>, offs: Seq<u64>, gots: Seq<Seq<Dirent>>, k: int)
    requires dir_ok(d), session(d, offs, gots), 0 <= k < offs.len()
    ensures known(d, offs[k]),
            concat(gots.take(k)) =~= visible(d.take(after(d, offs[k]))), // [C16.lemma.prefix] before exchange k the client holds exactly the visible entries up to its cookie, each once, in order
            gots[k].len() == 0 ==> concat(gots.take(k + 1)) =~= visible(d), // [C16.lemma.exactly_once] the listing that ends with an empty reply is the whole directory minus "." and ".."
    decreases k
{
    if k == 0 {
        assert(gots.take(0) =~= Seq::<Seq<Dirent>>::empty());
        assert(d.take(0) =~= Seq::<Dirent>::empty());
    } else {
        lemma_c16(d, offs, gots, k - 1);
        assert(gots[k - 1].len() > 0);
        lemma_c16_step(d, offs[k - 1], gots[k - 1]);
        assert(gots.take(k).drop_last() =~= gots.take(k - 1));
        assert(gots.take(k).last() == gots[k - 1]);
    }
    if gots[k].len() == 0 {
        let s = after(d, offs[k]);
        lemma_find_off(d, offs[k]);
        assert(gots.take(k + 1).drop_last() =~= gots.take(k));
        assert(gots.take(k + 1).last() == gots[k]);
        assert(d =~= d.take(s) + d.skip(s));
        lemma_visible_add(d.take(s), d.skip(s));
        assert(progress(d, offs[k], gots[k]));
        assert(visible(d.skip(s)) =~= Seq::<Dirent>::empty());
        assert(concat(gots.take(k + 1)) =~= concat(gots.take(k)) + gots[k]);
        assert(gots[k] =~= Seq::<Dirent>::empty());
    }
}
'''

SYSW = 'every: host call -> model in module `sys` over the abstract directory stream (same arguments, ghost token appended)'
GETDENTS_RX = r'libc::syscall\(\s*libc::SYS_getdents64,\s*dir\.as_raw_fd\(\),\s*buf\.as_mut_ptr\(\) as \*mut LinuxDirent64,\s*size as libc::c_int,\s*\)'
DR_RESUB = [
    (GETDENTS_RX, 'sys::getdents64(dir.as_raw_fd(), &buf, size as libc::c_int, Tracked(ks))', SYSW),
    (r'libc::lseek64\(((?:[^()]|\([^()]*\))*)\)', r'sys::lseek64(\1, Tracked(ks))', SYSW),
    (r'unsafe \{ buf\.set_len\(([^;]*)\) \};', r'sys::vec_set_len(&mut buf, \1, Tracked(ks));',
     'every: unsafe Vec::set_len after getdents64 -> model sys::vec_set_len (the vector becomes the bytes the kernel wrote; the length must equal the count returned)'),
    (r'io::Error::last_os_error\(\)', 'sys::last_os_error(Tracked(ks))', 'every: errno of the last failing host call (ghost token appended)'),
    (r'\badd_entry\(', 'add_entry.call(', 'call of the `&mut dyn FnMut` callback -> method call on the generic AddEntry object (ghost log)'),
]
DR_SIG = [('fn do_readdir(', 'fn do_readdir<A: AddEntry>('),
          ('add_entry: &mut dyn FnMut(DirEntry, RawFd) -> io::Result<usize>', 'add_entry: &mut A')]
D_ = 'dir_content(inode)'
CALLS = 'new_calls(final(add_entry).log(), old(add_entry).log())'
DR_REQ = ['fds_distinct() // each open handle owns its own descriptor (HandleMap: one File per handle)',
          'dir_ok(%s) // cookies of the directory are non-zero and distinct' % D_,
          'cache_inv(*old(ks)) // invariant of the cookie cache, re-established below']
DR_ENS = [
    'cache_inv(*final(ks)) // [C16.do_readdir.cache_inv] a cookie stays cached only while the descriptor is positioned right after it',
    'extends(final(add_entry).log(), old(add_entry).log())',
    # the core: resuming from 0 or from the cookie of any entry offers the run that starts right after it
    'res is Ok && size != 0 && known(%s, offset) ==> resume_post(inode, offset, %s) // [C16.do_readdir.resume] the batch offered starts right after the cookie and is empty only at the end of the directory' % (D_, CALLS),
    ('res is Ok && size != 0 && known(%s, offset) ==> call_progress(inode, offset, %s) '
     '// [C16.do_readdir.progress] nothing offered to the callback (an empty reply) only if nothing visible is left after the cookie') % (D_, CALLS),
    ('res is Ok && !known(%s, offset) && offset > 0x7fff_ffff_ffff_ffffu64 ==> %s.len() == 0 '
     '// [C16.do_readdir.stale] an unknown cookie on the scan path yields an empty reply, not a loop') % (D_, CALLS),
    'size == 0 ==> %s.len() == 0 && *final(ks) == *old(ks)' % CALLS,
    ('res is Err ==> %(C)s.len() == 0 || (%(C)s.len() == 1 && %(C)s[0].ok is None) '
     '// [C16.do_readdir.err_first] an error is reported only if nothing was delivered') % dict(C=CALLS),
]
# ---- ghost text spliced into do_readdir
DR_ENTRY = 'let ghost ks0 = *ks; let ghost log0 = add_entry.log(); proof { assert(log0.take(log0.len() as int) =~= log0); assert(log0.skip(log0.len() as int).len() == 0); }'
DR_DATA = 'let ghost fd = data.hfd() as int; let ghost d = dir_of(fd); let ghost ks1 = *ks;'
DR_HIT = '''let ghost ks2 = *ks;
            proof {
                assert(cookie_hit ==> ks.pos[fd] == after(d, offset) && known(d, offset)); // [C16.do_readdir.cache_hit] on a hit the descriptor already stands right after the cookie
                assert(cache_inv_except(*ks, fd)) by {
                    assert forall|h: u64| #[trigger] ks.cache.dom().contains(h) implies handle_fd(h) != fd && ks0.cache.dom().contains(h) && ks0.cache[h] == ks.cache[h] && ks.pos[handle_fd(h)] == ks0.pos[handle_fd(h)] by { }
                }
            }'''
SCAN_INV = '''let ghost ks3 = *ks;
                loop
                    invariant_except_break
                        buf@.len() == 0, // [C16.do_readdir.scan] a batch without the cookie is discarded as a whole
                        !found ==> forall|j: int| 0 <= j < ks.pos[fd] ==> (#[trigger] d[j]).off != offset, // [C16.do_readdir.scan]
                        found ==> known(d, offset) && ks.pos[fd] == after(d, offset), // [C16.do_readdir.scan] after a match at the end of a batch the next batch starts right after the cookie
                    invariant
                        offset != 0, size != 0, d == dir_of(fd), dir_ok(d), cache_inv_except(*ks, fd), log0 == add_entry.log(), dir.sfd() as int == fd, pos_ok(*ks, fd), ks.cache == ks3.cache,
                        forall|f: int| f != fd ==> ks.pos[f] == ks3.pos[f],
                    ensures
                        batch_ok(*ks, fd, offset, buf@), // [C16.do_readdir.scan] the scan hands over exactly the records after the cookie; nothing for an unknown cookie
                        !known(d, offset) ==> buf@.len() == 0, // [C16.do_readdir.stale]
                    decreases d.len() - ks.pos[fd]
                {
                    let ghost p0 = ks.pos[fd]; let ghost kl = *ks;'''
SCAN_EOF = '''proof {
                            assert(parse(buf@) =~= Seq::<Dirent>::empty());
                            if !found { lemma_find_off_is(d, offset, d.len() as int); }
                        }'''
SCAN_SKIP = '''let ghost es = parse(buf@); let ghost p1 = ks.pos[fd];
                    proof {
                        lemma_find_off(es, offset);
                        let i = find_off(es, offset);
                        if i < es.len() {
                            assert(es[i] == d[p0 + i]);
                            assert forall|j: int| 0 <= j < p0 + i implies (#[trigger] d[j]).off != offset by { if j >= p0 { assert(es[j - p0] == d[j]); } }
                            lemma_find_off_is(d, offset, p0 + i);
                            assert(es.skip(i + 1) =~= d.subrange(p0 + i + 1, p1));
                        } else {
                            assert forall|j: int| 0 <= j < p1 implies (#[trigger] d[j]).off != offset by { if j >= p0 { assert(es[j - p0] == d[j]); } }
                        }
                    }'''
DR_BATCH = '''proof { assert(batch_ok(*ks, fd, offset, buf@)); } // [C16.do_readdir.batch] both paths leave in `buf` the run that starts right after the cookie, the descriptor right after the last record
            let ghost ks4 = *ks;'''
DR_CACHED = '''proof {
                let es = parse(buf@);
                if !self.no_opendir.cur() && es.len() > 0 {
                    let p = ks.pos[fd];
                    assert(es.last() == d[p - 1]);
                    lemma_find_off(d, d[p - 1].off);
                    lemma_find_off_is(d, d[p - 1].off, p - 1);
                }
                assert(cache_inv(*ks)); // [C16.do_readdir.cache_inv] the cookie cached is the one the descriptor stands right after
            }'''
REC_INV = '''let ghost batch = parse(buf@); let ghost ks5 = *ks;
        proof {
            assert(buf@.subrange(0, buf@.len() as int) =~= buf@); assert(batch.skip(0) =~= batch); assert(batch.take(0) =~= Seq::<Dirent>::empty());
            assert(new_calls(add_entry.log(), log0) =~= Seq::<CallRec>::empty());
            lemma_all_accepted_empty(batch, fd);
            assert(batch_pre(inode, offset, fd, ks5.pos[fd], batch));
        }
        let ghost mut stopped = false;
        while !rem.is_empty()
            invariant_except_break !stopped, // [C16.do_readdir.stop] the walk ends at the first entry that was not accepted
            invariant
                !stopped ==> all_accepted(new_calls(add_entry.log(), log0), visible(batch.take(batch.len() - parse(rem@).len())), fd), // [C16.do_readdir.loop] every visible record so far was offered once, in order, and accepted
                stopped ==> delivered_ok(batch, new_calls(add_entry.log(), log0), fd), // [C16.do_readdir.delivered]
                wf(rem@), parse(rem@).len() <= batch.len(), parse(rem@) =~= batch.skip(batch.len() - parse(rem@).len()), rem@.len() <= 0x7fff_ffff_ffff_ffff, // [C16.do_readdir.walk] the records are visited one by one, each advance is exactly one record
                parse(rem@).len() == batch.len() ==> rem@.len() == orig_rem_len, parse(rem@).len() < batch.len() ==> rem@.len() < orig_rem_len, // [C16.do_readdir.walk]
                *ks == ks5, cache_inv(ks5), size != 0, data.hfd() as int == fd, extends(add_entry.log(), log0), log0 == old(add_entry).log(),
                batch_pre(inode, offset, fd, ks5.pos[fd], batch),
                !known(dir_content(inode), offset) && offset > 0x7fff_ffff_ffff_ffffu64 ==> batch.len() == 0,
            ensures !stopped ==> rem@.len() == 0,
            decreases rem@.len()
        {
            let ghost i: int = batch.len() - parse(rem@).len();
            proof { assert(!stopped); lemma_parse_step(rem@); assert(batch[i] == batch.skip(i)[0]); assert(batch[i] == rec_ent(rem@)); if i == 0 { lemma_all_accepted_len0(new_calls(add_entry.log(), log0), batch, fd); } }
            let ghost log1 = add_entry.log();'''
REC_FRONT = 'proof { assert(front@ =~= rem@.subrange(0, HDR as int)); }'
REC_NAME = '''proof {
                assert(name@ =~= rec_name(rem@));
                lemma_dot_names(name@);
            }'''
REC_MATCH = '''proof {
                let calls1 = new_calls(log1, log0); let calls = new_calls(add_entry.log(), log0);
                if hidden(batch[i]) {
                    assert(add_entry.log() == log1); // [C16.do_readdir.hidden] exactly the records named . and .. are passed over without a call
                    lemma_step_hidden(batch, i, calls1, fd);
                } else {
                    let c = add_entry.log().last();
                    assert(calls =~= calls1.push(c));
                    assert(add_entry.log().take(log0.len() as int) =~= log1.take(log0.len() as int));
                    assert(call_matches(c, batch[i], fd)); // [C16.do_readdir.entry] ino, offset, type and name (up to the first NUL) are those of this record
                    if accepted(c) { lemma_step_accept(batch, i, calls1, c, fd); }
                    else { stopped = true; lemma_step_stop(batch, i, calls1, c, fd); lemma_exit(inode, offset, fd, ks5.pos[fd], batch, calls); } // [C16.do_readdir.stop] nothing is offered after an entry that was not accepted
                }
                assert(rem@.skip(rec_len(rem@)).len() < rem@.len());
                assert(batch.skip(i).skip(1) =~= batch.skip(i + 1));
                assert(parse(rem@.skip(rec_len(rem@))).len() == batch.len() - (i + 1));
            }'''
REC_END = '''proof {
            let calls = new_calls(add_entry.log(), log0);
            if !stopped { assert(parse(rem@).len() == 0); lemma_step_done(batch, calls, fd); }
            lemma_exit(inode, offset, fd, ks5.pos[fd], batch, calls);
            let dd = dir_content(inode); let p = ks5.pos[fd];
            if known(dd, offset) && calls.len() == 0 {
                lemma_find_off(dd, offset);
                if batch.len() == 0 {
                    assert(dd.skip(after(dd, offset)) =~= Seq::<Dirent>::empty());      // the batch is empty only at the end of the directory
                } else {
                    reveal(delivered_ok);
                    assert(visible(batch).len() == 0);                                 // nothing was offered: every record of the batch is "." or ".."
                    assert(visible(dd.skip(p)).len() == 0); // [C16.do_readdir.progress] a batch made only of "." / ".." must not end the listing: nothing visible may be left behind it
                    assert(dd.skip(after(dd, offset)) =~= batch + dd.skip(p));
                    lemma_visible_add(batch, dd.skip(p));
                }
            }
            if !known(dir_content(inode), offset) && offset > 0x7fff_ffff_ffff_ffffu64 { reveal(delivered_ok); assert(visible(batch) =~= Seq::<Dirent>::empty()); }
        }'''

GET_DIRDATA = '''    // get_dirdata: the handle's own descriptor, or (no_opendir mode) a descriptor freshly opened on the directory - at position 0 and owned by no handle
    #[verifier::external_body]
    fn get_dirdata(&self, handle: Handle, inode: Inode, flags: i32, Tracked(ks): Tracked<&mut KState>) -> (r: io::Result<Arc<HandleData>>)
        ensures final(ks).cache == old(ks).cache, final(ks).pending == old(ks).pending,
                r is Err ==> final(ks).pos == old(ks).pos,
                r is Ok ==> ({ let fd = r->Ok_0.hfd() as int;
                    fd_ino(fd) == inode && pos_ok(*final(ks), fd) && (forall|f: int| f != fd ==> final(ks).pos[f] == old(ks).pos[f])
                    && (if self.no_opendir.cur() { final(ks).pos[fd] == 0 && forall|h: u64| #[trigger] handle_fd(h) != fd }
                        else { final(ks).pos == old(ks).pos && fd == handle_fd(handle) }) }),
    { unimplemented!() }'''
TOK = dict(param='Tracked(ks): Tracked<&mut KState>', arg='Tracked(ks)')


def r85_ref_pattern(body, fired):
    """R85  reference pattern on a Copy binding (`Some(&x)` matched against an Option<&T>, T: Copy - this Verus has no ref patterns):
    `Some(&x)` -> `Some(x)` and every other use of `x` in the function -> `(*x)`; same values.  Applies only when `x` is bound nowhere else in the
    function (no `let x`, no closure parameter `|x|`, no other pattern binding it), otherwise exit 2."""
    for m in list(re.finditer(r'Some\(&(\w+)\)', X.mask(body))):
        x = m.group(1)
        if re.search(r'\blet\s+(mut\s+)?%s\b|\|\s*%s\s*[|:,]' % (x, x), X.mask(body)) or len(re.findall(r'Some\(&%s\)' % x, body)) != 1:
            raise X.ExtractError('R85: `%s` of a reference pattern is bound more than once' % x)
        body = body.replace('Some(&%s)' % x, 'Some(%s__refpat)' % x)
        body = re.sub(r'\b%s\b' % x, '(*%s)' % x, body)
        body = body.replace('Some(%s__refpat)' % x, 'Some(%s)' % x)
        fired.append('R85 reference pattern Some(&%s) -> Some(%s), uses of %s dereferenced' % (x, x, x))
    return body


_ROOT = ['/repo']


def r87_opt_ref_eq(body, fired):
    """R87  `E == Some(&X)` on an Option<&u64> (PartialEq of Option and of references: equal iff both Some and the referents equal) -> the model call
    `vx_opt_ref_eq(E, X)` with exactly that meaning."""
    n = len(re.findall(r'==\s*Some\(&(\w+)\)', body))
    if n:
        body = re.sub(r'(\b[\w.]+\([^()]*(?:\([^()]*\))?[^()]*\))\s*==\s*Some\(&(\w+)\)', r'vx_opt_ref_eq(\1, \2)', body)
        if re.search(r'==\s*Some\(&(\w+)\)', body):
            raise X.ExtractError('R87: unrecognised left operand of `== Some(&x)`')
        fired.append('R87 `E == Some(&x)` -> vx_opt_ref_eq(E, x) (%d)' % n)
    return body


def r86_inline_helper(root, known=('set_cookie', 'remove_cookie', 'get', 'insert', 'remove', 'clear', 'release')):
    """R86  a call `self.handle_map.NAME(ARGS)` of a HandleMap method the model has NO contract for (a helper added next to set_cookie / remove_cookie)
    -> the method's real body, taken from `impl HandleMap` of src/passthrough/mod.rs, in a block at the call: `{ let P1: T1 = A1; ..; BODY }` with
    `self.` -> `self.handle_map.` (call-by-value of the arguments in order, as Rust evaluates them; same meaning as the call).  Only for a body
    without `return` / `?` / `self` used other than as `self.FIELD` and for distinct parameter names; anything else is exit 2.  A function without a
    contract cannot be called from verified code - its body can be read instead, so the CALLER's contract decides (seeds C16-b / -d / -e)."""
    def hook(body, fired):
        for _ in range(4):
            msk = X.mask(body)
            m = None
            for c in re.finditer(r'self\s*\.\s*handle_map\s*\.\s*(\w+)\s*\(', msk):
                if c.group(1) not in known:
                    m = c
                    break
            if m is None:
                return body
            name = m.group(1)
            ob = m.end() - 1
            cb = X.match_close(msk, ob)
            args = [a.strip() for a in X.split_top(body[ob + 1:cb])] if body[ob + 1:cb].strip() else []
            src = open(os.path.join(root, PTMOD)).read()
            smsk = X.mask(src)
            im = re.search(r'\bimpl\s+HandleMap\s*\{', smsk)
            if not im:
                raise X.ExtractError('R86: impl HandleMap not found')
            ie = X.match_close(smsk, im.end() - 1)
            fm = re.search(r'\bfn\s+%s\s*\(\s*&self\s*(?:,([^)]*))?\)\s*(?:->\s*[^{]+)?\{' % re.escape(name), smsk[im.end():ie])
            if not fm:
                raise X.ExtractError('R86: HandleMap::%s is neither modelled nor a `&self` method of impl HandleMap' % name)
            fb = im.end() + fm.end() - 1
            fe = X.match_close(smsk, fb)
            fbody = src[fb + 1:fe]
            fmsk = smsk[fb + 1:fe]
            params = [q.strip() for q in (fm.group(1) or '').split(',') if q.strip()]
            if len(params) != len(args) or re.search(r'\breturn\b|\?', fmsk) or re.search(r'\bself\b(?!\s*\.\s*\w)', fmsk):
                raise X.ExtractError('R86: HandleMap::%s has a shape that is not inlined (return / ? / bare self / arity)' % name)
            lets = ' '.join('let %s = %s;' % (q, a) for q, a in zip(params, args))
            inl = '{ %s %s }' % (lets, re.sub(r'\bself\s*\.', 'self.handle_map.', fbody).strip())
            inl = re.sub(r'//[^\n]*', '', inl)
            body = body[:m.start()] + inl.replace('\n', X.SEP) + body[cb + 1:]
            fired.append('R86 uncontracted helper HandleMap::%s inlined at its call (%d parameter(s), body of %d line(s) from %s)' % (name, len(params), fbody.count('\n'), PTMOD))
        raise X.ExtractError('R86: more than 4 nested helper calls')
    return hook


def tok(f, callees=('consume_cached_cookie', 'cache_cookie', 'set_cookie', 'remove_cookie', 'get', 'contains_key', 'remove', 'insert')):
    f.rules = ('R23',)
    if f.name in ('consume_cached_cookie', 'cache_cookie'):
        f.body_hooks = [r86_inline_helper(_ROOT[0]), r87_opt_ref_eq, r85_ref_pattern]
    f.ghost_token = dict(TOK, callees=list(callees))
    return f


def unit(root='/repo'):
    _ROOT[0] = root
    items = [
        Copy(OSC, r'pub struct LinuxDirent64\b', prefix='#[derive(Clone, Copy)]'),
        Raw(layout_text(root)),
        Raw(SPEC),
        Raw(KS),
        Copy(FSMOD, r'pub struct DirEntry\b', prefix='#[derive(Clone, Copy)]', subst=[('ino64_t', 'u64')]),
        Raw(CB),
        Raw(TOP),
        ByteConst(VFSMOD, 'CURRENT_DIR_CSTR'),
        ByteConst(VFSMOD, 'PARENT_DIR_CSTR'),
        Fn(UTIL, None, 'einval', props=['C16']),
        Group(IMPL + ' {', [
            Raw(GET_DIRDATA),
            tok(Fn(PTS, IMPL, 'do_readdir', props=['C16'], canary=True, ret_name='res',
                   sig_subst=DR_SIG, body_resub=DR_RESUB, requires=DR_REQ, ensures=DR_ENS,
                   splices=[('^', 'after', DR_ENTRY),
                            ('libc::O_RDONLY, Tracked(ks))?;', 'after', DR_DATA),
                            ('let cookie_hit = self.consume_cached_cookie(handle, offset, Tracked(ks));', 'after', DR_HIT),
                            ('loop {', 'replace', SCAN_INV),
                            ('if res == 0 {', 'after', SCAN_EOF),
                            ('if Self::skip_to_cookie(&mut buf, offset) {', 'before', SCAN_SKIP),
                            ('self.cache_cookie(handle, &buf, Tracked(ks));', 'before', DR_BATCH),
                            ('self.cache_cookie(handle, &buf, Tracked(ks));', 'after', DR_CACHED),
                            ('while !rem.is_empty() {', 'replace', REC_INV),
                            ('let dirent64 = LinuxDirent64::from_slice(front)', 'before', REC_FRONT),
                            ('let res = if ', 'before', REC_NAME),
                            ('match res {', 'before', REC_MATCH),
                            ('Ok(())\n    }', 'before', REC_END)]),
                callees=('consume_cached_cookie', 'cache_cookie', 'get_dirdata')),
            Fn(PTS, IMPL, 'skip_to_cookie', props=['C16'], canary=True,
               body_resub=[(r'buf\.drain\(\.\.cur\);', 'vec_drain_to(buf, cur);',
                            'Vec::drain(..n) whose iterator is dropped at once -> model vec_drain_to (removes the first n elements; panics if n > len)')],
               requires=['wf(old(buf)@) // well-formed getdents64 buffer (kernel-produced: assumption of sys::getdents64)',
                         'old(buf)@.len() <= 0x7fff_ffff_ffff_ffff // a Vec<u8> never holds more than isize::MAX bytes (language guarantee)'],
               splices=[('let mut cur: usize = 0;', 'before', 'let ghost mut pre: Seq<Dirent> = Seq::empty(); let ghost es = parse(buf@); proof { assert(buf@.skip(0) =~= buf@); }'),
                        ('while cur + size_of::<LinuxDirent64>() <= buf.len() {', 'replace', SKIP_INV),
                        ('let reclen = dirent64.d_reclen as usize;', 'before',
                         'proof { let rest = buf@.skip(cur as int); if rest.len() > 0 { lemma_parse_step(rest); } assert(front@ =~= rest.subrange(0, HDR as int)); }'),
                        ('cur += reclen;', 'before',
                         'proof { let rest = buf@.skip(cur as int); assert(rest.skip(reclen as int) =~= buf@.skip(cur + reclen)); assert(es =~= pre.push(rec_ent(rest)) + parse(rest.skip(reclen as int))); pre = pre.push(rec_ent(rest)); }'),
                        ('if found {', 'before', SKIP_POST),
                        ('vec_drain_to(buf, cur);', 'before', 'proof { let rest = buf@.skip(cur0 as int); assert(rest.skip(target_reclen as int) =~= buf@.skip(cur as int)); // [C16.skip_to_cookie.rest]\n }'),
                        ('found\n    }', 'before', 'proof { if buf@.len() > 0 { lemma_parse_step(buf@); } }')],
               ensures=['wf(final(buf)@)', 'final(buf)@.len() <= old(buf)@.len()', 'final(buf)@.len() > 0 ==> parse(final(buf)@).len() > 0',
                        'res == (find_off(parse(old(buf)@), offset) < parse(old(buf)@).len()) // [C16.skip_to_cookie.found]',
                        'res ==> parse(final(buf)@) =~= parse(old(buf)@).skip(find_off(parse(old(buf)@), offset) + 1) // [C16.skip_to_cookie.rest] exactly the records after the matched one remain',
                        '!res ==> final(buf)@ == old(buf)@ // [C16.skip_to_cookie.notfound]'],
               ret_name='res'),
            tok(Fn(PTS, IMPL, 'consume_cached_cookie', props=['C16'],
                   splices=[('|cookie|', 'closure?', '|cookie: u64| -> (q: bool) ensures q == (cookie == offset), // [C16.cached_cookie.exact]\n')],
                   ensures=['r ==> !self.no_opendir.cur() && old(ks).cache.dom().contains(handle) && old(ks).cache[handle] == offset // [C16.cached_cookie.exact] a hit only for exactly the cached cookie, never in no_opendir mode',
                            'final(ks).pos == old(ks).pos', 'final(ks).pending == old(ks).pending',
                            'final(ks).cache == (if self.no_opendir.cur() { old(ks).cache } else { old(ks).cache.remove(handle) }) // [C16.cached_cookie.consumed] a stale cookie is dropped'])),
            tok(Fn(PTS, IMPL, 'cache_cookie', props=['C16'],
                   requires=['wf(buf@)'],
                   ensures=['final(ks).pos == old(ks).pos', 'final(ks).pending == old(ks).pending',
                            'final(ks).cache == (if self.no_opendir.cur() || parse(buf@).len() == 0 { old(ks).cache } else { old(ks).cache.insert(handle, parse(buf@).last().off) }) // [C16.cache_cookie.last] the cookie remembered is the one of the LAST record read'])),
            Fn(PTS, IMPL, 'last_cookie_in_buf', props=['C16'],
               requires=['wf(buf@)'],
               ensures=['r == (if parse(buf@).len() == 0 { None::<u64> } else { Some(parse(buf@).last().off) }) // [C16.last_cookie.last]'],
               splices=[('^', 'after', 'let ghost buf0 = buf@; let ghost mut pre: Seq<Dirent> = Seq::empty();'),
                        ('while buf.len() >= size_of::<LinuxDirent64>() {', 'replace', LAST_INV),
                        ('let reclen = dirent64.d_reclen as usize;', 'before', 'proof { lemma_parse_step(buf@); assert(buf@.subrange(0, HDR as int) =~= buf@.take(HDR as int)); }'),
                        ('last = Some(dirent64.d_off as u64);', 'before', 'proof { pre = pre.push(rec_ent(buf@)); }'),
                        ('last\n    }', 'before', 'proof { assert(buf@.len() == 0); assert(parse(buf0) =~= pre); }')]),
        ]),
    ]
    u = Unit('ptreaddir', items, preludes=['base.rs', 'stdmodel.rs'], generic_tags={},
             notes='C16 passthrough side: kernel directory stream modelled as Seq<Dirent> + per-descriptor position (module sys, KState); '
                   'callback = generic AddEntry with a ghost call log; cross-call statement = proof fns lemma_c16_step / lemma_c16 '
                   '(`progress` - an empty reply only when nothing visible is left - is the checked postcondition [C16.do_readdir.progress]; it FAILS on the current text: a batch made only of . / .. gives an empty reply, see findings/repro_pt_readdir.rs)')
    return u
