"""Unit `ovl_inodes` (C10: the inode numbers of the merged tree): `InodeStore` of src/overlayfs/inode_store.rs on its real text.
"the tree visible through the overlay equals the union ..." presupposes that every visible node has ONE number and no two nodes share one:
  * alloc_unique_inode never hands out a number that a live node or a node whose removal is delayed (unlinked, still referenced) carries, stays
    within 1..=VFS_MAX_INO, and changes nothing but the cursor;
  * alloc_inode gives a path the number recorded for it (a node re-created at a path the client still knows keeps its number), a fresh one otherwise;
  * insert_inode / get_inode / get_deleted_inode / remove_inode are exact map operations; a node that is still referenced moves to `deleted` and stays
    findable there until its last reference is gone (remove_inode returns it only when it is gone from both tables).
std HashMap through vstd (keys u64); radix_trie::Trie<String, u64> is a map from strings (model: get / insert / remove as documented)."""
from vx.api import Unit, Fn, Copy, Raw, Group

IS = 'src/overlayfs/inode_store.rs'
SC = 'impl InodeStore'

PRE = r'''
// std::collections::HashMap (imported by the prelude): the real std HashMap with vstd specification (keys are u64)
pub type Inode = u64;
pub type Result<T> = io::Result<T>; pub use io::Error;
// src/api/vfs/mod.rs: the largest inode number a backend may use under the VFS (56 bits)
pub const VFS_MAX_INO: u64 = 0xff_ffff_ffff_ffff;
// the part of OverlayInode the store looks at: its path (key of the reservation table) and its lookup count
pub struct OverlayInode { pub path: String, pub lookups: AtomicU64 }
#[verifier::external_body] pub struct AtomicU64 { _p: u8 }
impl AtomicU64 {
    pub uninterp spec fn cur(&self) -> u64;
    #[verifier::external_body] pub fn load(&self, o: Ordering) -> (r: u64) ensures r == self.cur() { unimplemented!() }
}
// radix_trie::Trie<String, Inode>: a map keyed by strings
#[verifier::external_body] #[verifier::reject_recursive_types(K)] #[verifier::reject_recursive_types(V)] pub struct Trie<K, V> { _p: PhantomData<(K, V)> }
impl Trie<String, Inode> {
    pub uninterp spec fn view(&self) -> Map<Seq<char>, Inode>;
    #[verifier::external_body] pub fn new() -> (r: Self) ensures r@ == Map::<Seq<char>, Inode>::empty() { unimplemented!() }
    #[verifier::external_body] pub fn get(&self, k: &String) -> (r: Option<&Inode>)
        ensures match r { Some(v) => self@.contains_key(k@) && *v == self@[k@], None => !self@.contains_key(k@) } { unimplemented!() }
    #[verifier::external_body] pub fn insert(&mut self, k: String, v: Inode) -> (r: Option<Inode>) ensures final(self)@ == old(self)@.insert(k@, v) { unimplemented!() }
    #[verifier::external_body] pub fn remove(&mut self, k: &String) -> (r: Option<Inode>) ensures final(self)@ == old(self)@.remove(k@) { unimplemented!() }
}
#[verifier::external_body] pub fn fmt_opaque() -> String { unimplemented!() }
impl InodeStore {
    // numbers in use: live nodes and nodes whose removal is delayed
    pub open spec fn used(&self, i: Inode) -> bool { self.inodes@.contains_key(i) || self.deleted@.contains_key(i) }
    pub open spec fn wf(&self) -> bool { 1 <= self.next_inode <= VFS_MAX_INO + 1 }
    pub open spec fn same_tables(&self, o: &Self) -> bool { self.inodes@ == o.inodes@ && self.deleted@ == o.deleted@ && self.path_mapping@ == o.path_mapping@ }
}
'''


def unit(root='/repo'):
    B = 'broadcast use vstd::std_specs::hash::group_hash_axioms;'
    fns = [
        Fn(IS, SC, 'new', props=['C10'], ensures=['r.wf() && r.inodes@ == Map::<Inode, Arc<OverlayInode>>::empty() && r.deleted@ == Map::<Inode, Arc<OverlayInode>>::empty() && r.path_mapping@ == Map::<Seq<char>, Inode>::empty() // [C10.inodes.new]'],
           splices=[('^', 'after', B)]),
        Fn(IS, SC, 'alloc_unique_inode', props=['C10'], canary=True, attrs=['#[verifier::loop_isolation(false)]'],
           requires=['old(self).wf()'],
           ensures=['final(self).wf() && final(self).same_tables(old(self)) // [C10.inodes.alloc.frame] only the cursor moves',
                    'r is Ok ==> 1 <= r->Ok_0 <= VFS_MAX_INO && !old(self).used(r->Ok_0) // [C10.inodes.alloc.unused] never a number a live or delayed-removal node carries',
                    'r is Ok ==> final(self).next_inode == r->Ok_0 + 1'],
           splices=[('^', 'after', B),
                    ('for _i in 0..VFS_MAX_INO {', 'replace', '''for _i in 0..VFS_MAX_INO
            invariant 1 <= ino <= VFS_MAX_INO + 1, *self == *old(self),
        {''')]),
        Fn(IS, SC, 'alloc_inode', props=['C10'], canary=True,
           requires=['old(self).wf()'],
           ensures=['final(self).wf() && final(self).same_tables(old(self))',
                    'old(self).path_mapping@.contains_key(path@) ==> r == Ok::<Inode, Error>(old(self).path_mapping@[path@]) && *final(self) == *old(self) // [C10.inodes.alloc.reserved] a path the store remembers gets its number back',
                    '!old(self).path_mapping@.contains_key(path@) && r is Ok ==> 1 <= r->Ok_0 <= VFS_MAX_INO && !old(self).used(r->Ok_0) // [C10.inodes.alloc.unused]'],
           splices=[('^', 'after', B)]),
        Fn(IS, SC, 'insert_inode', props=['C10'],
           ensures=['final(self).inodes@ == old(self).inodes@.insert(inode, node) && final(self).path_mapping@ == old(self).path_mapping@.insert(node.path@, inode) // [C10.inodes.insert.exact]',
                    'final(self).deleted@ == old(self).deleted@ && final(self).next_inode == old(self).next_inode'],
           splices=[('^', 'after', B)]),
        Fn(IS, SC, 'get_inode', props=['C10'],
           ensures=['r == (if self.inodes@.contains_key(inode) { Some(self.inodes@[inode]) } else { None::<Arc<OverlayInode>> }) // [C10.inodes.get]'],
           splices=[('^', 'after', B + ' broadcast use axiom_arc_cloned;')]),
        Fn(IS, SC, 'get_deleted_inode', props=['C10'],
           ensures=['r == (if self.deleted@.contains_key(inode) { Some(self.deleted@[inode]) } else { None::<Arc<OverlayInode>> }) // [C10.inodes.get_deleted]'],
           splices=[('^', 'after', B + ' broadcast use axiom_arc_cloned;')]),
        Fn(IS, SC, 'remove_inode', props=['C10'], canary=True,
           ensures=[
               # a node that is still referenced stays findable (moves to / stays in `deleted`); one that is not leaves both tables and is returned
               '''old(self).inodes@.contains_key(inode) ==> ({ let v = old(self).inodes@[inode];
                    final(self).inodes@ == old(self).inodes@.remove(inode)
                    && (if v.lookups.cur() > 0 { r is None && final(self).deleted@ == old(self).deleted@.insert(inode, v) } else { r == Some(v) && final(self).deleted@ == old(self).deleted@ }) }) // [C10.inodes.remove.live]''',
               '''!old(self).inodes@.contains_key(inode) && old(self).deleted@.contains_key(inode) ==> ({ let v = old(self).deleted@[inode];
                    final(self).inodes@ == old(self).inodes@
                    && (if v.lookups.cur() == 0 { r == Some(v) && final(self).deleted@ == old(self).deleted@.remove(inode) } else { r is None && final(self).deleted@ == old(self).deleted@ }) }) // [C10.inodes.remove.delayed]''',
               '!old(self).used(inode) ==> r is None && final(self).inodes@ == old(self).inodes@ && final(self).deleted@ == old(self).deleted@ // [C10.inodes.remove.absent]',
               'forall|i: Inode| i != inode ==> (#[trigger] final(self).used(i) == old(self).used(i)) // [C10.inodes.remove.others] no other number changes its status',
               'final(self).next_inode == old(self).next_inode',
               # a path that no longer names the inode gives up its reserved number AT ONCE - also when the inode itself has to wait for its last reference:
               # otherwise the next file created at that path gets the number of an inode the client still holds (two files, one number)
               'final(self).path_mapping@ == (match path_removed { Some(p) => old(self).path_mapping@.remove(p@), None => old(self).path_mapping@ }) // [C10.inodes.remove.reservation]'],
           splices=[('^', 'after', B + ' broadcast use axiom_arc_cloned;')]),
    ]
    items = [Raw(PRE), Copy(IS, r'pub struct InodeStore\b'), Group('impl InodeStore {', fns)]
    return Unit('ovl_inodes', items, preludes=['base.rs', 'stdmodel.rs'], generic_tags={'assert': ['C10']})
