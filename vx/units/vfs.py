"""Unit `vfs` (C06 name gate, C07 routing, C14 id mapping): src/api/vfs/{mod.rs,sync_io.rs} against the generated
FileSystem model.  Every spec function below is written from the property text (properties.jsonl), not from the code."""
from vx.api import Unit, Fn, Copy, Raw, Group, ByteConst, Lifted
from vx import fsmodel, flagsmodel

MOD = 'src/api/vfs/mod.rs'
SYNC = 'src/api/vfs/sync_io.rs'
FSMOD = 'src/api/filesystem/mod.rs'
ABI = 'src/abi/fuse_abi_linux.rs'

SPECS = r'''
// =====================================================================================================================
// Specification, written from the property statements.
// ---- C07: "every inode number handed to the client identifies one mounted backend and one inode of it":
//      an 8-bit mount index above a 56-bit backend inode number.
spec fn enc(idx: u8, ino: u64) -> u64 { ((idx as u64) << 56) | ino }
impl VfsInode {
    spec fn sidx(self) -> u8 { (self.0 >> 56) as u8 }
    spec fn sino(self) -> u64 { self.0 & 0xff_ffff_ffff_ffffu64 }
}
proof fn lemma_enc_roundtrip(i: u8, n: u64)
    requires n <= 0xff_ffff_ffff_ffffu64
    ensures VfsInode(enc(i, n)).sidx() == i, VfsInode(enc(i, n)).sino() == n,   // [C07.ino.roundtrip]
            (i != 0 ==> enc(i, n) != n || n == 0 && false || enc(i, n) >= 0x100_0000_0000_0000u64), // never collides with a pseudo inode
{
    assert(n <= 0xff_ffff_ffff_ffffu64 ==> ((((i as u64) << 56) | n) >> 56) as u8 == i && (((i as u64) << 56) | n) & 0xff_ffff_ffff_ffffu64 == n) by (bit_vector);
    assert(n <= 0xff_ffff_ffff_ffffu64 && i != 0 ==> (((i as u64) << 56) | n) >= 0x100_0000_0000_0000u64) by (bit_vector);
}
proof fn lemma_enc_injective(i: u8, n: u64, j: u8, m: u64)
    requires n <= 0xff_ffff_ffff_ffffu64, m <= 0xff_ffff_ffff_ffffu64, enc(i, n) == enc(j, m)
    ensures i == j, n == m,                                                          // [C07.ino.injective]
{
    lemma_enc_roundtrip(i, n); lemma_enc_roundtrip(j, m);
}
proof fn lemma_rt(i: u8, n: u64)
    ensures n <= 0xff_ffff_ffff_ffffu64 ==> VfsInode(enc(i, n)).sidx() == i && VfsInode(enc(i, n)).sino() == n,
{
    if n <= 0xff_ffff_ffff_ffffu64 { lemma_enc_roundtrip(i, n); }
}
proof fn lemma_enc_zero(n: u64)
    ensures enc(0, n) == n
{
    assert(((0u8 as u64) << 56) | n == n) by (bit_vector);
}
proof fn lemma_enc_decompose(v: u64)
    ensures enc((v >> 56) as u8, v & 0xff_ffff_ffff_ffffu64) == v,
{
    assert(((((v >> 56) as u8) as u64) << 56) | (v & 0xff_ffff_ffff_ffffu64) == v) by (bit_vector);
}
proof fn lemma_ino_mask(n: u64)
    ensures (n & !0xff_ffff_ffff_ffffu64 == 0) <==> n <= 0xff_ffff_ffff_ffffu64,
            forall|v: u64| #[trigger] (v & 0xff_ffff_ffff_ffffu64) <= 0xff_ffff_ffff_ffffu64,
{
    assert((n & !0xff_ffff_ffff_ffffu64 == 0) <==> n <= 0xff_ffff_ffff_ffffu64) by (bit_vector);
    assert forall|v: u64| #[trigger] (v & 0xff_ffff_ffff_ffffu64) <= 0xff_ffff_ffff_ffffu64 by {
        assert((v & 0xff_ffff_ffff_ffffu64) <= 0xff_ffff_ffff_ffffu64) by (bit_vector);
    }
}

// ---- C14: "Ids outside the mapped range pass unchanged and translation there and back is the identity on the range"
//      a mapping is (internal base, external base, range)
spec fn spec_remap(v: u32, from: u32, to: u32, range: u32) -> u32 {
    if from as int <= v as int && (v as int) < from as int + range as int { (v as int - from as int + to as int) as u32 } else { v }
}
spec fn map_ok(m: Option<(u32, u32, u32)>) -> bool {     // both ranges fit in u32 (never validated by Vfs::new: assumed, DESIGN section 7 O2)
    m is Some ==> m->Some_0.0 as int + m->Some_0.2 as int <= 0x1_0000_0000 && m->Some_0.1 as int + m->Some_0.2 as int <= 0x1_0000_0000
}
spec fn to_ext(m: Option<(u32, u32, u32)>, id: u32) -> u32 { match m { Some(t) => spec_remap(id, t.0, t.1, t.2), None => id } }
spec fn to_int(m: Option<(u32, u32, u32)>, id: u32) -> u32 { match m { Some(t) => spec_remap(id, t.1, t.0, t.2), None => id } }
proof fn lemma_remap_roundtrip(m: Option<(u32, u32, u32)>, id: u32)
    requires map_ok(m)
    ensures
        m is Some && m->Some_0.1 as int <= id as int && (id as int) < m->Some_0.1 as int + m->Some_0.2 as int ==> to_ext(m, to_int(m, id)) == id,   // [C14.remap.roundtrip]
        m is Some && m->Some_0.0 as int <= id as int && (id as int) < m->Some_0.0 as int + m->Some_0.2 as int ==> to_int(m, to_ext(m, id)) == id,
        m is None ==> to_ext(m, id) == id && to_int(m, id) == id,
{ }
spec fn attr_ids(m: Option<(u32, u32, u32)>, ext: bool, a: stat64) -> stat64 {
    stat64 { st_uid: if ext { to_ext(m, a.st_uid) } else { to_int(m, a.st_uid) }, st_gid: if ext { to_ext(m, a.st_gid) } else { to_int(m, a.st_gid) }, ..a }
}
spec fn ctx_to_int(m: Option<(u32, u32, u32)>, c: Context) -> Context { Context { uid: to_int(m, c.uid), gid: to_int(m, c.gid), ..c } }

impl Vfs {
    spec fn sb(&self) -> Seq<Option<Arc<BackFileSystem>>> { self.superblocks.cur()@ }
    spec fn mp(&self) -> Map<u64, Arc<MountPointData>> { self.mountpoints.cur()@ }
    spec fn be(&self, i: u8) -> BackFileSystem { *self.sb()[i as int]->Some_0 }
    // "Each mount uses its own mapping if it was given one and the global mapping otherwise"
    spec fn eff_map(&self, idx: u8) -> Option<(u32, u32, u32)> {
        let v = self.mount_id_mappings.cur()@;
        if (idx as int) < v.len() && v[idx as int] is Some { v[idx as int] } else { self.id_mapping }
    }
    // table invariant (established by mount/umount, which are NOT covered - listed as an assumption):
    spec fn wf(&self) -> bool {
        &&& self.sb().len() == 256
        &&& forall|k: u64| #[trigger] self.mp().contains_key(k) ==> self.mp()[k].ino <= 0xff_ffff_ffff_ffffu64 && self.mp()[k].fs_idx != 0
        &&& forall|i: u8| map_ok(#[trigger] self.eff_map(i))
    }
    // what the client must see for a backend entry of mount `idx`: inode re-encoded, owner ids translated back
    spec fn entry_out(&self, idx: u8, ino: u64, e: Entry) -> Entry {
        let n = if ino == 0 { 0u64 } else { enc(idx, ino) };
        Entry { inode: n, attr: attr_ids(self.eff_map(idx), true, stat64 { st_ino: n, ..e.attr }), ..e }
    }
    spec fn conv_entry(&self, idx: u8, r: Result<Entry>, out: Result<Entry>) -> bool {
        match r {
            Ok(e) => if e.inode > 0xff_ffff_ffff_ffffu64 { out is Err } else { out == Ok::<Entry, Error>(self.entry_out(idx, e.inode, e)) },
            Err(x) => out == Err::<Entry, Error>(x),
        }
    }
    spec fn attr_out(&self, id: VfsInode, a: stat64) -> stat64 { attr_ids(self.eff_map(id.sidx()), true, stat64 { st_ino: id.0, ..a }) }
    spec fn conv_attr(&self, id: VfsInode, r: Result<(stat64, Duration)>, out: Result<(stat64, Duration)>) -> bool {
        match r { Ok(p) => out == Ok::<(stat64, Duration), Error>((self.attr_out(id, p.0), p.1)), Err(x) => out == Err::<(stat64, Duration), Error>(x) }
    }
    // ---- C07 routing: "a request is delivered to exactly that backend with the backend's own inode number ... crosses into a
    //      mounted filesystem's root exactly at its mount path ... vacant slot fails without reaching any backend"
    spec fn route(&self, ino: VfsInode) -> Route {
        if ino.sidx() == 0 {
            if ino.sino() == 1 && self.mp().contains_key(1) {          // ROOT_ID with a file system mounted on "/"
                let m = self.mp()[1u64];
                if self.sb()[m.fs_idx as int] is Some { Route::Backend(m.fs_idx, m.ino) } else { Route::Vacant }
            } else { Route::Pseudo(ino.sino()) }
        } else if self.sb()[ino.sidx() as int] is Some { Route::Backend(ino.sidx(), ino.sino()) } else { Route::Vacant }
    }
}
spec fn no_ids(e: Entry) -> Entry { Entry { attr: stat64 { st_uid: 0, st_gid: 0, ..e.attr }, ..e } }   // an entry with its owner ids masked (C07 clauses are about numbering only)
pub uninterp spec fn backend_root(m: MountPointData) -> Entry;     // the root entry the backend returned from mount() (ghost)
impl Vfs {
    // what insert_mount_locked stores (assumed table invariant, mount is not covered): the backend's root entry, already
    // numbered with the mount's index and with owner ids translated for the client
    spec fn mount_wf(&self) -> bool {
        forall|k: u64| #[trigger] self.mp().contains_key(k) ==> self.mp()[k].root_entry == self.entry_out(self.mp()[k].fs_idx, self.mp()[k].ino, backend_root(*self.mp()[k]))
    }
    // "Walking pseudo directories crosses into a mounted filesystem's root exactly at its mount path": a pseudo lookup that
    // lands on a mountpoint returns the mount's root (mount's index, mount's root number, owner ids translated ONCE)
    spec fn pseudo_lookup_res(&self, r: Result<Entry>, pidx: u8, out: Result<Entry>, ids: bool) -> bool {
        match r {
            Err(x) => out == Err::<Entry, Error>(x),
            Ok(e) => if self.mp().contains_key(e.inode) {
                    let m = self.mp()[e.inode];
                    let want = self.entry_out(m.fs_idx, m.ino, backend_root(*m));
                    out is Ok && (if ids { out->Ok_0 == want } else { no_ids(out->Ok_0) == no_ids(want) })
                } else { self.conv_entry(pidx, Ok::<Entry, Error>(e), out) },
        }
    }
}

// ---- C12 (VFS part): "switch on no-open, no-opendir, writeback, kill-priv ... only when that feature was actually negotiated,
//      and the VFS refuses a second INIT".  `cfg` = the options the VFS was created with, `offered` = what the client offers,
//      `n` = the options in force afterwards (n.out_opts is also what INIT returns, i.e. what is negotiated).
spec fn hasf(bits: u64, f: u64) -> bool { bits & f == f }
spec fn vfs_init_ok(cfg: VfsOptions, offered: FsOptions, n: VfsOptions) -> bool {
    &&& n.in_opts == offered
    &&& n.out_opts.bits & !(cfg.out_opts.bits & offered.bits) == 0                      // never more than configured AND offered
    &&& (n.no_open ==> cfg.no_open && hasf(offered.bits, 0x2_0000))                     // ZERO_MESSAGE_OPEN   (FUSE_NO_OPEN_SUPPORT)
    &&& (n.no_opendir ==> cfg.no_opendir && hasf(offered.bits, 0x100_0000))             // ZERO_MESSAGE_OPENDIR (FUSE_NO_OPENDIR_SUPPORT)
    &&& (n.no_open ==> hasf(n.out_opts.bits, 0x2_0000))                                 // no-open in force => it is in the negotiated set
    &&& (n.no_opendir ==> hasf(n.out_opts.bits, 0x100_0000))
    &&& (!cfg.no_open ==> !hasf(n.out_opts.bits, 0x2_0000))                             // open handling kept => never announce no-open
    &&& (!cfg.no_opendir ==> !hasf(n.out_opts.bits, 0x100_0000))
    &&& (cfg.no_writeback ==> !hasf(n.out_opts.bits, 0x1_0000))                         // WRITEBACK_CACHE
    &&& (!cfg.killpriv_v2 ==> !hasf(n.out_opts.bits, 0x1000_0000))                      // HANDLE_KILLPRIV_V2
    &&& (cfg.no_open ==> !hasf(n.out_opts.bits, 0x8))                                   // no ATOMIC_O_TRUNC without open requests
}
// "enables exactly the features both sides asked for": what the client offers AND the VFS is configured to announce, minus
// what the VFS configuration rules out
spec fn vfs_out_bits(c: u64, o: u64, no_open: bool, no_opendir: bool, no_wb: bool, kp2: bool) -> u64 {
    c & o & (if no_open { !0x8u64 } else { !0x2_0000u64 }) & (if no_opendir { !0u64 } else { !0x100_0000u64 })
        & (if no_wb { !0x1_0000u64 } else { !0u64 }) & (if kp2 { !0u64 } else { !0x1000_0000u64 })
}
spec fn vfs_out(cfg: VfsOptions, offered: FsOptions) -> u64 {
    vfs_out_bits(cfg.out_opts.bits, offered.bits, cfg.no_open, cfg.no_opendir, cfg.no_writeback, cfg.killpriv_v2)
}
proof fn lemma_vfs_out_bits(c: u64, o: u64, no_open: bool, no_opendir: bool, no_wb: bool, kp2: bool)
    ensures ({ let v = vfs_out_bits(c, o, no_open, no_opendir, no_wb, kp2);
        &&& v & !(c & o) == 0
        &&& (v & 0x2_0000u64 == 0x2_0000u64 ==> o & 0x2_0000u64 == 0x2_0000u64) &&& (v & 0x100_0000u64 == 0x100_0000u64 ==> o & 0x100_0000u64 == 0x100_0000u64)
        &&& (!no_open ==> v & 0x2_0000u64 != 0x2_0000u64) &&& (!no_opendir ==> v & 0x100_0000u64 != 0x100_0000u64)
        &&& (no_wb ==> v & 0x1_0000u64 != 0x1_0000u64) &&& (!kp2 ==> v & 0x1000_0000u64 != 0x1000_0000u64) &&& (no_open ==> v & 0x8u64 != 0x8u64)
        // the way the code computes it: removals first, intersection with the offer last
        &&& v == ((((c & (if no_open { !0x8u64 } else { !0x2_0000u64 })) & (if no_opendir { !0u64 } else { !0x100_0000u64 })) & (if no_wb { !0x1_0000u64 } else { !0u64 }))
                    & (if kp2 { !0u64 } else { !0x1000_0000u64 })) & o })
{
    let a1 = if no_open { !0x8u64 } else { !0x2_0000u64 }; let a2 = if no_opendir { !0u64 } else { !0x100_0000u64 };
    let a3 = if no_wb { !0x1_0000u64 } else { !0u64 }; let a4 = if kp2 { !0u64 } else { !0x1000_0000u64 };
    let v = c & o & a1 & a2 & a3 & a4;
    assert(v & !(c & o) == 0) by (bit_vector) requires v == c & o & a1 & a2 & a3 & a4;
    assert(v & 0x2_0000u64 == 0x2_0000u64 ==> o & 0x2_0000u64 == 0x2_0000u64) by (bit_vector) requires v == c & o & a1 & a2 & a3 & a4;
    assert(v & 0x100_0000u64 == 0x100_0000u64 ==> o & 0x100_0000u64 == 0x100_0000u64) by (bit_vector) requires v == c & o & a1 & a2 & a3 & a4;
    assert(v == ((((c & a1) & a2) & a3) & a4) & o) by (bit_vector) requires v == c & o & a1 & a2 & a3 & a4;
    assert(a1 == !0x2_0000u64 ==> v & 0x2_0000u64 != 0x2_0000u64) by (bit_vector) requires v == c & o & a1 & a2 & a3 & a4;
    assert(a1 == !0x8u64 ==> v & 0x8u64 != 0x8u64) by (bit_vector) requires v == c & o & a1 & a2 & a3 & a4;
    assert(a2 == !0x100_0000u64 ==> v & 0x100_0000u64 != 0x100_0000u64) by (bit_vector) requires v == c & o & a1 & a2 & a3 & a4;
    assert(a3 == !0x1_0000u64 ==> v & 0x1_0000u64 != 0x1_0000u64) by (bit_vector) requires v == c & o & a1 & a2 & a3 & a4;
    assert(a4 == !0x1000_0000u64 ==> v & 0x1000_0000u64 != 0x1000_0000u64) by (bit_vector) requires v == c & o & a1 & a2 & a3 & a4;
}
spec fn vfs_new_opts(cfg: VfsOptions, offered: FsOptions) -> VfsOptions {
    VfsOptions { no_open: cfg.no_open && hasf(vfs_out(cfg, offered), 0x2_0000), no_opendir: cfg.no_opendir && hasf(vfs_out(cfg, offered), 0x100_0000),
                 in_opts: offered, out_opts: FsOptions { bits: vfs_out(cfg, offered) }, ..cfg }
}
// the function meets the property-level predicate for EVERY configuration and offer (checked by Verus)
proof fn lemma_vfs_new_opts_ok(cfg: VfsOptions, offered: FsOptions)
    ensures vfs_init_ok(cfg, offered, vfs_new_opts(cfg, offered))             // [C12.vfs.init.spec_meets_property]
{
    lemma_vfs_out_bits(cfg.out_opts.bits, offered.bits, cfg.no_open, cfg.no_opendir, cfg.no_writeback, cfg.killpriv_v2);
}
pub enum Route { Pseudo(u64), Backend(u8, u64), Vacant }
impl Route {
    spec fn idx(self) -> u8 { match self { Route::Backend(i, _) => i, _ => 0u8 } }
    spec fn ino(self) -> u64 { match self { Route::Backend(_, n) => n, Route::Pseudo(n) => n, _ => 0u64 } }
    // client-visible identity of the routed object (used to re-encode attributes)
    spec fn id(self) -> VfsInode { VfsInode(enc(self.idx(), self.ino())) }
}
'''


# ---------------------------------------------------------------------------------------------------------------------
# routed methods: name -> (inode parameter, gated name parameters, gate kind, result conversion)
ROUTED = {
    'getattr': dict(ino='inode', conv='attr'),
    'setattr': dict(ino='inode', conv='attr', setattr=True),
    'readlink': dict(ino='inode'),
    'symlink': dict(ino='parent', names=['name'], conv='entry'),
    'mknod': dict(ino='inode', names=['name'], conv='entry'),
    'mkdir': dict(ino='parent', names=['name'], conv='entry'),
    'unlink': dict(ino='parent', names=['name']),
    'rmdir': dict(ino='parent', names=['name']),
    'open': dict(ino='inode', opt='no_open'),
    'create': dict(ino='parent', names=['name'], conv='create'),
    'read': dict(ino='inode'),
    'write': dict(ino='inode'),
    'flush': dict(ino='inode'),
    'fsync': dict(ino='inode'),
    'fallocate': dict(ino='inode'),
    'release': dict(ino='inode'),
    'statfs': dict(ino='inode'),
    'setxattr': dict(ino='inode', names=['name']),
    'getxattr': dict(ino='inode', names=['name']),
    'listxattr': dict(ino='inode'),
    'removexattr': dict(ino='inode', names=['name']),
    'opendir': dict(ino='inode', opt='no_opendir'),
    'fsyncdir': dict(ino='inode'),
    'releasedir': dict(ino='inode'),
    'access': dict(ino='inode'),
    'setupmapping': dict(ino='inode'),
    'removemapping': dict(ino='inode'),
}


def routed_fn(name, d, info):
    mi = info[name]
    pnames = [a.split(':')[0].strip() for a in mi['sargs']]
    exprs = dict(zip(pnames, mi['sexprs']))
    ino = d['ino']

    def args(n_expr, setattr_idx=None):
        out = []
        for p in pnames:
            if p == ino:
                out.append(n_expr)
            else:
                out.append(exprs[p])
        return ', '.join(out)
    gate = ' && '.join('safe_name(%s@)' % n for n in d.get('names', [])) or 'true'
    if d.get('opt'):
        gate_opt = '!self.opts.cur().%s' % d['opt']
    else:
        gate_opt = 'true'
    req = [
        'self.wf()',
        # C06: the backend may be touched only for safe names ("rejected ... before any backend is touched")
        '(%(gate)s) ==> self.root.touch_ok() && forall|i: u8| #[trigger] self.be(i).touch_ok() // [C06.vfs.%(op)s.before]' % dict(gate=gate, op=name),
        # C07: exactly the owning backend, with the backend's own inode number and the other arguments unchanged
        '''match self.route(%(ino)s) {
               Route::Pseudo(n) => self.root.allowed_%(op)s(%(pa)s),
               Route::Backend(i, n) => self.be(i).allowed_%(op)s(%(ba)s),
               Route::Vacant => true } // [C07.%(op)s.route]''' % dict(ino=ino, op=name, pa=args('n'), ba=args('n'))]
    if d.get('setattr'):
        # C14: owner ids to be set reach the backend translated to the internal range
        req.append('''match self.route(%(ino)s) {
               Route::Pseudo(n) => self.root.ids_ok(attr.st_uid, attr.st_gid),
               Route::Backend(i, n) => self.be(i).ids_ok(to_int(self.eff_map(i), attr.st_uid), to_int(self.eff_map(i), attr.st_gid)),
               Route::Vacant => true } // [C14.setattr.ids_in]''' % dict(ino=ino))
    conv = d.get('conv')
    if conv == 'entry':
        bres = 'self.conv_entry(i, self.be(i).%s(), res)' % mi['resfn']
    elif conv == 'attr':
        bres = 'self.conv_attr(rt.id(), self.be(i).%s(), res)' % mi['resfn']
    elif conv == 'create':
        bres = '''(match self.be(i).res_create() {
                   Ok(t) => if t.0.inode > 0xff_ffff_ffff_ffffu64 { res is Err } else { res == Ok::<(Entry, Option<u64>, OpenOptions, Option<u32>), Error>((self.entry_out(i, t.0.inode, t.0), t.1, t.2, t.3)) },
                   Err(x) => res == Err::<(Entry, Option<u64>, OpenOptions, Option<u32>), Error>(x) })'''
    else:
        if mi['ret'] and 'IoctlData' in mi['ret']:
            bres = 'ioctl_res(res) == self.be(i).%s()' % mi['resfn']
        else:
            bres = 'res == self.be(i).%s()' % mi['resfn']
    # pseudo fs attributes carry internal owner ids too ("the client sees every returned owner id ... translated back")
    if conv == 'attr' and not d.get('setattr'):
        pres = 'self.conv_attr(rt.id(), self.root.%s(), res)' % mi['resfn']
    else:
        pres = 'res == self.root.%s()' % mi['resfn']
    ens = []
    if d.get('names'):
        ens.append('!(%s) ==> is_einval(res) // [C06.vfs.%s.gate]' % (gate, name))
    if d.get('opt'):
        ens.append('(%s) && !(%s) ==> is_enosys(res) // [C12.vfs.%s.%s]' % (gate, gate_opt, name, d['opt']))
    ens.append('''({ let rt = self.route(%(ino)s);
           (%(gate)s) && (%(gopt)s) ==> match rt {
               Route::Pseudo(n) => %(pres)s,
               Route::Backend(i, n) => %(bres)s,
               Route::Vacant => is_enoent(res) } }) // [C07.%(op)s.result]%(c14)s''' % dict(
        ino=ino, gate=gate, gopt=gate_opt, op=name, bres=bres, rf=mi['resfn'], pres=pres, c14=('[C14.%s.ids]' % name) if conv else ''))
    sig_subst = [('Self::Inode', 'VfsInode')] if False else []
    return dict(requires=req, ensures=ens)


CONV_ENTRY_CLOSURE = ('|e|', 'closure', '|e: Entry| -> (q: Result<Entry>) ensures self.conv_entry(idata.sidx(), Ok::<Entry, Error>(e), q)')
ATTR_CLOSURE = ('|tp_1|', 'closure', '|tp_1: (stat64, Duration)| -> (q: (stat64, Duration)) ensures q == (self.attr_out(idata, tp_1.0), tp_1.1)')
SPLICES = {
    'getattr': [ATTR_CLOSURE, ('|tp_2|', 'closure', '|tp_2: (stat64, Duration)| -> (q: (stat64, Duration)) ensures q == (self.attr_out(idata, tp_2.0), tp_2.1)')],
    'setattr': [ATTR_CLOSURE],
    'create': [('|a|', 'closure', '|a: Entry| -> (q: (Entry, Option<u64>, OpenOptions, Option<u32>)) ensures q == (a, b, c, d)'),
               ('|tp_1|', 'closure', '|tp_1: (Entry, Option<u64>, OpenOptions, Option<u32>)| -> (q: Result<(Entry, Option<u64>, OpenOptions, Option<u32>)>) ensures match q { Ok(t) => tp_1.0.inode <= 0xff_ffff_ffff_ffffu64 && t == (self.entry_out(idata.sidx(), tp_1.0.inode, tp_1.0), tp_1.1, tp_1.2, tp_1.3), Err(_) => tp_1.0.inode > 0xff_ffff_ffff_ffffu64 }')],
    'symlink': [CONV_ENTRY_CLOSURE], 'mknod': [CONV_ENTRY_CLOSURE], 'mkdir': [CONV_ENTRY_CLOSURE],
}


def unit(root='/repo'):
    notes = []
    trait_txt, info, _ = fsmodel.gen_trait(root, notes)
    impls = fsmodel.gen_impl(root, 'BackFileSystem', 'u64', 'u64', notes) + '\n' + fsmodel.gen_impl(root, 'PseudoFs', 'u64', 'u64', notes)

    P = ['C07']
    items = flagsmodel.items(root, ABI, 'FsOptions') + flagsmodel.items(root, ABI, 'SetattrValid') + [
        Copy(FSMOD, r'pub struct Context\b', prefix='#[derive(Clone, Copy)]', subst=[('libc::uid_t', 'u32'), ('libc::gid_t', 'u32'), ('libc::pid_t', 'i32')]),
        Copy(FSMOD, r'pub struct Entry\b', prefix='#[derive(Clone, Copy)]'),
        Copy(FSMOD, r'pub struct FileLock\b', prefix='#[derive(Clone, Copy)]'),
        Copy(FSMOD, r'pub struct DirEntry\b', prefix='#[derive(Clone, Copy)]', subst=[('ino64_t', 'u64')]),
        Copy(FSMOD, r'pub struct IoctlData\b'),
        Copy(FSMOD, r'pub enum GetxattrReply\b'),
        Copy(FSMOD, r'pub enum ListxattrReply\b'),
        Copy(ABI, r'pub struct CreateIn\b', prefix='#[derive(Clone, Copy)]'),
        Copy('src/abi/virtio_fs.rs', r'pub struct RemovemappingOne\b', prefix='#[derive(Clone, Copy)]'),
        Copy(ABI, r'pub const ROOT_ID\b'),
        ByteConst(MOD, 'CURRENT_DIR_CSTR'), ByteConst(MOD, 'PARENT_DIR_CSTR'),
        Copy(MOD, r'pub const SLASH_ASCII\b'), Copy(MOD, r'pub const VFS_MAX_INO\b'),
        Copy(MOD, r'const VFS_INDEX_SHIFT\b'), Copy(MOD, r'const VFS_PSEUDO_FS_IDX\b'),
        Copy(MOD, r'pub type VfsIndex\b'), Copy(MOD, r'type ArcBackFs\b'), Copy(MOD, r'type ArcSuperBlock\b'),
        Copy(MOD, r"type VfsEitherFs<'a>"),
        Copy(MOD, r'pub struct VfsInode\b', prefix='#[derive(Clone, Copy, PartialEq, Eq)]', subst=[('VfsInode(u64)', 'VfsInode(pub u64)')]),
        Copy(MOD, r'enum Either<A, B>'),
        Raw('use Either::*;'),
        Copy(MOD, r'struct MountPointData\b'),
        Copy(MOD, r'pub struct VfsOptions\b', prefix='#[derive(Clone, Copy)]'),
        Copy(MOD, r'pub struct Vfs\b'),
        Raw(trait_txt), Raw(impls), Raw(SPECS),
        Raw('''
impl vstd::std_specs::convert::FromSpecImpl<VfsInode> for u64 {
    open spec fn obeys_from_spec() -> bool { true }
    open spec fn from_spec(v: VfsInode) -> u64 { v.0 }
}
impl vstd::std_specs::convert::FromSpecImpl<u64> for VfsInode {
    open spec fn obeys_from_spec() -> bool { true }
    open spec fn from_spec(v: u64) -> VfsInode { VfsInode(v) }
}
#[verifier::external_body] pub fn fmt_opaque() -> String { unimplemented!() }
'''),
        # ---- names (C06)
        Fn(MOD, None, 'is_dot_or_dotdot', ensures=['r == (is_dot(name@) || is_dotdot(name@)) // [C06.names.dot]'], props=['C06'],
           splices=[('let bytes = name.to_bytes_with_nul();', 'after', 'proof { axiom_cstr_no_nul(name); assert(bytes@[name@.len() as int] == 0u8); if name@.len() >= 1 { assert(bytes@[0] == name@[0]); } if name@.len() >= 2 { assert(bytes@[1] == name@[1]); } if name@.len() >= 3 { assert(bytes@[2] == name@[2]); } }')]),
        Fn(MOD, None, 'is_safe_path_component', ensures=['r == safe_name(name@) // [C06.names.safe]'], props=['C06'],
           splices=[('let bytes = name.to_bytes_with_nul();', 'after', 'proof { axiom_cstr_no_nul(name); lemma_contains_push(name@, 47u8, 0u8); }')]),
        Fn(MOD, None, 'validate_path_component',
           ensures=['r is Ok <==> safe_name(name@) // [C06.names.validate]', 'r is Err ==> is_einval(r) // [C06.names.errno]'], props=['C06'], canary=True),
        # ---- inode encoding (C07)
        Group('impl VfsInode {', [
            Fn(MOD, 'impl VfsInode', 'new', requires=['ino <= 0xff_ffff_ffff_ffffu64'], ensures=['r.0 == enc(fs_idx, ino) // [C07.ino.new]'], props=P,
               splices=[('^', 'after', 'proof { lemma_ino_mask(ino); }')]),
            Fn(MOD, 'impl VfsInode', 'is_pseudo_fs', ensures=['r == (self.sidx() == 0) // [C07.ino.pseudo]'], props=P),
            Fn(MOD, 'impl VfsInode', 'fs_idx', ensures=['r == self.sidx() // [C07.ino.idx]'], props=P),
            Fn(MOD, 'impl VfsInode', 'ino', ensures=['r == self.sino() // [C07.ino.ino]'], props=P),
        ]),
        Group('impl From<u64> for VfsInode {', [Fn(MOD, 'impl From<u64> for VfsInode', 'from', ensures=['r.0 == val'], props=P)]),
        Group('impl From<VfsInode> for u64 {', [Fn(MOD, 'impl From<VfsInode> for u64', 'from', ensures=['r == val.0'], props=P)]),
        # ---- id mapping (C14)
        Fn(MOD, None, 'remap_id', requires=['to_base as int + range as int <= 0x1_0000_0000'],
           ensures=['r == spec_remap(value, from_base, to_base, range) // [C14.remap.algebra]'], props=['C14'], canary=True),
    ]
    vfs_fns = [
        Fn(MOD, 'impl Vfs', 'convert_inode',
           ensures=['inode == 0 ==> r == Ok::<u64, Error>(0u64) // [C07.convert.negative]',
                    '0 < inode <= 0xff_ffff_ffff_ffffu64 ==> r == Ok::<u64, Error>(enc(fs_idx, inode)) // [C07.convert.enc]',
                    'inode > 0xff_ffff_ffff_ffffu64 ==> r is Err // [C07.convert.range]'], props=P),
        Fn(MOD, 'impl Vfs', 'get_effective_id_mapping', ensures=['r == self.eff_map(fs_idx) // [C14.effmap]'], props=['C14']),
        Fn(MOD, 'impl Vfs', 'convert_entry', requires=['map_ok(self.eff_map(fs_idx))'],
           ensures=['inode <= 0xff_ffff_ffff_ffffu64 ==> r == Ok::<Entry, Error>(*final(entry)) && *final(entry) == self.entry_out(fs_idx, inode, *old(entry)) // [C07.convert_entry.enc][C14.convert_entry.ids]',
                    'inode > 0xff_ffff_ffff_ffffu64 ==> r is Err && *final(entry) == *old(entry)'],
           body_subst=[('self.convert_inode(fs_idx, inode).map(|ino| {', 'match self.convert_inode(fs_idx, inode) { Ok(ino) => Ok({'),
                       ('*entry\n        })', '*entry\n        }), Err(e) => Err(e) }')],
           props=['C07', 'C14']),
        Fn(MOD, 'impl Vfs', 'remap_attr_id', requires=['map_ok(self.eff_map(fs_idx))'],
           ensures=['*final(attr) == attr_ids(self.eff_map(fs_idx), map_internal_to_external, *old(attr)) // [C14.remap_attr]'], props=['C14']),
        Fn(MOD, 'impl Vfs', 'convert_attr', requires=['map_ok(self.eff_map(idata.sidx()))'],
           ensures=['r == self.attr_out(idata, attr) // [C07.convert_attr.ino][C14.convert_attr.ids]'], props=['C07', 'C14']),
        Fn(MOD, 'impl Vfs', 'convert_backend_entry', requires=['map_ok(self.eff_map(idata.sidx()))'],
           ensures=['self.conv_entry(idata.sidx(), Ok::<Entry, Error>(entry), r) // [C07.backend_entry][C14.backend_entry.ids]'], props=['C07', 'C14']),
        Fn(MOD, 'impl Vfs', 'remap_ctx_ids', requires=['map_ok(mapping)'],
           ensures=['r is Ok', '*final(ctx) == ctx_to_int(mapping, *old(ctx)) // [C14.ctx.direction]'], props=['C14']),
        Fn(MOD, 'impl Vfs', 'get_fs_by_idx', requires=['self.wf()'],
           ensures=['match r { Ok(fs) => self.sb()[fs_idx as int] == Some(fs), Err(_) => self.sb()[fs_idx as int] is None && is_enoent(r) } // [C07.slot]'], props=P),
        Fn(MOD, 'impl Vfs', 'get_real_rootfs', requires=['self.wf()'],
           ensures=['''match self.route(inode) {
                Route::Pseudo(n) => r is Ok && r->Ok_0.0 == Either::<&PseudoFs, ArcBackFs>::Left(&self.root) && r->Ok_0.1 == inode && r->Ok_0.1.sidx() == 0 && r->Ok_0.1.sino() == n,
                Route::Backend(i, n) => r is Ok && r->Ok_0.0 == Either::<&PseudoFs, ArcBackFs>::Right(self.sb()[i as int]->Some_0) && r->Ok_0.1 == VfsInode(enc(i, n)) && n <= 0xff_ffff_ffff_ffffu64 && i != 0,
                Route::Vacant => is_enoent(r) } // [C07.route]'''], props=P, canary=True,
           splices=[('^', 'after', 'broadcast use axiom_arc_cloned; proof { lemma_ino_mask(0); lemma_enc_decompose(inode.0); }'),
                    ('if let Some(mnt) = self.mountpoints.load().get(&inode.ino()).cloned() {', 'after',
                     'proof { assert(self.mp().contains_key(1u64)); assert(mnt == self.mp()[1u64]); lemma_enc_roundtrip(mnt.fs_idx, mnt.ino); }')]),
    ]
    items.append(Group('impl Vfs {', vfs_fns))
    SC = 'impl FileSystem for Vfs'
    SIGSUB = [('Self::Inode', 'VfsInode'), ('&mut dyn ZeroCopyWriter', '&mut ZW'), ('&mut dyn ZeroCopyReader', '&mut ZR'),
              ('&mut dyn FsCacheReqHandler', '&mut FsCacheReq'), ('fn read(', 'fn read<ZW: ZeroCopyWriter>('), ('fn write(', 'fn write<ZR: ZeroCopyReader>(')]
    routed = []
    import os
    only = os.environ.get('VFS_ONLY')
    for name, d in ROUTED.items():
        if only and name not in only.split(','):
            continue
        c = routed_fn(name, d, info)
        src_sig = fsmodel  # noqa
        routed.append(Fn(SYNC, SC, name, requires=c['requires'], ensures=c['ensures'], props=['C07'],
                         sig_subst=[x for x in SIGSUB if True], lenient_sig=True, ret_name='res', canary=True,
                         splices=[('^', 'after', 'proof { lemma_rt(self.route(%s).idx(), self.route(%s).ino()); lemma_enc_decompose(%s.0); }' % (d['ino'], d['ino'], d['ino']))] + SPLICES.get(name, [])))
    def two(op, a, b, args_p, args_b, conv=None):
        gate = 'safe_name(%s@)' % ('oldname' if op == 'rename' else 'newname') + (' && safe_name(newname@)' if op == 'rename' else '')
        okres = 'res == self.root.%s()' % ('res_unit' if op == 'rename' else 'res_entry')
        bres = 'self.conv_entry(j, self.be(i).res_entry(), res)' if conv else 'res == self.be(i).res_unit()'
        return Fn(SYNC, SC, op, ret_name='res', sig_subst=SIGSUB, lenient_sig=True, props=['C07'], canary=True,
                  requires=['self.wf()', '(%s) ==> self.root.touch_ok() && forall|i: u8| #[trigger] self.be(i).touch_ok() // [C06.vfs.%s.before]' % (gate, op),
                            '''match (self.route(%s), self.route(%s)) {
                (Route::Pseudo(a), Route::Pseudo(b)) => self.root.allowed_%s(%s),
                (Route::Backend(i, a), Route::Backend(j, b)) => i == j ==> self.be(i).allowed_%s(%s),
                _ => true } // [C07.%s.route]''' % (a, b, op, args_p, op, args_b, op)],
                  ensures=['!(%s) ==> is_einval(res) // [C06.vfs.%s.gate]' % (gate, op),
                           '''(%s) ==> match (self.route(%s), self.route(%s)) {
                (Route::Vacant, _) => is_enoent(res),
                (_, Route::Vacant) => is_enoent(res),
                (Route::Pseudo(a), Route::Pseudo(b)) => %s,
                (Route::Backend(i, a), Route::Backend(j, b)) => if i == j { %s } else { is_einval(res) },
                _ => is_einval(res) } // [C07.%s.cross][C07.%s.result]%s''' % (gate, a, b, okres, bres, op, op, '[C14.link.ids]' if conv else '')],
                  splices=[('^', 'after', 'proof { lemma_rt(self.route(%s).idx(), self.route(%s).ino()); lemma_rt(self.route(%s).idx(), self.route(%s).ino()); }' % (a, a, b, b))]
                  + ([('|e|', 'closure', '|e: Entry| -> (q: Result<Entry>) ensures self.conv_entry(idata_new.sidx(), Ok::<Entry, Error>(e), q)')] if conv else []))
    routed.append(two('rename', 'olddir', 'newdir', '*ctx, a, oldname@, b, newname@, flags', '*ctx, a, oldname@, b, newname@, flags'))
    routed.append(two('link', 'inode', 'newparent', '*ctx, a, b, newname@', '*ctx, a, b, newname@', conv=True))
    routed.append(Fn(SYNC, SC, 'lookup', ret_name='res', sig_subst=SIGSUB, lenient_sig=True, props=['C07'], canary=True,
                     requires=['self.wf()', 'self.mount_wf()', '!has_slash(name@) ==> self.root.touch_ok() && forall|i: u8| #[trigger] self.be(i).touch_ok() // [C06.vfs.lookup.before]', '''match self.route(parent) {
                Route::Pseudo(n) => self.root.allowed_lookup(*ctx, n, name@),
                Route::Backend(i, n) => self.be(i).allowed_lookup(*ctx, n, name@),
                Route::Vacant => true } // [C07.lookup.route]'''],
                     ensures=['has_slash(name@) ==> is_einval(res) // [C06.vfs.lookup.gate]',
                              '''!has_slash(name@) ==> match self.route(parent) {
                Route::Pseudo(n) => self.pseudo_lookup_res(self.root.res_entry(), 0u8, res, false),
                Route::Backend(i, n) => self.conv_entry(i, self.be(i).res_entry(), res),
                Route::Vacant => is_enoent(res) } // [C07.lookup.result]''',
                              '''!has_slash(name@) ==> match self.route(parent) {
                Route::Pseudo(n) => self.pseudo_lookup_res(self.root.res_entry(), 0u8, res, true),
                _ => true } // [C14.lookup.ids]'''],
                     splices=[('^', 'after', 'proof { lemma_rt(self.route(parent).idx(), self.route(parent).ino()); lemma_contains_push(name@, 47u8, 0u8); }')]))
    routed.append(Fn(MOD, 'impl Vfs', 'lookup_pseudo', ret_name='res', props=['C07', 'C14'], canary=True,
                     requires=['self.wf()', 'self.mount_wf()', 'fs.touch_ok()', 'fs.allowed_lookup(*ctx, idata.sino(), name@)'],
                     ensures=['self.pseudo_lookup_res(fs.res_entry(), idata.sidx(), res, false) // [C07.lookup_pseudo.cross]',
                              'self.pseudo_lookup_res(fs.res_entry(), idata.sidx(), res, true) // [C14.lookup_pseudo.ids]']))
    routed.append(Fn(SYNC, SC, 'forget', sig_subst=SIGSUB, lenient_sig=True, props=['C07'],
                     requires=['self.wf()', 'self.root.touch_ok() && forall|i: u8| #[trigger] self.be(i).touch_ok()', '''match self.route(inode) {
                Route::Pseudo(n) => self.root.allowed_forget(*ctx, n, count),
                Route::Backend(i, n) => self.be(i).allowed_forget(*ctx, n, count),
                Route::Vacant => true } // [C07.forget.route]'''],
                     splices=[('^', 'after', 'proof { lemma_rt(self.route(inode).idx(), self.route(inode).ino()); }')]))
    routed.append(Fn(SYNC, SC, 'id_remap', ret_name='res', props=['C14'], requires=['map_ok(self.id_mapping)'],
                     ensures=['res is Ok', '*final(ctx) == ctx_to_int(self.id_mapping, *old(ctx)) // [C14.ctx.global]']))
    routed.append(Fn(SYNC, SC, 'id_remap_with_nodeid', ret_name='res', sig_subst=SIGSUB, lenient_sig=True, props=['C14'], requires=['self.wf()'], canary=True,
                     ensures=['res is Ok',
                              # "the backend sees the caller's ids ... translated": with the mapping of the mount the request is ROUTED to
                              '!(self.route(nodeid) is Vacant) ==> *final(ctx) == ctx_to_int(self.eff_map(self.route(nodeid).idx()), *old(ctx)) // [C14.ctx.route]'],
                     splices=[('^', 'after', 'proof { lemma_rt(self.route(nodeid).idx(), self.route(nodeid).ino()); }')]))
    routed.append(Fn(MOD, 'impl Vfs', 'initialized', ensures=['r == self.initialized.cur()'], props=['C12']))
    routed.append(Fn(SYNC, SC, 'init', ret_name='res', props=['C12'], canary=True, gtag_props={'cap': ['C12'], 'touch': ['C12'], 'store': ['C12']},
                     body_subst=[('*self.opts.load().deref().deref()', '*self.opts.load()'),     # Guard<Arc<T>> double deref = the loaded value
                                 ('n_opts.out_opts &= opts;', 'n_opts.out_opts = n_opts.out_opts & opts;')],   # bitflags: a &= b is a = a & b
                     requires=['self.wf()',
                               # effects on &self are capabilities: only the specified options / the flag `true` may be stored, only when not yet initialised
                               'forall|n: VfsOptions| #[trigger] self.opts.may_store(n) <==> (!self.initialized.cur() && n == vfs_new_opts(self.opts.cur(), opts)) // [C12.vfs.init.switches]',
                               'forall|b: bool| #[trigger] self.initialized.may_store(b) <==> (b && !self.initialized.cur())',
                               # every mounted backend is initialised with the NEGOTIATED set (what INIT returns), nothing else, and only on the first INIT
                               '''forall|k: int| 0 <= k < 256 && (#[trigger] self.sb()[k]) is Some ==> (*self.sb()[k]->Some_0).touch_ok()
                                    && (forall|o: FsOptions| #[trigger] (*self.sb()[k]->Some_0).allowed_init(o) <==> (!self.initialized.cur() && o.bits == vfs_out(self.opts.cur(), opts))) // [C12.vfs.init.backends]'''],
                     ensures=['self.initialized.cur() ==> is_einval(res) // [C12.vfs.init.second]',
                              'res is Ok ==> !self.initialized.cur() && res->Ok_0.bits == vfs_out(self.opts.cur(), opts) // [C12.vfs.init.result]'],
                     splices=[('self.opts.store(Arc::new(n_opts));', 'before', '''proof {
            let c0 = self.opts.cur();
            assert(forall|x: u64| #![auto] x & !0u64 == x) by (bit_vector);
            assert(forall|x: u64| #![auto] (x & 0x2_0000u64 != 0) == (x & 0x2_0000u64 == 0x2_0000u64)) by (bit_vector);
            assert(forall|x: u64| #![auto] (x & 0x100_0000u64 != 0) == (x & 0x100_0000u64 == 0x100_0000u64)) by (bit_vector);
            lemma_vfs_out_bits(c0.out_opts.bits, opts.bits, c0.no_open, c0.no_opendir, c0.no_writeback, c0.killpriv_v2);
            assert(n_opts.out_opts.bits == vfs_out(c0, opts));
            assert(n_opts == vfs_new_opts(c0, opts));
        }'''),
                              ('for opt_1 in it_1: superblocks.iter() {', 'replace', '''for opt_1 in it_1: superblocks.iter()
                invariant self.wf(), superblocks@ == self.sb(), !self.initialized.cur(), n_opts.out_opts.bits == vfs_out(self.opts.cur(), opts),
                    forall|b: bool| #[trigger] self.initialized.may_store(b) <==> (b && !self.initialized.cur()),
                    forall|k: int| 0 <= k < 256 && (#[trigger] self.sb()[k]) is Some ==> (*self.sb()[k]->Some_0).touch_ok()
                        && (forall|o: FsOptions| #[trigger] (*self.sb()[k]->Some_0).allowed_init(o) <==> (!self.initialized.cur() && o.bits == vfs_out(self.opts.cur(), opts))),
            {''')]))
    # DESTROY: the counterpart of INIT in the VFS's little state machine.  No property states what DESTROY must do, so every clause here is PINNED behaviour
    # (`pin`: recorded, never an alarm): each mounted backend is destroyed, only while the VFS is initialised, and the only store is `false` into `initialized`
    routed.append(Fn(SYNC, SC, 'destroy', props=['C12'], gtag_props={'cap': ['pin'], 'touch': ['pin'], 'store': ['pin']},
                     requires=['self.wf()',
                               'forall|b: bool| #[trigger] self.initialized.may_store(b) <==> (!b && self.initialized.cur())',
                               'forall|k: int| 0 <= k < 256 && (#[trigger] self.sb()[k]) is Some ==> (*self.sb()[k]->Some_0).touch_ok() && ((*self.sb()[k]->Some_0).allowed_destroy() <==> self.initialized.cur())'],
                     splices=[('for opt_1 in it_1: superblocks.iter() {', 'replace', '''for opt_1 in it_1: superblocks.iter()
                invariant self.wf(), superblocks@ == self.sb(),
                    self.initialized.cur(), // [pin.vfs.destroy.only_initialized]
                    forall|b: bool| #[trigger] self.initialized.may_store(b) <==> (!b && self.initialized.cur()),
                    forall|k: int| 0 <= k < 256 && (#[trigger] self.sb()[k]) is Some ==> (*self.sb()[k]->Some_0).touch_ok() && ((*self.sb()[k]->Some_0).allowed_destroy() <==> self.initialized.cur()),
            {''')]))
    # ---- the entry-rewriting closures of Vfs::readdir / readdirplus, lifted (R17): what the client sees for each directory entry
    DE = "DirEntry<'b>"
    WF = ['self.wf()', 'self.mount_wf()']
    PSEUDO = WF + ['idata.sidx() == 0']
    BACK = WF + ['self.route(inode) == Route::Backend(idata.sidx(), idata.sino())', 'idata.sino() <= 0xff_ffff_ffff_ffffu64']
    same_d = 'res->Ok_0.offset == dir_entry.offset && res->Ok_0.type_ == dir_entry.type_ && res->Ok_0.name@ == dir_entry.name@'
    same_d2 = 'res->Ok_0.0.offset == dir_entry.offset && res->Ok_0.0.type_ == dir_entry.type_ && res->Ok_0.0.name@ == dir_entry.name@'
    MNT_INO = '(if self.mp()[dir_entry.ino].ino == 0 { 0u64 } else { enc(self.mp()[dir_entry.ino].fs_idx, self.mp()[dir_entry.ino].ino) })'
    routed += [
        # "the inode number the client sees for a name is the same in lookup, getattr, readdir and readdirplus"
        Lifted(SYNC, SC, 'readdir', 0, "fn readdir_pseudo_entry<'b>(&self, inode: VfsInode, idata: VfsInode, mut dir_entry: %s) -> (res: Result<%s>)" % (DE, DE), 'add_entry',
               requires=PSEUDO, props=['C07'], canary=True,
               ensures=['res is Ok ==> %s && res->Ok_0.ino == (if self.mp().contains_key(dir_entry.ino) { %s } else { dir_entry.ino }) // [C07.readdir.pseudo.ino]' % (same_d, MNT_INO)],
               splices=[('^', 'after', 'broadcast use axiom_arc_cloned; proof { lemma_enc_zero(dir_entry.ino); }')]),
        Lifted(SYNC, SC, 'readdir', 1, "fn readdir_backend_entry<'b>(&self, inode: VfsInode, idata: VfsInode, mut dir_entry: %s) -> (res: Result<%s>)" % (DE, DE), 'add_entry',
               requires=BACK, props=['C07'], canary=True,
               ensures=['res is Ok ==> %s && res->Ok_0.ino == (if dir_entry.ino == 0 { 0u64 } else { enc(idata.sidx(), dir_entry.ino) }) // [C07.readdir.backend.ino]' % same_d]),
        Lifted(SYNC, SC, 'readdirplus', 0, "fn readdirplus_pseudo_entry<'b>(&self, inode: VfsInode, idata: VfsInode, mut dir_entry: %s, mut entry: Entry) -> (res: Result<(%s, Entry)>)" % (DE, DE), 'add_entry',
               requires=PSEUDO, props=['C07', 'C14'], canary=True,
               ensures=['''res is Ok ==> %s && (if self.mp().contains_key(dir_entry.ino) {
                            // a mountpoint is listed as the mounted file system's root, exactly as lookup returns it
                            res->Ok_0.0.ino == %s && no_ids(res->Ok_0.1) == no_ids(self.entry_out(self.mp()[dir_entry.ino].fs_idx, self.mp()[dir_entry.ino].ino, backend_root(*self.mp()[dir_entry.ino])))
                        } else {
                            res->Ok_0.0.ino == dir_entry.ino && no_ids(res->Ok_0.1) == no_ids(Entry { inode: dir_entry.ino, attr: stat64 { st_ino: dir_entry.ino, ..entry.attr }, ..entry })
                        }) // [C07.readdirplus.pseudo.ino]''' % (same_d2, MNT_INO),
                        '''res is Ok ==> (if self.mp().contains_key(dir_entry.ino) {
                            res->Ok_0.1.attr.st_uid == self.entry_out(self.mp()[dir_entry.ino].fs_idx, self.mp()[dir_entry.ino].ino, backend_root(*self.mp()[dir_entry.ino])).attr.st_uid
                            && res->Ok_0.1.attr.st_gid == self.entry_out(self.mp()[dir_entry.ino].fs_idx, self.mp()[dir_entry.ino].ino, backend_root(*self.mp()[dir_entry.ino])).attr.st_gid
                        } else {
                            // pseudo directories are owned by internal ids too: translated like lookup does (mapping of index 0 = the global one)
                            res->Ok_0.1.attr.st_uid == to_ext(self.eff_map(0), entry.attr.st_uid) && res->Ok_0.1.attr.st_gid == to_ext(self.eff_map(0), entry.attr.st_gid)
                        }) // [C14.readdirplus.pseudo.ids]'''],
               splices=[('^', 'after', 'broadcast use axiom_arc_cloned; proof { lemma_enc_zero(dir_entry.ino); }')]),
        Lifted(SYNC, SC, 'readdirplus', 1, "fn readdirplus_backend_entry<'b>(&self, inode: VfsInode, idata: VfsInode, mut dir_entry: %s, mut entry: Entry) -> (res: Result<(%s, Entry)>)" % (DE, DE), 'add_entry',
               requires=BACK, props=['C07', 'C14'], canary=True,
               ensures=['res is Ok ==> %s && res->Ok_0.0.ino == res->Ok_0.1.inode && no_ids(res->Ok_0.1) == no_ids(self.entry_out(idata.sidx(), entry.inode, entry)) // [C07.readdirplus.backend.ino]' % same_d2,
                        'res is Ok ==> res->Ok_0.1 == self.entry_out(idata.sidx(), entry.inode, entry) // [C14.readdirplus.backend.ids]']),
    ]
    items.append(Group('impl Vfs {', routed))
    u = Unit('vfs', items, preludes=['base.rs', 'stdmodel.rs', 'names.rs', 'vfs.rs'], generic_tags={'cap': ['C07'], 'touch': ['C06'], 'ids': ['C14'], 'store': ['C12']},
             notes='\n'.join(notes))
    return u
