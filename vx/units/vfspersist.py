"""Unit `vfspersist` (C19: saving and restoring VFS state): src/api/vfs/mod.rs `mod persist` (VfsOptions::save / restore,
VfsState::default_mount_id_mappings, Vfs::get_version_map / save_to_bytes / restore_from_bytes) and Vfs::restore_mount, all under
`#[cfg(feature = "persist")]` (switched ON for this unit only).

Built on unit `vfsmount`: the same cell models WITH state (ArcSwap / AtomicU8 / AtomicBool `store(&mut self)`, rule R25), the same table
invariant `inv()` and the same specification text of unit `vfs` (`route`, `eff_map`, `entry_out`).  `insert_mount_locked` is used here
under the contract that unit `vfsmount` proves for it (emitted without body).

External crates (assumed models, section MODEL below): versionize::VersionMap (the five one-line functions of version_map.rs,
transcribed), `#[derive(Versionize)]` of VfsState with `#[version(start = N, default_fn = F)]` (a field that starts at type version N is
not written below N; a reader below N gets `F(type version)`), dbs_snapshot::Snapshot::save / load as an inverse pair on the VALUE that
is written (`snap_dec(snap_enc(root, image)) == (root, image)`).  The start version and the name of the default function are read from the
attribute text on every run.

The pseudo file system is opaque here: PseudoFs::save_to_bytes / restore_from_bytes are used under a contract over its abstract tree
(`PTree`: next inode number, (parent, name) of every pseudo inode, children order); unit `pseudopersist` proves that contract on the real text
of src/api/pseudo_fs.rs.  `mount_ino` / `walk_ino` (what a path resolves to) are functions of that tree.

Argument for "indistinguishable" (all proof fns below are checked by Verus):
  save_to_bytes  |= save_post          (field by field: options, cursor, pseudo tree image, every per-mount mapping slot)
  restore_from_bytes |= restore_post   (field by field; an image of root version 1 gives 256 empty mapping slots: lemma_previous_version)
  lemma_roundtrip: save_post + restore_post + snapshot inverse pair + pseudo inverse pair (lemma_pseudo_roundtrip of unit pseudopersist)
                   => same options, cursor, per-mount mappings, GLOBAL mapping, effective mapping of every index, pseudo tree
  restore_mount |= post_restore_mount  (recorded index, cursor untouched, restored mapping used for the mount root, inv() kept at a vacant index)
  lemma_agree_base / lemma_agree_step / lemma_restore_all (induction over the caller's loop) / lemma_indistinguishable
                   => route(ino) and eff_map(i) of the restored VFS equal those of the saved one for EVERY inode number / index, same occupancy
Assumed links (not proved): allocate_fs_idx and PseudoFs::mount / path_walk / lookup / readdir read nothing but (cursor, occupancy) resp. the
abstract tree; the re-attached backend reports the root inode number it had; the snapshot / versionize models.

On the tree a2a13e4 the two units report two genuine deviations (reproduced in findings/repro_vfs_persist.rs, repaired by
findings/c19_persist_fixes.patch, with which both units are STATUS ok):
  [C19.restore.global_mapping]  restore_from_bytes does not (and through `&self` cannot) re-establish `Vfs::id_mapping`, the mapping that
       get_effective_id_mapping falls back to; the restored `opts.id_mapping` says otherwise.
  [C19.pseudo.evict.closed]     (unit pseudopersist) evict_inode of a directory that still has children leaves them in the inode table without
       a parent; a state saved afterwards is refused by restore_from_state ("invalid parent inode").
"""
import copy
import re

from vx.api import Unit, Fn, Copy, Raw, Group
from vx import extract as X
from vx.units import vfs as V
from vx.units import vfsmount as VM

MOD = V.MOD
R25 = VM.R25
PERSIST_VFS = 'impl Vfs'
TOOWNED = (r'"((?:[^"\\]|\\.)*)"\s*\.to_owned\(\)', r'str_to_string("\1")', 'every: String::from(&str literal), opaque')
OPTSLOAD = (r'self\.opts\.load\(\)\.deref\(\)\.deref\(\)', 'self.opts.load()', 'every: Guard<Arc<T>> double deref is the loaded value')

# what the pseudo file system promises (proved on the real text by unit pseudopersist; the clause strings are shared)
# {T} = the abstract tree of `self` now, {T0} / {T1} = before / after (unit pseudopersist passes the ghost heap of the children cells as well)
PSEUDO_SAVE_ENS = ['r is Ok ==> ptree_encodes(r->Ok_0@, {T}) // [C19.pseudo.save.image] the image carries next_inode and (ino, parent, name) of every pseudo inode, each once']
PSEUDO_RESTORE_ENS = ['r is Ok ==> ptree_dec(old(buf)@) is Some && ({T0}.is_fresh() && ptree_img_wf(old(buf)@) ==> {T1} == ptree_dec(old(buf)@)->Some_0) // [C19.pseudo.restore.tree] a fresh pseudo fs becomes the tree the image lists']


def pseudo_clauses(cl, T, T0, T1):
    return [c.replace('{T0}', T0).replace('{T1}', T1).replace('{T}', T) for c in cl]


def version_attr(root):
    """`#[version(start = N, default_fn = "F")]` on VfsState::mount_id_mappings, read from /repo: -> (N, F, attribute text)"""
    with X.features({'persist'}):
        src = X.Source(root, MOD)
        text, line, _ = src.find_item(r'struct VfsState\b')
    m = re.search(r'(#\[version\(\s*start\s*=\s*(\d+)\s*,\s*default_fn\s*=\s*"(\w+)"\s*\)\])\s*mount_id_mappings\s*:', text)
    if not m:
        raise X.ExtractError('ANCHOR-LOST VfsState::mount_id_mappings: #[version(start = N, default_fn = "F")] not found')
    others = [a for a in re.findall(r'#\[version\([^\]]*\)\]', text) if a != m.group(1)]
    if others:
        raise X.ExtractError('VfsState: unexpected further #[version(..)] attributes %r (the model of the derive knows one versioned field)' % others)
    return int(m.group(2)), m.group(3), m.group(1)


MODEL = r'''
// =====================================================================================================================
// MODEL of the external crates (assumed; listed in the evidence)
// ---- versionize::VersionMap: `versions: Vec<HashMap<TypeId, u16>>` (version_map.rs of versionize 0.2.0, transcribed)
#[derive(Clone, Copy, PartialEq, Eq)] pub enum TypeId { VfsState, PseudoFsState, VfsOptionsState, PseudoInodeState, IdMappingState }       // std::any::TypeId of the versionized types (distinct)
#[verifier::external_body] pub struct VersionMap { _p: u8 }
pub mod versionize { pub use super::VersionMap; }
// get_type_version: the newest entry for `t` among the first `n` root versions, BASE_VERSION = 1 if there is none
pub open spec fn tv_rec(vs: Seq<Map<TypeId, u16>>, n: int, t: TypeId) -> u16 decreases n {
    if n <= 0 { 1u16 } else if vs[n - 1].contains_key(t) { vs[n - 1][t] } else { tv_rec(vs, n - 1, t) }
}
pub open spec fn tv(vs: Seq<Map<TypeId, u16>>, root: u16, t: TypeId) -> u16 {
    tv_rec(vs, if root as int > vs.len() || root == 0 { vs.len() as int } else { root as int }, t)
}
impl VersionMap {
    pub uninterp spec fn view(&self) -> Seq<Map<TypeId, u16>>;
    #[verifier::external_body] pub fn new() -> (r: VersionMap) ensures r@ == seq![Map::<TypeId, u16>::empty()] { unimplemented!() }
    #[verifier::external_body] pub fn new_version(&mut self) -> (r: &mut VersionMap)
        ensures r@ == old(self)@.push(Map::<TypeId, u16>::empty()), *final(self) == *final(r) { unimplemented!() }
    #[verifier::external_body] pub fn set_type_version(&mut self, t: TypeId, v: u16) -> (r: &mut VersionMap)
        requires old(self)@.len() > 0
        ensures r@ == old(self)@.update(old(self)@.len() - 1, old(self)@.last().insert(t, v)), *final(self) == *final(r) { unimplemented!() }
    #[verifier::external_body] pub fn latest_version(&self) -> (r: u16) requires self@.len() <= 0xffff ensures r == self@.len() { unimplemented!() }
}
// ---- #[derive(Versionize)]: what is written for a value at a type version, and what a reader at a type version obtains from it
trait Versionize: Sized {
    type Img;
    spec fn ty() -> TypeId;
    spec fn nver() -> u16;                                           // type versions the derive generated code for (it panics on any other)
    spec fn deps_ok(vs: Seq<Map<TypeId, u16>>, root: u16) -> bool;   // nested versionized types are at a version their derive knows
    spec fn img(&self, v: u16) -> Self::Img;                         // the fields that exist at type version v
    spec fn fits(i: Self::Img, v: u16) -> bool;                      // the image was written at type version v
    spec fn seen(i: Self::Img, v: u16, out: Self) -> bool;           // `out` is what deserialize at type version v returns (later fields: default_fn)
}
// ---- dbs_snapshot::Snapshot: header (magic, root = data version), the object, CRC64.  Assumed: load parses what save wrote.
#[verifier::external_body] pub struct Snapshot { _p: u8 }
#[verifier::external_body] pub struct SnapError { _p: u8 }
uninterp spec fn snap_enc<O: Versionize>(root: u16, i: O::Img) -> Seq<u8>;
uninterp spec fn snap_dec<O: Versionize>(b: Seq<u8>) -> Option<(u16, O::Img)>;
broadcast axiom fn axiom_snap_inverse<O: Versionize>(root: u16, i: O::Img)
    ensures #[trigger] snap_dec::<O>(snap_enc::<O>(root, i)) == Some((root, i));
impl Snapshot {
    pub uninterp spec fn vm(&self) -> Seq<Map<TypeId, u16>>;
    pub uninterp spec fn target(&self) -> u16;
    #[verifier::external_body] pub fn new(version_map: VersionMap, target_version: u16) -> (r: Snapshot)
        ensures r.vm() == version_map@, r.target() == target_version { unimplemented!() }
    #[verifier::external_body] fn save<O: Versionize>(&mut self, writer: &mut Vec<u8>, object: &O) -> (r: core::result::Result<(), SnapError>)
        requires 1 <= tv(old(self).vm(), old(self).target(), O::ty()) <= O::nver(), // [snapver]
                 O::deps_ok(old(self).vm(), old(self).target()), // [snapver]
        ensures final(self).vm() == old(self).vm(), final(self).target() == old(self).target(),
                r is Ok ==> final(writer)@ == old(writer)@ + snap_enc::<O>(old(self).target(), object.img(tv(old(self).vm(), old(self).target(), O::ty())))
    { unimplemented!() }
    #[verifier::external_body] fn load<O: Versionize>(reader: &mut &[u8], snapshot_len: usize, version_map: VersionMap) -> (r: core::result::Result<(O, u16), SnapError>)
        requires forall|root: u16| 1 <= root <= version_map@.len() ==> 1 <= #[trigger] tv(version_map@, root, O::ty()) <= O::nver() && O::deps_ok(version_map@, root), // [snapver]
        ensures r is Ok ==> ({ let d = snap_dec::<O>((*old(reader))@.take(snapshot_len as int)); let root = r->Ok_0.1;
                    &&& d is Some && d->Some_0.0 == root && 1 <= root <= version_map@.len()       // get_data_version refuses 0 and anything newer than the map
                    &&& (O::fits(d->Some_0.1, tv(version_map@, root, O::ty())) ==> O::seen(d->Some_0.1, tv(version_map@, root, O::ty()), r->Ok_0.0)) })
    { unimplemented!() }
}
'''

# the derive of VfsState, instantiated with the attribute read from /repo (START, DEFAULT_FN)
DERIVE = r'''
// ---- #[derive(Versionize)] struct VfsState: `mount_id_mappings` carries `%(attr)s`
pub struct VfsStateImg { pub options: VfsOptionsState, pub root: Seq<u8>, pub next_super: u8, pub maps: Option<Seq<Option<IdMappingState>>> }
impl Versionize for VfsState {
    type Img = VfsStateImg;
    spec fn ty() -> TypeId { TypeId::VfsState }
    spec fn nver() -> u16 { %(start)du16 }
    spec fn deps_ok(vs: Seq<Map<TypeId, u16>>, root: u16) -> bool { tv(vs, root, TypeId::VfsOptionsState) == 1 && tv(vs, root, TypeId::IdMappingState) == 1 }
    spec fn img(&self, v: u16) -> VfsStateImg {
        VfsStateImg { options: self.options, root: self.root@, next_super: self.next_super, maps: if v >= %(start)d { Some(self.mount_id_mappings@) } else { None } }
    }
    spec fn fits(i: VfsStateImg, v: u16) -> bool { (i.maps is Some) == (v >= %(start)d) }
    spec fn seen(i: VfsStateImg, v: u16, out: VfsState) -> bool {
        &&& out.options == i.options && out.root@ == i.root && out.next_super == i.next_super
        &&& if v >= %(start)d { i.maps is Some && out.mount_id_mappings@ == i.maps->Some_0 }
            else { call_ensures(VfsState::%(default_fn)s, (v,), out.mount_id_mappings) }          // default_fn(source type version)
    }
}
impl VfsState { pub fn type_id() -> (r: TypeId) ensures r == TypeId::VfsState { TypeId::VfsState } }
impl VfsOptionsState { pub fn type_id() -> (r: TypeId) ensures r == TypeId::VfsOptionsState { TypeId::VfsOptionsState } }
pub struct PseudoFsState { _p: u8 }
impl PseudoFsState { pub fn type_id() -> (r: TypeId) ensures r == TypeId::PseudoFsState { TypeId::PseudoFsState } }
'''

CELLS2 = r'''
// ---- further stateful cell operations (same sequential model as unit vfsmount)
impl AtomicU8 {
    #[verifier::external_body] pub fn store(&mut self, v: u8, o: Ordering) ensures final(self).cur() == v { unimplemented!() }
}
impl AtomicBool {
    #[verifier::external_body] pub fn store(&mut self, v: bool, o: Ordering) ensures final(self).cur() == v { unimplemented!() }
}
impl FsOptions {
    // bitflags 1.x from_bits: None if a bit outside the defined flags is set
    pub fn from_bits(b: u64) -> (r: Option<FsOptions>) ensures r == (if b & !FsOptions::all_bits() == 0 { Some(FsOptions { bits: b }) } else { None::<FsOptions> })
    { let ob = FsOptions::from_bits_truncate(b); if ob.bits == b { assert(b & FsOptions::all_bits() == b ==> b & !FsOptions::all_bits() == 0) by (bit_vector); Some(FsOptions { bits: b }) }
      else { assert(b & FsOptions::all_bits() != b ==> b & !FsOptions::all_bits() != 0) by (bit_vector); None } }
}
// ---- the pseudo file system as seen from the VFS: an abstract tree (unit pseudopersist connects it to the real structure)
pub struct PTree {
    pub next_inode: u64,                              // the number the next new pseudo directory gets
    pub nodes: Map<u64, (u64, Seq<char>)>,            // pseudo inode -> (parent, name); the root (1) is not listed
    pub children: Map<u64, Seq<u64>>,                 // directory listing order (readdir offsets are positions in it)
}
impl PTree { pub open spec fn is_fresh(self) -> bool { self.nodes =~= Map::empty() && (forall|k: u64| #[trigger] self.children.contains_key(k) ==> self.children[k].len() == 0) } }
pub uninterp spec fn ptree_encodes(b: Seq<u8>, t: PTree) -> bool;     // `b` is an image of `t` (the order in which the inodes are listed is not fixed)
pub uninterp spec fn ptree_dec(b: Seq<u8>) -> Option<PTree>;         // the tree restore builds from an image
pub uninterp spec fn ptree_img_wf(b: Seq<u8>) -> bool;               // the image lists every inode once and not the root
pub uninterp spec fn pt_mount_ino(t: PTree, path: Seq<char>) -> u64;
pub uninterp spec fn pt_walk_ino(t: PTree, path: Seq<char>) -> Option<u64>;
impl PseudoFs {
    pub uninterp spec fn tree(&self) -> PTree;
    #[verifier::external_body] pub fn save_to_bytes(&self) -> (r: Result<Vec<u8>>)
        ensures
%(pseudo_save)s
    { unimplemented!() }
    #[verifier::external_body] pub fn restore_from_bytes(&mut self, buf: &mut Vec<u8>) -> (r: Result<()>)
        ensures
%(pseudo_restore)s
    { unimplemented!() }
}
'''

SPEC = r'''
// =====================================================================================================================
// C19 specification (from the property text)
pub open spec fn opts_state(o: VfsOptions) -> VfsOptionsState {
    VfsOptionsState { in_opts: o.in_opts.bits, out_opts: o.out_opts.bits, no_readdir: o.no_readdir, seal_size: o.seal_size,
        id_mapping_internal: o.id_mapping.0, id_mapping_external: o.id_mapping.1, id_mapping_range: o.id_mapping.2,
        no_open: o.no_open, no_opendir: o.no_opendir, no_writeback: o.no_writeback, killpriv_v2: o.killpriv_v2 }
}
pub open spec fn state_opts(s: VfsOptionsState) -> VfsOptions {
    VfsOptions { in_opts: FsOptions { bits: s.in_opts }, out_opts: FsOptions { bits: s.out_opts }, no_readdir: s.no_readdir, seal_size: s.seal_size,
        id_mapping: (s.id_mapping_internal, s.id_mapping_external, s.id_mapping_range),
        no_open: s.no_open, no_opendir: s.no_opendir, no_writeback: s.no_writeback, killpriv_v2: s.killpriv_v2 }
}
pub open spec fn map_state(m: Option<(u32, u32, u32)>) -> Option<IdMappingState> {
    match m { Some(t) => Some(IdMappingState { internal_id: t.0, external_id: t.1, range: t.2 }), None => None }
}
pub open spec fn state_map(s: Option<IdMappingState>) -> Option<(u32, u32, u32)> {
    match s { Some(x) => Some((x.internal_id, x.external_id, x.range)), None => None }
}
// "global ... id mappings are the same": Vfs::new derives the global mapping from the options (range 0 = no mapping)
pub open spec fn global_of(o: VfsOptions) -> Option<(u32, u32, u32)> { if o.id_mapping.2 == 0 { None } else { Some(o.id_mapping) } }
proof fn lemma_conv_inverse(o: VfsOptions, m: Option<(u32, u32, u32)>, s: VfsOptionsState, x: Option<IdMappingState>)
    ensures state_opts(opts_state(o)) == o, state_map(map_state(m)) == m,                       // [C19.conv.inverse]
            opts_state(state_opts(s)) == s, map_state(state_map(x)) == x,
{ }
pub open spec fn none_maps() -> Seq<Option<(u32, u32, u32)>> { Seq::new(256, |i: int| None::<(u32, u32, u32)>) }
impl Vfs {
    // what save_to_bytes writes: every cell of the VFS that is not a backend
    spec fn saved_img(&self, v: u16, rb: Seq<u8>) -> VfsStateImg {
        VfsStateImg { options: opts_state(self.opts.cur()), root: rb, next_super: self.next_super.cur(),
                      maps: if v >= %(start)d { Some(self.maps().map_values(|m: Option<(u32, u32, u32)>| map_state(m))) } else { None } }
    }
    spec fn embedded_root(bytes: Seq<u8>) -> Seq<u8> { snap_dec::<VfsState>(bytes)->Some_0.1.root }
    // `rb` = the image of the pseudo tree embedded in the state
    spec fn save_post(&self, bytes: Seq<u8>, rb: Seq<u8>) -> bool { ptree_encodes(rb, self.root.tree()) && bytes == snap_enc::<VfsState>(%(start)du16, self.saved_img(%(start)du16, rb)) }
    // what restore_from_bytes re-establishes from an image (root version, content); `o` is the VFS before
    spec fn restore_post(o: Vfs, n: Vfs, root: u16, i: VfsStateImg) -> bool {
        &&& n.opts.cur() == state_opts(i.options)
        &&& n.initialized.cur() == (i.options.in_opts != 0)
        &&& n.next_super.cur() == i.next_super
        &&& n.maps() =~= (match i.maps { Some(m) => m.map_values(|s: Option<IdMappingState>| state_map(s)), None => none_maps() })
        &&& n.id_mapping == global_of(state_opts(i.options))
        &&& ptree_dec(i.root) is Some && (o.root.tree().is_fresh() && ptree_img_wf(i.root) ==> Some(n.root.tree()) == ptree_dec(i.root))
        &&& n.superblocks == o.superblocks && n.mountpoints == o.mountpoints
    }
    // ---- round trip: restore(save(a)) into a VFS `o` gives `n` with the same options, cursor, per-mount and global mappings, pseudo tree
    proof fn lemma_roundtrip(a: Vfs, bytes: Seq<u8>, rb: Seq<u8>, o: Vfs, n: Vfs)
        requires a.save_post(bytes, rb), a.maps().len() == 256,
                 snap_dec::<VfsState>(bytes) is Some && Vfs::restore_post(o, n, snap_dec::<VfsState>(bytes)->Some_0.0, snap_dec::<VfsState>(bytes)->Some_0.1),
                 a.id_mapping == global_of(a.opts.cur()),                       // established by Vfs::new, never changed
                 ptree_dec(rb) == Some(a.root.tree()) && ptree_img_wf(rb),      // the pseudo fs inverse pair: lemma_pseudo_roundtrip of unit pseudopersist, from ptree_encodes(rb, tree)
                 o.root.tree().is_fresh(),
        ensures n.opts.cur() == a.opts.cur(),                                   // [C19.roundtrip.options]
                n.next_super.cur() == a.next_super.cur(),                       // [C19.roundtrip.next_super]
                n.maps() =~= a.maps(),                                          // [C19.roundtrip.mount_mappings]
                n.id_mapping == a.id_mapping,                                   // [C19.roundtrip.global_mapping]
                forall|i: u8| n.eff_map(i) == a.eff_map(i),                     // [C19.roundtrip.effective_mappings]
                n.root.tree() == a.root.tree(),                                 // [C19.roundtrip.pseudo_tree]
                a.initialized.cur() == (a.opts.cur().in_opts.bits != 0) ==> n.initialized.cur() == a.initialized.cur(),   // [C19.roundtrip.initialized]
    {
        broadcast use axiom_snap_inverse;
        assert(snap_dec::<VfsState>(bytes) == Some((%(start)du16, a.saved_img(%(start)du16, rb))));
        lemma_conv_inverse(a.opts.cur(), None, opts_state(a.opts.cur()), None);
        let sm = a.maps().map_values(|m: Option<(u32, u32, u32)>| map_state(m));
        assert forall|k: int| 0 <= k < 256 implies #[trigger] n.maps()[k] == a.maps()[k] by {
            lemma_conv_inverse(a.opts.cur(), a.maps()[k], opts_state(a.opts.cur()), None);
            assert(sm[k] == map_state(a.maps()[k]));
        }
        assert(n.maps() =~= a.maps());
        assert forall|i: u8| n.eff_map(i) == a.eff_map(i) by { }
    }
    // ---- "state written in the previous format version still loads": an image of root version 1 (no per-mount mappings in it) restores
    //      options, cursor and tree as above and leaves every mount without a mapping of its own
    proof fn lemma_previous_version(o: Vfs, n: Vfs, i: VfsStateImg)
        requires i.maps is None, Vfs::restore_post(o, n, 1, i)
        ensures n.maps() =~= none_maps(), forall|k: u8| n.eff_map(k) == n.id_mapping,     // [C19.previous_version.mappings_default]
                n.opts.cur() == state_opts(i.options), n.next_super.cur() == i.next_super,
    { }
}
'''

TABLES2 = r'''
// =====================================================================================================================
// C19, part 4: after restore + restore_mount of every recorded mount the restored VFS `b` routes like the saved one `a`
impl Vfs {
    // what restore_mount guarantees on success (its contract); `o` before, `n` after, `pino` the pseudo inode of the mount point
    spec fn post_restore_mount(o: Vfs, n: Vfs, idx: u8, pino: u64, e: Entry, fs: Arc<BackFileSystem>) -> bool {
        &&& idx != 0 && e.inode <= 0xff_ffff_ffff_ffffu64
        &&& n.mp().dom() == o.mp().dom().insert(pino) && (forall|k: u64| k != pino && o.mp().contains_key(k) ==> n.mp()[k] == #[trigger] o.mp()[k])
        &&& n.mp()[pino].fs_idx == idx && n.mp()[pino].ino == e.inode
        &&& n.sb() == (if o.mp().contains_key(pino) { o.sb().update(o.mp()[pino].fs_idx as int, None) } else { o.sb() }).update(idx as int, Some(fs))
        &&& n.maps() == o.maps() && n.id_mapping == o.id_mapping && n.next_super == o.next_super && n.opts == o.opts && n.initialized == o.initialized
        &&& n.mp()[pino].root_entry == o.entry_out(idx, e.inode, e)
    }
    // restore_mount at a vacant index of a VFS that satisfies the table invariant keeps the invariant
    proof fn lemma_restore_mount_keeps_inv(o: Vfs, n: Vfs, idx: u8, pino: u64, e: Entry, fs: Arc<BackFileSystem>)
        requires o.inv(), o.sb()[idx as int] is None, Vfs::post_restore_mount(o, n, idx, pino, e, fs)
        ensures n.inv(),                                                                  // [C19.tables.restore_mount_keeps_inv]
    {
        assert(n.eff_map(idx) == o.eff_map(idx));
        assert(n.mp()[pino].root_entry == n.entry_out(idx, e.inode, e));
        assert(Vfs::post_mount(o, n, idx, pino, e, fs, o.maps()[idx as int])) by { assert(o.maps().update(idx as int, o.maps()[idx as int]) =~= o.maps()); }
        assert(map_ok(o.maps()[idx as int]));
        Vfs::lemma_mount_keeps_inv(o, n, idx, pino, e, fs, o.maps()[idx as int]);
    }
    // `b` carries exactly the mounts of `a` whose mount point is in `s`, at the recorded indices, with the recorded root numbers
    spec fn agree_on(a: Vfs, b: Vfs, s: Set<u64>) -> bool {
        &&& b.sb().len() == 256 && b.mp().dom() =~= s && s.subset_of(a.mp().dom())
        &&& forall|k: u64| #[trigger] s.contains(k) ==> b.mp()[k].fs_idx == a.mp()[k].fs_idx && b.mp()[k].ino == a.mp()[k].ino
        &&& forall|i: int| 0 <= i < 256 ==> ((#[trigger] b.sb()[i]) is Some <==> exists|k: u64| s.contains(k) && (#[trigger] a.mp()[k]).fs_idx == i)
        &&& b.maps() =~= a.maps() && b.id_mapping == a.id_mapping
    }
    // base: right after restore_from_bytes into a fresh VFS nothing is attached
    proof fn lemma_agree_base(a: Vfs, b: Vfs)
        requires b.sb().len() == 256, b.mp() =~= Map::<u64, Arc<MountPointData>>::empty(), forall|i: int| 0 <= i < 256 ==> (#[trigger] b.sb()[i]) is None,
                 b.maps() =~= a.maps(), b.id_mapping == a.id_mapping
        ensures Vfs::agree_on(a, b, Set::<u64>::empty()),                                  // [C19.indist.base]
    { }
    // step: re-attaching the backend recorded for mount point `k` of `a` at its recorded index (the backend reporting the root number it had)
    proof fn lemma_agree_step(a: Vfs, b: Vfs, n: Vfs, s: Set<u64>, k: u64, e: Entry, fs: Arc<BackFileSystem>)
        requires a.inv(), b.inv(), Vfs::agree_on(a, b, s), a.mp().contains_key(k), !s.contains(k), e.inode == a.mp()[k].ino,
                 Vfs::post_restore_mount(b, n, a.mp()[k].fs_idx, k, e, fs)
        ensures b.sb()[a.mp()[k].fs_idx as int] is None,                                   // the recorded index is vacant in `b`: no live mount is displaced
                Vfs::agree_on(a, n, s.insert(k)), n.inv(),                                 // [C19.indist.step]
    {
        let idx = a.mp()[k].fs_idx;
        if b.sb()[idx as int] is Some {
            let l = choose|l: u64| s.contains(l) && (#[trigger] a.mp()[l]).fs_idx == idx as int;
            assert(a.mp().contains_key(l) && l != k);
        }
        assert(!b.mp().contains_key(k));
        Vfs::lemma_restore_mount_keeps_inv(b, n, idx, k, e, fs);
        let s2 = s.insert(k);
        assert(n.mp().dom() =~= s2);
        assert forall|j: u64| #[trigger] s2.contains(j) implies n.mp()[j].fs_idx == a.mp()[j].fs_idx && n.mp()[j].ino == a.mp()[j].ino by {
            if j != k { assert(s.contains(j)); assert(b.mp().contains_key(j)); }
        }
        assert forall|i: int| 0 <= i < 256 implies ((#[trigger] n.sb()[i]) is Some <==> exists|j: u64| s2.contains(j) && (#[trigger] a.mp()[j]).fs_idx == i) by {
            if i == idx as int { assert(s2.contains(k)); }
            else {
                if n.sb()[i] is Some { assert(b.sb()[i] is Some); let j = choose|j: u64| s.contains(j) && (#[trigger] a.mp()[j]).fs_idx == i; assert(s2.contains(j)); }
                if exists|j: u64| s2.contains(j) && (#[trigger] a.mp()[j]).fs_idx == i {
                    let j = choose|j: u64| s2.contains(j) && (#[trigger] a.mp()[j]).fs_idx == i;
                    assert(j != k); assert(s.contains(j));
                }
            }
        }
    }
    // the caller's loop: bs[0] is the VFS right after restore_from_bytes, bs[i+1] the VFS after restore_mount of the backend recorded for the
    // mount point ks[i] of `a` (each mount point once, in any order; es[i] = what that backend's mount() returned, with the root number it had)
    spec fn restore_steps(a: Vfs, bs: Seq<Vfs>, ks: Seq<u64>, es: Seq<Entry>, fs: Seq<Arc<BackFileSystem>>) -> bool {
        &&& bs.len() == ks.len() + 1 && es.len() == ks.len() && fs.len() == ks.len() && ks.no_duplicates()
        &&& forall|i: int| 0 <= i < ks.len() ==> a.mp().contains_key(#[trigger] ks[i]) && es[i].inode == a.mp()[ks[i]].ino
                && Vfs::post_restore_mount(bs[i], bs[i + 1], a.mp()[ks[i]].fs_idx, ks[i], es[i], fs[i])
    }
    proof fn lemma_restore_all(a: Vfs, bs: Seq<Vfs>, ks: Seq<u64>, es: Seq<Entry>, fs: Seq<Arc<BackFileSystem>>, n: int)
        requires a.inv(), bs[0].inv(), Vfs::agree_on(a, bs[0], Set::<u64>::empty()), Vfs::restore_steps(a, bs, ks, es, fs), 0 <= n <= ks.len()
        ensures bs[n].inv(), Vfs::agree_on(a, bs[n], ks.take(n).to_set()),               // [C19.indist.induction]
        decreases n
    {
        if n == 0 { assert(ks.take(0).to_set() =~= Set::<u64>::empty()); }
        else {
            Vfs::lemma_restore_all(a, bs, ks, es, fs, n - 1);
            let t1 = ks.take(n - 1); let t2 = ks.take(n); let s = t1.to_set(); let kn = ks[n - 1];
            assert(!s.contains(kn)) by { if s.contains(kn) { let j = choose|j: int| 0 <= j < t1.len() && #[trigger] t1[j] == kn; assert(ks[j] == kn); } }
            Vfs::lemma_agree_step(a, bs[n - 1], bs[n], s, kn, es[n - 1], fs[n - 1]);
            assert(t2.to_set() =~= s.insert(kn)) by {
                assert forall|k: u64| t2.to_set().contains(k) <==> s.insert(kn).contains(k) by {
                    if t2.to_set().contains(k) { let j = choose|j: int| 0 <= j < t2.len() && #[trigger] t2[j] == k; if j < n - 1 { assert(t1[j] == k); } }
                    if s.contains(k) { let j = choose|j: int| 0 <= j < t1.len() && #[trigger] t1[j] == k; assert(t2[j] == k); }
                    if k == kn { assert(t2[n - 1] == k); }
                }
            }
        }
    }
    // conclusion: once every mount point of `a` is re-attached, every inode number routes in `b` as it did in `a` (same backend index, same
    // backend inode number, or the same pseudo inode, or vacant in both) and every index has the same effective id mapping
    proof fn lemma_indistinguishable(a: Vfs, b: Vfs)
        requires a.inv(), Vfs::agree_on(a, b, a.mp().dom())
        ensures forall|ino: VfsInode| #[trigger] b.route(ino) == a.route(ino),             // [C19.indist.route]
                forall|i: u8| #[trigger] b.eff_map(i) == a.eff_map(i),                     // [C19.indist.mappings]
                forall|k: u64| a.mp().contains_key(k) <==> b.mp().contains_key(k),         // the same pseudo directories are mount points
                // the same indices are in use: with the restored cursor, allocate_fs_idx (which reads nothing else) hands out what it would have
                forall|i: int| 0 <= i < 256 ==> ((#[trigger] b.sb()[i]) is Some <==> a.sb()[i] is Some),   // [C19.indist.occupancy]
    {
        assert forall|i: int| 0 <= i < 256 implies ((#[trigger] b.sb()[i]) is Some <==> a.sb()[i] is Some) by {
            if a.sb()[i] is Some { let k = choose|k: u64| a.mp().contains_key(k) && (#[trigger] a.mp()[k]).fs_idx == i; assert(a.mp().dom().contains(k)); }
            if b.sb()[i] is Some { let k = choose|k: u64| a.mp().dom().contains(k) && (#[trigger] a.mp()[k]).fs_idx == i; assert(a.sb()[a.mp()[k].fs_idx as int] is Some); }
        }
        assert forall|ino: VfsInode| #[trigger] b.route(ino) == a.route(ino) by {
            if ino.sidx() == 0 && ino.sino() == 1 && a.mp().contains_key(1) { assert(a.mp().dom().contains(1u64)); assert(b.mp().contains_key(1)); }
            if ino.sidx() == 0 && ino.sino() == 1 && b.mp().contains_key(1) { assert(a.mp().dom().contains(1u64)); }
        }
        assert forall|k: u64| a.mp().contains_key(k) <==> b.mp().contains_key(k) by { assert(a.mp().dom().contains(k) <==> b.mp().dom().contains(k)); }
    }
}
'''


def unit(root='/repo'):
    start, default_fn, attr = version_attr(root)
    u = VM.unit(root)
    items = []
    for it in u.items:
        if isinstance(it, Raw) and it.text is VM.CELLS:
            # the pseudo fs resolves paths as a function of its abstract tree
            cells = VM.CELLS
            for (a, b) in [('pub uninterp spec fn mount_ino(&self, path: Seq<char>) -> u64;', 'pub open spec fn mount_ino(&self, path: Seq<char>) -> u64 { pt_mount_ino(self.tree(), path) }'),
                           ('pub uninterp spec fn walk_ino(&self, path: Seq<char>) -> Option<u64>;', 'pub open spec fn walk_ino(&self, path: Seq<char>) -> Option<u64> { pt_walk_ino(self.tree(), path) }')]:
                if cells.count(a) != 1:
                    raise X.ExtractError('vfsmount.CELLS changed: %r' % a)
                cells = cells.replace(a, b)
            items.append(Raw(cells))
            continue
        if isinstance(it, Group) and it.header.startswith('impl Vfs {') and any(isinstance(f, Fn) and f.name == 'insert_mount_locked' for f in it.items):
            keep = []
            for f in it.items:
                if isinstance(f, Fn) and f.name in ('insert_mount_locked', 'allocate_fs_idx'):
                    g = copy.copy(f)
                    g.external_body, g.canary, g.splices, g.body_resub = True, False, [], []     # contract proved in unit vfsmount, used here
                    g.requires = [re.sub(r'\[C\d\d\.', '[C19.callee.', c) for c in g.requires]  # a precondition violated by a caller in THIS unit is a C19 finding
                    g.ensures = [re.sub(r'\[C\d\d\.', '[C19.callee.', c) for c in g.ensures]
                    keep.append(g)
            items.append(Group(it.header, keep))
            continue
        items.append(it)
    P = ['C19']
    d = dict(start=start, default_fn=default_fn, attr=attr,
             pseudo_save='\n'.join('            %s,' % c.split(' // ')[0] for c in pseudo_clauses(PSEUDO_SAVE_ENS, 'self.tree()', '', '')),
             pseudo_restore='\n'.join('            %s,' % c.split(' // ')[0] for c in pseudo_clauses(PSEUDO_RESTORE_ENS, '', 'old(self).tree()', 'final(self).tree()')))
    items += [
        Copy(MOD, r'const MAX_VFS_INDEX\b'),
        Copy(MOD, r'struct IdMappingState\b', prefix='#[derive(Clone, Copy)]'),
        Copy(MOD, r'struct VfsOptionsState\b', prefix='#[derive(Clone, Copy)]'),
        Copy(MOD, r'struct VfsState\b', subst=[(attr, '')]),
        Raw(MODEL), Raw(DERIVE % d), Raw(CELLS2 % d), Raw(SPEC % d), Raw(TABLES2),
    ]
    opt_fields = ['no_readdir', 'seal_size', 'no_open', 'no_opendir', 'no_writeback', 'killpriv_v2']
    items.append(Group('impl VfsState {', [
        Fn(MOD, 'impl VfsState', default_fn, props=P, canary=True, body_resub=[(r'\bsuper::MAX_VFS_INDEX\b', 'MAX_VFS_INDEX', 'every: path flattened (the constant is copied to module level)')],
           ensures=['r@ =~= Seq::new(256, |i: int| None::<IdMappingState>) // [C19.previous_version.default_len] one (absent) mapping for each of the 256 indices']),
    ]))
    items.append(Group('impl VfsOptions {', [
        Fn(MOD, 'impl VfsOptions', 'save', props=P, canary=True,
           ensures=['r.in_opts == self.in_opts.bits && r.out_opts == self.out_opts.bits // [C19.opts.save.negotiated] offered and negotiated feature words',
                    'r.id_mapping_internal == self.id_mapping.0 && r.id_mapping_external == self.id_mapping.1 && r.id_mapping_range == self.id_mapping.2 // [C19.opts.save.id_mapping]']
           + ['r.%s == self.%s // [C19.opts.save.%s]' % (f, f, f) for f in opt_fields]
           + ['r == opts_state(*self) // [C19.opts.save.all]']),
        Fn(MOD, 'impl VfsOptions', 'restore', props=P, canary=True, ret_name='res', body_resub=[TOOWNED],
           ensures=['res is Ok ==> res->Ok_0.in_opts.bits == state.in_opts && res->Ok_0.out_opts.bits == state.out_opts // [C19.opts.restore.negotiated]',
                    'res is Ok ==> res->Ok_0.id_mapping == (state.id_mapping_internal, state.id_mapping_external, state.id_mapping_range) // [C19.opts.restore.id_mapping]']
           + ['res is Ok ==> res->Ok_0.%s == state.%s // [C19.opts.restore.%s]' % (f, f, f) for f in opt_fields]
           + ['res is Ok ==> res->Ok_0 == state_opts(*state) // [C19.opts.restore.all]',
              # a state produced by save() of well-formed options (bitflags invariant: only defined bits) is accepted
              'state.in_opts & !FsOptions::all_bits() == 0 && state.out_opts & !FsOptions::all_bits() == 0 ==> res is Ok // [C19.opts.restore.accepts_saved]']),
    ]))
    INV_LOOP_SAVE = '''while mount_id_mappings_i < mappings.len()
                invariant mount_id_mappings_i <= mappings@.len(), mount_id_mappings@.len() == mount_id_mappings_i, mappings@ == self.maps(),
                    forall|k: int| 0 <= k < mount_id_mappings@.len() ==> mount_id_mappings@[k] == map_state(#[trigger] self.maps()[k]), // [C19.save.mount_mappings]
                decreases mappings@.len() - mount_id_mappings_i,
            {'''
    INV_LOOP_RESTORE = '''while mount_id_mappings_i < state.mount_id_mappings.len()
                invariant mount_id_mappings_i <= state.mount_id_mappings@.len(), mount_id_mappings@.len() == mount_id_mappings_i,
                    forall|k: int| 0 <= k < mount_id_mappings@.len() ==> mount_id_mappings@[k] == state_map(#[trigger] state.mount_id_mappings@[k]), // [C19.restore.mount_mappings]
                decreases state.mount_id_mappings@.len() - mount_id_mappings_i,
            {'''
    save = Fn(MOD, PERSIST_VFS, 'save_to_bytes', props=P, canary=True, ret_name='res', body_resub=[OPTSLOAD],
              gtag_props={'snapver': ['C19']},
              requires=['self.maps().len() == 256'],
              ensures=['res is Ok ==> self.save_post(res->Ok_0@, Vfs::embedded_root(res->Ok_0@)) // [C19.save.image] the image is the latest root version and carries options, pseudo tree, allocation cursor and every per-mount mapping'],
              splices=[('while mount_id_mappings_i < mappings.len() {', 'replace', INV_LOOP_SAVE),
                       ('|tp_1|', 'closure', '|tp_1: (u32, u32, u32)| -> (q: IdMappingState)\n                ensures q == (IdMappingState { internal_id: tp_1.0, external_id: tp_1.1, range: tp_1.2 }) // [C19.save.mapping_fields]\n'),
                       ('let vm = Vfs::get_version_map();', 'before', '''proof {
                assert(vfs_state.options == opts_state(self.opts.cur()));                                  // [C19.save.options]
                assert(vfs_state.next_super == self.next_super.cur());                                     // [C19.save.next_super]
                assert(ptree_encodes(vfs_state.root@, self.root.tree()));                                  // [C19.save.pseudo_tree]
                assert(vfs_state.mount_id_mappings@ =~= self.maps().map_values(|m: Option<(u32, u32, u32)>| map_state(m)));   // [C19.save.mount_mappings] every slot, also the empty ones
            }'''),
                       ('Ok(buf)', 'before', '''proof {
                assert(buf@ =~= snap_enc::<VfsState>(%(start)du16, vfs_state.img(%(start)du16))); // [C19.save.image] written at the latest root version, with the latest layout of VfsState
                assert(vfs_state.img(%(start)du16) == self.saved_img(%(start)du16, vfs_state.root@)); // [C19.save.image]
                assert(self.save_post(buf@, vfs_state.root@)); // [C19.save.image]
                axiom_snap_inverse::<VfsState>(%(start)du16, vfs_state.img(%(start)du16));
                assert(Vfs::embedded_root(buf@) == vfs_state.root@);
            }''' % d)])
    save.rules = ('R33',)
    restore = Fn(MOD, PERSIST_VFS, 'restore_from_bytes', props=P, canary=True, ret_name='res', sig_subst=R25,
                 gtag_props={'snapver': ['C19']},
                 ensures=['''res is Ok ==> ({ let d = snap_dec::<VfsState>(old(buf)@);
                        d is Some && 1 <= d->Some_0.0 <= %(start)d && ((d->Some_0.1.maps is Some) == (d->Some_0.0 >= %(start)d) ==> Vfs::restore_post(*old(self), *final(self), d->Some_0.0, d->Some_0.1)) }) // [C19.restore.all] an image written at root version v by a writer that had VfsState at its version-v layout''' % d]
                 + ['res is Ok ==> final(self).superblocks == old(self).superblocks && final(self).mountpoints == old(self).mountpoints // [C19.restore.frame] backends are not part of the image: the caller re-attaches them'],
                 splices=[('while mount_id_mappings_i < state.mount_id_mappings.len() {', 'replace', INV_LOOP_RESTORE),
                          ('|s|', 'closure?', '|s: IdMappingState| -> (q: (u32, u32, u32))\n                ensures q == (s.internal_id, s.external_id, s.range) // [C19.restore.mapping_fields]\n'),
                          ('Ok(())', 'before', '''proof {
                let d = snap_dec::<VfsState>(old(buf)@); let i = d->Some_0.1;
                assert(old(buf)@.take(old(buf)@.len() as int) =~= old(buf)@);
                if (i.maps is Some) == (d->Some_0.0 >= %(start)d) {
                    assert forall|k: int| 0 <= k < self.maps().len() implies #[trigger] self.maps()[k] == state_map(state.mount_id_mappings@[k]) by { } // [C19.restore.mount_mappings]
                    assert(self.opts.cur() == state_opts(i.options));                                     // [C19.restore.options]
                    assert(self.initialized.cur() == (i.options.in_opts != 0));                            // [C19.restore.initialized]
                    assert(self.next_super.cur() == i.next_super);                                         // [C19.restore.next_super]
                    assert(self.maps() =~= (match i.maps { Some(m) => m.map_values(|s: Option<IdMappingState>| state_map(s)), None => none_maps() }));   // [C19.restore.mount_mappings][C19.previous_version.mappings_default]
                    assert(self.id_mapping == global_of(state_opts(i.options)));                           // [C19.restore.global_mapping] the mapping in force for mounts without their own is the saved one
                    assert(ptree_dec(i.root) is Some && (old(self).root.tree().is_fresh() && ptree_img_wf(i.root) ==> Some(self.root.tree()) == ptree_dec(i.root)));   // [C19.restore.pseudo_tree]
                }
            }''' % d)])
    restore.rules = ('R33',)
    items.append(Group('impl Vfs {', [
        Fn(MOD, PERSIST_VFS, 'get_version_map', props=P, canary=True,
           ensures=['r@.len() == %d // [C19.version_map.latest] root versions 1..%d' % (start, start),
                    'tv(r@, 1, TypeId::VfsState) == 1 // [C19.version_map.v1] a root version 1 image is read with the version 1 layout of VfsState (no per-mount mappings in it)',
                    'forall|root: u16| %d <= root ==> tv(r@, root, TypeId::VfsState) == %d // [C19.version_map.latest_layout]' % (start, start),
                    'forall|root: u16| tv(r@, root, TypeId::VfsOptionsState) == 1 && tv(r@, root, TypeId::IdMappingState) == 1 // [C19.version_map.nested] the nested types have one layout only'],
           splices=[('^', 'after', 'proof { reveal_with_fuel(tv_rec, 4); }')]),
        save, restore,
        Fn(MOD, 'impl Vfs', 'restore_mount', props=P, canary=True, ret_name='res', sig_subst=R25,
           gtag_props={'cap': ['C19'], 'touch': ['C19']},
           requires=['old(self).sb().len() == 256', 'fs.touch_ok()',
                     # the recorded index of a backend: what mount() returned before the save - never the pseudo index
                     'fs_idx != 0 // [C19.restore_mount.recorded_index]',
                     'map_ok(old(self).eff_map(fs_idx))'],
           ensures=['res is Err ==> final(self).same_tables(*old(self)) && final(self).next_super == old(self).next_super // [C19.restore_mount.failed]',
                    '''res is Ok ==> fs.res_mount() is Ok && ({ let e = fs.res_mount()->Ok_0.0; let pino = old(self).root.mount_ino(path@); let o = *old(self);
                        &&& final(self).mp().dom() == o.mp().dom().insert(pino) && (forall|k: u64| k != pino && o.mp().contains_key(k) ==> final(self).mp()[k] == #[trigger] o.mp()[k])
                        &&& final(self).mp()[pino].fs_idx == fs_idx && final(self).mp()[pino].ino == e.inode && e.inode <= 0xff_ffff_ffff_ffffu64
                        &&& final(self).sb() == (if o.mp().contains_key(pino) { o.sb().update(o.mp()[pino].fs_idx as int, None) } else { o.sb() }).update(fs_idx as int, Some(Arc::new(fs)))
                    }) // [C19.restore_mount.index] the backend is attached at exactly the recorded index, at the pseudo inode its path resolves to''',
                    'res is Ok ==> final(self).next_super == old(self).next_super // [C19.restore_mount.cursor] the allocation cursor is the restored one: later mounts get the indices they would have got',
                    'res is Ok ==> final(self).maps() == old(self).maps() && final(self).id_mapping == old(self).id_mapping // [C19.restore_mount.mapping_kept] the mapping restored for this index stays in force',
                    'res is Ok ==> final(self).mp()[old(self).root.mount_ino(path@)].root_entry == old(self).entry_out(fs_idx, fs.res_mount()->Ok_0.0.inode, fs.res_mount()->Ok_0.0) // [C19.restore_mount.root_ids] mount root translated with the restored mapping of this index',
                    'res is Ok ==> final(self).opts == old(self).opts && final(self).initialized == old(self).initialized // [C19.restore_mount.frame]',
                    'res is Ok ==> Vfs::post_restore_mount(*old(self), *final(self), fs_idx, old(self).root.mount_ino(path@), fs.res_mount()->Ok_0.0, Arc::new(fs)) // [C19.restore_mount.post]',
                    # re-attaching at a VACANT recorded index keeps the table invariant the routing proofs rest on (an occupied index or index 0 is the caller's error: not refused by the code)
                    'res is Ok && old(self).inv() && old(self).sb()[fs_idx as int] is None ==> final(self).inv() // [C19.restore_mount.inv]'],
           body_resub=[(r'self\.insert_mount_locked\(((?:[^()]|\([^()]*\))*)\)(\s*\}\s*)$',
                        r'let res_ = self.insert_mount_locked(\1); proof { if res_ is Ok && old(self).inv() && old(self).sb()[fs_idx as int] is None { Vfs::lemma_restore_mount_keeps_inv(*old(self), *self, fs_idx, old(self).root.mount_ino(path@), entry, Arc::new(fs)); } } res_\2',
                        'the tail call is bound to a name so that the invariant lemma can be applied to the state it leaves; the same value is returned')]),
    ]))
    unit_ = Unit('vfspersist', items, preludes=u.preludes, generic_tags={'cap': ['C19'], 'touch': ['C19'], 'ids': ['C19'], 'snapver': ['C19']})
    unit_.prelude_subst = u.prelude_subst
    unit_.cfg_features = {'persist'}
    return unit_
