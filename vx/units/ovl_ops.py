"""Unit `ovl_ops` (C10 at the level of the overlay's operations; C11: copy-up and delete decisions): OverlayInode::create_upper_dir and
OverlayFs::{copy_symlink_up, copy_regfile_up, copy_node_up, do_mkdir, do_rm, do_mknod, do_create, do_symlink, do_link, empty_node_directory}
(src/overlayfs/mod.rs), OverlayInode::open, FileSystem::{setattr, setxattr, removexattr, write, fallocate, open} and the handle-based operations that
reach a layer without modifying it {release, releasedir, flush, fsync, fsyncdir (do_fsync), lseek, opendir} for OverlayFs (src/overlayfs/sync_io.rs).
OPEN is the one read-path operation that can modify by itself (open(2): O_TRUNC, O_CREAT, a write access mode): the layer model's `open`
requires `is_upper() || sp_open_harmless(flags)` [C10.open.lower_flags].

State model.  The overlay's nodes are a graph of `Arc<OverlayInode>` whose state sits behind Mutex / atomics reached through `&self`.
Here that state lives in a ghost HEAP token (`Tracked<&mut Heap>`, rule R23): node id -> (real inodes, whiteout flag, parent, depth), plus
a log of what was done to the upper layer that the C11 clauses speak about (whiteouts made / removed, opaque marks set).  The node
operations proved against the Mutex's value in unit ovl_merge (in_upper_layer, upper_layer_only, first_layer_inode, add_upper_inode, stat64,
the dispatch of handle_upper_inode_locked) are restated over the heap (seam assumption S-HEAP: same clauses with `self.real_inodes.v`
read as `vxh.ris(self.nid())`).  Sequential model; interleavings are not covered.

C10 ("never modifies lowers / no upper => every modification fails"): heap invariant `inv` = every recorded RealInode is `wf`
(in_upper_layer ==> its layer object is the upper layer); a layer mutator requires `is_upper()` of the object ([upper]); the OverlayFs is
`fs_wf`: its upper_layer, if any, is the one object for which is_upper holds - without an upper layer NO object is.  Every function here
is verified with the capability to mutate only what `is_upper`, and returns Err whenever there is no upper layer.
C11: argument-level capabilities on the copy-up calls (mkdir / create / symlink / write: name, mode, target, bytes and offsets), the
byte-copy loops by invariant, the node's real inodes after copy-up, do_rm's whiteout and do_mkdir's opaque decisions against
`lower_has(path)` ("a lower layer still shows an entry at this path") through the record invariant `rec_id` / `rec_pres` (REC, see the heap model below)."""
import re
from vx.api import Unit, Fn, Copy, Raw, Group
from vx import ovlrules as R, extract as X
from vx.units import ovl_common as C
from vx.units import ovl_real as RL

OVL = C.OVL
OVLS = C.OVLS
OI = 'impl OverlayInode'
OF = 'impl OverlayFs'
FSI = 'impl FileSystem for OverlayFs'

# REC: the obligations that tie the node state to the lower layers' content (C11 "deletions stay deleted", "does not resurrect").
# They FAIL on the unchanged tree (findings O1-O3, reproduced in findings/repro_overlay.rs); False = leave them out (everything else is decided).
import os
CHECK_LOWER_RECORD = os.environ.get('VX_OVL_REC', '1') != '0'

# O4: FileSystem::write passes a WRITE on a handle that lives in a lower layer to that layer's write() (fallocate refuses with EROFS);
# False = leave `write` out of the unit
CHECK_WRITE_LOWER = os.environ.get('VX_OVL_WRITE', '1') != '0'

TOK = dict(param='Tracked(vxh): Tracked<&mut Heap>', arg='Tracked(vxh)')
NODE_CALLEES = ['in_upper_layer', 'upper_layer_only', 'first_layer_inode', 'add_upper_inode', 'stat64', 'create_upper_dir', 'hu_upper', 'parent_node',
                'count_entries_and_whiteout', 'load', 'store', 'child', 'insert_child', 'remove_child', 'kids_snapshot']
FS_CALLEES = ['lookup_node', 'lookup_node_ignore_enoent', 'copy_node_up', 'copy_symlink_up', 'copy_regfile_up', 'load_directory', 'empty_node_directory',
              'insert_inode', 'remove_inode', 'alloc_inode', 'delete_whiteout', 'set_opaque', 'create_whiteout', 'get_data', 'fetch_sub', 'do_rm', 'do_mkdir']

HEAP = r'''
// ---- the ghost heap: what sits behind the Mutex / atomic cells of every OverlayInode, and what was done to the upper layer
// lf: the node's `lower_exists` flag ("the lower layers alone show this name"); constantly false on a tree whose OverlayInode has no such field
pub ghost struct NodeSt { pub ris: Seq<RealInode>, pub wh: bool, pub parent: Option<Arc<OverlayInode>>, pub depth: nat, pub path: Seq<char>, pub lf: bool }
// an upper directory was put in front of a visible node's real inodes (create_upper_dir): everything else stays
pub open spec fn pushed(n: NodeSt, o: NodeSt) -> bool {
    n.ris.len() == o.ris.len() + 1 && n.ris.skip(1) == o.ris && n.ris[0].in_upper_layer && !n.ris[0].whiteout && !n.wh && !o.wh && n.path == o.path && n.parent == o.parent && n.depth == o.depth && n.lf == o.lf
}
pub ghost enum UpMut { Whiteout { dir: u64, name: Seq<u8> }, Unwhite { dir: u64, name: Seq<u8> }, Opaque { ino: u64 } }
pub tracked struct Heap { pub ghost nodes: Map<int, NodeSt>, pub ghost log: Seq<UpMut> }
impl Heap {
    pub open spec fn live(&self, id: int) -> bool { self.nodes.contains_key(id) }     // (quantifiers below spell it out: one trigger shape everywhere)
    pub open spec fn ris(&self, id: int) -> Seq<RealInode> { self.nodes[id].ris }
    pub open spec fn in_upper(&self, id: int) -> bool { self.ris(id).len() > 0 && self.ris(id)[0].in_upper_layer }
    pub open spec fn upper_only(&self, id: int) -> bool { self.ris(id).len() == 1 && self.ris(id)[0].in_upper_layer }
    // C10: every real inode on record is honest about its layer; a live node has at least one; a parent is live, nearer the root, visible
    pub open spec fn inv(&self) -> bool { ninv(self.nodes) }
    // REC (C11): a node (visible or a whiteout) whose path the lower layers still show has that on record - its `lower_exists` flag, or (on a
    // tree without that field) a lower real inode: that is what do_rm consults to decide whether a whiteout must be left so that the deletion survives a restart,
    // and do_mkdir to decide whether the new directory must be opaque
    pub open spec fn rec_id(&self, id: int) -> bool { nrec(self.nodes, id) }
    pub open spec fn rec_inv(&self) -> bool { nrec_inv(self.nodes) }
    // the record is an invariant: in order before ==> in order afterwards
    pub open spec fn rec_pres(&self, o: Heap) -> bool { nrec_pres(self.nodes, o.nodes) }
    // nothing but node `id` changed, and that node only in its real inodes / whiteout flag
    pub open spec fn only_node(&self, o: Heap, id: int) -> bool {
        &&& self.nodes.dom() == o.nodes.dom() && self.log == o.log
        &&& forall|k: int| k != id ==> self.nodes[k] == o.nodes[k]
        &&& self.nodes[id].parent == o.nodes[id].parent && self.nodes[id].depth == o.nodes[id].depth && self.nodes[id].path == o.nodes[id].path && self.nodes[id].lf == o.nodes[id].lf
    }
    // a copy-up of `id` (and of ancestors of it that were not in the upper layer): nodes at least as deep as `id` other than `id` itself
    // are untouched, no node disappears or moves, nothing is logged
    pub open spec fn up_frame(&self, o: Heap, id: int) -> bool {
        &&& self.log == o.log
        &&& forall|k: int| #[trigger] o.nodes.contains_key(k) ==> self.nodes.contains_key(k) && self.nodes[k].parent == o.nodes[k].parent && self.nodes[k].depth == o.nodes[k].depth && self.nodes[k].path == o.nodes[k].path && self.nodes[k].lf == o.nodes[k].lf
                && (self.nodes[k] == o.nodes[k] || k == id || pushed(self.nodes[k], o.nodes[k]))
        &&& forall|k: int| !o.nodes.contains_key(k) ==> !#[trigger] self.nodes.contains_key(k)
        &&& forall|k: int| o.nodes.contains_key(k) && k != id && o.nodes[k].depth >= o.nodes[id].depth ==> #[trigger] self.nodes[k] == o.nodes[k]
        &&& forall|k: int| #[trigger] o.nodes.contains_key(k) && o.in_upper(k) ==> self.nodes[k] == o.nodes[k]
    }
}
pub open spec fn ninv(n: Map<int, NodeSt>) -> bool {
    &&& forall|id: int, i: int| n.contains_key(id) && 0 <= i < n[id].ris.len() ==> (#[trigger] n[id].ris[i]).wf()
    &&& forall|id: int| #[trigger] n.contains_key(id) ==> n[id].ris.len() > 0
    &&& forall|id: int| #[trigger] n.contains_key(id) && n[id].parent is Some ==> n.contains_key(n[id].parent->Some_0.nid()) && n[n[id].parent->Some_0.nid()].depth < n[id].depth
            && !n[n[id].parent->Some_0.nid()].wh      // nothing hangs below a whiteout
    &&& HAS_LF() || forall|id: int| #[trigger] n.contains_key(id) ==> !n[id].lf
}
pub open spec fn nrec(n: Map<int, NodeSt>, id: int) -> bool {
    n.contains_key(id) && lower_has(n[id].path) ==> (if HAS_LF() { n[id].lf } else { exists|i: int| 0 <= i < n[id].ris.len() && !(#[trigger] n[id].ris[i]).in_upper_layer })
}
pub open spec fn nrec_inv(n: Map<int, NodeSt>) -> bool { forall|k: int| #[trigger] n.contains_key(k) ==> nrec(n, k) }
pub open spec fn nrec_pres(n: Map<int, NodeSt>, o: Map<int, NodeSt>) -> bool { nrec_inv(o) ==> nrec_inv(n) }
// "a lower layer still shows an entry at this overlay path" (the union of the lower layers alone); lower layers never change (C10), so
// this is a fact about the path
pub uninterp spec fn lower_has(path: Seq<char>) -> bool;
pub open spec fn HAS_LF() -> bool { %(HAS_LF)s }      // does OverlayInode have the `lower_exists` field in this tree? (computed from the source text)
pub open spec fn path_join_spec(dir: Seq<char>, name: Seq<char>) -> Seq<char> { dir + seq!['/'] + name }
#[verifier::external_body] pub fn path_join(dir: &str, name: &str) -> (r: String) ensures r@ == path_join_spec(dir@, name@) { unimplemented!() }
// ---- cells of a node: identity only; their content is in the heap
#[verifier::external_body] pub struct RisCell { _p: u8 }
impl RisCell { pub uninterp spec fn id(&self) -> int; }
#[verifier::external_body] pub struct KidsCell { _p: u8 }
#[verifier::external_body] pub struct ParentCell { _p: u8 }
#[verifier::external_body] pub struct CounterCell { _p: u8 }
impl CounterCell {
    #[verifier::external_body] pub fn new(v: u64) -> (r: Self) { unimplemented!() }
    #[verifier::external_body] pub fn fetch_sub(&self, n: u64, o: Ordering, Tracked(vxh): Tracked<&mut Heap>) -> (r: u64) ensures *final(vxh) == *old(vxh) { unimplemented!() }
    #[verifier::external_body] pub fn fetch_add(&self, n: u64, o: Ordering) -> (r: u64) { unimplemented!() }
    #[verifier::external_body] pub fn load(&self, o: Ordering, Tracked(vxh): Tracked<&mut Heap>) -> (r: u64) ensures *final(vxh) == *old(vxh) { unimplemented!() }
}
#[verifier::external_body] pub struct FlagCell { _p: u8 }
impl FlagCell {
    pub uninterp spec fn id(&self) -> int;
    pub uninterp spec fn kind(&self) -> int;      // 0: a node's `whiteout`, 1: a node's `lower_exists`, otherwise a flag of the OverlayFs itself
    pub uninterp spec fn cfg(&self) -> bool;      // flags of the OverlayFs itself (no_open, ..): fixed after init
    #[verifier::external_body] pub fn load(&self, o: Ordering, Tracked(vxh): Tracked<&mut Heap>) -> (r: bool)
        ensures *final(vxh) == *old(vxh), self.kind() == 0 && old(vxh).nodes.contains_key(self.id()) ==> r == old(vxh).nodes[self.id()].wh,
            self.kind() == 1 && old(vxh).nodes.contains_key(self.id()) ==> r == old(vxh).nodes[self.id()].lf, self.kind() != 0 && self.kind() != 1 ==> r == self.cfg() { unimplemented!() }
    #[verifier::external_body] pub fn store(&self, v: bool, o: Ordering, Tracked(vxh): Tracked<&mut Heap>)
        requires self.kind() == 1, old(vxh).nodes.contains_key(self.id())        // only a node's `lower_exists` is stored to by the functions under contract
        ensures final(vxh).log == old(vxh).log, final(vxh).nodes == old(vxh).nodes.insert(self.id(), NodeSt { lf: v, ..old(vxh).nodes[self.id()] }) { unimplemented!() }
}
'''

NODE = r'''
impl OverlayInode {
    pub open spec fn nid(&self) -> int { self.real_inodes.id() }
    pub open spec fn cells_ok(&self) -> bool { self.whiteout.id() == self.nid() && self.whiteout.kind() == 0 %(LF_CELL)s }       // the node's flag cells are keyed like the node
    pub open spec fn node_ok(&self, vxh: Heap) -> bool { self.cells_ok() && vxh.nodes.contains_key(self.nid()) && vxh.nodes[self.nid()].path == self.path@ }
    pub uninterp spec fn s_stat(&self, ctx: Context, vxh: Heap) -> Result<stat64>;
    // ---- the node operations of unit ovl_merge, restated over the heap (S-HEAP)
    #[verifier::external_body] pub fn in_upper_layer(&self, Tracked(vxh): Tracked<&mut Heap>) -> (r: bool)
        ensures *final(vxh) == *old(vxh), r == old(vxh).in_upper(self.nid()) { unimplemented!() }
    #[verifier::external_body] pub fn upper_layer_only(&self, Tracked(vxh): Tracked<&mut Heap>) -> (r: bool)
        ensures *final(vxh) == *old(vxh), r == old(vxh).upper_only(self.nid()) { unimplemented!() }
    #[verifier::external_body] pub fn first_layer_inode(&self, Tracked(vxh): Tracked<&mut Heap>) -> (r: (Arc<BoxedLayer>, bool, u64))
        requires old(vxh).ris(self.nid()).len() > 0      // panics on a node without real inodes ("BUG: dangling OverlayInode")
        ensures *final(vxh) == *old(vxh), r.0 == old(vxh).ris(self.nid())[0].layer && r.1 == old(vxh).ris(self.nid())[0].in_upper_layer && r.2 == old(vxh).ris(self.nid())[0].inode { unimplemented!() }
    #[verifier::external_body] pub fn add_upper_inode(&self, ri: RealInode, clear_lowers: bool, Tracked(vxh): Tracked<&mut Heap>)
        requires old(vxh).nodes.contains_key(self.nid())
        ensures final(vxh).only_node(*old(vxh), self.nid()), final(vxh).nodes[self.nid()].wh == ri.whiteout,
            final(vxh).ris(self.nid()) == (if clear_lowers { seq![ri] } else { seq![ri] + old(vxh).ris(self.nid()) }) { unimplemented!() }
    #[verifier::external_body] pub fn stat64(&self, ctx: &Context, Tracked(vxh): Tracked<&mut Heap>) -> (r: Result<stat64>)
        ensures *final(vxh) == *old(vxh), r == self.s_stat(*ctx, *old(vxh)) { unimplemented!() }
    // dispatch of handle_upper_inode_locked (rule R29 inlines the closures against it)
    #[verifier::external_body] pub fn hu_upper(&self, Tracked(vxh): Tracked<&mut Heap>) -> (r: Result<Option<&RealInode>>)
        ensures *final(vxh) == *old(vxh), old(vxh).ris(self.nid()).len() == 0 ==> r is Err,
            old(vxh).ris(self.nid()).len() > 0 ==> r is Ok && (r->Ok_0 is Some <==> old(vxh).ris(self.nid())[0].in_upper_layer) && (r->Ok_0 is Some ==> *r->Ok_0->Some_0 == old(vxh).ris(self.nid())[0]) { unimplemented!() }
    // `self.parent.lock().unwrap().upgrade()`
    #[verifier::external_body] pub fn parent_node(&self, Tracked(vxh): Tracked<&mut Heap>) -> (r: Option<Arc<OverlayInode>>)
        ensures *final(vxh) == *old(vxh), r == old(vxh).nodes[self.nid()].parent, r is Some ==> r->Some_0.cells_ok() && (old(vxh).nodes.contains_key(r->Some_0.nid()) ==> r->Some_0.node_ok(*old(vxh))) { unimplemented!() }
    // OverlayInode::new_from_real_inode: a fresh node holding that one real inode
    #[verifier::external_body] pub fn new_from_real_inode(name: &str, ino: u64, path: String, real_inode: RealInode, Tracked(vxh): Tracked<&mut Heap>) -> (r: Self)
        ensures !old(vxh).nodes.contains_key(r.nid()) && r.cells_ok() && r.inode == ino && r.path@ == path@ && r.name@ == name@ && final(vxh).log == old(vxh).log,
            final(vxh).nodes == old(vxh).nodes.insert(r.nid(), NodeSt { ris: seq![real_inode], wh: real_inode.whiteout, parent: None, depth: 0, path: path@, lf: HAS_LF() && !real_inode.in_upper_layer && !real_inode.whiteout }) { unimplemented!() }
    // the children table (the live view's bookkeeping: not part of what is decided here)
    #[verifier::external_body] pub fn child(&self, name: &str, Tracked(vxh): Tracked<&mut Heap>) -> (r: Option<Arc<OverlayInode>>) ensures *final(vxh) == *old(vxh) { unimplemented!() }
    #[verifier::external_body] pub fn insert_child(&self, name: &str, node: Arc<OverlayInode>, Tracked(vxh): Tracked<&mut Heap>) ensures *final(vxh) == *old(vxh) { unimplemented!() }
    #[verifier::external_body] pub fn remove_child(&self, name: &str, Tracked(vxh): Tracked<&mut Heap>) ensures *final(vxh) == *old(vxh) { unimplemented!() }
    #[verifier::external_body] pub fn count_entries_and_whiteout(&self, ctx: &Context, Tracked(vxh): Tracked<&mut Heap>) -> (r: Result<(u64, u64)>) ensures *final(vxh) == *old(vxh), r is Ok ==> r->Ok_0.0 + r->Ok_0.1 <= 0xffff_ffff_ffff_ffff { unimplemented!() }
    // `node.childrens.lock().unwrap().values().cloned().collect::<Vec<_>>()`: the children, each a live node one level below
    #[verifier::external_body] pub fn kids_snapshot(&self, Tracked(vxh): Tracked<&mut Heap>) -> (r: Vec<Arc<OverlayInode>>)
        ensures *final(vxh) == *old(vxh), forall|i: int| 0 <= i < r@.len() ==> old(vxh).nodes.contains_key((#[trigger] r@[i]).nid()) && r@[i].cells_ok() && old(vxh).nodes[r@[i].nid()].depth > old(vxh).nodes[self.nid()].depth { unimplemented!() }
}
pub assume_specification<T> [Option::<T>::replace] (o: &mut Option<T>, v: T) -> (r: Option<T>) ensures *final(o) == Some(v), r == *old(o);
#[verifier::external_body] pub struct Utf8Error { _p: u8 }
// std::str::from_utf8: the inverse of the UTF-8 encoding (str_bytes)
pub uninterp spec fn utf8_valid(b: Seq<u8>) -> bool;
#[verifier::external_body] pub fn str_from_utf8(v: &Vec<u8>) -> (r: core::result::Result<&str, Utf8Error>)
    ensures r is Ok ==> str_bytes(r->Ok_0@) == v@ && utf8_valid(v@), r is Err ==> !utf8_valid(v@) { unimplemented!() }
// String::from_utf8_lossy: the same characters only if the input is valid UTF-8; otherwise U+FFFD replacements, i.e. OTHER bytes (the result
// is then unconstrained here).  Cow<str> is modelled as the owned String with the same characters.
#[verifier::external_body] pub fn string_from_utf8_lossy(v: &Vec<u8>) -> (r: String) ensures utf8_valid(v@) ==> str_bytes(r@) == v@ { unimplemented!() }
// TempFile::new().unwrap().into_file(): a fresh, empty file (the unwrap's panic when the temporary file cannot be made is dropped: noted)
#[verifier::external_body] pub fn vx_tempfile() -> (r: File) ensures r.data().len() == 0 && r.pos() == 0 { unimplemented!() }
pub fn drop<T>(x: T) { }
// CStr::to_string_lossy().to_string(): the name as a String (UTF-8 names: same bytes)
pub uninterp spec fn lossy_str(b: Seq<u8>) -> Seq<char>;
#[verifier::external_body] pub fn cstr_to_string_lossy(c: &CStr) -> (r: String) ensures r@ == lossy_str(c@), utf8_valid(c@) ==> str_bytes(r@) == c@ { unimplemented!() }
'''

FSM = r'''
#[verifier::external_body] pub struct InodeStoreCell { _p: u8 }
#[verifier::external_body] pub struct HandlesCell { _p: u8 }
// [seam S-HANDLES] every handle on record is honest about its layer (established where handles are made: open / do_create / get_data)
pub open spec fn hd_wf(d: HandleData) -> bool { d.real_handle is Some && d.real_handle->Some_0.in_upper_layer ==> (*d.real_handle->Some_0.layer).is_upper() }
impl HandlesCell {
    #[verifier::external_body] pub fn insert_handle(&self, h: u64, d: Arc<HandleData>) requires hd_wf(*d) { unimplemented!() }
    #[verifier::external_body] pub fn remove_handle(&self, h: &u64) { unimplemented!() }
    #[verifier::external_body] pub fn get_handle(&self, h: &u64) -> (r: Option<&Arc<HandleData>>) ensures r is Some ==> hd_wf(**r->Some_0) { unimplemented!() }
}
impl OverlayFs {
    // C10: the configured upper layer is THE object mutations may reach; without one there is none
    pub open spec fn fs_wf(&self) -> bool {
        &&& self.no_open.kind() == 2 && self.no_opendir.kind() == 2 && self.writeback.kind() == 2 && self.killpriv_v2.kind() == 2 && self.perfile_dax.kind() == 2
        &&& self.upper_layer is Some ==> (*self.upper_layer->Some_0).is_upper()
        &&& self.upper_layer is None ==> forall|l: LayerObj| !#[trigger] l.is_upper()
    }
    // ---- bookkeeping of the live view (inode table, children tables): contract only; they do not touch real inodes, flags or the log
    // the inode table / children tables as far as the contracts need them: which node a (parent number, name) pair resolves to, and the path
    // of the directory behind a number
    pub uninterp spec fn s_node(&self, parent: u64, name: Seq<char>) -> Arc<OverlayInode>;
    pub uninterp spec fn path_of_ino(&self, ino: u64) -> Seq<char>;
    pub open spec fn child_path(&self, parent: u64, name: Seq<char>) -> Seq<char> { if name.len() == 0 { self.path_of_ino(parent) } else { path_join_spec(self.path_of_ino(parent), name) } }
    // what a lookup leaves behind: old nodes as they were, new nodes (a directory was loaded) in order [seam S-REC-SCAN]
    pub open spec fn lookup_frame(o: Heap, n: Heap) -> bool {
        &&& n.inv() && n.log == o.log
        &&& forall|k: int| #[trigger] o.nodes.contains_key(k) ==> n.nodes.contains_key(k) && n.nodes[k] == o.nodes[k]
        &&& forall|k: int| #[trigger] n.nodes.contains_key(k) && !o.nodes.contains_key(k) ==> n.rec_id(k)
    }
    pub open spec fn nodes_frame(o: Heap, n: Heap) -> bool {
        &&& n.inv() && n.log.len() >= o.log.len()
        &&& forall|k: int| #[trigger] o.nodes.contains_key(k) ==> n.nodes.contains_key(k) && n.nodes[k] == o.nodes[k]
        &&& forall|k: int| #[trigger] n.nodes.contains_key(k) && !o.nodes.contains_key(k) ==> n.rec_id(k)
    }
    // "whiteout nodes are never handed out": the number does not resolve to a whiteout node (assumption of setattr, which does not check)
    pub uninterp spec fn never_wh(&self, ino: u64) -> bool;
    #[verifier::external_body] fn lookup_node(&self, ctx: &Context, parent: Inode, name: &str, Tracked(vxh): Tracked<&mut Heap>) -> (r: Result<Arc<OverlayInode>>)
        requires old(vxh).inv()
        ensures OverlayFs::lookup_frame(*old(vxh), *final(vxh)),
            r is Ok ==> r->Ok_0 == self.s_node(parent, name@) && r->Ok_0.node_ok(*final(vxh)) && r->Ok_0.path@ == self.child_path(parent, name@),
            r is Ok && name@.len() == 0 && self.never_wh(parent) ==> !final(vxh).nodes[r->Ok_0.nid()].wh { unimplemented!() }
    // [seam S-SCAN-COMPLETE] a loaded directory has a node for every name a lower layer shows in it
    #[verifier::external_body] fn lookup_node_ignore_enoent(&self, ctx: &Context, parent: u64, name: &str, Tracked(vxh): Tracked<&mut Heap>) -> (r: Result<Option<Arc<OverlayInode>>>)
        requires old(vxh).inv()
        ensures OverlayFs::lookup_frame(*old(vxh), *final(vxh)),
            r is Ok && r->Ok_0 is Some ==> r->Ok_0->Some_0 == self.s_node(parent, name@) && r->Ok_0->Some_0.node_ok(*final(vxh)) && r->Ok_0->Some_0.path@ == self.child_path(parent, name@),
            r is Ok && r->Ok_0 is None ==> !lower_has(self.child_path(parent, name@)),
            r is Ok ==> (r->Ok_0 is Some <==> self.has_node(parent, name@)) { unimplemented!() }
    pub uninterp spec fn has_node(&self, parent: u64, name: Seq<char>) -> bool;
}
// the children of this directory node have been read from the layers (what load_directory establishes): only then does the node's child table say what the
// merged directory contains - "rmdir of a non-empty directory fails" counts the entries of the directory BEING REMOVED, after loading IT
pub uninterp spec fn dir_loaded(h: Heap, nid: int) -> bool;
impl OverlayFs {
    #[verifier::external_body] fn load_directory(&self, ctx: &Context, node: &Arc<OverlayInode>, Tracked(vxh): Tracked<&mut Heap>) -> (r: Result<()>)
        requires old(vxh).inv()
        ensures OverlayFs::lookup_frame(*old(vxh), *final(vxh)), r is Ok ==> dir_loaded(*final(vxh), node.nid()) { unimplemented!() }
    #[verifier::external_body] fn alloc_inode(&self, path: &String, Tracked(vxh): Tracked<&mut Heap>) -> (r: Result<u64>) ensures *final(vxh) == *old(vxh) { unimplemented!() }
    #[verifier::external_body] fn insert_inode(&self, inode: u64, node: Arc<OverlayInode>, Tracked(vxh): Tracked<&mut Heap>) ensures *final(vxh) == *old(vxh) { unimplemented!() }
    // every caller under contract here (do_rm, empty_node_directory) removes a NAME from the merged view: the number reserved for that path must be given up with it
    // (the store drops the reservation when it is told the path: unit ovl_inodes, [C10.inodes.remove.reservation])
    #[verifier::external_body] fn remove_inode(&self, inode: u64, path_removed: Option<String>, Tracked(vxh): Tracked<&mut Heap>) -> (r: Option<Arc<OverlayInode>>)
        requires path_removed is Some, // [C10.ops.remove_inode.path_given]
        ensures *final(vxh) == *old(vxh) { unimplemented!() }
}
'''

# ---- callee-side contracts of the RealInode mutators at this level: what unit ovl_real proved, with the capability as a precondition of the call
def real_callee(name, token=False):
    c = RL.REAL_CONTRACTS[name]
    req = ['self.wf()']
    if name == 'create_whiteout':
        req.append('self.in_upper_layer ==> forall|m: u32, d: u32, u: u32| sp_whiteout_node(m, d) ==> #[trigger] (*self.layer).may_mknod(self.inode, %s, m, d, u) // [cap]' % RL.NAMEB)
    else:
        req.append('self.in_upper_layer ==> %s // [cap]' % RL.CAP_CALL[name])
    ens = list(c['ensures'])
    if token:
        ens.append('final(vxh).nodes == old(vxh).nodes')
        ens.append('final(vxh).log == (if r is Ok { old(vxh).log.push(UpMut::Whiteout { dir: self.inode, name: %s }) } else { old(vxh).log })' % RL.NAMEB)
    return req, ens


LAYER_OPS = r'''
pub trait Layer: FileSystem {
    fn root_inode(&self) -> u64;
    // the Layer helpers (contracts proved on the real text in unit ovl_layer; here: they may only be issued on the upper layer, and what they
    // did to it is logged)
    fn delete_whiteout(&self, ctx: &Context, parent: u64, name: &CStr, Tracked(vxh): Tracked<&mut Heap>) -> (r: Result<()>)
        requires self.is_upper(), // [upper]
        ensures final(vxh).nodes == old(vxh).nodes, final(vxh).log == old(vxh).log.push(UpMut::Unwhite { dir: parent, name: name@ });
    fn set_opaque(&self, ctx: &Context, inode: u64, Tracked(vxh): Tracked<&mut Heap>) -> (r: Result<()>)
        requires self.is_upper(), // [upper]
        ensures final(vxh).nodes == old(vxh).nodes, final(vxh).log == (if r is Ok { old(vxh).log.push(UpMut::Opaque { ino: inode }) } else { old(vxh).log });
}
impl Layer for LayerObj {
    #[verifier::external_body] fn root_inode(&self) -> (r: u64) { unimplemented!() }
    #[verifier::external_body] fn delete_whiteout(&self, ctx: &Context, parent: u64, name: &CStr, Tracked(vxh): Tracked<&mut Heap>) -> (r: Result<()>) { unimplemented!() }
    #[verifier::external_body] fn set_opaque(&self, ctx: &Context, inode: u64, Tracked(vxh): Tracked<&mut Heap>) -> (r: Result<()>) { unimplemented!() }
}
'''

# ---- capabilities at the level of arguments (C11): what a copy-up may create
CAPS = r'''
// a directory made while copying up: named after an overlay node, with that node's mode (as the overlay reports it) and no umask -
// or, for the node a mkdir was asked for, the requested mode and umask
pub open spec fn up_mkdir_ok(h0: Heap, ctx: Context, n: Seq<u8>, m: u32, u: u32) -> bool {
    u == 0 && exists|x: OverlayInode| n == str_bytes(x.name@) && (#[trigger] x.s_stat(ctx, h0)) is Ok && m == x.s_stat(ctx, h0)->Ok_0.st_mode
}
pub open spec fn grant_up_mkdir(h0: Heap, ctx: Context) -> bool {
    forall|l: LayerObj, p: u64, n: Seq<u8>, m: u32, u: u32| up_mkdir_ok(h0, ctx, n, m, u) ==> #[trigger] l.may_mkdir(p, n, m, u)
}
// the first real inode of a node (where a copy-up reads from)
pub open spec fn first_ri(h0: Heap, x: OverlayInode) -> RealInode { h0.ris(x.nid())[0] }
// copy-up of a symbolic link: the new link is named after the node and carries the target the lower link has
pub open spec fn grant_up_symlink(h0: Heap, ctx: Context, x: OverlayInode) -> bool {
    forall|l: LayerObj, t: Seq<u8>, p: u64, n: Seq<u8>| (n == str_bytes(x.name@) && (*first_ri(h0, x).layer).s_readlink(ctx, first_ri(h0, x).inode) is Ok
        && t == (*first_ri(h0, x).layer).s_readlink(ctx, first_ri(h0, x).inode)->Ok_0@) ==> #[trigger] l.may_symlink(t, p, n)
}
// copy-up of a regular file: created under the node's name with the mode the overlay reports for it (no umask), opened for writing;
// every write carries, at its offset, exactly the bytes the lower file has from that offset on
pub open spec fn grant_up_create(h0: Heap, ctx: Context, x: OverlayInode) -> bool {
    forall|l: LayerObj, p: u64, n: Seq<u8>, a: CreateIn| (n == str_bytes(x.name@) && x.s_stat(ctx, h0) is Ok
        && a == (CreateIn { flags: 1u32, mode: x.s_stat(ctx, h0)->Ok_0.st_mode, umask: 0u32, fuse_flags: 0u32 })) ==> #[trigger] l.may_create(p, n, a)
}
pub open spec fn grant_up_write(h0: Heap, x: OverlayInode) -> bool {
    forall|l: LayerObj, i: u64, hd: u64, sz: u32, o: u64, lo: Option<u64>, dw: bool, fl: u32, ff: u32, d: Seq<u8>|
        d == (*first_ri(h0, x).layer).s_content(first_ri(h0, x).inode).skip(o as int) ==> #[trigger] l.may_write(i, hd, sz, o, lo, dw, fl, ff, d)
}
// C10: without an upper layer
pub open spec fn no_upper() -> bool { forall|l: LayerObj| !#[trigger] l.is_upper() }
// everything else an operation (not a copy-up) may ask of the upper layer: any arguments (C10 at this level is about WHICH layer)
pub open spec fn grant_all_args() -> bool {
    &&& forall|l: LayerObj, p: u64, n: Seq<u8>, m: u32, u: u32| #[trigger] l.may_mkdir(p, n, m, u)
    &&& forall|l: LayerObj, p: u64, n: Seq<u8>, a: CreateIn| #[trigger] l.may_create(p, n, a)
    &&& forall|l: LayerObj, p: u64, n: Seq<u8>, m: u32, d: u32, u: u32| #[trigger] l.may_mknod(p, n, m, d, u)
    &&& forall|l: LayerObj, t: Seq<u8>, p: u64, n: Seq<u8>| #[trigger] l.may_symlink(t, p, n)
    &&& forall|l: LayerObj, i: u64, p: u64, n: Seq<u8>| #[trigger] l.may_link(i, p, n)
    &&& forall|l: LayerObj, p: u64, n: Seq<u8>| #[trigger] l.may_unlink(p, n)
    &&& forall|l: LayerObj, p: u64, n: Seq<u8>| #[trigger] l.may_rmdir(p, n)
    &&& forall|l: LayerObj, i: u64, hd: u64, sz: u32, o: u64, lo: Option<u64>, dw: bool, fl: u32, ff: u32, d: Seq<u8>| #[trigger] l.may_write(i, hd, sz, o, lo, dw, fl, ff, d)
    &&& forall|l: LayerObj, i: u64, a: stat64, hd: Option<u64>, v: SetattrValid| #[trigger] l.may_setattr(i, a, hd, v)
    &&& forall|l: LayerObj, i: u64, n: Seq<u8>, v: Seq<u8>, f: u32| #[trigger] l.may_setxattr(i, n, v, f)
    &&& forall|l: LayerObj, i: u64, n: Seq<u8>| #[trigger] l.may_removexattr(i, n)
    &&& forall|l: LayerObj, i: u64, hd: u64, m: u32, o: u64, len: u64| #[trigger] l.may_fallocate(i, hd, m, o, len)
}
'''



OTHERSTR = (r'\bError::other\("', 'Error::other_str("', 'every: io::Error::other over a string literal')
PARENT = R.resub_hook(r'\b(\w+)\.parent\.lock\(\)\.unwrap\(\)\.upgrade\(\)', r'\1.parent_node()', 'every: `X.parent.lock().unwrap().upgrade()` -> the node\'s parent as recorded in the heap (model call parent_node)')
NODE_SUBST = [('Mutex<HashMap<String, Arc<OverlayInode>>>', 'KidsCell'), ('Mutex<Weak<OverlayInode>>', 'ParentCell'), ('Mutex<Vec<RealInode>>', 'RisCell'),
              ('AtomicU64', 'CounterCell'), ('AtomicBool', 'FlagCell')]
FS_SUBST = [('RwLock<InodeStore>', 'InodeStoreCell'), ('Mutex<HashMap<u64, Arc<HandleData>>>', 'HandlesCell'), ('AtomicU64', 'CounterCell'), ('AtomicBool', 'FlagCell')]
SELF_ARC = [('self: &Arc<Self>', '&self')]


def _libc_consts():
    import os
    txt = open(os.path.join(os.path.dirname(os.path.dirname(os.path.abspath(__file__))), 'prelude', 'base.rs')).read()
    return {m.group(1): int(m.group(2).replace('_', ''), 0) if not m.group(2).startswith('0o') else int(m.group(2)[2:].replace('_', ''), 8)
            for m in re.finditer(r'pub const (\w+): i32 = (0o[0-7_]+|0x[0-9a-fA-F_]+|\d[\d_]*);', txt)}


def const_or_hints(root, file, scope, name):
    """R10-like constant folding, as ghost hints: for every `libc::A | libc::B | ..` in the function (the SMT solver does not evaluate bitwise
    operators on constants) an assertion `(((a | b) | ..) == VALUE` in the same association order, with VALUE computed here from the prelude's
    libc values; and, when such a mask covers every flag through which an open can modify (0o1103), the fact that a word clear of the mask is
    clear of those.  Only arithmetic facts are emitted: a mask that does not cover them gets no such fact and the obligation fails where it should."""
    src = X.Source(root, file)
    body = src.find_fn(scope, name)['body']
    msk = X.mask(body)
    consts = _libc_consts()
    out = []
    for m in re.finditer(r'libc::\w+(?:\s*\|\s*libc::\w+)+', msk):
        names = re.findall(r'libc::(\w+)', m.group(0))
        if any(n not in consts for n in names):
            continue
        val, expr = 0, None
        for n in names:
            val |= consts[n]
            expr = ('%di32' % consts[n]) if expr is None else '(%s | %di32)' % (expr, consts[n])
        out.append('assert(%s == %di32) by (bit_vector); assert(%di32 as u32 == %du32);' % (expr, val, val, val))
        if val & 0o1103 == 0o1103:
            out.append('assert(forall|w: u32| (#[trigger] (w & %du32)) == 0 ==> w & 0o1103u32 == 0) by (bit_vector);' % val)
    return ' '.join(out)


def tok(f, extra_callees=(), path_callees=()):
    f.rules = tuple(getattr(f, 'rules', ())) + ('R23',)
    f.ghost_token = dict(param=TOK['param'], arg=TOK['arg'], callees=NODE_CALLEES + FS_CALLEES + list(extra_callees), path_callees=list(path_callees) or None)
    return f


UP_COMMON_REQ = ['old(vxh).inv()']
REC_CLAUSE = 'final(vxh).rec_pres(*old(vxh)) // [C11.%s.lower_record] every visible node still records whether a lower layer has an entry at its path (a later delete must leave a whiteout there)'
UP_COMMON_ENS = ['final(vxh).inv() // [C10.ops.inv] every real inode on record still names its true layer']

RM_AFTER_COPY = '''let ghost hc = *vxh; let ghost iw = hc.log.len() as int;
        proof {
            assert(hc.nodes.contains_key(nd));
            if nd != pn && hb.rec_id(nd) && lower_has(hb.nodes[nd].path) && !hb.nodes[nd].wh && !hb.nodes[nd].lf {
                let i0 = choose|i: int| 0 <= i < hb.ris(nd).len() && !(#[trigger] hb.ris(nd)[i]).in_upper_layer;
                if hc.nodes[nd] != hb.nodes[nd] { assert(pushed(hc.nodes[nd], hb.nodes[nd])); assert(hc.ris(nd)[i0 + 1] == hb.ris(nd)[i0]); }
                assert(!hc.upper_only(nd));
            }
        }'''
RM_END = '''proof {
            if need_whiteout && iw < vxh.log.len() { assert(vxh.log[iw] == (UpMut::Whiteout { dir: hc.ris(pn)[0].inode, name: name@ })); }
            assert(vxh.nodes[pn] == hc.nodes[pn]); assert(vxh.nodes[nd] == hc.nodes[nd]);
        }'''
CUD_END = '''proof {
            let h0 = *old(vxh); let me = self.nid();
            assert(h1.inv());
            assert(vxh.only_node(h1, me));
            assert(forall|id: int| vxh.nodes.contains_key(id) <==> h1.nodes.contains_key(id));
            assert forall|id: int, i: int| vxh.nodes.contains_key(id) && 0 <= i < vxh.ris(id).len() implies (#[trigger] vxh.ris(id)[i]).wf() by {
                if id == me { if i > 0 && vxh.ris(me).len() == h1.ris(me).len() + 1 { assert(vxh.ris(me)[i] == h1.ris(me)[i - 1]); assert(h1.ris(me)[i - 1].wf()); } else if i == 0 { assert(vxh.ris(me)[0].wf()); } } else { assert(vxh.nodes[id] == h1.nodes[id]); assert(h1.nodes.contains_key(id)); assert(h1.ris(id)[i].wf()); }
            }
            assert forall|id: int| #[trigger] vxh.nodes.contains_key(id) implies vxh.ris(id).len() > 0 by { if id != me { assert(vxh.nodes[id] == h1.nodes[id]); assert(h1.nodes.contains_key(id)); } else { } }
            assert forall|id: int| #[trigger] vxh.nodes.contains_key(id) && vxh.nodes[id].parent is Some implies vxh.nodes.contains_key(vxh.nodes[id].parent->Some_0.nid()) && vxh.nodes[vxh.nodes[id].parent->Some_0.nid()].depth < vxh.nodes[id].depth by {
                let p = vxh.nodes[id].parent->Some_0.nid(); assert(h1.nodes.contains_key(id)); assert(vxh.nodes[p].depth == h1.nodes[p].depth && vxh.nodes[id].depth == h1.nodes[id].depth);
            }
            assert forall|k: int| h0.nodes.contains_key(k) && k != me && h0.nodes[k].depth >= h0.nodes[me].depth implies #[trigger] vxh.nodes[k] == h0.nodes[k] by { assert(h1.nodes[k] == h0.nodes[k]); }
            assert forall|k: int| #[trigger] h0.nodes.contains_key(k) && h0.in_upper(k) implies vxh.nodes[k] == h0.nodes[k] by { assert(h1.nodes[k] == h0.nodes[k]); }
            if vxh.ris(me).len() == h1.ris(me).len() + 1 { assert(vxh.ris(me).skip(1) =~= h0.ris(me)); }
            assert(h1.up_frame(h0, pnode.nid()) || h1 == h0);
            assert(vxh.log == h0.log);
            assert forall|k: int| #[trigger] h0.nodes.contains_key(k) implies vxh.nodes.contains_key(k) && vxh.nodes[k].parent == h0.nodes[k].parent && vxh.nodes[k].depth == h0.nodes[k].depth by { assert(h1.nodes.contains_key(k)); }
            assert forall|k: int| !h0.nodes.contains_key(k) implies !#[trigger] vxh.nodes.contains_key(k) by { assert(!h1.nodes.contains_key(k)); }
        }'''


def unit(root='/repo'):
    notes = []
    items = C.common_items(root, notes)
    items.append(Raw(C.COLL))
    items.append(Copy(OVL, r'pub\(crate\) struct RealInode\b'))
    items.append(Raw(C.REAL_SPEC + RL.REAL_PRE))
    items.append(RL.utils_group(root))
    has_lf = C.has_lower_flag(root)      # the tree has the `lower_exists` record (findings O1-O7 repaired); robust probe, see ovl_common
    fmt = dict(HAS_LF='true' if has_lf else 'false', LF_CELL='&& self.lower_exists.id() == self.nid() && self.lower_exists.kind() == 1' if has_lf else '')
    items.append(Raw(HEAP.replace('%(HAS_LF)s', fmt['HAS_LF'])))
    items.append(Copy(OVL, r'pub\(crate\) struct OverlayInode\b', subst=NODE_SUBST))
    items.append(Raw(LAYER_OPS))
    # RealInode mutators: callee side
    rfns = []
    for name in ('create_whiteout', 'mkdir', 'create', 'mknod', 'link', 'symlink'):
        req, ens = real_callee(name, token=(name == 'create_whiteout'))
        f = Fn(OVL, RL.RI, name, requires=req, ensures=ens, props=['C10'], external_body=True)
        if name == 'create_whiteout':
            f.sig_subst = [('name: &str)', 'name: &str, Tracked(vxh): Tracked<&mut Heap>)')]
        rfns.append(f)
    items.append(Group('impl RealInode {', rfns))
    items.append(Raw(NODE.replace('%(LF_CELL)s', fmt['LF_CELL'])))
    items.append(Copy('src/overlayfs/config.rs', r'pub struct Config\b'))
    items.append(Copy(OVL, r'pub enum CachePolicy\b'))
    items.append(Copy(OVL, r'pub struct OverlayFs\b', subst=FS_SUBST))
    items.append(Copy(OVL, r'struct RealHandle\b', subst=[('AtomicU64', 'CounterCell')]))
    items.append(Copy(OVL, r'struct HandleData\b'))
    items.append(Raw(FSM + CAPS))

    cud = tok(Fn(OVL, OI, 'create_upper_dir', props=['C11'], gtag_props={'cap': ['C11']}, canary=True, sig_subst=SELF_ARC, body_resub=[OTHERSTR],
                 requires=UP_COMMON_REQ + ['old(vxh).nodes.contains_key(self.nid())', '!old(vxh).nodes[self.nid()].wh', 'mode_umask is None', 'grant_up_mkdir(*old(vxh), *ctx) // [C11.create_upper_dir.cap] directories made on the way up: the node\'s own name, its own mode, umask 0'],
                 ensures=UP_COMMON_ENS + [
                     'final(vxh).up_frame(*old(vxh), self.nid()) // [C11.create_upper_dir.frame] only this node and ancestors that were not in the upper layer change',
                     'r is Ok ==> final(vxh).in_upper(self.nid()) && !final(vxh).nodes[self.nid()].wh // [C11.create_upper_dir.in_upper] afterwards the node has an upper directory',
                     'r is Err ==> final(vxh).nodes[self.nid()] == old(vxh).nodes[self.nid()] // [C11.create_upper_dir.err_node] a failed copy-up leaves the node itself as it was',
                     REC_CLAUSE % 'create_upper_dir',
                     'r is Ok && !old(vxh).in_upper(self.nid()) ==> final(vxh).ris(self.nid()).len() == old(vxh).ris(self.nid()).len() + 1 && final(vxh).ris(self.nid()).skip(1) == old(vxh).ris(self.nid()) && !final(vxh).ris(self.nid())[0].whiteout // [C11.create_upper_dir.keeps_lowers] the new upper directory goes in front; the lower directories stay merged',
                 ],
                 decreases='old(vxh).nodes[self.nid()].depth',
                 splices=[('let mut child = None;', 'before', 'let ghost h1 = *vxh; proof { assert(pnode.nid() != self.nid()); assert(h1.nodes[self.nid()] == old(vxh).nodes[self.nid()]); }'),
                          ('Ok(())\n    }', 'before', CUD_END)]))
    cud.body_hooks = [PARENT, R.r29_inline_upper_closure(0)]
    items.append(Group('impl OverlayInode {', [cud]))

    COPY_REQ = UP_COMMON_REQ + ['old(vxh).nodes.contains_key(node.nid())', '!old(vxh).nodes[node.nid()].wh', 'grant_up_mkdir(*old(vxh), *ctx)']
    COPY_ENS = UP_COMMON_ENS + [
        'final(vxh).up_frame(*old(vxh), node.nid()) // [C11.copy_up.frame]',
        'r is Ok ==> r->Ok_0 == node && final(vxh).in_upper(node.nid()) && !final(vxh).nodes[node.nid()].wh // [C11.copy_up.in_upper] after a successful copy-up the node stands on an upper object',
        'no_upper() ==> r is Err // [C10.copy_up.no_upper] without an upper layer a copy-up fails (and no layer was touched: nothing is_upper)']
    NODE_AFTER = 'r is Ok && !old(vxh).in_upper(node.nid()) ==> !final(vxh).ris(node.nid())[0].whiteout && !final(vxh).ris(node.nid())[0].opaque && final(vxh).ris(node.nid())[0].in_upper_layer && !final(vxh).nodes[node.nid()].wh // [C11.%s.node] the node\'s first real inode is the upper copy'
    REC = [REC_CLAUSE % 'copy_up'] if CHECK_LOWER_RECORD else []
    FRAME_END = '''proof {
            let h0 = *old(vxh); let me = node.nid();
            assert(h1.inv()); assert(vxh.only_node(h1, me)); assert(forall|id: int| vxh.nodes.contains_key(id) <==> h1.nodes.contains_key(id));
            assert forall|id: int, i: int| vxh.nodes.contains_key(id) && 0 <= i < vxh.ris(id).len() implies (#[trigger] vxh.ris(id)[i]).wf() by {
                if id != me { assert(vxh.nodes[id] == h1.nodes[id]); assert(h1.nodes.contains_key(id)); assert(h1.ris(id)[i].wf()); }
            }
            assert forall|id: int| #[trigger] vxh.nodes.contains_key(id) implies vxh.ris(id).len() > 0 by { if id != me { assert(vxh.nodes[id] == h1.nodes[id]); assert(h1.nodes.contains_key(id)); } }
            assert forall|id: int| #[trigger] vxh.nodes.contains_key(id) && vxh.nodes[id].parent is Some implies vxh.nodes.contains_key(vxh.nodes[id].parent->Some_0.nid()) && vxh.nodes[vxh.nodes[id].parent->Some_0.nid()].depth < vxh.nodes[id].depth by {
                let p = vxh.nodes[id].parent->Some_0.nid(); assert(h1.nodes.contains_key(id)); assert(vxh.nodes[p].depth == h1.nodes[p].depth && vxh.nodes[id].depth == h1.nodes[id].depth);
            }
            assert forall|k: int| h0.nodes.contains_key(k) && k != me && h0.nodes[k].depth >= h0.nodes[me].depth implies #[trigger] vxh.nodes[k] == h0.nodes[k] by { assert(h1.nodes[k] == h0.nodes[k]); }
            assert forall|k: int| #[trigger] h0.nodes.contains_key(k) && h0.in_upper(k) implies vxh.nodes[k] == h0.nodes[k] by { assert(h1.nodes[k] == h0.nodes[k]); }
            assert(h1.up_frame(h0, parent_node.nid()) || h1 == h0);
            assert forall|k: int| #[trigger] h0.nodes.contains_key(k) implies vxh.nodes.contains_key(k) && vxh.nodes[k].parent == h0.nodes[k].parent && vxh.nodes[k].depth == h0.nodes[k].depth by { assert(h1.nodes.contains_key(k)); }
            assert forall|k: int| !h0.nodes.contains_key(k) implies !#[trigger] vxh.nodes.contains_key(k) by { assert(!h1.nodes.contains_key(k)); }
            // (were the lower real inodes kept behind the upper copy, the record would be kept with them)
            if vxh.ris(me).len() == h1.ris(me).len() + 1 && (forall|j: int| 0 <= j < h1.ris(me).len() ==> vxh.ris(me)[j + 1] == #[trigger] h1.ris(me)[j]) && h1.rec_id(me) && lower_has(h1.nodes[me].path) {
                let i = choose|i: int| 0 <= i < h1.ris(me).len() && !(#[trigger] h1.ris(me)[i]).in_upper_layer;
                assert(vxh.ris(me)[i + 1] == h1.ris(me)[i]);
                assert(vxh.rec_id(me));
            }
            assert(h1.rec_pres(h0));
            if h0.rec_inv() {
                assert(h1.rec_inv());
                assert forall|k: int| #[trigger] vxh.nodes.contains_key(k) && k != me implies vxh.rec_id(k) by {
                    assert(vxh.nodes[k] == h1.nodes[k]); assert(h1.nodes.contains_key(k)); assert(h1.rec_id(k));
                }
            }
        }'''
    SNAP = 'let ghost h1 = *vxh; proof { assert(parent_node.nid() != node.nid()); assert(h1.nodes[node.nid()] == old(vxh).nodes[node.nid()]); assert(h1.up_frame(*old(vxh), parent_node.nid()) || h1 == *old(vxh)); assert(h1.up_frame(*old(vxh), node.nid())); }'
    LOOPH = '*vxh == h1, h1.inv(), h1.up_frame(*old(vxh), node.nid()), h1.nodes[node.nid()] == old(vxh).nodes[node.nid()],'
    csu = tok(Fn(OVL, OF, 'copy_symlink_up', props=['C11'], gtag_props={'cap': ['C11']}, canary=True, body_resub=[OTHERSTR, (r'\bstd::str::from_utf8\(', 'str_from_utf8(', 'every: std::str::from_utf8 -> model (Ok(s): s encodes to exactly the input bytes; Err iff the input is not UTF-8)'),
                             (r'\bString::from_utf8_lossy\(', 'string_from_utf8_lossy(', 'every: String::from_utf8_lossy -> model (same bytes only for valid UTF-8 input; Cow<str> as String)')],
                 requires=COPY_REQ + ['grant_up_symlink(*old(vxh), *ctx, *node) // [C11.copy_symlink_up.cap] the upper link: the node\'s name, the lower link\'s target'],
                 ensures=COPY_ENS + [NODE_AFTER % 'copy_symlink_up'] + REC,
                 splices=[('let mut new_upper_real = None;', 'before', SNAP), ('Ok(Arc::clone(&node))\n    }', 'before', FRAME_END)]))
    csu.body_hooks = [PARENT, R.r29_inline_upper_closure(0)]
    cru = tok(Fn(OVL, OF, 'copy_regfile_up', props=['C11'], gtag_props={'cap': ['C11']}, canary=True, attrs=['#[verifier::exec_allows_no_decreases_clause]'],
                 body_resub=[OTHERSTR, (r'TempFile::new\(\)\.unwrap\(\)\.into_file\(\)', 'vx_tempfile()', 'a fresh empty temporary file (the unwrap\'s panic on failure is dropped)')],
                 requires=COPY_REQ + ['grant_up_create(*old(vxh), *ctx, *node) // [C11.copy_regfile_up.create_cap] the upper file: the node\'s name, the mode the overlay reports for the node, no umask',
                                      'grant_up_write(*old(vxh), *node) // [C11.copy_regfile_up.write_cap] every write carries the lower file\'s bytes from its own offset on'],
                 ensures=COPY_ENS + [NODE_AFTER % 'copy_regfile_up'] + REC,
                 splices=[('let mut upper_handle = 0u64;', 'before', SNAP + ' let ghost content = (*lower_layer).s_content(lower_inode); proof { assert(0u32 & 0o1103u32 == 0) by (bit_vector); axiom_file_size(&*lower_layer, lower_inode); assert(lower_layer == first_ri(*old(vxh), *node).layer && lower_inode == first_ri(*old(vxh), *node).inode); }'),
                          ('loop {', 'replace', '''loop
            invariant ''' + LOOPH + ''' file.data() == content.subrange(0, offset as int), // [read_all] so far the temporary file holds the lower file's first `offset` bytes
                file.pos() == file.data().len(), offset <= content.len(), content.len() <= 0x7fff_ffff_ffff_ffff, size == 4194304u32, content == (*lower_layer).s_content(lower_inode),
            ensures file.data() == content, // [read_all] the temporary file holds the whole lower file
        {'''),
                          ('while let Some(ref ri) = upper_real_inode {', 'replace', '''while let Some(ref ri) = upper_real_inode
            invariant ''' + LOOPH + ''' file.data() == content, file.pos() == offset, // [all_bytes] the next write takes the bytes from `offset` on and puts them at `offset`
                offset <= content.len(), content.len() <= 0x7fff_ffff_ffff_ffff, size == 4194304u32,
                upper_real_inode is Some ==> upper_real_inode->Some_0.wf() && upper_real_inode->Some_0.in_upper_layer,
                content == (*first_ri(*old(vxh), *node).layer).s_content(first_ri(*old(vxh), *node).inode), grant_up_write(*old(vxh), *node),
            ensures upper_real_inode is Some ==> offset == content.len(), // [all_bytes] the loop ends only when every byte of the lower file has been written at its own offset
        {'''),
                          ('offset += ret;\n        }\n        // close handles', 'replace', 'proof { assert(content.subrange(0, offset as int) + content.subrange(offset as int, offset + ret) =~= content.subrange(0, offset + ret)); }\noffset += ret;\n        }\n        proof { assert(content.subrange(0, content.len() as int) =~= content); }'),
                          ('Ok(Arc::clone(&node))\n    }', 'before', FRAME_END)]))
    cru.body_hooks = [PARENT, R.r29_inline_upper_closure(0)]
    cnu = tok(Fn(OVL, OF, 'copy_node_up', props=['C11'], gtag_props={'cap': ['C11']}, canary=True,
                 requires=COPY_REQ + ['grant_up_symlink(*old(vxh), *ctx, *node)', 'grant_up_create(*old(vxh), *ctx, *node)', 'grant_up_write(*old(vxh), *node)'],
                 ensures=COPY_ENS + REC))
    items.append(Group('impl OverlayFs {', [csu, cru, cnu]))

    # ---- operations: C10 (which layer) + the C11 decisions
    OP_REQ = ['self.fs_wf()', 'old(vxh).inv()', 'grant_all_args()']
    NO_UPPER = 'self.upper_layer is None ==> r is Err && err_is(r->Err_0, 30) && *final(vxh) == *old(vxh) // [C10.%s.no_upper] without an upper layer: EROFS, nothing done'
    NEWLOG = 'exists|i: int| old(vxh).log.len() <= i < final(vxh).log.len() && (#[trigger] final(vxh).log[i])'
    mk = tok(Fn(OVL, OF, 'do_mkdir', props=['C10'], canary=True,
                requires=OP_REQ + ['parent_node.node_ok(*old(vxh))', 'self.path_of_ino(parent_node.inode) == parent_node.path@', 'name@.len() > 0'],
                ensures=UP_COMMON_ENS + [NO_UPPER % 'do_mkdir',
                    '({ let n = self.s_node(parent_node.inode, name@); r is Ok && self.has_node(parent_node.inode, name@) && old(vxh).nodes.contains_key(n.nid()) && old(vxh).in_upper(n.nid()) ==> %s == (UpMut::Unwhite { dir: final(vxh).ris(parent_node.nid())[0].inode, name: str_bytes(name@) }) }) // [C11.do_mkdir.unwhite] a whiteout of that name in the upper directory is removed first' % NEWLOG]
                    + ([
                    'r is Ok && old(vxh).rec_inv() && lower_has(path_join_spec(parent_node.path@, name@)) ==> %s is Opaque // [C11.do_mkdir.opaque_when_lower] a directory made where a lower layer still shows an entry is marked opaque: the old contents do not come back' % NEWLOG,
                    REC_CLAUSE % 'do_mkdir'] if CHECK_LOWER_RECORD else []),
                splices=[('let mut new_node = None;', 'before', 'let ghost h2 = *vxh; let ghost mut h3 = *vxh; let ghost iw = h2.log.len() as int; let ghost mut iop: int = -1; proof { assert(pnode == *parent_node); }'),
                         ('let ino = self.alloc_inode(&path, Tracked(vxh))?;', 'before', 'proof { h3 = *vxh; if delete_whiteout && vxh.log.len() == iw + 1 { assert(vxh.log[iw] == (UpMut::Unwhite { dir: h2.ris(pnode.nid())[0].inode, name: str_bytes(name@) })); } }'),
                         ('let ovi = OverlayInode::new_from_real_inode(name, ino, path.clone(), child_dir, Tracked(vxh));', 'before', 'proof { if set_opaque && vxh.log.len() == lb + 1 { iop = lb; assert(vxh.log[iop] is Opaque); } }'),
                         ('let child_dir = parent_real_inode.mkdir(ctx, name, mode, umask)?;', 'after', 'let ghost lb = vxh.log.len() as int;'),
                         ('Ok(())\n    }', 'before', 'proof { if delete_whiteout && iw < vxh.log.len() && h3.log.len() == iw + 1 { assert(vxh.log[iw] == h3.log[iw]); } if 0 <= iop < vxh.log.len() && iop >= iw && set_opaque { assert(vxh.log[iop] is Opaque); } assert(vxh.nodes[pnode.nid()] == h2.nodes[pnode.nid()]); }')],
                ), path_callees=['new_from_real_inode'])
    mk.locate = R.presub_locate(OF, 'do_mkdir', [('format!("{}/{}", pnode.path, name)', 'path_join(pnode.path.as_str(), name)', 'the child path as a model call (R7 would erase it)')])
    mk.body_hooks = [R.r29_inline_upper_closure(0)]
    rm = tok(Fn(OVL, OF, 'do_rm', props=['C10'], canary=True,
                requires=OP_REQ + ['utf8_valid(name@)    // stated assumption of do_rm only: the request name is valid UTF-8 (to_string_lossy then changes nothing); a name that is not gets its whiteout under another name - not decided here'],
                ensures=UP_COMMON_ENS + [NO_UPPER % 'do_rm']
                    + ([
                    '''({ let nd = self.s_node(parent, lossy_str(name@)); let pn = self.s_node(parent, Seq::<char>::empty());
                        r is Ok && nd.nid() != pn.nid() && lower_has(final(vxh).nodes[nd.nid()].path) && !final(vxh).ris(pn.nid())[0].opaque && old(vxh).rec_inv()
                            ==> %s == (UpMut::Whiteout { dir: final(vxh).ris(pn.nid())[0].inode, name: name@ }) }) // [C11.do_rm.whiteout_when_lower] removing a name a lower layer still shows leaves a whiteout in the upper directory (unless that directory is opaque): the deletion survives a restart''' % NEWLOG,
                    REC_CLAUSE % 'do_rm'] if CHECK_LOWER_RECORD else []),
                splices=[('let node = self.lookup_node(ctx, parent, sname.as_str(), Tracked(vxh))?;', 'after', 'let ghost nd = node.nid(); let ghost pn = pnode.nid(); proof { reveal_strlit(""); assert(""@ =~= Seq::<char>::empty()); }'),
                         ('let (count, whiteouts) = node.count_entries_and_whiteout(ctx, Tracked(vxh))?;', 'before', '''proof {
                assert(dir_loaded(*vxh, node.nid())); // [C10.do_rm.counts_loaded_dir]
            }'''),
                         ('let mut need_whiteout = true;', 'before', 'let ghost hb = *vxh;'),
                         ('let pnode = self.copy_node_up(ctx, Arc::clone(&pnode), Tracked(vxh))?;', 'after', RM_AFTER_COPY),
                         ('Ok(())\n    }', 'before', RM_END)],
                ), path_callees=['new_from_real_inode'])
    rm.locate = R.presub_locate(OF, 'do_rm', [('format!("{}/{}", pnode.path, sname)', 'path_join(pnode.path.as_str(), sname.as_str())', 'the child path as a model call (R7 would erase it)'),
                                              ('name.to_string_lossy().to_string()', 'cstr_to_string_lossy(name)', 'CStr::to_string_lossy().to_string() as one model call')])
    rm.body_hooks = [R.r29_inline_upper_closure(0), R.r29_inline_upper_closure(0)]
    items.append(Group('impl OverlayFs {', [mk, rm]))

    def op(name, reqs, extra_ens=(), nclos=2, presub=(), hooks=(), splices=(), resub=(), no_upper=True, canary=True):
        f = tok(Fn(OVL, OF, name, props=['C10'], canary=canary, requires=OP_REQ + reqs, body_resub=[OTHERSTR] + list(resub),
                   ensures=UP_COMMON_ENS + ([NO_UPPER % name] if no_upper else []) + list(extra_ens) + ([REC_CLAUSE % name] if CHECK_LOWER_RECORD else []),
                   splices=list(splices)), path_callees=['new_from_real_inode'])
        if presub:
            f.locate = R.presub_locate(OF, name, list(presub))
        f.body_hooks = list(hooks) + [R.r29_inline_upper_closure(0)] * nclos
        return f
    PJ = ('format!("{}/{}", pnode.path, name)', 'path_join(pnode.path.as_str(), name)', 'the child path as a model call (R7 would erase it)')
    PARENT_REQ = ['parent_node.node_ok(*old(vxh))', 'self.path_of_ino(parent_node.inode) == parent_node.path@', 'name@.len() > 0']
    mknod = op('do_mknod', PARENT_REQ, presub=[PJ])
    symlink = op('do_symlink', PARENT_REQ, presub=[PJ])
    create = op('do_create', PARENT_REQ, presub=[PJ], no_upper=False, resub=[(r'\bAtomicU64::new\(', 'CounterCell::new(', 'every: AtomicU64 -> the counter cell model')],
                extra_ens=['self.upper_layer is None ==> r is Err && *final(vxh) == *old(vxh) // [C10.do_create.no_upper] without an upper layer: fails, nothing done'],
                hooks=[R.resub_hook(r'self\.handles\s*\.lock\(\)\s*\.unwrap\(\)\s*\.insert\(handle, Arc::new\(handle_data\)\)', 'self.handles.insert_handle(handle, Arc::new(handle_data))', 'the handle table (not part of what is decided here): model call')],
                splices=[('^', 'after', 'broadcast use axiom_arc_cloned;')])
    link = op('do_link', ['src_node.node_ok(*old(vxh))', 'new_parent.node_ok(*old(vxh))', 'self.path_of_ino(new_parent.inode) == new_parent.path@', 'name@.len() > 0'],
              presub=[('format!("{}/{}", new_parent.path, name)', 'path_join(new_parent.path.as_str(), name)', 'the child path as a model call (R7 would erase it)')])
    items.append(Group('impl OverlayFs {', [mknod, symlink, create, link]))

    HGET = R.resub_hook(r'self\.handles\.lock\(\)\.unwrap\(\)\.get\(&(\w+)\)', r'self.handles.get_handle(&\1)', 'the handle table: model call (a handle on record is honest about its layer, seam S-HANDLES)')
    A64 = (r'\bAtomicU64::new\(', 'CounterCell::new(', 'every: AtomicU64 -> the counter cell model')
    BCAST = ('^', 'after', 'broadcast use axiom_arc_cloned;')
    gd = tok(Fn(OVL, OF, 'get_data', props=['C10'], canary=True, requires=OP_REQ, body_resub=[A64], splices=[BCAST],
                ensures=UP_COMMON_ENS + ['r is Ok ==> hd_wf(*r->Ok_0) // [C10.get_data.handle] the handle data returned names its true layer',
                                         ]))
    gd.body_hooks = [HGET]
    end = tok(Fn(OVL, OF, 'empty_node_directory', props=['C10'], canary=True, requires=OP_REQ + ['old(vxh).nodes.contains_key(node.nid())', 'node.cells_ok()'],
                 ensures=UP_COMMON_ENS + ['OverlayFs::nodes_frame(*old(vxh), *final(vxh)) // [C11.empty_node_directory.frame] only the upper layer is emptied; no node changes its real inodes'],
                 attrs=['#[verifier::exec_allows_no_decreases_clause]']))
    end.body_hooks = [R.resub_hook(r'node\s*\.childrens\s*\.lock\(\)\s*\.unwrap\(\)\s*\.values\(\)\s*\.cloned\(\)\s*\.collect::<Vec<_>>\(\)', 'node.kids_snapshot()', 'the children as a vector (model call)'),
                      R.r28_for_owned(r'\bfor\s+(child)\s+in\s+(iter)\s*\{', 'vec_into_iter', 'kid_it', header_extra='''
            invariant vxh.inv(), OverlayFs::nodes_frame(*old(vxh), *vxh), self.fs_wf(), grant_all_args(), layer.is_upper(), vxh.nodes.contains_key(node.nid()),
                forall|i: int| 0 <= i < kid_it.rem().len() ==> old(vxh).nodes.contains_key((#[trigger] kid_it.rem()[i]).nid()) && kid_it.rem()[i].cells_ok() && old(vxh).nodes[kid_it.rem()[i].nid()].depth > old(vxh).nodes[node.nid()].depth,
            decreases kid_it.rem().len(),
        ''')]
    items.append(Group('impl OverlayFs {', [gd, end]))
    # src/overlayfs/sync_io.rs: the FileSystem operations that modify without going through a do_* function
    def fsop(name, sig=(), reqs=(), ens=(), hooks=(), resub=(), splices=()):
        f = tok(Fn(OVLS, FSI, name, props=['C10'], canary=True, sig_subst=list(sig), requires=OP_REQ + list(reqs), body_resub=list(resub), splices=list(splices),
                   ensures=UP_COMMON_ENS + list(ens)))
        f.body_hooks = list(hooks)
        return f
    NOWH = 'self.never_wh(inode)   // the number does not resolve to a whiteout node (assumed: whiteout nodes are never handed out; setattr does not check)'
    EMPTY = 'proof { reveal_strlit(""); assert(""@ =~= Seq::<char>::empty()); }'
    setattr = fsop('setattr', reqs=[NOWH], hooks=[HGET], splices=[BCAST, ('let mut node = self.lookup_node(ctx, inode, "", Tracked(vxh))?;', 'before', EMPTY)],
                   ens=['self.upper_layer is None ==> r is Err && *final(vxh) == *old(vxh) // [C10.setattr.no_upper]'])
    setxattr = fsop('setxattr', splices=[('let node = self.lookup_node(ctx, inode, "", Tracked(vxh))?;', 'before', EMPTY)],
                    ens=['no_upper() ==> r is Err // [C10.setxattr.no_upper] without an upper layer the operation fails (nothing is_upper: no layer was changed)'])
    removexattr = fsop('removexattr', splices=[('let node = self.lookup_node(ctx, inode, "", Tracked(vxh))?;', 'before', EMPTY)],
                       ens=['no_upper() ==> r is Err // [C10.removexattr.no_upper]'])
    write = fsop('write', sig=[('r: &mut dyn ZeroCopyReader', 'r: &mut File')])
    write.ret_name = 'res'
    fallocate = fsop('fallocate', ens=['no_upper() ==> r is Err // [C10.fallocate.no_upper]'])
    # RENAME is not implemented by the overlay (EXDEV for every request); what C10 asks of it is the frame every operation has: no lower layer is touched
    # (UP_COMMON_ENS) - a version that starts renaming inside a lower layer fails there; the errno is pinned behaviour, no property names it
    rename = fsop('rename', ens=['r is Err ==> *final(vxh) == *old(vxh) // [pin.C10.rename.refused_untouched]'])
    items.append(Group('impl OverlayFs {', [setattr, setxattr, removexattr, fallocate, rename] + ([write] if CHECK_WRITE_LOWER else [])))

    # ---- OPEN: the one read-path operation that can modify by itself (open(2): O_TRUNC / O_CREAT / a write access mode)
    HARMLESS = 'old(vxh).in_upper(self.nid()) || sp_open_harmless(flags) // [C10.open.lower_flags] a node that stands on a lower layer is only opened with flags that cannot change the file'
    nopen = tok(Fn(OVL, OI, 'open', props=['C10'], canary=True, body_resub=[C.ARC_AS_REF],
                   requires=['old(vxh).inv()', 'old(vxh).nodes.contains_key(self.nid())', HARMLESS],
                   ensures=['*final(vxh) == *old(vxh)', 'r is Ok ==> r->Ok_0.0 == old(vxh).ris(self.nid())[0].layer']))
    items.append(Group('impl OverlayInode {', [nopen]))
    BITS = '''let ghost f0 = flags;
        proof {
            %s
        }''' % const_or_hints(root, OVLS, FSI, 'open')
    # a flag word the handler treats as read-only stays harmless through its own adjustments (O_NOFOLLOW added; in writeback mode O_WRONLY -> O_RDWR
    # cannot apply, O_APPEND is cleared); hints on the concrete values, spliced where they arise
    OPEN_SPLICES = [
        ('let mut flags: i32 = flags as i32;', 'after', 'let ghost g0 = flags; proof { assert(f0 & 0o1103u32 == 0 ==> g0 & 0o1103i32 == 0) by (bit_vector) requires g0 == f0 as i32; }'),
        ('flags |= libc::O_NOFOLLOW;', 'after', 'let ghost g1 = flags; proof { assert(g1 & 0o1103i32 == g0 & 0o1103i32) by (bit_vector) requires g1 == g0 | 0o400000i32; assert(g1 & 0o1103i32 == 0 ==> g1 & 3i32 != 1i32) by (bit_vector); }'),
        ('flags &= !libc::O_APPEND;', 'before', 'let ghost ga = flags;'),
        ('flags &= !libc::O_APPEND;', 'after', 'proof { assert(flags & 0o1103i32 == ga & 0o1103i32) by (bit_vector) requires flags == ga & !0o2000i32; }'),
    ]
    TO_U32 = ' let ghost gz = flags; proof { assert(gz & 0o1103i32 == 0 ==> (gz as u32) & 0o1103u32 == 0) by (bit_vector); }'
    # C12: "the overlay layer switches on writeback behaviour only when that feature was actually negotiated" - the switch OverlayFs::init sets (unit ovlinit)
    # is what counts, not the configuration: without it the layers get the client's flags (plus the overlay's own O_NOFOLLOW)
    WB_NEG = '''
        proof {
            assert(!self.writeback.cfg() ==> flags == (f0 as i32) | 0o400000i32); // [C12.ovl.open.writeback_negotiated]
        }'''
    HINS = R.resub_hook(r'self\s*\.handles\s*\.lock\(\)\s*\.unwrap\(\)\s*\.insert\(hd, Arc::new\(handle_data\)\)', 'self.handles.insert_handle(hd, Arc::new(handle_data))', 'the handle table: model call (a handle put on record must be honest about its layer, seam S-HANDLES)')
    ORASSIGN = (r'\bopts \|= (OpenOptions::\w+)', r'opts = opts | \1', 'every: `x |= F` -> `x = x | F` on a bitflags value')
    fopen = fsop('open', reqs=['self.never_wh(inode) || true'], hooks=[HINS], resub=[A64, ORASSIGN],
                 splices=[('^', 'after', BITS)] + OPEN_SPLICES + [('let node = self.lookup_node(ctx, inode, "", Tracked(vxh))?;', 'before', EMPTY + TO_U32 + WB_NEG)],
                 ens=['no_upper() && !sp_open_harmless(flags) ==> r is Err // [C10.open.no_upper] without an upper layer an open that could modify fails'])
    fopen.ghost_token = dict(fopen.ghost_token, callees=fopen.ghost_token['callees'] + ['open'])
    items.append(Group('impl OverlayFs {', [fopen]))

    # ---- the handle-based operations that reach a layer without modifying it (release, flush, fsync, lseek, ..): under contract they hold no
    # capability for any mutating layer call, whatever layer the handle lives in
    HREM = R.resub_hook(r'self\s*\.handles\s*\.lock\(\)\s*\.unwrap\(\)\s*\.remove\(&handle\)', 'self.handles.remove_handle(&handle)', 'the handle table: model call')
    HINS2 = R.resub_hook(r'self\s*\.handles\s*\.lock\(\)\s*\.unwrap\(\)\s*\.insert\(\s*handle,', 'self.handles.insert_handle(handle,', 'the handle table: model call')
    frih = tok(Fn(OVL, OF, 'find_real_info_from_handle', props=['C10'], requires=['old(vxh).inv()'], ensures=['*final(vxh) == *old(vxh)']))
    frih.body_hooks = [HGET]
    dfs = tok(Fn(OVL, OF, 'do_fsync', props=['C10'], canary=True, requires=OP_REQ, ensures=UP_COMMON_ENS))
    items.append(Group('impl OverlayFs {', [frih, dfs]))
    quiet = []
    for (name, kw) in (('release', dict(hooks=[HGET, HREM], resub=[OTHERSTR])), ('releasedir', dict(hooks=[HREM])), ('flush', dict(splices=[('let node = self.lookup_node(ctx, inode, "", Tracked(vxh))?;', 'before', EMPTY)])),
                       ('fsync', {}), ('fsyncdir', {}), ('lseek', dict(splices=[('let node = self.lookup_node(ctx, inode, "", Tracked(vxh))?;', 'before', EMPTY)])),
                       ('opendir', dict(hooks=[HINS2], resub=[ORASSIGN]))):
        f = fsop(name, **kw)
        f.ghost_token = dict(f.ghost_token, callees=f.ghost_token['callees'] + ['find_real_info_from_handle', 'do_fsync'])
        quiet.append(f)
    items.append(Group('impl OverlayFs {', quiet))
    u = Unit('ovl_ops', items, preludes=['base.rs', 'stdmodel.rs'], generic_tags=dict(C.GENERIC_TAGS, read_all=['C11'], all_bytes=['C11']), notes='; '.join(notes))
    u.prelude_subst = [C.LIBC_EXTRA, C.NO_STD_HASHMAP]
    return u
