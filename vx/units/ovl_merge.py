"""Unit `ovl_merge` (C10, the union rules; the per-node operations C11 builds on): `OverlayInode` (src/overlayfs/mod.rs).

The overlayfs rules are written as specification functions over ONE name's candidates, topmost layer first (`union_len`, `union_more`):
the topmost candidate always is the object; lower candidates join it only while every one so far is a directory that is neither a
whiteout nor opaque; a whiteout or a non-directory below ends the merge (and is not part of it), an opaque directory is the last one.
  * OverlayInode::new_from_real_inodes computes exactly that prefix of its input (real_inodes in layer order; whiteout flag of the top).
  * OverlayInode::scan_childrens: with `m` = the number of this directory's own layers that contribute (same rule, on the directory),
    the children returned are exactly the names that occur in the listing of one of the first `m` layers, once each, and each child is
    the union (previous item) of the entries of that name in those listings, upper first.
  * stat64, in_upper_layer, upper_layer_only, first_layer_inode, add_upper_inode (new upper copy goes to the front; lower real inodes
    are dropped iff asked), handle_upper_inode_locked (dispatch on the first real inode) - against the value held by the Mutex.
State model (as unit handles): Mutex<T> / AtomicBool / AtomicU64 are the value they hold; a function that mutates through them takes
`&mut self` (R25, logged); a lock taken only for reading is `lock_ro` (logged).  Interleavings are not covered."""
from vx.api import Unit, Fn, Copy, Raw, Group
from vx import ovlrules as R
from vx.units import ovl_common as C
from vx.units import ovl_real as RL
import os

# REC at scan time (findings O6 / O7, reproduced): see unit ovl_ops.  False (env VX_OVL_REC=0) = leave the obligation out.
CHECK_LOWER_RECORD = os.environ.get('VX_OVL_REC', '1') != '0'

OVL = C.OVL
OI = 'impl OverlayInode'
LOCK_RO = (r'\.lock\(\)', '.lock_ro()', 'every: a lock taken only for reading (the guard is used as &T)')
R25 = [('self: &Arc<Self>', '&mut self')]

CELLS = r'''
// ---- cells WITH state (sequential model): a Mutex / atomic is the value it holds
pub struct Mutex<T> { pub v: T }
impl<T> Mutex<T> {
    pub fn new(v: T) -> (r: Self) ensures r.v == v { Mutex { v } }
    // "Do not expect poisoned lock here": assumed
    #[verifier::external_body] pub fn lock(&mut self) -> (r: core::result::Result<&mut T, PoisonError>)
        ensures r is Ok, *(r->Ok_0) == old(self).v, *final(r->Ok_0) == final(self).v { unimplemented!() }
    #[verifier::external_body] pub fn lock_ro(&self) -> (r: core::result::Result<&T, PoisonError>) ensures r is Ok, *(r->Ok_0) == self.v { unimplemented!() }
}
pub struct AtomicBool { pub v: bool }
impl AtomicBool {
    pub fn load(&self, o: Ordering) -> (r: bool) ensures r == self.v { self.v }
    pub fn store(&mut self, b: bool, o: Ordering) ensures final(self).v == b { self.v = b; }
}
pub struct AtomicU64 { pub v: u64 }
impl AtomicU64 { pub fn new(v: u64) -> (r: Self) ensures r.v == v { AtomicU64 { v } } }
#[verifier::external_body] #[verifier::accept_recursive_types(T)] pub struct Weak<T> { _p: PhantomData<T> }
#[verifier::external_body] pub fn str_to_string(s: &str) -> (r: String) ensures r@ == s@ { unimplemented!() }
pub fn vec_take_all<T>(v: &mut Vec<T>) -> (r: Vec<T>) ensures r@ == old(v)@, final(v)@.len() == 0 { let mut out = Vec::new(); out.append(v); out }
pub fn vec_extend<T>(v: &mut Vec<T>, mut o: Vec<T>) ensures final(v)@ == old(v)@ + o@ { v.append(&mut o); }
'''

OI_SPEC = r'''
impl OverlayInode {
    // #[derive(Default)]: empty tables, no parent, numbers 0, flags false
    #[verifier::external_body] pub fn default() -> (r: Self)
        ensures r.real_inodes.v@.len() == 0, r.childrens.v@ == Map::<Seq<char>, Arc<OverlayInode>>::empty(), r.inode == 0, r.path@.len() == 0, r.name@.len() == 0,
            r.lookups.v == 0, !r.whiteout.v, !r.loaded.v
    { unimplemented!() }
    pub open spec fn ris(&self) -> Seq<RealInode> { self.real_inodes.v@ }
    pub open spec fn wf(&self) -> bool { forall|i: int| 0 <= i < self.ris().len() ==> (#[trigger] self.ris()[i]).wf() }
}
// ---- the overlayfs union rules for ONE name: `c` = the objects of that name in the layers that have one, topmost layer first
pub open spec fn ri_is_dir(ri: RealInode, ctx: Context) -> bool { ri.sp_stat(ctx) is Ok && sp_is_dir(ri.sp_stat(ctx)->Ok_0) }
// how many objects BELOW an (unhidden, non-opaque) directory merge with it: directories only; a whiteout or a non-directory ends the merge
// and is not part of it ("whiteouts hide", "a file below a directory is not seen"); an opaque directory is the last one merged
pub open spec fn union_more(c: Seq<RealInode>, ctx: Context) -> nat decreases c.len() {
    if c.len() == 0 { 0 } else if c[0].whiteout || !ri_is_dir(c[0], ctx) { 0 } else if c[0].opaque { 1 } else { 1 + union_more(c.skip(1), ctx) }
}
// how many objects make up the visible one: the topmost always ("topmost entry wins"; a whiteout on top hides the name, a non-directory
// on top shadows everything below, an opaque directory cuts off the lower contents); below a plain directory, union_more
pub open spec fn union_len(c: Seq<RealInode>, ctx: Context) -> nat {
    if c.len() == 0 { 0 } else if c[0].whiteout || !ri_is_dir(c[0], ctx) || c[0].opaque { 1 } else { 1 + union_more(c.skip(1), ctx) }
}
pub proof fn lemma_union_more_bound(c: Seq<RealInode>, ctx: Context) ensures union_more(c, ctx) <= c.len() decreases c.len() {
    if c.len() > 0 && !(c[0].whiteout || !ri_is_dir(c[0], ctx)) && !c[0].opaque { lemma_union_more_bound(c.skip(1), ctx); }
}
pub proof fn lemma_union_more_step(c: Seq<RealInode>, k: int, ctx: Context)
    requires 0 <= k < c.len()
    ensures union_more(c.skip(k), ctx) == (if c[k].whiteout || !ri_is_dir(c[k], ctx) { 0 } else if c[k].opaque { 1 } else { 1 + union_more(c.skip(k + 1), ctx) })
{
    assert(c.skip(k)[0] == c[k]); assert(c.skip(k).skip(1) =~= c.skip(k + 1));
}
// the objects named `nm` in the listings of the first `m` real inodes (layers) of a directory, topmost first
pub open spec fn cands(r: Seq<RealInode>, ctx: Context, m: nat, nm: Seq<char>) -> Seq<RealInode> decreases m {
    if m == 0 { Seq::<RealInode>::empty() } else {
        let prev = cands(r, ctx, (m - 1) as nat, nm); let d = sp_listing(r[m - 1], ctx);
        if d.contains_key(nm) { prev.push(d[nm]) } else { prev }
    }
}
pub proof fn lemma_cands_wf(r: Seq<RealInode>, ctx: Context, m: nat, nm: Seq<char>)
    requires m <= r.len(), forall|i: int| 0 <= i < r.len() ==> (#[trigger] r[i]).wf()
    ensures forall|i: int| 0 <= i < cands(r, ctx, m, nm).len() ==> (#[trigger] cands(r, ctx, m, nm)[i]).wf()
    decreases m
{
    if m > 0 {
        lemma_cands_wf(r, ctx, (m - 1) as nat, nm); assert(r[m - 1].wf());
        let prev = cands(r, ctx, (m - 1) as nat, nm); let d = sp_listing(r[m - 1], ctx);
        if d.contains_key(nm) { assert(d[nm] == sp_child_val(r[m - 1], ctx, nm)); assert(d[nm].wf()); }
        assert forall|i: int| 0 <= i < cands(r, ctx, m, nm).len() implies (#[trigger] cands(r, ctx, m, nm)[i]).wf() by {
            if i < prev.len() { assert(cands(r, ctx, m, nm)[i] == prev[i]); } else { assert(cands(r, ctx, m, nm)[i] == d[nm]); }
        }
    }
}
// scan_childrens' accumulator after `j` layers: name -> the entries of that name found so far, topmost first
pub open spec fn acc_ok(a: Map<Seq<char>, Vec<RealInode>>, rs: Seq<RealInode>, ctx: Context, j: nat) -> bool {
    forall|nm: Seq<char>| (#[trigger] a.contains_key(nm) <==> cands(rs, ctx, j, nm).len() > 0) && (a.contains_key(nm) ==> a[nm]@ == cands(rs, ctx, j, nm))
}
pub open spec fn consumed<V>(l: Seq<(String, V)>, p: int, nm: Seq<char>) -> bool { exists|q: int| 0 <= q < p && (#[trigger] l[q]).0@ == nm }
// ... while the listing `d` of layer j is being added (p of its entries `l` consumed, in whatever order the HashMap yields them)
pub open spec fn acc_mid(a: Map<Seq<char>, Vec<RealInode>>, rs: Seq<RealInode>, ctx: Context, j: nat, d: Map<Seq<char>, RealInode>, l: Seq<(String, RealInode)>, p: int) -> bool {
    forall|nm: Seq<char>| (#[trigger] a.contains_key(nm) <==> (cands(rs, ctx, j, nm).len() > 0 || consumed(l, p, nm)))
        && (a.contains_key(nm) ==> a[nm]@ == (if consumed(l, p, nm) { cands(rs, ctx, j, nm).push(d[nm]) } else { cands(rs, ctx, j, nm) }))
}
pub proof fn lemma_consumed_all<V>(d: Map<Seq<char>, V>, l: Seq<(String, V)>, nm: Seq<char>)
    requires map_listing(d, l)
    ensures consumed(l, l.len() as int, nm) <==> d.contains_key(nm)
{
    if d.contains_key(nm) { let i = choose|i: int| 0 <= i < l.len() && (#[trigger] l[i]).0@ == nm; assert(consumed(l, l.len() as int, nm)); }
    if consumed(l, l.len() as int, nm) { let q = choose|q: int| 0 <= q < l.len() && (#[trigger] l[q]).0@ == nm; assert(d.contains_key(l[q].0@)); }
}
// the lower layers alone would show the name: the first entry that is not in the upper layer is not a whiteout
pub open spec fn lower_shows(c: Seq<RealInode>) -> bool {
    exists|i: int| 0 <= i < c.len() && !(#[trigger] c[i]).in_upper_layer && !c[i].whiteout && forall|j: int| 0 <= j < i ==> (#[trigger] c[j]).in_upper_layer
}
// dispatch of handle_upper_inode_locked: the first real inode if it lives in the upper layer (rule R29 inlines closures against this)
pub open spec fn sp_upper(v: Seq<RealInode>) -> Option<RealInode> { if v.len() > 0 && v[0].in_upper_layer { Some(v[0]) } else { None } }
'''

NEW1_ENS = ['r.inode == ino && r.path@ == path@ && r.name@ == name@ && r.whiteout.v == real_inode.whiteout && r.ris() == seq![real_inode] && r.lookups.v == 1 && !r.loaded.v && r.childrens.v@ == Map::<Seq<char>, Arc<OverlayInode>>::empty() // [C10.union.single] a node made from one real inode: that inode, hidden iff it is a whiteout']
CTX0 = '(Context { uid: 0, gid: 0, pid: 0 })'
NEWN_ENS = [
    'real_inodes@.len() == 0 ==> r is Err && err_is(r->Err_0, 22)',
    'r is Ok ==> r->Ok_0.ris() == real_inodes@.take(union_len(real_inodes@, %s) as int) // [C10.union.real_inodes] topmost entry wins; directories merge in layer order; a whiteout, a non-directory or (after it) an opaque directory ends the merge' % CTX0,
    'r is Ok ==> r->Ok_0.whiteout.v == real_inodes@[0].whiteout // [C10.union.whiteout] the name is hidden iff its topmost entry is a whiteout',
    'r is Ok ==> r->Ok_0.inode == ino && r->Ok_0.path@ == path@ && r->Ok_0.name@ == name@ && !r->Ok_0.loaded.v && r->Ok_0.childrens.v@ == Map::<Seq<char>, Arc<OverlayInode>>::empty()',
    'real_inodes@.len() > 0 && (forall|i: int| 0 <= i < real_inodes@.len() ==> (#[trigger] real_inodes@[i]).stat is Some) ==> r is Ok // [C10.union.total] entries that carry their attributes (every entry of a listing does) always merge',
]

OI_CONTRACTS = {
    'in_upper_layer': dict(ensures=['r == (self.ris().len() > 0 && self.ris()[0].in_upper_layer) // [C11.node.in_upper_layer]']),
    'upper_layer_only': dict(ensures=['r == (self.ris().len() == 1 && self.ris()[0].in_upper_layer) // [C11.node.upper_layer_only] the upper object is all there is to this node']),
    'first_layer_inode': dict(requires=['self.ris().len() > 0'], ensures=['r.0 == self.ris()[0].layer && r.1 == self.ris()[0].in_upper_layer && r.2 == self.ris()[0].inode // [C11.node.first_layer]']),
    'add_upper_inode': dict(ensures=[
        'final(self).ris() == (if clear_lowers { seq![ri] } else { seq![ri] + old(self).ris() }) // [C11.add_upper_inode.front] the new real inode becomes the first one; the lower ones are dropped iff asked',
        'final(self).whiteout.v == ri.whiteout // [C11.add_upper_inode.whiteout]',
        'final(self).inode == old(self).inode && final(self).name == old(self).name && final(self).path == old(self).path && final(self).childrens == old(self).childrens && final(self).loaded == old(self).loaded']),
    'add_upper_inode_lf': 'final(self).lower_exists == old(self).lower_exists // [C11.add_upper_inode.keeps_record] replacing the real inodes does not forget what the lower layers show',
    'stat64': dict(ensures=[
        'self.ris().len() == 0 ==> r is Err && err_is(r->Err_0, 2)',
        'r is Ok ==> exists|i: int| 0 <= i < self.ris().len() && self.ris()[i].inode != 0 && (*self.ris()[i].layer).s_getattr(*ctx, self.ris()[i].inode, None) is Ok && r->Ok_0 == (*#[trigger] self.ris()[i].layer).s_getattr(*ctx, self.ris()[i].inode, None)->Ok_0.0 // [C10.node.stat64] the attributes come from one of the node\'s own layers']),
}

SCAN_ENS = [
    '''r is Ok ==> ({ let rs = self.ris(); let m = union_more(rs, *ctx);
        &&& forall|k: int| 0 <= k < r->Ok_0@.len() ==> ({ let c = cands(rs, *ctx, m, (#[trigger] r->Ok_0@[k]).name@);
                c.len() > 0 && r->Ok_0@[k].ris() == c.take(union_len(c, %(c0)s) as int) && r->Ok_0@[k].whiteout.v == c[0].whiteout })
        &&& forall|k: int, l: int| 0 <= k < r->Ok_0@.len() && 0 <= l < r->Ok_0@.len() && k != l ==> (#[trigger] r->Ok_0@[k]).name@ != (#[trigger] r->Ok_0@[l]).name@
        &&& forall|nm: Seq<char>| (#[trigger] cands(rs, *ctx, m, nm)).len() > 0 ==> exists|k: int| 0 <= k < r->Ok_0@.len() && (#[trigger] r->Ok_0@[k]).name@ == nm
    }) // [C10.scan.union] the children are exactly the names listed by the contributing layers, each once, each the overlayfs union of its entries (topmost first)''' % dict(c0=CTX0),
    'r is Ok && self.wf() ==> forall|k: int| 0 <= k < r->Ok_0@.len() ==> (#[trigger] r->Ok_0@[k]).wf() // [C10.scan.wf]',
]


SCAN_OUTER_INV = '''
            invariant_except_break
                it.index@ <= rs.len(), union_more(rs, *ctx) == it.index@ + union_more(rs.skip(it.index@), *ctx), // [scan_layers] the layers read so far are the ones the overlayfs rules let contribute
                acc_ok(all_layer_inodes@, rs, *ctx, it.index@ as nat), // [scan_entries] per name: the entries found so far, topmost layer first
            invariant
                rs == self.ris(), it.seq().len() == rs.len(), forall|i: int| 0 <= i < rs.len() ==> *it.seq()[i] == rs[i],
            ensures
                acc_ok(all_layer_inodes@, rs, *ctx, union_more(rs, *ctx)), // [scan_layers]
        '''
SCAN_INNER_INV = '''
            invariant
                0 <= p <= l0.len(), ent_it.rem() == l0.skip(p), map_listing(d, l0), d == sp_listing(rs[j], *ctx), 0 <= j < rs.len(),
                acc_mid(all_layer_inodes@, rs, *ctx, j as nat, d, l0, p), // [scan_entries]
            ensures p == l0.len(),
            decreases ent_it.rem().len(),
        '''
SCAN_INNER_MID = ''' let ghost l0 = ent_it.rem(); let ghost mut p: int = 0; proof { assert(forall|nm: Seq<char>| !consumed(l0, 0, nm)); assert(acc_mid(all_layer_inodes@, rs, *ctx, j as nat, d, l0, 0)); assert(l0.skip(0) =~= l0); }'''
SCAN_INNER_PRE = ''' let ghost nm0 = name@; let ghost p0 = p; let ghost a0 = all_layer_inodes@;
            proof { p = p + 1; assert(l0.skip(p0)[0] == l0[p0]); assert(l0.skip(p0).skip(1) =~= l0.skip(p0 + 1)); assert(name@ == l0[p0].0@ && inode == l0[p0].1 && inode == d[nm0]);
                assert(!consumed(l0, p0, nm0)); }'''
SCAN_AFTER_ENTRY = '''
                proof {
                    let a1 = all_layer_inodes@; let jj = j as nat;
                    assert(l0[p0].0@ == nm0);
                    assert forall|nm: Seq<char>| (#[trigger] a1.contains_key(nm) <==> (cands(rs, *ctx, jj, nm).len() > 0 || consumed(l0, p, nm)))
                            && (a1.contains_key(nm) ==> a1[nm]@ == (if consumed(l0, p, nm) { cands(rs, *ctx, jj, nm).push(d[nm]) } else { cands(rs, *ctx, jj, nm) })) by { // [scan_entries] the entry of this layer goes BEHIND the entries of the layers above
                        if nm == nm0 {
                            assert(consumed(l0, p, nm));
                            assert(a0.contains_key(nm0) <==> cands(rs, *ctx, jj, nm0).len() > 0);
                            if !a0.contains_key(nm0) { assert(cands(rs, *ctx, jj, nm0) =~= Seq::<RealInode>::empty()); assert(Seq::<RealInode>::empty().push(d[nm0]) =~= seq![d[nm0]]); }
                        } else {
                            assert(consumed(l0, p, nm) <==> consumed(l0, p0, nm));
                            assert(a1.contains_key(nm) <==> a0.contains_key(nm));
                        }
                    }
                }'''
SCAN_AFTER_LAYER = '''proof {
                assert(acc_ok(all_layer_inodes@, rs, *ctx, (j + 1) as nat)) by {
                    assert forall|nm: Seq<char>| (#[trigger] all_layer_inodes@.contains_key(nm) <==> cands(rs, *ctx, (j + 1) as nat, nm).len() > 0)
                            && (all_layer_inodes@.contains_key(nm) ==> all_layer_inodes@[nm]@ == cands(rs, *ctx, (j + 1) as nat, nm)) by {
                        lemma_consumed_all(d, l0, nm);
                    }
                }
            }'''
SCAN_CHILD_INV = '''
            invariant
                0 <= p2 <= l2.len(), child_it.rem() == l2.skip(p2), map_listing(a_fin, l2), childrens@.len() == p2, c0 == %s,
                forall|k: int| 0 <= k < p2 ==> (#[trigger] childrens@[k]).name@ == l2[k].0@ && l2[k].1@.len() > 0 && childrens@[k].ris() == l2[k].1@.take(union_len(l2[k].1@, c0) as int)
                    && childrens@[k].whiteout.v == l2[k].1@[0].whiteout,
            ensures p2 == l2.len(),
            decreases child_it.rem().len(),
        ''' % CTX0
SCAN_CHILD_PRE = ''' proof { assert(l2.skip(p2)[0] == l2[p2]); assert(l2.skip(p2).skip(1) =~= l2.skip(p2 + 1)); assert(name@ == l2[p2].0@ && real_inodes == l2[p2].1); }'''
SCAN_FINAL = '''proof {
            assert(acc_ok(a_fin, rs, *ctx, m));
            assert forall|k: int| 0 <= k < childrens@.len() implies ({ let c = cands(rs, *ctx, m, (#[trigger] childrens@[k]).name@);
                    c.len() > 0 && childrens@[k].ris() == c.take(union_len(c, c0) as int) && childrens@[k].whiteout.v == c[0].whiteout }) by {
                assert(a_fin.contains_key(l2[k].0@) && a_fin[l2[k].0@] == l2[k].1);
            }
            assert forall|nm: Seq<char>| (#[trigger] cands(rs, *ctx, m, nm)).len() > 0 implies exists|k: int| 0 <= k < childrens@.len() && (#[trigger] childrens@[k]).name@ == nm by {
                assert(a_fin.contains_key(nm));
                let i = choose|i: int| 0 <= i < l2.len() && (#[trigger] l2[i]).0@ == nm;
                assert(childrens@[i].name@ == nm);
            }
            if self.wf() {
                lemma_union_more_bound(rs, *ctx);
                assert forall|k: int| 0 <= k < childrens@.len() implies (#[trigger] childrens@[k]).wf() by {
                    let c = cands(rs, *ctx, m, childrens@[k].name@);
                    lemma_cands_wf(rs, *ctx, m, childrens@[k].name@);
                    assert(a_fin.contains_key(l2[k].0@) && a_fin[l2[k].0@] == l2[k].1);
                    lemma_union_more_bound(c.skip(1), c0);
                    assert forall|i: int| 0 <= i < childrens@[k].ris().len() implies (#[trigger] childrens@[k].ris()[i]).wf() by { assert(childrens@[k].ris()[i] == c[i]); }
                }
            }
        }'''


def unit(root='/repo'):
    notes = []
    from vx import extract as X
    has_lf = C.has_lower_flag(root)      # the tree has the `lower_exists` record (findings O1-O7 repaired); robust probe, see ovl_common
    items = C.common_items(root, notes)
    items.append(Raw(C.COLL))
    items.append(Group('pub trait Layer: FileSystem {', [Raw('    fn root_inode(&self) -> u64;')] + C.layer_trait(root, external=True)))
    items.append(C.layer_impl())
    items.append(Copy(OVL, r'pub\(crate\) struct RealInode\b'))
    items.append(Raw(C.REAL_SPEC + RL.REAL_PRE))
    items.append(RL.utils_group(root))
    # RealInode: contracts proved in unit ovl_real
    items.append(Group('impl RealInode {', RL.real_fns(root, external=True, only=('stat64', 'stat64_ignore_enoent', 'readdir'))))
    items.append(Raw(CELLS))
    items.append(Copy(OVL, r'pub\(crate\) struct OverlayInode\b'))
    items.append(Raw(OI_SPEC))

    fns = []
    fns.append(Fn(OVL, OI, 'new', props=['C10'], ensures=['r.ris().len() == 0 && r.inode == 0 && !r.whiteout.v && !r.loaded.v && r.lookups.v == 0 && r.childrens.v@ == Map::<Seq<char>, Arc<OverlayInode>>::empty()']))
    fns.append(Fn(OVL, OI, 'new_from_real_inode', props=['C10'], ensures=NEW1_ENS,
                  body_resub=[(r'name\.to_string\(\)', 'str_to_string(name)', '<str as ToString>::to_string, same characters')]))
    newn = Fn(OVL, OI, 'new_from_real_inodes', props=['C10'], canary=True, ensures=NEWN_ENS,
              splices=[('let mut first = true;', 'before', 'let ghost all = real_inodes@; let ghost mut k: int = 0; let ghost c0 = %s;' % CTX0),
                       ('let whiteout = ri.whiteout;', 'before', 'let ghost k0 = k; proof { k = k + 1; assert(all.skip(k0)[0] == all[k0]); assert(all.skip(k0).skip(1) =~= all.skip(k0 + 1)); assert(ri == all[k0]); if k0 > 0 { lemma_union_more_step(all, k0, c0); } }'),
                       ('new.real_inodes.lock().unwrap().push(ri);', 'after', 'proof { assert(all.take(k0).push(all[k0]) =~= all.take(k0 + 1)); }'),
                       ('new = Self::new_from_real_inode(name, ino, path.clone(), ri);', 'after', 'proof { assert(seq![all[0]] =~= all.take(1)); }'),
                       ('Ok(new)', 'before', 'proof { }')])
    NEWN_INV = '''
            invariant_except_break
                0 <= k <= all.len(), ri_it.rem() == all.skip(k), first <==> k == 0,
                k > 0 ==> new.ris() == all.take(k) && union_len(all, c0) == k + union_more(all.skip(k), c0), // [union_rule] so far exactly the entries the overlayfs rules merge
            invariant
                all.len() > 0, all == real_inodes@, c0 == %s, path@ == old_path,
                k > 0 ==> new.whiteout.v == all[0].whiteout && new.inode == ino && new.path@ == path@ && new.name@ == name@ && !new.loaded.v && new.childrens.v@ == Map::<Seq<char>, Arc<OverlayInode>>::empty(),
            ensures
                k > 0 && new.ris() == all.take(union_len(all, c0) as int), // [union_rule]
            decreases ri_it.rem().len(),
        ''' % CTX0
    newn.body_hooks = [R.r28_for_owned(r'\bfor\s+(ri)\s+in\s+(real_inodes)\s*\{', 'vec_into_iter', 'ri_it', header_extra=NEWN_INV)]
    newn.splices.append(('let mut new = Self::new();', 'after', 'let ghost old_path = path@;'))
    if CHECK_LOWER_RECORD:
        rec = 'r->Ok_0.lower_exists.v' if has_lf else 'exists|i: int| 0 <= i < r->Ok_0.ris().len() && !(#[trigger] r->Ok_0.ris()[i]).in_upper_layer'
        newn.ensures.append('r is Ok && lower_shows(real_inodes@) ==> %s // [C11.union.lower_record] a node (visible or a whiteout) whose name the lower layers alone show has that on record: do_rm needs it to leave a whiteout, do_mkdir to make the new directory opaque' % rec)
    if has_lf:
        # `lower_exists` is an immutable local computed before the loop: with loop isolation off its defining fact survives the loop, so neither a ghost copy nor
        # an invariant has to NAME the local (a version that computes the record elsewhere - seed C11-f: after the loop, from what the node KEPT - is then
        # still extracted and fails [C11.union.lower_record] instead of losing an anchor)
        newn.attrs = list(getattr(newn, 'attrs', None) or []) + ['#[verifier::loop_isolation(false)]', '#[verifier::allow_complex_invariants]']
        fns.insert(0, Fn(OVL, OI, 'lower_shows', props=['C11'], ensures=['r == lower_shows(real_inodes@) // [C11.lower_shows] the lower layers alone show the name iff the first entry outside the upper layer is not a whiteout'],
                         splices=[('for ri in real_inodes.iter() {', 'replace', 'for ri in it: real_inodes.iter()\n            invariant forall|j: int| 0 <= j < it.index@ ==> (#[trigger] real_inodes@[j]).in_upper_layer, it.seq().len() == real_inodes@.len(), forall|j: int| 0 <= j < real_inodes@.len() ==> *it.seq()[j] == real_inodes@[j],\n        {')]))
        fns[2].ensures = fns[2].ensures + ['r.lower_exists.v == (!real_inode.in_upper_layer && !real_inode.whiteout) // [C11.new_from_real_inode.lower_record]']
    fns.append(newn)
    fns.append(Fn(OVL, OI, 'stat64', props=['C10'], body_resub=[LOCK_RO], ensures=OI_CONTRACTS['stat64']['ensures'],
                  splices=[('for l in self.real_inodes.lock_ro().unwrap().iter() {', 'replace', 'for l in it: self.real_inodes.lock_ro().unwrap().iter()\n            invariant it.seq().len() == self.ris().len(), forall|i: int| 0 <= i < self.ris().len() ==> *it.seq()[i] == self.ris()[i],\n        {')]))
    for n in ('in_upper_layer', 'upper_layer_only', 'first_layer_inode'):
        fns.append(Fn(OVL, OI, n, props=['C11'], body_resub=[LOCK_RO], requires=OI_CONTRACTS[n].get('requires', ()), ensures=OI_CONTRACTS[n]['ensures']))
    fns.append(Fn(OVL, OI, 'add_upper_inode', props=['C11'], canary=True, sig_subst=R25, ensures=OI_CONTRACTS['add_upper_inode']['ensures'] + ([OI_CONTRACTS['add_upper_inode_lf']] if has_lf else []),
                  body_resub=[(r'inodes\.drain\(\.\.\)\.collect::<Vec<RealInode>>\(\)', 'vec_take_all(inodes)', 'Vec::drain(..).collect(): all elements, in order, leaving the vector empty'),
                              (r'new\.extend\(lowers\)', 'vec_extend(&mut new, lowers)', 'Vec::extend(Vec): appends the elements in order'),
                              (r'inodes\.extend\(new\)', 'vec_extend(inodes, new)', 'Vec::extend(Vec): appends the elements in order')]))
    fns.append(Fn(OVL, OI, 'handle_upper_inode_locked', props=['C11'], canary=True, body_resub=[LOCK_RO],
                  sig_subst=[('fn handle_upper_inode_locked(', 'fn handle_upper_inode_locked<F: FnMut(Option<&RealInode>) -> Result<bool>>('),
                             ('f: &mut dyn FnMut(Option<&RealInode>) -> Result<bool>', 'mut f: F')],
                  requires=['self.ris().len() > 0 ==> f.requires((if self.ris()[0].in_upper_layer { Some(&self.ris()[0]) } else { None },))'],
                  ensures=['self.ris().len() == 0 ==> r is Err // [C11.handle_upper.dangling]',
                           'self.ris().len() > 0 ==> f.ensures((if self.ris()[0].in_upper_layer { Some(&self.ris()[0]) } else { None },), r) // [C11.handle_upper.dispatch] the callback gets the first real inode iff it lives in the upper layer (sp_upper)']))

    scan = Fn(OVL, OI, 'scan_childrens', props=['C10'], canary=True, body_resub=[LOCK_RO, C.ARC_AS_REF], ensures=SCAN_ENS,
              attrs=[],
              splices=[('let mut all_layer_inodes: HashMap<String, Vec<RealInode>> = HashMap::new();', 'before', 'let ghost rs = self.ris(); let ghost c0 = %s; proof { assert(rs.skip(0) =~= rs); }' % CTX0),
                       ('\n                };', 'after', SCAN_AFTER_ENTRY),
                       ('let entries = ri.readdir(ctx)?;', 'after', 'let ghost d = entries@;'),
                       ('let mut childrens = vec![];', 'replace', 'let ghost a_fin = all_layer_inodes@; let ghost m = union_more(rs, *ctx); let ghost mut p2: int = 0; let mut childrens: Vec<OverlayInode> = vec![];'),   # type ascription: inference needs it before the invariant mentions the vector
                       ('childrens.push(new);', 'after', 'proof { p2 = p2 + 1; }'),
                       ('Ok(childrens)', 'before', SCAN_FINAL)])
    scan.body_hooks = [
        R.r27_drop_zip_counter(label='it: ', header_extra=SCAN_OUTER_INV, body_prefix=' let ghost j = it.index@; proof { assert(*ri == rs[j]); lemma_union_more_step(rs, j, *ctx); }'),
        R.r28_for_owned(r'\bfor\s+(\(name, inode\))\s+in\s+(entries)\s*\{', 'map_into_iter', 'ent_it', header_extra=SCAN_INNER_INV, body_prefix=SCAN_INNER_PRE, mid=SCAN_INNER_MID, after=SCAN_AFTER_LAYER),
        R.r28_for_owned(r'\bfor\s+(\(name, real_inodes\))\s+in\s+(all_layer_inodes)\s*\{', 'map_into_iter', 'child_it', header_extra=SCAN_CHILD_INV, body_prefix=SCAN_CHILD_PRE, mid=' let ghost l2 = child_it.rem(); proof { assert(l2.skip(0) =~= l2); }'),
    ]
    fns.append(scan)
    items.append(Group('impl OverlayInode {', fns))
    u = Unit('ovl_merge', items, preludes=['base.rs', 'stdmodel.rs'], generic_tags=dict(C.GENERIC_TAGS, union_rule=['C10'], scan_layers=['C10'], scan_entries=['C10']), notes='; '.join(notes))
    u.prelude_subst = [C.LIBC_EXTRA, C.NO_STD_HASHMAP, ('Mutex', 'MutexRo'), ('AtomicBool', 'AtomicBoolRo')]
    return u
