"""Unit `ptinit` (C12, passthrough side): PassthroughFs::init - "the passthrough layer switches on no-open, no-opendir, writeback,
kill-priv and per-file DAX behaviour only when that feature was actually negotiated".

The behaviour switches are AtomicBools written through `&self`; the store is a capability-guarded external (prelude/stdmodel.rs):
`init` is given the capability to store `true` into switch F exactly when F was offered by the client (`capable`) and is wanted by the
configuration, and must return an option word that contains F under exactly that condition - so a switch that is on implies that F is in
`capable` AND in the returned `want`, i.e. in the intersection the server replies with (Server::init, unit `server`)."""
from vx.api import Unit, Fn, Copy, Raw, Group
from vx import flagsmodel

PTS = 'src/passthrough/sync_io.rs'
CFG = 'src/passthrough/config.rs'
ABI = 'src/abi/fuse_abi_linux.rs'
SCOPE = 'impl<S: BitmapSlice + Send + Sync> FileSystem for PassthroughFs<S>'

# (switch field, FsOptions flag, configuration term)
FEATURES = [
    ('writeback', 'WRITEBACK_CACHE', '(!self.cfg.do_import || self.cfg.writeback)'),
    ('no_open', 'ZERO_MESSAGE_OPEN', '(!self.cfg.do_import || self.cfg.no_open)'),
    ('no_opendir', 'ZERO_MESSAGE_OPENDIR', '(!self.cfg.do_import || self.cfg.no_opendir)'),
    ('killpriv_v2', 'HANDLE_KILLPRIV_V2', '(!self.cfg.do_import || self.cfg.killpriv_v2)'),
    ('perfile_dax', 'PERFILE_DAX', 'true'),
]


# the kernel's values of the five feature bits (linux/fuse.h: FUSE_WRITEBACK_CACHE 1<<16, FUSE_NO_OPEN_SUPPORT 1<<17, FUSE_NO_OPENDIR_SUPPORT 1<<24,
# FUSE_HANDLE_KILLPRIV_V2 1<<28, FUSE_HAS_INODE_DAX 1<<33); FUSE_ATOMIC_O_TRUNC 1<<3 is removed together with no-open
FB = ['0x1_0000u64', '0x2_0000u64', '0x100_0000u64', '0x1000_0000u64', '0x2_0000_0000u64']
ISF = lambda v: '(' + ' || '.join('%s == %s' % (v, b) for b in FB) + ')'
# facts about | and & !ATOMIC_O_TRUNC on ANY word (independent of the order of the blocks and of other flags the function may request)
BITFACTS = '''proof {
            assert(forall|x: u64, f: u64| %s ==> (#[trigger] ((x | f) & f)) == f) by (bit_vector);
            assert(forall|x: u64, f: u64, g: u64| %s && f != g && g & f == 0 ==> ((#[trigger] ((x | g) & f)) == f) == (x & f == f)) by (bit_vector);
            assert(forall|x: u64, f: u64| %s ==> ((#[trigger] ((x & !0x8u64) & f)) == f) == (x & f == f)) by (bit_vector);
            assert(%s) by (bit_vector);
        }''' % (ISF('f'), ISF('f'), ISF('f'), ' && '.join('%s & %s == 0' % (a, b) for a in FB + ['0x8u64'] for b in FB if a != b))


def base_stmt(root, PTS=PTS, SCOPE=SCOPE):
    """the statement that initialises `opts` with the flags requested unconditionally, as it stands in the function (must be `FsOptions::A | FsOptions::B ..`)"""
    import re
    from vx import extract as X
    body = X.Source(root, PTS).find_fn(SCOPE, 'init')['body']
    m = re.findall(r'let mut opts = (?:FsOptions::\w+)(?:\s*\|\s*FsOptions::\w+)*;', body)
    if len(m) != 1:
        raise X.ExtractError('ANCHOR-LOST ptinit: initialiser of `opts` is not a plain union of FsOptions constants')
    return m[0]


def base_hint(root, PTS=PTS, SCOPE=SCOPE):
    """proof hint GENERATED from the flags the function requests unconditionally (the initialiser of `opts`): their values (read from the bitflags block
    and the constants it references) contain none of the five feature bits.  Not a contract: if a feature bit were requested unconditionally
    this fact is false, the hint is rejected and the [C12.pt.init.want.*] postcondition fails."""
    import re
    from vx import extract as X
    ty, consts, _ = flagsmodel.parse_block(root, ABI, 'FsOptions')
    src = X.Source(root, ABI)
    val = {}
    for (name, expr) in consts:
        m = re.search(r'(?m)^(?:pub )?const %s\s*:\s*u64\s*=\s*([^;]+);' % re.escape(expr.strip()), src.src)
        val[name] = (m.group(1).strip() if m else expr.strip())
    names = re.findall(r'FsOptions::(\w+)', base_stmt(root, PTS, SCOPE))
    word = ' | '.join(('%su64' % val[n]) if re.match(r'^0x[0-9a-fA-F_]+$', val[n]) else '(%s)' % val[n] for n in names)
    try:
        base = 0
        for n in names:
            base |= int(val[n].replace('_', ''), 16)
    except ValueError:
        raise X.ExtractError('ptinit: cannot evaluate the unconditional option word %s' % word)
    absent = [b for b in FB if base & int(b[:-3].replace('_', ''), 16) == 0]       # only TRUE facts are emitted as hints
    if not absent:
        return 'proof { }'
    return 'proof { assert(%s) by (bit_vector); }' % ' && '.join('(%s) & %s != %s' % (word, b, b) for b in absent)


def unit(root='/repo'):
    return build(root, 'ptinit', PTS, SCOPE, 'self.cfg', 'pt', [
        Copy(CFG, r'pub enum CachePolicy\b', prefix='#[derive(Clone, Copy, PartialEq, Eq)]'),
        Copy(CFG, r'pub struct Config\b'),
        Raw('''
pub trait BitmapSlice {}
// PassthroughFs: the configuration and the five behaviour switches (the other fields are fd tables and maps)
pub struct PassthroughFs<S> { pub cfg: Config, pub writeback: AtomicBool, pub no_open: AtomicBool, pub no_opendir: AtomicBool,
    pub killpriv_v2: AtomicBool, pub perfile_dax: AtomicBool, pub phantom: PhantomData<S> }
impl<S: BitmapSlice + Send + Sync> PassthroughFs<S> {
    // import(): opens the export root and registers it (syscalls) - not extracted, no contract
    #[verifier::external_body] pub fn import(&self) -> (r: io::Result<()>) { unimplemented!() }
}
''')], 'impl<S: BitmapSlice + Send + Sync> PassthroughFs<S> {')


def build(root, uname, SRC, SCOPE_, cfg, tag, decls, implhdr, dax_want='true', more=()):
    """the same contract for PassthroughFs::init (unit ptinit) and OverlayFs::init (unit ovlinit): `cfg` is the receiver's configuration field"""
    req, ens = [], []
    for (sw, flag, want) in FEATURES:
        want = (dax_want if sw == 'perfile_dax' else want).replace('self.cfg', cfg)
        neg = 'hasf(capable.bits, FsOptions::%s.bits) && %s' % (flag, want)
        req.append('forall|b: bool| #[trigger] self.%s.may_store(b) <==> (b && %s) // [C12.%s.init.switch.%s] the switch may only be turned ON, and only when the feature is offered and wanted'
                   % (sw, neg, tag, sw))
        ens.append('res is Ok ==> (hasf(res->Ok_0.bits, FsOptions::%s.bits) <==> (%s)) // [C12.%s.init.want.%s] the feature is requested from the server exactly when its switch may be on'
                   % (flag, neg, tag, sw))
    items = flagsmodel.items(root, ABI, 'FsOptions') + [Raw('pub open spec fn hasf(w: u64, f: u64) -> bool { w & f == f }')] + list(decls) + [
        Group(implhdr, [
            Fn(SRC, SCOPE_, 'init', ret_name='res', props=['C12'], canary=True,
               body_resub=[(r'\bopts \|= (FsOptions::\w+);', r'opts = opts | \1;', 'every: bitflags a |= b is a = a | b')],
               requires=req, ensures=ens,
               splices=[('^', 'after', BITFACTS), (base_stmt(root, SRC, SCOPE_), 'after', base_hint(root, SRC, SCOPE_))]),
        ] + list(more)),
    ]
    return Unit(uname, items, preludes=['base.rs', 'stdmodel.rs'], generic_tags={'store': ['C12']})
