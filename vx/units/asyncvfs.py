"""Unit `asyncvfs` (C20): `impl AsyncFileSystem for Vfs` (src/api/vfs/async_io.rs) - every async operation must route exactly like its
synchronous twin in src/api/vfs/sync_io.rs: same backend by route(), same backend inode number, the other arguments unchanged, the
same conversions of the result (inode re-encoding, owner-id translation), the same gates (name check, no_open).

Nothing of the specification is written here: the items of unit `vfs` are reused (its functions without body - they are proved there),
and the contract of `async_<op>` is the `requires`/`ensures` of the Fn object of `<op>` in vx/units/vfs.py (ROUTED / routed_fn / lookup),
with the tags rewritten to `[C20.vfs.`.  The backends implement the generated AsyncFileSystem model, whose methods share
allowed_*/res_* with their sync namesakes (fsmodel.gen_async_trait), so "the backend's async_<op> with these arguments" and "the
backend's <op> with these arguments" are the same capability, and what either returns is the same res_*().

Result types: async_open / async_create cannot carry the passthrough backing id.  Their contract is the sync one with the result
function replaced by its projection (`ares_open() = res_open()` without the last component): "what the sync twin returns, minus the
passthrough id".  This is done by literal substitution on the imported clause text (logged; a clause that does not contain the expected
text is ANCHOR-LOST, exit 2).

Pseudo arm of async_read / async_write: the code answers ENOSYS itself where the sync twin asks the pseudo filesystem; equal exactly because
PseudoFs implements neither - a FACT re-read from the text on every run (pseudo_count_fact), emitted as an axiom only when it holds.

On a2a13e4 the unit reports one genuine deviation: async_getattr does not translate the owner ids of a pseudo-fs inode as the sync getattr
does since d7a7ab7 ([C20.vfs.getattr.result][C20.vfs.getattr.ids]; findings/repro_async.rs::a6, findings/c20_vfs_async_getattr.patch)."""
import copy
import re

from vx.api import Unit, Fn, Raw, Group, Lifted
from vx import fsmodel
from vx import extract as X
from vx.units import vfs as VF

AV = 'src/api/vfs/async_io.rs'
ASC = 'impl AsyncFileSystem for Vfs'
OPS = ['lookup', 'getattr', 'setattr', 'open', 'create', 'read', 'write', 'fsync', 'fallocate', 'fsyncdir']

NARROW = r'''
// ---- async results without the passthrough backing id: the projection of the sync result (see the unit's docstring)
pub open spec fn narrow_open(r: Result<(Option<u64>, OpenOptions, Option<u32>)>) -> Result<(Option<u64>, OpenOptions)> {
    match r { Ok(t) => Ok((t.0, t.1)), Err(e) => Err(e) }
}
pub open spec fn narrow_create(r: Result<(Entry, Option<u64>, OpenOptions, Option<u32>)>) -> Result<(Entry, Option<u64>, OpenOptions)> {
    match r { Ok(t) => Ok((t.0, t.1, t.2)), Err(e) => Err(e) }
}
impl BackFileSystem {
    pub open spec fn ares_open(&self) -> Result<(Option<u64>, OpenOptions)> { narrow_open(self.res_open()) }
    pub open spec fn ares_create(&self) -> Result<(Entry, Option<u64>, OpenOptions)> { narrow_create(self.res_create()) }
}
impl PseudoFs {
    pub open spec fn ares_open(&self) -> Result<(Option<u64>, OpenOptions)> { narrow_open(self.res_open()) }
    pub open spec fn ares_create(&self) -> Result<(Entry, Option<u64>, OpenOptions)> { narrow_create(self.res_create()) }
}
'''
# literal substitutions on the imported sync clauses (each `old` must occur in at least one clause of that op)
RESULT_SUBST = {
    'open': [('.res_open()', '.ares_open()')],
    'create': [('.res_create()', '.ares_create()'), ('(Entry, Option<u64>, OpenOptions, Option<u32>)', '(Entry, Option<u64>, OpenOptions)'), (', t.3))', '))')],
}


STD = r'''
// std: `impl<T> From<T> for T { fn from(t: T) -> T { t } }` (assumed; `h.map(Into::into)` on an Option<u64> in async_open)
pub assume_specification<T> [<T as core::convert::From<T>>::from] (t: T) -> (r: T) ensures r == t;
'''


def pseudo_count_fact(root, info):
    """FACT read from the text on every run: PseudoFs (src/api/pseudo_fs.rs) defines none of the FileSystem operations that return
    io::Result<usize> (read, write, ...), and the default body of each of them in trait FileSystem is exactly
    `Err(io::Error::from_raw_os_error(libc::ENOSYS))`.  Then what the pseudo filesystem returns for such a call is THE error with OS code
    ENOSYS (an io::Error that reports a raw OS code is std's Repr::Os(code): it is determined by the code).  The async read / write of the
    Vfs answer ENOSYS for a pseudo inode without asking the pseudo filesystem; the sync ones ask it - the same result exactly under this
    fact.  If the fact does not hold, no axiom is emitted and [C20.vfs.read.result] / [C20.vfs.write.result] fail."""
    ops = [n for n, d in info.items() if d['resfn'] == 'res_count']
    ps = X.Source(root, 'src/api/pseudo_fs.rs')
    ts = X.Source(root, fsmodel.FILE)
    for op in ops:
        try:
            ps.find_fn('impl FileSystem for PseudoFs', op)
            return None, '%s is implemented by PseudoFs' % op
        except X.ExtractError:
            pass
        d = ts.find_fn('pub trait FileSystem', op)
        # compared after the extractor's own rewrites (logging statements dropped, R2) so that a harmless statement does not change the verdict
        body_ = re.sub(r'//[^\n]*|/\*.*?\*/', '', X.rewrite_body(d['body'], []), flags=re.S)      # comments do not count either
        if re.sub(r'\s+', '', body_).replace('else{}', '') != '{Err(io::Error::from_raw_os_error(libc::ENOSYS))}':
            return None, 'default body of FileSystem::%s is %r' % (op, X.norm_ws(d['body'])[:80])
    return '''
// FACT (checked against src/api/pseudo_fs.rs and the trait defaults on this run, see asyncvfs.pseudo_count_fact): PseudoFs implements none of
// %s; their default is Err(ENOSYS)
pub axiom fn axiom_pseudo_count_enosys(fs: &PseudoFs)
    ensures forall|e: io::Error| #[trigger] e.os_code() == Some(38i32) ==> fs.res_count() == Err::<usize, io::Error>(e);
''' % ', '.join(ops), 'PseudoFs does not implement %s (defaults = ENOSYS)' % ', '.join(ops)


def retag(c):
    """[C07.getattr.route] -> [C20.vfs.getattr.route], [C12.vfs.open.no_open] -> [C20.vfs.open.no_open]"""
    return re.sub(r'\[C\d\d\.(?:vfs\.)?', '[C20.vfs.', c)


def unit(root='/repo'):
    base = VF.unit(root)
    with X.features({'async-io'}):
        X.Source(root, 'src/api/vfs/mod.rs').find_item(r'(?m)^mod async_io\s*;')
    sync = {}

    def strip(items):
        out = []
        for it in items:
            if isinstance(it, Group):
                out.append(Group(it.header, strip(it.items)))
            elif isinstance(it, Lifted):
                continue                    # readdir closures: not on the async path
            elif isinstance(it, Fn):
                if it.file in (VF.SYNC, VF.MOD) and it.name != 'from':
                    sync[it.name] = it
                f = copy.copy(it)
                f.requires, f.ensures = [retag(c) for c in it.requires], [retag(c) for c in it.ensures]
                f.props, f.extra_props, f.gtag_props = ['C20'], [], {}
                f.external_body, f.canary, f.splices, f.body_subst = True, False, [], []
                out.append(f)
            elif isinstance(it, Raw):
                out.append(Raw(retag(it.text)))
            else:
                out.append(it)
        return out
    items = strip(base.items)
    notes = [base.notes]
    _, info, ms = fsmodel.gen_trait(root, [])
    atrait, ainfo = fsmodel.gen_async_trait(root, notes, info, ms, server=False)
    if sorted(ainfo) != sorted('async_' + o for o in OPS):
        raise X.ExtractError('AsyncFileSystem methods %s do not match the operations under contract %s' % (sorted(ainfo), OPS))
    items += [Raw(atrait), Raw(fsmodel.gen_async_impl(ainfo, 'BackFileSystem', 'u64', 'u64')), Raw(NARROW), Raw(STD)]
    fact, why = pseudo_count_fact(root, info)
    notes.append('asyncvfs: pseudo read/write fact: %s -> %s' % (why, 'axiom emitted' if fact else 'NO axiom'))
    if fact:
        items.append(Raw(fact))
    PF = [('^', 'after', 'proof { axiom_pseudo_count_enosys(&self.root); }')] if fact else []

    SIGSUB = [('<Self as FileSystem>::Inode', 'VfsInode'), ('<Self as FileSystem>::Handle', 'u64'), ('libc::stat64', 'stat64'),
              ('&mut (dyn AsyncZeroCopyWriter + Send)', '&mut ZW'), ('&mut (dyn AsyncZeroCopyReader + Send)', '&mut ZR'),
              ('fn async_read(', 'fn async_read<ZW: AsyncZeroCopyWriter>('), ('fn async_write(', 'fn async_write<ZR: AsyncZeroCopyReader>(')]
    # closure annotations (Verus needs parameter/result types and an `ensures` to see through a closure).  They are keyed by the closure's OWN
    # parameter list as written in the source; R3 renames the k-th tuple-pattern closure of a body to `tp_k`, so the anchor is computed from
    # the order of the tuple closures in the current text.  A closure that is not in the table gets no annotation (Verus then reports it).
    ATTR_T = ('(stat64, Duration)', '(stat64, Duration)', 'q == (self.attr_out(idata, {v}.0), {v}.1)')
    TUPLE_ANN = {
        '(attr, duration)': ATTR_T,
        '(a, b, _)': ('(Option<u64>, OpenOptions, Option<u32>)', '(Option<u64>, OpenOptions)', 'q == ({v}.0, {v}.1)'),
        '(h, opt)': ('(Option<u64>, OpenOptions)', '(Option<u64>, OpenOptions)', 'q == {v}'),
        '(a, b, c, _)': ('(Entry, Option<u64>, OpenOptions, Option<u32>)', '(Entry, Option<u64>, OpenOptions)', 'q == ({v}.0, {v}.1, {v}.2)'),
        '(a, b, c)': ('(Entry, Option<u64>, OpenOptions)', 'Result<(Entry, Option<u64>, OpenOptions)>',
                      'match q { Ok(t) => {v}.0.inode <= 0xff_ffff_ffff_ffffu64 && t == (self.entry_out(idata.sidx(), {v}.0.inode, {v}.0), {v}.1, {v}.2), Err(_) => {v}.0.inode > 0xff_ffff_ffff_ffffu64 }'),
    }
    PLAIN_ANN = [('.map(|a| (a, b, c))', ('|a|', 'closure', '|a: Entry| -> (q: (Entry, Option<u64>, OpenOptions)) ensures q == (a, b, c)')),
                 ('h.map(Into::into)', ('|v|', 'closure', '|v: u64| -> (w: u64) ensures w == v'))]

    def closure_splices(op):
        with X.features({'async-io'}):
            body = X.Source(root, AV).find_fn(ASC, 'async_' + op)['body']
        out, k = [], 0
        for m in re.finditer(r'\|(\(\s*(?:(?:mut\s+)?\w+\s*,\s*)+(?:mut\s+)?\w+\s*,?\s*\))\|', X.mask(body)):
            k += 1
            ann = TUPLE_ANN.get(X.norm_ws(m.group(1)))
            if ann:
                v = 'tp_%d' % k
                out.append(('|%s|' % v, 'closure', '|%s: %s| -> (q: %s) ensures %s' % (v, ann[0], ann[1], ann[2].replace('{v}', v))))
        for needle, sp in PLAIN_ANN:
            if needle in body:
                out.append(sp)
        return out
    SPL = {'read': PF, 'write': PF}
    fns = []
    for op in OPS:
        s = sync[op]
        req, ens = [retag(c) for c in s.requires], [retag(c) for c in s.ensures]
        for (a, b) in RESULT_SUBST.get(op, []):
            if not any(a in c for c in req + ens):
                raise X.ExtractError('ANCHOR-LOST result substitution %r in the contract of vfs::%s' % (a, op))
            req, ens = [c.replace(a, b) for c in req], [c.replace(a, b) for c in ens]
            notes.append('asyncvfs: contract of async_%s = contract of %s with %r -> %r' % (op, op, a, b))
        entry = [sp for sp in s.splices if sp[0] == '^']
        f = Fn(AV, ASC, 'async_' + op, requires=req, ensures=ens, props=['C20'], canary=True, ret_name='res', sig_subst=SIGSUB, lenient_sig=True,
               splices=[(sp[0], sp[1], retag(sp[2])) for sp in entry] + SPL.get(op, []) + closure_splices(op))
        f.rules = ('R18',)
        fns.append(f)
    items.append(Group('impl Vfs {', fns))
    u = Unit('asyncvfs', items, preludes=list(base.preludes), generic_tags={k: ['C20'] for k in ('cap', 'touch', 'ids', 'store')}, notes='\n'.join(notes))
    u.cfg_features = {'async-io'}
    return u
