"""Unit `writerenum` (C04, C17, C01; async twins: C20): the `Writer` enum of src/transport/mod.rs - what the server actually holds - forwards
every operation to THE SAME operation of the transport writer it wraps (FuseDevWriter / VirtioFsWriter, verified in units fusedevw /
virtiofsw) with the same arguments, exactly once, and returns its result unchanged.

The two inner writers are opaque objects here.  Each of their methods needs the capability `allowed(op, args)` in the CURRENT state of the
object and yields `res_*(op)` of that state; a `&mut self` method leaves the object in `after(op)`, a state for which no capability is
known.  The enum method is given the capability for its own operation on the wrapped object only, and must return that operation's result and
leave the wrapped object in that operation's post-state: a second call, a call of another method (available_bytes for bytes_written, write_from
for write_from_at ..) or swapped arguments are missing capabilities, and a made-up result or a skipped call cannot satisfy the postcondition.
The behaviour of the `Noop` variant is not constrained by any property and is left open.

Rules: R18 for the async twins (feature async-io on for this unit); `CALL.map(|w| w.into())` on a Result written as the match it stands for
(R43) with `w.into()` -> `Writer::from(w)` (the `From` impls at the end of the file are extracted and verified too)."""
from vx.api import Unit, Fn, Copy, Raw, Group

T = 'src/transport/mod.rs'
SC = "impl<S: BitmapSlice> Writer<'_, S>"
SCW = "impl<S: BitmapSlice> io::Write for Writer<'_, S>"
SCA = "impl<'a, S: BitmapSlice> Writer<'a, S>"

# op code, name, arguments (name, type, spec encoding into the generic argument tuple), result kind, receiver
#   argument tuple = (b1: Seq<u8>, b2: Seq<u8>, b3: Seq<u8>, n1: int, n2: int, id: int)
OPS = [
    (1, 'write_from_at', 'src: F, count: usize, off: u64', ('E', 'E', 'E', 'count as int', 'off as int', 'obj_id(src)'), 'usize', True, '<F: FileReadWriteVolatile>'),
    (2, 'split_at', 'offset: usize', ('E', 'E', 'E', 'offset as int', '0', '0'), 'split', True, ''),
    (3, 'available_bytes', '', ('E', 'E', 'E', '0', '0', '0'), 'plain', False, ''),
    (4, 'bytes_written', '', ('E', 'E', 'E', '0', '0', '0'), 'plain', False, ''),
    (5, 'commit', "other: Option<&Writer<'a, S>>", ('E', 'E', 'E', '0', '0', 'opt_id(other)'), 'usize', True, ''),
    (6, 'write', 'buf: &[u8]', ('buf@', 'E', 'E', '0', '0', '0'), 'usize', True, ''),
    (7, 'write_vectored', "bufs: &[IoSlice<'_>]", ('E', 'E', 'E', '0', '0', 'iov_id(bufs)'), 'usize', True, ''),
    (8, 'flush', '', ('E', 'E', 'E', '0', '0', '0'), 'unit', True, ''),
    (11, 'async_write', 'data: &[u8]', ('data@', 'E', 'E', '0', '0', '0'), 'usize', True, ''),
    (12, 'async_write2', 'data: &[u8], data2: &[u8]', ('data@', 'data2@', 'E', '0', '0', '0'), 'usize', True, ''),
    (13, 'async_write3', 'data: &[u8], data2: &[u8], data3: &[u8]', ('data@', 'data2@', 'data3@', '0', '0', '0'), 'usize', True, ''),
    (14, 'async_write_all', 'buf: &[u8]', ('buf@', 'E', 'E', '0', '0', '0'), 'unit', True, ''),
    (15, 'async_write_from_at', 'src: &F, count: usize, off: u64', ('E', 'E', 'E', 'count as int', 'off as int', 'obj_id(src)'), 'usize', True, '<F: AsyncFileReadWriteVolatile>'),
    (16, 'async_commit', "other: Option<&Writer<'a, S>>", ('E', 'E', 'E', '0', '0', 'opt_id(other)'), 'usize', True, ''),
]
E = 'Seq::<u8>::empty()'


def args(enc):
    return ', '.join(E if a == 'E' else a for a in enc)


def inner(ty):
    L = ["#[verifier::external_body] #[verifier::reject_recursive_types(S)] pub struct %s<'a, S> { _p: PhantomData<&'a S> }" % ty, "impl<'a, S: BitmapSlice> %s<'a, S> {" % ty,
         '    pub uninterp spec fn allowed(&self, op: int, b1: Seq<u8>, b2: Seq<u8>, b3: Seq<u8>, n1: int, n2: int, id: int) -> bool;   // [cap]',
         '    pub uninterp spec fn res_usize(&self, op: int) -> io::Result<usize>;', '    pub uninterp spec fn res_unit(&self, op: int) -> io::Result<()>;',
         '    pub uninterp spec fn res_plain(&self, op: int) -> usize;', '    pub uninterp spec fn res_split(&self) -> transport::Result<Self>;',
         '    pub uninterp spec fn after(&self, op: int) -> Self;']
    for (op, name, params, enc, kind, mut, gen) in OPS:
        recv = '&mut self' if mut else '&self'
        me = 'old(self)' if mut else 'self'
        ret = {'usize': 'io::Result<usize>', 'unit': 'io::Result<()>', 'plain': 'usize', 'split': 'transport::Result<Self>'}[kind]
        res = {'usize': '%s.res_usize(%d)' % (me, op), 'unit': '%s.res_unit(%d)' % (me, op), 'plain': '%s.res_plain(%d)' % (me, op), 'split': '%s.res_split()' % me}[kind]
        ens = ['r == %s' % res] + (['*final(self) == old(self).after(%d)' % op] if mut else [])
        L.append('    #[verifier::external_body] pub fn %s%s(%s%s) -> (r: %s)' % (name, gen, recv, (', ' + params) if params else '', ret))
        L.append('        requires %s.allowed(%d, %s), // [cap]' % (me, op, args(enc)))
        L.append('        ensures %s,' % ', '.join(ens))
        L.append('    { unimplemented!() }')
    L.append('}')
    return '\n'.join(L)


MODEL = r'''
pub mod transport {
    #[verifier::external_body] pub struct Error { _p: u8 }
    impl Error { pub uninterp spec fn is_invalid_parameter(&self) -> bool; }
    #[verifier::external_body] pub fn invalid_parameter() -> (r: Error) ensures r.is_invalid_parameter() { unimplemented!() }      // Error::InvalidParameter
    pub type Result<T> = core::result::Result<T, Error>;
}
pub use transport::Result;
pub trait BitmapSlice {}
pub trait FileReadWriteVolatile {}
pub trait AsyncFileReadWriteVolatile {}
#[verifier::external_body] pub struct IoSlice<'a> { _p: PhantomData<&'a u8> }
// identities of the objects that are only handed on (a file, an optional other writer, an iovec array)
pub uninterp spec fn obj_id<F>(f: F) -> int;
pub uninterp spec fn opt_id<'a, 'b, S: BitmapSlice>(o: Option<&'b Writer<'a, S>>) -> int;
pub uninterp spec fn iov_id(b: &[IoSlice<'_>]) -> int;
'''

ENUM_SPEC = r'''
// what `Writer::from(w)` / `w.into()` mean (vstd states From::from through this pair; the exec `from` bodies below are checked against it)
impl<'a, S: BitmapSlice> vstd::std_specs::convert::FromSpecImpl<FuseDevWriter<'a, S>> for Writer<'a, S> {
    open spec fn obeys_from_spec() -> bool { true }
    open spec fn from_spec(v: FuseDevWriter<'a, S>) -> Writer<'a, S> { Writer::FuseDev(v) }
}
impl<'a, S: BitmapSlice> vstd::std_specs::convert::FromSpecImpl<VirtioFsWriter<'a, S>> for Writer<'a, S> {
    open spec fn obeys_from_spec() -> bool { true }
    open spec fn from_spec(v: VirtioFsWriter<'a, S>) -> Writer<'a, S> { Writer::VirtioFs(v) }
}
impl<'a, S: BitmapSlice> Writer<'a, S> {
    // the capability / result / post-state of an operation on the enum ARE those of the wrapped writer
    pub open spec fn allowed(&self, op: int, b1: Seq<u8>, b2: Seq<u8>, b3: Seq<u8>, n1: int, n2: int, id: int) -> bool {
        match self { Writer::FuseDev(w) => w.allowed(op, b1, b2, b3, n1, n2, id), Writer::VirtioFs(w) => w.allowed(op, b1, b2, b3, n1, n2, id), Writer::Noop(_) => true }
    }
    pub open spec fn forwards_usize(&self, op: int, r: io::Result<usize>) -> bool {
        match self { Writer::FuseDev(w) => r == w.res_usize(op), Writer::VirtioFs(w) => r == w.res_usize(op), Writer::Noop(_) => true }
    }
    pub open spec fn forwards_unit(&self, op: int, r: io::Result<()>) -> bool {
        match self { Writer::FuseDev(w) => r == w.res_unit(op), Writer::VirtioFs(w) => r == w.res_unit(op), Writer::Noop(_) => true }
    }
    pub open spec fn forwards_plain(&self, op: int, r: usize) -> bool {
        match self { Writer::FuseDev(w) => r == w.res_plain(op), Writer::VirtioFs(w) => r == w.res_plain(op), Writer::Noop(_) => true }
    }
    pub open spec fn forwards_split(&self, r: transport::Result<Writer<'a, S>>) -> bool {
        match self {
            Writer::FuseDev(w) => (match w.res_split() { Ok(x) => r == Ok::<Writer<'a, S>, transport::Error>(Writer::FuseDev(x)), Err(e) => r == Err::<Writer<'a, S>, transport::Error>(e) }),
            Writer::VirtioFs(w) => (match w.res_split() { Ok(x) => r == Ok::<Writer<'a, S>, transport::Error>(Writer::VirtioFs(x)), Err(e) => r == Err::<Writer<'a, S>, transport::Error>(e) }),
            Writer::Noop(_) => true,
        }
    }
    pub open spec fn stepped(&self, op: int, post: Self) -> bool {
        match (*self, post) {
            (Writer::FuseDev(w), Writer::FuseDev(v)) => v == w.after(op), (Writer::VirtioFs(w), Writer::VirtioFs(v)) => v == w.after(op),
            (Writer::Noop(_), Writer::Noop(_)) => true, _ => false,
        }
    }
}
'''


def unit(root='/repo'):
    fns, wfns, afns = [], [], []
    for (op, name, params, enc, kind, mut, gen) in OPS:
        me = 'old(self)' if mut else 'self'
        req = ['%s.allowed(%d, %s) // [C04.writer.%s.forward] the capability for THIS operation with THESE arguments on the wrapped writer' % (me, op, args(enc), name)]
        ens = ['%s.forwards_%s(%sr) // [C04.writer.%s.result] the wrapped writer\'s result, unchanged' % (me, kind, '' if kind == 'split' else '%d, ' % op, name)]
        if mut:
            ens.append('old(self).stepped(%d, *final(self)) // [C04.writer.%s.once] the wrapped writer made exactly this one step' % (op, name))
        f = Fn(T, SCA if name.startswith('async_') else (SCW if name in ('write', 'write_vectored', 'flush') else SC), name, requires=req, ensures=ens,
               props=['C20'] if name.startswith('async_') else ['C04'], canary=(name in ('write_from_at', 'commit', 'write', 'async_write2')),
               sig_subst=[('Option<&Self>', "Option<&Writer<'a, S>>")] if name == 'commit' else [], lenient_sig=True,
               body_resub=[(r'std::io::Error::', 'io::Error::', 'every: the same item through the prelude model of std::io'),
                           (r'Err\(Error::InvalidParameter\)', 'Err(transport::invalid_parameter())', 'every: the unit variant as a constructor of the opaque error model'),
                           (r'\b(\w+)\.split_at\(offset\)\.map\(\|w\| w\.into\(\)\)', r'(match \1.split_at(offset) { Ok(w) => Ok(Writer::from(w)), Err(e) => Err(e) })', 'every: Result::map by its definition (R43); `w.into()` is `Writer::from(w)` (blanket Into)')])
        if name.startswith('async_'):
            f.rules = ('R18',)
            f.gtag_props = {'cap': ['C20']}
            if 'tagged' != '':
                f.requires = [c.replace('[C04.', '[C20.') for c in f.requires]
                f.ensures = [c.replace('[C04.', '[C20.') for c in f.ensures]
            afns.append(f)
        elif name in ('write', 'write_vectored', 'flush'):
            wfns.append(f)
        else:
            fns.append(f)
    froms = [
        Group("impl<'a, S: BitmapSlice> From<FuseDevWriter<'a, S>> for Writer<'a, S> {", [
            Fn(T, "impl<'a, S: BitmapSlice> From<FuseDevWriter<'a, S>> for Writer<'a, S>", 'from', props=['C04'], ensures=['r == Writer::FuseDev(w) // [C04.writer.from.variant]'])]),
        Group("impl<'a, S: BitmapSlice> From<VirtioFsWriter<'a, S>> for Writer<'a, S> {", [
            Fn(T, "impl<'a, S: BitmapSlice> From<VirtioFsWriter<'a, S>> for Writer<'a, S>", 'from', props=['C04'], ensures=['r == Writer::VirtioFs(w) // [C04.writer.from.variant]'])]),
    ]
    items = [Raw(MODEL), Raw(inner('FuseDevWriter')), Raw(inner('VirtioFsWriter')),
             Copy(T, r"pub enum Writer<'a, S: BitmapSlice = \(\)>", subst=[('S: BitmapSlice = ()', 'S: BitmapSlice')], prefix='#[verifier::reject_recursive_types(S)]'),
             Raw(ENUM_SPEC)] + froms + [
        Group("impl<'a, S: BitmapSlice> Writer<'a, S> {", fns + wfns + afns)]
    u = Unit('writerenum', items, preludes=['base.rs', 'stdmodel.rs'], generic_tags={'cap': ['C04']},
             notes='the wrapped writers are opaque (capability / result / post-state per operation); their own behaviour is decided in units fusedevw, asyncdevw, virtiofsw, virtiofsw_async')
    u.cfg_features = {'async-io'}
    return u
