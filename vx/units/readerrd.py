"""Unit `readerrd` (C04, C17): the transport functions that move bytes between the request / reply buffers and ordinary memory -
src/transport/mod.rs `impl io::Read for Reader`::read, Reader::read_obj (over std's default `read_exact`, hand copy), and
src/transport/virtiofs/mod.rs VirtioFsWriter::{write_vectored, write_obj} (over the extracted `write` / std's default `write_all`, hand
copy), Reader::from_descriptor_chain and VirtioFsWriter::new (descriptor chain -> slices).  IoBuffers::{consume, consume_for_read} are
verified once more here, against the contract of unit `iobuffers` PLUS one clause ("a callback that never fails and a chain that fits a
usize => Ok") which `read` needs to be total.

View (as in units iobuffers / virtiofsw): a cursor is `cells(..)`, the sequence of the byte ADDRESSES it still covers, in order.
What a read delivers is stated on the CONTENTS of the destination: `guest_byte(a)` names the byte a raw read of address `a` yields and
`bytes_at(s)` the byte string of an address sequence, so
    [C04.reader.read.delivered_in_order]   Ok(n), n > 0  =>  buf' == bytes_at(first n addresses of the cursor) ++ buf[n..]
says: the NEXT n bytes of the request land at offsets 0..n of `buf`, in order, none skipped or repeated, and nothing else of `buf`
changes.  In addition the closure-local ghost log `GuestReads.read` records every source address handed to the raw copy, in order:
    [C04.reader.read.loop.each_address_once_in_order]   the log is exactly the offered prefix - every address is read ONCE.
The raw copy itself (`copy_nonoverlapping(SRC.as_ptr() as *const u8, DST.as_mut_ptr(), N)`) is abstracted (ABSTRACT, logged) by the
model call `vx_copy_from_guest(SRC, DST, N, ..)` whose preconditions - N bytes on the source side, N bytes on the destination side -
are PROVED at the call; the re-slicing `rem = &mut rem[copy_len..]` is real text (Verus checks the range and tracks the borrow).

Verifier facts used (Verus 0.2026.09.13, new-style `&mut`): a closure may take a `&mut [u8]` by move and its `ensures` may speak of
`final(buf)`; a closure that is DROPPED UNCALLED leaves `final(buf)` unconstrained - hence (a) the contents clauses are stated for
n > 0 only (for n == 0 the callback is not called: trivially nothing is touched, but that is not expressible), and (b) the axiom
`axiom_mut_slice_len` (the slice behind a `&mut [u8]` never changes its length: Rust type system) is ASSUMED.

read_obj: `MaybeUninit::<T>::uninit()` / `assume_init()` resolve to a model type (size_of::<T>() bytes of storage); the window
`unsafe { from_raw_parts_mut(obj.as_mut_ptr() as *mut u8, N) }` is abstracted (ABSTRACT, logged) by `vx_uninit_bytes_mut(&mut obj, N)`
with the PROVED precondition N <= size_of::<T>().  `read_exact` (std default method) is a hand copy of the std text, VERIFIED on top of
the extracted `read` and canaried (opt-in `Raw.canary`, vx/build.py).  Result: Ok iff size_of::<T>() bytes remain, then the cursor
advances by exactly that and the value's image is the next bytes of the request; on Err std's read_exact has consumed ALL remaining
bytes ([pin.reader.read_obj.short_consumes_rest] - what the code does, a pin tag: no property; confirmed on the real crate).

write_vectored / write_obj (C17): rules R40 / R42 (fold, filter in `for`), the contract of `write` as proved in unit virtiofsw, std's
`write_all` as a verified + canaried hand copy.  Whatever happens the dirty log grows by exactly the addresses the cursor moved over;
a request beyond the remaining space fails with nothing moved and nothing marked.

from_descriptor_chain / new: rule R28 (`for d in ITER` -> `while let Some(d) = it.next()`), models of GuestMemory / GuestMemoryRegion /
DescriptorChain written from vm-memory 0.17.1 / virtio-queue 0.17.0 (ASSUMED), one SIG abstraction (`MS<'a, M::Target>` -> `MS<M::Target>`).
Result: exactly the readable (writable) descriptors, one slice each at the host address of its guest address, inside its region, in
chain order, nothing consumed, total length <= usize::MAX - the chain-length invariant the other clauses take as hypothesis."""
from vx.api import Unit, Fn, Copy, Raw, Group
from vx.units import iobuffers as IO
from vx.units import virtiofsw as VW
from vx import ovlrules as R
from vx import extract as X
import re

T = 'src/transport/mod.rs'
V = 'src/transport/virtiofs/mod.rs'

MODEL3 = r'''
// ---- contents of the request buffers.  ASSUMED: `guest_byte(a)` is THE byte a raw read of address `a` yields during one operation
// (a snapshot: modifications of the request buffers by the guest while the server reads them are not modelled)
pub uninterp spec fn guest_byte(a: int) -> u8;
pub open spec fn bytes_at(s: Seq<int>) -> Seq<u8> { Seq::new(s.len(), |i: int| guest_byte(s[i])) }
// ASSUMED (Rust type system; not known to Verus for a reference captured by a closure that is dropped without being called):
// the slice behind a `&mut [u8]` keeps its length for the whole life of the reference
pub broadcast axiom fn axiom_mut_slice_len(s: &mut [u8])
    ensures #[trigger] final(s)@.len() == old(s)@.len();
pub broadcast axiom fn axiom_mut_slice_max(s: &mut [u8])
    ensures #[trigger] old(s)@.len() <= 0x7fff_ffff_ffff_ffff;
// ---- the raw copy out of the request buffers.  `unsafe { copy_nonoverlapping(SRC.as_ptr() as *const u8, DST.as_mut_ptr(), N); }`
// with SRC a FileVolatileSlice and DST a `&mut [u8]` is abstracted (ABSTRACT, logged) by this call: it needs N bytes on BOTH sides
// (memory safety of the raw copy), reads the N addresses starting at SRC's (recorded, in order, in a ghost log local to the calling
// closure) and stores their bytes at offsets 0..N of DST; the rest of DST is untouched.
pub tracked struct GuestReads { pub ghost read: Seq<int> }
#[verifier::external_body]
pub fn vx_copy_from_guest(src: &FileVolatileSlice<'_>, dst: &mut [u8], n: usize, Tracked(gr): Tracked<&mut GuestReads>)
    requires n <= src.slen(), // [C04.reader.read.copy_in_bounds_src]
             n <= old(dst)@.len(), // [C04.reader.read.copy_in_bounds_dst]
    ensures final(gr).read =~= old(gr).read + range(src.addr(), n as nat),
            final(dst)@ =~= bytes_at(range(src.addr(), n as nat)) + old(dst)@.skip(n as int),
{ unimplemented!() }
// ---- vm_memory::ByteValued: plain old data whose memory image is `sbytes` (as in prelude/transport.rs, which unit `server` assumes);
// `size_of::<T>()` is the length of that image (ASSUMED link between the layout and the model)
pub trait ByteValued: Sized + Copy {
    spec fn sbytes(&self) -> Seq<u8>;
    spec fn ssize() -> nat;
    fn as_slice(&self) -> (r: &[u8]) ensures r@ == self.sbytes(), r@.len() == Self::ssize();
}
pub broadcast axiom fn axiom_sbytes_len<T: ByteValued>(x: T)
    ensures #[trigger] x.sbytes().len() == T::ssize();
#[verifier::external_body]
pub fn size_of<T: ByteValued>() -> (r: usize) ensures r == T::ssize() { unimplemented!() }
// ---- std::mem::MaybeUninit<T> for a ByteValued T: size_of::<T>() bytes of storage with arbitrary contents (`bytes`); `assume_init`
// reinterprets them as a T (vm-memory: "any type that implements ByteValued can be considered initialized even if it is filled with
// random data") - the value whose image is exactly these bytes.  Model written from the std documentation (ASSUMED).
#[verifier::external_body] #[verifier::reject_recursive_types(T)] pub struct MaybeUninit<T> { _p: PhantomData<T> }
impl<T: ByteValued> MaybeUninit<T> {
    pub uninterp spec fn bytes(&self) -> Seq<u8>;
    #[verifier::external_body] pub fn uninit() -> (r: Self) ensures r.bytes().len() == T::ssize() { unimplemented!() }
    #[verifier::external_body] pub fn assume_init(self) -> (r: T) ensures r.sbytes() == self.bytes() { unimplemented!() }
}
// `unsafe { ::std::slice::from_raw_parts_mut(OBJ.as_mut_ptr() as *mut u8, N) }` (ABSTRACT, logged): a byte window over the first N
// bytes of OBJ's storage.  In bounds only if N <= size_of::<T>() - PROVED at the call.  What is stored through the window is what
// the storage holds afterwards.
#[verifier::external_body]
pub fn vx_uninit_bytes_mut<T: ByteValued>(m: &mut MaybeUninit<T>, n: usize) -> (r: &mut [u8])
    requires n <= T::ssize(), // [C04.reader.read_obj.window_in_bounds]
    ensures r@.len() == n, final(m).bytes() =~= final(r)@ + old(m).bytes().skip(n as int),
{ unimplemented!() }
// ---- std::io::IoSlice: a borrowed byte slice (`Deref<Target = [u8]>`); text of the model shared with unit fusedevw
pub struct IoSlice<'a> { pub b: &'a [u8] }
impl<'a> IoSlice<'a> {
    pub fn new(b: &'a [u8]) -> (r: IoSlice<'a>) ensures r.b@ == b@ { IoSlice { b } }
    pub fn len(&self) -> (r: usize) ensures r == self.b@.len() { self.b.len() }
    pub fn is_empty(&self) -> (r: bool) ensures r == (self.b@.len() == 0) { self.b.len() == 0 }
}
impl<'a> std::ops::Deref for IoSlice<'a> {
    type Target = [u8];
    fn deref(&self) -> (r: &[u8]) ensures r@ == self.b@ { self.b }
}
pub open spec fn ios_concat(s: Seq<IoSlice<'_>>) -> Seq<u8> decreases s.len() {
    if s.len() == 0 { Seq::<u8>::empty() } else { s[0].b@ + ios_concat(s.skip(1)) }
}
pub proof fn lemma_ios_concat_append(a: Seq<IoSlice<'_>>, b: Seq<IoSlice<'_>>)
    ensures ios_concat(a + b) =~= ios_concat(a) + ios_concat(b)
    decreases a.len()
{
    if a.len() == 0 { assert(a + b =~= b); }
    else { assert((a + b).skip(1) =~= a.skip(1) + b); lemma_ios_concat_append(a.skip(1), b); }
}
pub proof fn lemma_ios_take_next(s: Seq<IoSlice<'_>>, i: int)
    requires 0 <= i < s.len()
    ensures ios_concat(s.take(i + 1)) =~= ios_concat(s.take(i)) + s[i].b@,
            ios_concat(s.take(i)).len() + s[i].b@.len() <= ios_concat(s).len(),
{
    assert(s.take(i + 1) =~= s.take(i) + seq![s[i]]);
    lemma_ios_concat_append(s.take(i), seq![s[i]]);
    assert(seq![s[i]].skip(1) =~= Seq::<IoSlice<'_>>::empty());
    reveal_with_fuel(ios_concat, 2);
    assert(ios_concat(seq![s[i]]) =~= s[i].b@);
    assert(s =~= s.take(i + 1) + s.skip(i + 1));
    lemma_ios_concat_append(s.take(i + 1), s.skip(i + 1));
}
pub proof fn lemma_bytes_at_concat(a: Seq<int>, b: Seq<int>)
    ensures bytes_at(a + b) =~= bytes_at(a) + bytes_at(b)
{ }
'''

# ---- vm-memory guest memory and virtio-queue descriptor chains: only what Reader::from_descriptor_chain / VirtioFsWriter::new use.
# ASSUMED, written from the crates' text (vm-memory 0.17.1 guest_memory.rs / region.rs / address.rs, virtio-queue 0.17.0 chain.rs / desc/split.rs)
MODEL4 = r'''
use std::ops::Deref;
#[derive(Clone, Copy)] pub struct GuestAddress(pub u64);
impl GuestAddress {      // trait Address (impl_address_ops!): raw_value = the number, checked_sub = u64::checked_sub
    pub fn raw_value(&self) -> (r: u64) ensures r == self.0 { self.0 }
    pub fn checked_sub(&self, other: u64) -> (r: Option<GuestAddress>)
        ensures self.0 >= other ==> r is Some && r->Some_0.0 == self.0 - other, self.0 < other ==> r is None
    { if self.0 >= other { Some(GuestAddress(self.0 - other)) } else { None } }
}
#[derive(Clone, Copy)] pub struct MemoryRegionAddress(pub u64);
#[verifier::external_body] pub struct GuestMemoryError { _p: u8 }
// a region: guest range [start, start + size) mapped at host address host_base; get_slice(offset, count) is Ok only inside the mapping
// (MmapRegion::get_slice -> compute_end_offset) and then denotes host_base + offset, count bytes
pub trait GuestMemoryRegion {
    type B: BitmapSlice;      // real: `type B: Bitmap`, slices carry `BS<'a, B>` (SIG abstraction: the lifetime-indexed slice type is B itself)
    spec fn start(&self) -> u64;
    spec fn size(&self) -> nat;
    spec fn host_base(&self) -> int;
    fn start_addr(&self) -> (r: GuestAddress) ensures r.0 == self.start();
    fn get_slice(&self, offset: MemoryRegionAddress, count: usize) -> (r: core::result::Result<VolatileSlice<'_, Self::B>, GuestMemoryError>)
        ensures r is Ok ==> offset.0 + count <= self.size() && r->Ok_0.addr() == self.host_base() + offset.0 && r->Ok_0.slen() == count;
}
// guest memory: `find_region(a)` = the region containing a ("Returns the region containing the specified address or None").
// `host_of(a)` / `room(a)`: the host address guest address a is mapped at, and how many bytes of its region lie at and behind it.
pub trait GuestMemory {
    type R: GuestMemoryRegion;
    spec fn host_of(&self, a: u64) -> int;
    spec fn room(&self, a: u64) -> nat;
    fn find_region(&self, addr: GuestAddress) -> (r: Option<&Self::R>)
        ensures r is Some ==> r->Some_0.start() <= addr.0 && addr.0 - r->Some_0.start() <= r->Some_0.size()
                    && self.host_of(addr.0) == r->Some_0.host_base() + (addr.0 - r->Some_0.start())
                    && self.room(addr.0) == r->Some_0.size() - (addr.0 - r->Some_0.start());
}
pub type MS<T> = <<T as GuestMemory>::R as GuestMemoryRegion>::B;
// virtio_queue::desc::split::Descriptor (addr, len, flags, next): only addr() and len() are read here
#[derive(Clone, Copy)] pub struct Descriptor { pub a: u64, pub l: u32 }
impl Descriptor {
    pub fn addr(&self) -> (r: GuestAddress) ensures r.0 == self.a { GuestAddress(self.a) }
    pub fn len(&self) -> (r: u32) ensures r == self.l { self.l }
}
// DescriptorChain::readable() / writable(): "an iterator that only yields the readable (writable) descriptors in the chain" - in chain order
#[verifier::external_body] #[verifier::reject_recursive_types(M)] pub struct DescriptorChain<M> { _p: PhantomData<M> }
#[verifier::external_body] #[verifier::reject_recursive_types(M)] pub struct DescriptorChainRwIter<M> { _p: PhantomData<M> }
impl<M> DescriptorChain<M> {
    pub uninterp spec fn readable_descs(&self) -> Seq<Descriptor>;
    pub uninterp spec fn writable_descs(&self) -> Seq<Descriptor>;
    #[verifier::external_body] pub fn readable(self) -> (r: DescriptorChainRwIter<M>) ensures r.rem() == self.readable_descs() { unimplemented!() }
    #[verifier::external_body] pub fn writable(self) -> (r: DescriptorChainRwIter<M>) ensures r.rem() == self.writable_descs() { unimplemented!() }
}
impl<M> DescriptorChainRwIter<M> {
    pub uninterp spec fn rem(&self) -> Seq<Descriptor>;      // what it will still yield
    #[verifier::external_body] pub fn next(&mut self) -> (r: Option<Descriptor>)
        ensures old(self).rem().len() == 0 ==> r is None && final(self).rem() == old(self).rem(),
                old(self).rem().len() > 0 ==> r == Some(old(self).rem()[0]) && final(self).rem() == old(self).rem().skip(1),
    { unimplemented!() }
}
// `<I as IntoIterator>::into_iter` of an Iterator is the identity (rule R28)
pub fn vx_into_iter<I>(i: I) -> (r: I) ensures r == i { i }
// ---- specification: the addresses a list of descriptors denotes, in order
pub open spec fn chain_cells<T: GuestMemory>(mem: &T, ds: Seq<Descriptor>) -> Seq<int> decreases ds.len() {
    if ds.len() == 0 { Seq::<int>::empty() } else { range(mem.host_of(ds[0].a), ds[0].l as nat) + chain_cells(mem, ds.skip(1)) }
}
pub proof fn lemma_chain_push<T: GuestMemory>(mem: &T, ds: Seq<Descriptor>, d: Descriptor)
    ensures chain_cells(mem, ds.push(d)) =~= chain_cells(mem, ds) + range(mem.host_of(d.a), d.l as nat)
    decreases ds.len()
{
    if ds.len() == 0 { assert(ds.push(d).skip(1) =~= Seq::<Descriptor>::empty()); reveal_with_fuel(chain_cells, 2); }
    else { assert(ds.push(d).skip(1) =~= ds.skip(1).push(d)); lemma_chain_push(mem, ds.skip(1), d); }
}
pub proof fn lemma_cells_push<'a, S>(b: Seq<VolatileSlice<'a, S>>, v: VolatileSlice<'a, S>)
    ensures cells(b.push(v)) =~= cells(b) + range(v.addr(), v.slen())
{
    assert(b.push(v) =~= b + seq![v]);
    lemma_cells_concat(b, seq![v]);
    lemma_cells_one(v);
}
'''

OLDW = VW.OLDW
NO_OVF = VW.NO_OVF
UNMARKED = IO.UNMARKED
STAYS = VW.STAYS
advance = VW.advance

# the one clause added to the iobuffers contract of consume / consume_for_read (proved here on the real text)
NEVER_FAILS = ('(forall|b: &[FileVolatileSlice<\'_>], q: io::Result<usize>| #[trigger] f.ensures((b,), q) ==> q is Ok) && %s ==> r is Ok // [C04.reader.%%s.never_fails]'
               % IO.NO_OVERFLOW)


def reader_fns(tok):
    SRIO = "impl<S: BitmapSlice> io::Read for Reader<'_, S>"
    N = 'r->Ok_0'
    read = tok(Fn(T, SRIO, 'read', props=['C04'], canary=True,
                  ensures=[
                      'final(buf)@.len() == old(buf)@.len() // [C04.reader.read.len]',
                      'r is Err ==> %s // [C04.reader.read.err_nothing_moves]' % STAYS,
                      # the chain-length invariant established by the constructors => a read never fails
                      '%s ==> r is Ok // [C04.reader.read.never_fails]' % NO_OVF,
                      'r is Ok ==> %s == minn(old(buf)@.len() as int, %s.len() as int) // [C04.reader.read.amount]' % (N, OLDW),
                      'r is Ok ==> %s // [C04.reader.read.advance]' % advance(N),
                      # the NEXT n bytes of the request, in order, at offsets 0..n of buf; the rest of buf as it was
                      'r is Ok && %s > 0 ==> final(buf)@ =~= bytes_at(%s.subrange(0, %s as int)) + old(buf)@.skip(%s as int) // [C04.reader.read.delivered_in_order]' % (N, OLDW, N, N),
                      '%s // [C17.read.unmarked]' % UNMARKED],
                  body_resub=[(r'unsafe\s*\{(?:\s*//[^\n]*\n)*\s*copy_nonoverlapping\((\w+)\.as_ptr\(\)\s*as\s*\*const\s+u8,\s*(\w+)\.as_mut_ptr\(\),\s*([^;{}]+?)\);\s*\}',
                               r'vx_copy_from_guest(\1, \2, \3, Tracked(&mut gr));',
                               'raw copy out of the request buffer -> model call (n bytes at src -> offsets 0..n of dst; in-bounds on both sides as preconditions)')],
                  splices=[('^', 'after', 'broadcast use axiom_mut_slice_len, axiom_mut_slice_max;'),
                           ('|bufs|', 'closure', '''|bufs: &[FileVolatileSlice]| -> (q: io::Result<usize>)
            ensures q is Ok, q->Ok_0 == minn(old(buf)@.len() as int, fcells(bufs@).len() as int), // [C04.reader.read.closure.amount]
                final(buf)@ =~= bytes_at(fcells(bufs@).subrange(0, q->Ok_0 as int)) + old(buf)@.skip(q->Ok_0 as int), // [C04.reader.read.closure.delivered_in_order]
        '''),
                           ('let mut rem = buf;', 'before', 'let tracked mut gr = GuestReads { read: Seq::empty() }; let ghost dst0 = buf@; let ghost dfin = final(buf)@; proof { assert(bufs@.take(0) =~= Seq::empty()); assert(bufs@.take(bufs@.len() as int) =~= bufs@); }'),
                           ('for buf in bufs {', 'replace', '''for buf in it: bufs
                invariant
                    it.index@ <= bufs@.len(), total + rem@.len() == dst0.len(), dst0.len() <= 0x7fff_ffff_ffff_ffff,
                    total <= fcells(bufs@.take(it.index@)).len(),
                    rem@.len() > 0 ==> total == fcells(bufs@.take(it.index@)).len(), // [C04.reader.read.loop.whole_segments]
                    // every source address handed to the raw copy so far: exactly the first `total` offered addresses, each ONCE, in order
                    gr.read =~= fcells(bufs@.take(it.index@)).subrange(0, total as int), // [C04.reader.read.loop.each_address_once_in_order]
                    // their bytes are what the destination holds in front of `rem`; `rem` is the untouched rest of the destination
                    dfin =~= bytes_at(gr.read) + final(rem)@, // [C04.reader.read.loop.delivered_in_order]
                    rem@ =~= dst0.skip(total as int), // [C04.reader.read.loop.rest_untouched]
                    bufs@.take(bufs@.len() as int) =~= bufs@,
            {
                proof { lemma_fcells_take_next(bufs@, it.index@); }'''),
                           ]))
    SR = "impl<S: BitmapSlice> Reader<'_, S>"
    SZ = 'T::ssize()'
    read_obj = tok(Fn(T, SR, 'read_obj', props=['C04'], canary=True,
                      ensures=['%s // [C17.read_obj.unmarked]' % UNMARKED] + exact_contract('read_obj', SZ, 'r->Ok_0.sbytes()'),
                      body_resub=[(r'unsafe\s*\{\s*::std::slice::from_raw_parts_mut\((\w+)\.as_mut_ptr\(\)\s*as\s*\*mut\s+u8,\s*([^{};]+?)\)\s*\}',
                                   r'vx_uninit_bytes_mut(&mut \1, \2)',
                                   'byte window over a MaybeUninit<T> -> model call (in bounds iff n <= size_of::<T>(); stores through the window are the storage contents)')],
                      splices=[('^', 'after', 'broadcast use axiom_mut_slice_len, axiom_sbytes_len;')]),
                   ['read_exact', 'read'])
    fdc = chain_fn("impl<'a> Reader<'a>", 'from_descriptor_chain', 'readable', 'reader.from_descriptor_chain')
    return [read, raw_with_canary('read_exact', std_read_exact, ['C04']), read_obj, fdc]


def moved_contract(op, total):
    """write_vectored / write_obj / write_all: several `write` calls; `total` = the number of bytes to be written"""
    return [
        # C17 (1)+(2): whatever happens, the log grows by exactly the addresses the cursor moved over (every completed part included);
        # C04: the cursor moves forward over a prefix of the reply space, by exactly `total` when the operation succeeds
        '''%s ==> ({ let n = final(self).buffers.bytes_consumed - old(self).buffers.bytes_consumed;
                        0 <= n <= %s && n <= %s.len() && cells(final(self).buffers.buffers@) =~= %s.skip(n)
                        && final(dm).marked =~= old(dm).marked + %s.subrange(0, n) && (r is Ok ==> n == %s) }) // [C17.%s.written_marked_exactly]''' % (NO_OVF, total, OLDW, OLDW, OLDW, total, op),
        # "an operation that would exceed the remaining space fails without writing"
        '%s && %s > %s.len() ==> r is Err && %s && %s // [C04.%s.exceeds_fails]' % (NO_OVF, total, OLDW, STAYS, UNMARKED, op),
    ]


# loop annotation shared by write_vectored's loop and the std write_all: `done` = the bytes written so far (exec or ghost expression)
def moved_inv(done, tag):
    return '''novf == (bc0 + all.len() <= usize::MAX), all == cells(old(self).buffers.buffers@), bc0 == old(self).buffers.bytes_consumed, m0 == old(dm).marked,
                novf ==> %(d)s <= all.len() && self.buffers.bytes_consumed == bc0 + %(d)s
                    && cells(self.buffers.buffers@) =~= all.skip(%(d)s as int) && dm.marked =~= m0 + all.subrange(0, %(d)s as int), // [%(t)s]''' % dict(d=done, t=tag)


MOVED_ENTRY = '''let ghost all = cells(self.buffers.buffers@); let ghost bc0 = self.buffers.bytes_consumed; let ghost m0 = dm.marked; let ghost novf = bc0 + all.len() <= usize::MAX;
        proof { assert(all.skip(0) =~= all); assert(all.subrange(0, 0) =~= Seq::<int>::empty()); }'''


def moved_step(k):
    """facts about the cursor `k` bytes in, needed to combine the contract of one `write` with the loop invariant"""
    return '''proof {
                if novf { assert(self.buffers.bytes_consumed + all.skip(%(k)s).len() <= usize::MAX); }
                assert forall|n: int| 0 <= n && %(k)s + n <= all.len() implies #[trigger] all.skip(%(k)s).subrange(0, n) =~= all.subrange(%(k)s, %(k)s + n)
                    && all.subrange(0, %(k)s) + all.subrange(%(k)s, %(k)s + n) =~= all.subrange(0, %(k)s + n) && #[trigger] all.skip(%(k)s).skip(n) =~= all.skip(%(k)s + n) by { }
            }''' % dict(k=k)


# std::io::Write::write_all - the DEFAULT method VirtioFsWriter inherits (library/std/src/io/mod.rs, rustc 1.95 / nightly 2026-08), copied by
# hand as unit fusedevw does (TRUSTED copy of std text: the `mut buf` parameter rebound (`data` -> `let mut buf = data;`), `e.is_interrupted()`
# written out as `e.kind() == ErrorKind::Interrupted`, `Error::WRITE_ALL_EOF` written out as the error it denotes).  VERIFIED against its
# contract on top of the contract of `write` (proved in unit virtiofsw).
def std_write_all(canary=False):
    ens = moved_contract('vwrite_all', 'data@.len()') + (['false // [canary]'] if canary else [])
    return '''
    #[verifier::exec_allows_no_decreases_clause]
    fn write_all%s(&mut self, data: &[u8], Tracked(dm): Tracked<&mut DirtyLog>) -> (r: io::Result<()>)
        ensures
            %s
    {
        %s
        let mut buf = data;
        while !buf.is_empty()
            invariant
                buf@.len() <= data@.len(),
                // a request beyond the remaining space: the first `write` refuses it, nothing has moved, nothing is marked
                novf && data@.len() > all.len() ==> buf@ == data@ && self.buffers.buffers@ == old(self).buffers.buffers@ && dm.marked == m0, // [C04.vwrite_all.loop.exceeds_fails]
                %s
        {
            let ghost k = data@.len() - buf@.len();
            %s
            match self.write(buf, Tracked(dm)) {
                Ok(0) => { return Err(io::Error::new(io::ErrorKind::WriteZero, "failed to write whole buffer")); }
                Ok(n) => buf = &buf[n..],
                Err(ref e) if e.kind() == io::ErrorKind::Interrupted => {}
                Err(e) => return Err(e),
            }
        }
        Ok(())
    }
''' % ('__canary' if canary else '', _clauses(ens), MOVED_ENTRY, moved_inv('(data@.len() - buf@.len())', 'C17.vwrite_all.loop'), moved_step('k'))


def writer_fns(P, root):
    tok = P['tok']
    has_sum = re.search(r'\.\s*fold\s*\(', X.mask(X.Source(root, V).find_fn("impl<S: BitmapSlice> io::Write for VirtioFsWriter<'_, S>", 'write_vectored')['body'])) is not None
    SW = "impl<'a, S: BitmapSlice> VirtioFsWriter<'a, S>"
    SWIO = "impl<S: BitmapSlice> io::Write for VirtioFsWriter<'_, S>"
    assumed = [VW.as_external(f) for f in P['writer'] if f.name in ('check_available_space', 'write')]      # proved in unit virtiofsw (same clause text)
    TOTAL = 'ios_concat(bufs@).len()'
    wv = tok(Fn(V, SWIO, 'write_vectored', props=['C17'], canary=True,
                # the total must be a usize: the real fold adds with `+` (debug build: panic, release build: wrap-around) - as for FuseDevWriter
                requires=['%s <= usize::MAX // [C04.vwrite_vectored.total_representable]' % TOTAL],
                ensures=moved_contract('vwrite_vectored', TOTAL) + ['r is Ok ==> r->Ok_0 == %s // [C04.vwrite_vectored.amount]' % TOTAL],
                splices=[('^', 'after', "proof { assert(bufs@.take(0) =~= Seq::<IoSlice<'_>>::empty()); assert(bufs@.take(bufs@.len() as int) =~= bufs@); } " + MOVED_ENTRY),
                         ('for x in bufs.iter() {', 'replace', '''for x in it: bufs.iter()
            invariant ios_concat(bufs@).len() <= usize::MAX, bufs@.take(bufs@.len() as int) =~= bufs@,
                acc == ios_concat(bufs@.take(it.index@ as int)).len(), // [C04.vwrite_vectored.sum]
        { proof { lemma_ios_take_next(bufs@, it.index@ as int); }'''),
                         ('for buf in bufs.iter() {', 'replace', '''for buf in it: bufs.iter()
            invariant ios_concat(bufs@).len() <= usize::MAX, bufs@.take(bufs@.len() as int) =~= bufs@,
                novf ==> ios_concat(bufs@).len() <= all.len(), // [C04.vwrite_vectored.loop.space]
                count == ios_concat(bufs@.take(it.index@ as int)).len(), // [C04.vwrite_vectored.loop.amount]
                ''' + moved_inv('count', 'C17.vwrite_vectored.loop') + '''
        { proof { lemma_ios_take_next(bufs@, it.index@ as int); } ''' + moved_step('(count as int)'))]),
             ['write'])
    wv.rules = wv.rules + ('R40', 'R42')
    if not has_sum:      # without the up-front sum there is no fold loop to annotate: the CONTRACT is the same (and [exceeds_fails] then fails)
        wv.splices = [sp for sp in wv.splices if sp[0] != 'for x in bufs.iter() {']
    wo = tok(Fn(V, SW, 'write_obj', props=['C17'], canary=True,
                ensures=moved_contract('vwrite_obj', 'T::ssize()'),
                splices=[('^', 'after', 'broadcast use axiom_sbytes_len;')]),
             ['write_all'])
    new = chain_fn("impl<'a> VirtioFsWriter<'a>", 'new', 'writable', 'vnew')
    return assumed + [wv, raw_with_canary('write_all', std_write_all, ['C17']), wo, new]


def chain_fn(scope, name, which, op):
    """Reader::from_descriptor_chain / VirtioFsWriter::new: the same text up to readable() / writable() and the struct built"""
    DS = 'desc_chain.%s_descs()' % which
    B = 'r->Ok_0.buffers.buffers@'
    f = Fn(V, scope, name, props=['C04'], canary=True,
           sig_subst=[("MS<'a, M::Target>", 'MS<M::Target>')],      # the alias without its lifetime parameter (see GuestMemoryRegion::B in the model)
           ensures=[
               # exactly the readable (writable) descriptors, each as ONE slice at the host address of its guest address, in chain order; nothing consumed yet
               'r is Ok ==> r->Ok_0.buffers.bytes_consumed == 0 && cells(%s) =~= chain_cells(mem, %s) // [C04.%s.exactly_the_descriptors_in_order]' % (B, DS, op),
               '''r is Ok ==> %s.len() == %s.len() && (forall|i: int| 0 <= i < %s.len() ==> #[trigger] %s[i].addr() == mem.host_of(%s[i].a) && %s[i].slen() == %s[i].l
                        && %s[i].l <= mem.room(%s[i].a)) // [C04.%s.one_slice_per_descriptor_inside_its_region]''' % (B, DS, DS, B, DS, B, DS, DS, DS, op),
               # the chain-length invariant every err_unmarked / never_fails clause assumes: the total length fits a usize
               'r is Ok ==> 0 + cells(%s).len() <= usize::MAX // [C04.%s.length_fits]' % (B, op)],
           splices=[('let mut buffers = VecDeque::with_capacity(64);', 'after', 'let ghost ds = %s;' % DS)])
    INV = '''
            invariant
                buffers@.len() <= ds.len(), d_it.rem() =~= ds.skip(buffers@.len() as int), // [C04.%(op)s.loop.the_descriptors_of_this_direction]
                total_len == chain_cells(mem, ds.take(buffers@.len() as int)).len(), // [C04.%(op)s.loop.length]
                cells(buffers@) =~= chain_cells(mem, ds.take(buffers@.len() as int)), // [C04.%(op)s.loop.cells]
                forall|i: int| 0 <= i < buffers@.len() ==> #[trigger] buffers@[i].addr() == mem.host_of(ds[i].a) && buffers@[i].slen() == ds[i].l && ds[i].l <= mem.room(ds[i].a), // [C04.%(op)s.loop.slices]
            ensures
                buffers@.len() == ds.len(), // [C04.%(op)s.loop.every_descriptor]
            decreases d_it.rem().len(),
        ''' % dict(op=op)
    PRE = ''' let ghost b0 = buffers@; proof { assert(ds.take(b0.len() as int + 1) =~= ds.take(b0.len() as int).push(ds[b0.len() as int])); lemma_chain_push(mem, ds.take(b0.len() as int), ds[b0.len() as int]);
                assert forall|v: VolatileSlice<'a, MS<M::Target>>| #[trigger] cells(b0.push(v)) =~= cells(b0) + range(v.addr(), v.slen()) by { lemma_cells_push(b0, v); }
                assert forall|v: VolatileSlice<'a, MS<M::Target>>, i: int| 0 <= i <= b0.len() ==> #[trigger] b0.push(v)[i] == (if i < b0.len() { b0[i] } else { v }) by { } }'''
    f.body_hooks = [R.r28_for_owned(r'\bfor\s+(desc)\s+in\s+(desc_chain\.(?:readable|writable)\(\))\s*\{', 'vx_into_iter', 'd_it', header_extra=INV, body_prefix=PRE,
                                    mid=' proof { assert(ds.skip(0) =~= ds); assert(ds.take(0) =~= Seq::<Descriptor>::empty()); }',
                                    after='proof { assert(ds.take(ds.len() as int) =~= ds); }')]
    return f


def exact_contract(op, n, delivered):
    """read_exact / read_obj: `n` = the number of bytes wanted, `delivered` = where they end up"""
    return [
        # Ok iff at least n bytes remain
        '%s ==> (r is Ok <==> %s <= %s.len()) // [C04.reader.%s.ok_iff_enough]' % (NO_OVF, n, OLDW, op),
        # then the cursor advances by exactly n and the next n bytes of the request are delivered, in order
        '%s && r is Ok ==> %s // [C04.reader.%s.advance]' % (NO_OVF, advance(n), op),
        '%s && r is Ok && %s > 0 ==> %s =~= bytes_at(%s.subrange(0, %s as int)) // [C04.reader.%s.delivered_in_order]' % (NO_OVF, n, delivered, OLDW, n, op),
        # what the code does when fewer than n bytes remain: std's read_exact has consumed ALL of them before it reports UnexpectedEof
        '%s && r is Err ==> %s // [pin.reader.%s.short_consumes_rest]' % (NO_OVF, advance('%s.len()' % OLDW), op),
    ]


# std::io::Read::read_exact - the DEFAULT method Reader inherits (library/std/src/io/mod.rs `default_read_exact`, rustc 1.95 / nightly
# 2026-08), copied by hand (TRUSTED copy of std text: `this` -> `self`, the `mut buf` parameter rebound (`dst` -> `let mut buf = dst;`: a
# `mut` parameter has no name for its initial value), `e.is_interrupted()` written out as `e.kind() == ErrorKind::Interrupted`,
# `Error::READ_EXACT_EOF` written out as the error it denotes).  VERIFIED against its contract on top of the extracted `read`.
def std_read_exact(canary=False):
    ens = ['final(dst)@.len() == old(dst)@.len() // [C04.reader.read_exact.len]', '%s // [C17.read_exact.unmarked]' % UNMARKED] + exact_contract('read_exact', 'old(dst)@.len()', 'final(dst)@') + (['false // [canary]'] if canary else [])
    return '''
    #[verifier::exec_allows_no_decreases_clause]
    fn read_exact%s(&mut self, dst: &mut [u8], Tracked(dm): Tracked<&mut DirtyLog>) -> (r: io::Result<()>)
        ensures
            %s
    {
        broadcast use axiom_mut_slice_len;
        let ghost all = cells(self.buffers.buffers@); let ghost bc0 = self.buffers.bytes_consumed; let ghost m0 = dm.marked;
        let ghost dst0 = dst@; let ghost dfin = final(dst)@; let ghost novf = bc0 + all.len() <= usize::MAX;
        proof { assert(all.skip(0) =~= all); assert(bytes_at(all.subrange(0, 0)) =~= Seq::<u8>::empty()); }
        let mut buf = dst;
        while !buf.is_empty()
            invariant
                novf == (bc0 + all.len() <= usize::MAX), all == cells(old(self).buffers.buffers@), bc0 == old(self).buffers.bytes_consumed, m0 == old(dm).marked,
                dst0 == old(dst)@, dfin == final(dst)@, dfin.len() == dst0.len(),
                buf@.len() <= dst0.len(), dm.marked =~= m0, // [C17.read_exact.unmarked]
                novf ==> ({ let k = dst0.len() - buf@.len();
                    k <= all.len() && self.buffers.bytes_consumed == bc0 + k && cells(self.buffers.buffers@) =~= all.skip(k) // [C04.reader.read_exact.loop.advance]
                    && dfin =~= bytes_at(all.subrange(0, k)) + final(buf)@ }), // [C04.reader.read_exact.loop.delivered_in_order]
            ensures
                buf@.len() > 0 && novf ==> dst0.len() - buf@.len() == all.len(), // [pin.reader.read_exact.loop.short_consumes_rest]
        {
            let ghost k = dst0.len() - buf@.len();
            proof {
                if novf { assert(self.buffers.bytes_consumed + all.skip(k).len() <= usize::MAX); }
                assert forall|n: int| 0 <= n && k + n <= all.len() implies #[trigger] all.skip(k).subrange(0, n) =~= all.subrange(k, k + n)
                    && all.subrange(0, k) + all.subrange(k, k + n) =~= all.subrange(0, k + n) && #[trigger] all.skip(k).skip(n) =~= all.skip(k + n) by { }
            }
            match self.read(buf, Tracked(dm)) {
                Ok(0) => break,
                Ok(n) => {
                    proof { lemma_bytes_at_concat(all.subrange(0, k), all.subrange(k, k + n)); }
                    buf = &mut buf[n..];
                }
                Err(ref e) if e.kind() == io::ErrorKind::Interrupted => {}
                Err(e) => return Err(e),
            }
        }
        if !buf.is_empty() { Err(io::Error::new(io::ErrorKind::UnexpectedEof, "failed to fill whole buffer")) } else { Ok(()) }
    }
''' % ('__canary' if canary else '', _clauses(ens))


def raw_with_canary(name, mk, props):
    """a verified hand copy + its vacuity copy (opt-in Raw.canary, vx/build.py)"""
    r = Raw(mk())
    r.canary = dict(name=name, text=mk(canary=True), props=props)
    return r


def _clauses(cs):
    import re
    out = []
    for c in cs:
        m = re.search(r'\s*(//\s*\[[^\n]*)$', c)
        out.append((c[:m.start()].rstrip() + ', ' + m.group(1)) if m else c.rstrip() + ',')
    return '\n            '.join(out)


def unit(root='/repo'):
    P = VW.parts()
    tok = P['tok']
    # IoBuffers: everything assumed as proved in unit `iobuffers`, except consume / consume_for_read which are verified again with one more clause
    real = {f.name: f for f in IO.iobuffers_fns(external=False)}
    io_group = [f for f in IO.iobuffers_fns(external=True) if f.name == 'allocate_file_volatile_slice']
    for f in P['io_group']:
        if f.name in ('consume', 'consume_for_read'):
            g = real[f.name]
            g.ensures = list(g.ensures) + [NEVER_FAILS % f.name]
            io_group.append(g)
        else:
            io_group.append(f)
    items = [
        Raw(IO.MODEL.replace('pub enum Error { DescriptorChainOverflow,', 'pub enum Error { FindMemoryRegion, GuestMemoryError(GuestMemoryError), DescriptorChainOverflow,')),      # + the two variants the chain constructors build
        Copy(T, r"struct IoBuffers<'a, S>", prefix='#[verifier::reject_recursive_types(S)]'),
        Copy(V, r"pub struct VirtioFsWriter<'a, S", subst=[('S = ()', 'S')], prefix='#[verifier::reject_recursive_types(S)]'),
        Copy(T, r"pub struct Reader<'a, S", subst=[('S = ()', 'S')], prefix='#[verifier::reject_recursive_types(S)]'),
        Raw(IO.SPEC),
        Raw(VW.MODEL2),
        Raw(MODEL3),
        Raw(MODEL4),
        Group("impl<'a, S: BitmapSlice> IoBuffers<'a, S> {", io_group),
        Group("impl<'a, S: BitmapSlice> Reader<'a, S> {", reader_fns(tok)),
        Group("impl<'a, S: BitmapSlice> VirtioFsWriter<'a, S> {", writer_fns(P, root)),
    ]
    return Unit('readerrd', items, preludes=['base.rs'])
