"""Unit `arcfs` (C02): `impl<FS: FileSystem> FileSystem for Arc<FS>` (src/api/filesystem/sync_io.rs) forwards every operation
to the same operation of the inner filesystem with the same arguments.  The model impl defines every capability / result spec
function of Arc<FS> as the inner object's; Verus then checks each extracted method body against the TRAIT contract."""
from vx.api import Unit, Fn, Copy, Raw, Group
from vx import fsmodel, wiremodel, flagsmodel

FS = 'src/api/filesystem/sync_io.rs'
FSMOD = 'src/api/filesystem/mod.rs'
ABI = 'src/abi/fuse_abi_linux.rs'
VABI = 'src/abi/virtio_fs.rs'
SC = 'impl<FS: FileSystem> FileSystem for Arc<FS>'


def unit(root='/repo'):
    notes = []
    trait_txt, info, _ = fsmodel.gen_trait(root, notes, server=True, dirsink='opaque')
    hdr, names = fsmodel.gen_forward_impl_header(root, notes, dirsink='opaque')
    SIGSUB = [('&mut dyn FnMut(DirEntry) -> io::Result<usize>', '&mut DirSink'), ('&mut dyn FnMut(DirEntry, Entry) -> io::Result<usize>', '&mut DirSink'), ('&mut dyn ZeroCopyWriter', '&mut ZW'), ('&mut dyn ZeroCopyReader', '&mut ZR'), ('&mut dyn FsCacheReqHandler', '&mut FsCacheReq'),
              ('fn read(', 'fn read<ZW: ZeroCopyWriter>('), ('fn write(', 'fn write<ZR: ZeroCopyReader>('), ('data: IoctlData,', "data: IoctlData<'_>,")]
    # `self.deref()` on an Arc<FS> is `&**self` (definition of Deref for Arc); Verus has no specification for Arc::deref
    fns = [Fn(FS, SC, n, sig_subst=SIGSUB, lenient_sig=True, props=['C02'], ret_name='res', body_subst=[('self.deref()', '(**self)')]) for n in names]
    items = [
        Copy(FSMOD, r'pub struct Context\b', prefix='#[derive(Clone, Copy)]', subst=[('libc::uid_t', 'u32'), ('libc::gid_t', 'u32'), ('libc::pid_t', 'i32')]),
        Copy(FSMOD, r'pub struct Entry\b', prefix='#[derive(Clone, Copy)]'),
        Copy(FSMOD, r'pub struct FileLock\b', prefix='#[derive(Clone, Copy)]'),
        Copy(FSMOD, r'pub struct IoctlData\b'),
        Copy(FSMOD, r'pub enum GetxattrReply\b'),
        Copy(FSMOD, r'pub enum ListxattrReply\b'),
        Copy(ABI, r'pub struct CreateIn\b', prefix='#[derive(Clone, Copy)]'),
        Copy(VABI, r'pub struct RemovemappingOne\b', prefix='#[derive(Clone, Copy)]'),
        Raw('''
use std::ops::Deref;
#[derive(Clone, Copy)] pub struct FsOptions { pub bits: u64 }
#[derive(Clone, Copy)] pub struct OpenOptions { pub bits: u32 }
#[derive(Clone, Copy)] pub struct SetattrValid { pub bits: u32 }
pub mod virtio_fs { pub use super::RemovemappingOne; }
#[verifier::external_body] pub struct FsCacheReq { _p: u8 }
#[verifier::external_body] pub struct DirSink { _p: u8 }        // stands for the `&mut dyn FnMut(DirEntry[, Entry]) -> io::Result<usize>` callback: can only be handed on
pub ghost struct IoctlArg { pub result: i32, pub data: Option<Seq<u8>> }
pub type IoctlRes = IoctlArg;
pub open spec fn ioctl_arg(d: IoctlData<'_>) -> IoctlArg { IoctlArg { result: d.result, data: (match d.data { Some(s) => Some(s@), None => None::<Seq<u8>> }) } }
pub open spec fn ioctl_res(r: io::Result<IoctlData<'_>>) -> io::Result<IoctlRes> { match r { Ok(d) => Ok(ioctl_arg(d)), Err(e) => Err(e) } }
pub trait ZeroCopyWriter { spec fn zw_buf(&self) -> Seq<u8>; spec fn zw_rest(&self) -> (int, nat, bool, bool, Seq<Seq<u8>>); }
pub trait ZeroCopyReader { }
pub open spec fn zw_appended<W: ZeroCopyWriter>(o: W, n: W, r: io::Result<usize>) -> bool {
    n.zw_rest() == o.zw_rest() && n.zw_buf().len() <= n.zw_rest().1 && (match r {
        Ok(c) => n.zw_buf().len() == o.zw_buf().len() + c && n.zw_buf().subrange(0, o.zw_buf().len() as int) == o.zw_buf(),
        Err(_) => true })
}
pub open spec fn err_ok(e: io::Error) -> bool { e.os_code() is Some ==> 0 < e.os_code()->Some_0 }
'''),
        Raw(trait_txt),
        Group(hdr, fns),
    ]
    return Unit('arcfs', items, preludes=['base.rs', 'stdmodel.rs'], generic_tags={'cap': ['C02'], 'touch': ['C02'], 'ids': ['C02']}, notes='\n'.join(notes))
