"""Unit `seal` (C18): the arithmetic gate of size sealing, PassthroughFs::seal_size_check."""
from vx.api import Unit, Fn, Copy, Raw, Group

UTIL = 'src/passthrough/util.rs'


def errno_fn(name, code):
    return Fn(UTIL, None, name, ensures=['r.os_code() == Some(%d as i32)' % code], props=['C18'])


def unit(root='/repo'):
    return Unit('seal', preludes=['base.rs'], items=[
        Copy('src/abi/fuse_abi_linux.rs', r'pub enum Opcode\b', prefix='#[repr(u32)]\n#[derive(Clone, Copy)]'),
        errno_fn('einval', 22), errno_fn('eperm', 1), errno_fn('enosys', 38),
        Raw('''
pub struct PassthroughFs<S> { pub p: PhantomData<S> }
pub trait BitmapSlice {}
pub open spec fn seal_keeps_size(mode: i32) -> bool {
    let op = mode & !(1i32 | 64i32);     // FALLOC_FL_KEEP_SIZE | FALLOC_FL_UNSHARE_RANGE, from fallocate(2)
    op == 0 || op == 2 || op == 16       // allocate, FALLOC_FL_PUNCH_HOLE, FALLOC_FL_ZERO_RANGE
}
pub open spec fn seal_changes_size(mode: i32) -> bool {
    let op = mode & !(1i32 | 64i32);
    op == 8 || op == 32                  // FALLOC_FL_COLLAPSE_RANGE, FALLOC_FL_INSERT_RANGE
}
'''),
        Group('impl<S: BitmapSlice + Send + Sync> PassthroughFs<S> {', [
            Fn('src/passthrough/mod.rs', 'impl<S: BitmapSlice + Send + Sync> PassthroughFs<S>', 'seal_size_check',
               ensures=[
                   # from the property: only requests that stay within the current size are let through
                   'r is Ok ==> (opcode is Write || opcode is Fallocate) && offset as int + size as int <= file_size as int // [C18.gate.within]',
                   'r is Ok && opcode is Fallocate ==> seal_keeps_size(mode) // [C18.gate.mode]',
                   # ... and requests that stay within the current size behave as without sealing (are not refused)
                   '(opcode is Write || (opcode is Fallocate && seal_keeps_size(mode))) && offset as int + size as int <= file_size as int ==> r is Ok // [C18.gate.complete]',
                   # refused with the prescribed errno
                   'offset as int + size as int > u64::MAX as int ==> r is Err && r->Err_0.os_code() == Some(22i32) // [C18.gate.overflow]',
                   'offset as int + size as int <= u64::MAX as int && offset as int + size as int > file_size as int && (opcode is Write || (opcode is Fallocate && seal_keeps_size(mode))) ==> r is Err && r->Err_0.os_code() == Some(1i32) // [C18.gate.eperm]',
                   'offset as int + size as int <= u64::MAX as int && opcode is Fallocate && seal_changes_size(mode) ==> r is Err && r->Err_0.os_code() == Some(1i32) // [C18.gate.collapse]',
                   'offset as int + size as int <= u64::MAX as int && opcode is Fallocate && !seal_keeps_size(mode) && !seal_changes_size(mode) ==> r is Err && r->Err_0.os_code() == Some(22i32) // [C18.gate.badmode]',
                   'offset as int + size as int <= u64::MAX as int && !(opcode is Write) && !(opcode is Fallocate) ==> r is Err && r->Err_0.os_code() == Some(38i32) // [C18.gate.enosys]',
               ],
               props=['C18'], canary=True),
        ]),
    ])
