"""Unit `cstrs` (C02, C01): the two name decoders the request handlers rely on - crate::bytes_to_cstr (src/lib.rs) and
ServerUtil::extract_two_cstrs (src/api/server/mod.rs) - verified on their real text against EXACTLY the contracts the unit `server`
assumes for them (vx/prelude/server.rs; this unit refuses to build if the two texts differ).  What remains assumed is std only: the meaning
of `<[u8]>::iter().position(|x| *x == 0)`, of range indexing (with the in-bounds condition as a proof obligation: no panic) and of
`CStr::from_bytes_with_nul` as documented (Ok iff the slice ends with its only NUL; the value is the bytes before it)."""
import os

from vx.api import Unit, Fn, Copy, Raw, Group

LIB = 'src/lib.rs'
SMOD = 'src/api/server/mod.rs'
HERE = os.path.dirname(os.path.abspath(__file__))

# the contracts as assumed by unit `server` (prelude/server.rs) - kept textually identical, checked below
B2C_DECL = '''#[verifier::external_body]
pub fn bytes_to_cstr(buf: &[u8]) -> (r: Result<&CStr>)
    ensures r is Ok <==> has_nul(buf@), r is Ok ==> r->Ok_0@ == cstr_of(buf@)
{ unimplemented!() }
'''
B2C_ENS = ['r is Ok <==> has_nul(buf@) // [C02.cstr.ok_iff_nul]', 'r is Ok ==> r->Ok_0@ == cstr_of(buf@) // [C02.cstr.first_nul]']
TWO_DECL = '''    #[verifier::external_body]
    pub fn extract_two_cstrs(buf: &[u8]) -> (r: Result<(&CStr, &CStr)>)
        ensures r is Ok <==> two_ok(buf@), r is Ok ==> r->Ok_0.0@ == cstr_of(buf@) && r->Ok_0.1@ == second_of(buf@)
    { unimplemented!() }
'''
TWO_ENS = ['r is Ok <==> two_ok(buf@) // [C02.two_cstrs.ok_iff]', 'r is Ok ==> r->Ok_0.0@ == cstr_of(buf@) && r->Ok_0.1@ == second_of(buf@) // [C02.two_cstrs.values]']

MODELS = r'''
// ---- std, as documented
// <[u8]>::iter().position(|x| *x == 0): the index of the first NUL byte, None if there is none (definition of Iterator::position)
#[verifier::external_body]
pub fn nul_position_slice(buf: &[u8]) -> (r: Option<usize>)
    ensures r is Some <==> has_nul(buf@), r is Some ==> r->Some_0 as int == first_nul(buf@) && r->Some_0 < buf@.len()
{ unimplemented!() }
// &buf[0..=pos] panics unless pos < buf.len(): the precondition is a proof obligation at the call site
#[verifier::external_body]
pub fn vx_slice_to_incl(buf: &[u8], pos: usize) -> (r: &[u8])
    requires pos < buf@.len() // [C01.cstr.index]
    ensures r@ == buf@.subrange(0, pos as int + 1)
{ unimplemented!() }
// &buf[pos..] panics unless pos <= buf.len()
#[verifier::external_body]
pub fn vx_slice_from(buf: &[u8], pos: usize) -> (r: &[u8])
    requires pos <= buf@.len() // [C01.cstr.index]
    ensures r@ == buf@.subrange(pos as int, buf@.len() as int)
{ unimplemented!() }
// CStr::from_bytes_with_nul: "the provided slice must be nul-terminated and not contain any interior nul bytes"; the CStr is the bytes before the NUL
impl CStr {
    #[verifier::external_body]
    pub fn from_bytes_with_nul(b: &[u8]) -> (r: core::result::Result<&CStr, FromBytesWithNulError>)
        ensures
            r is Ok <==> (b@.len() > 0 && b@[b@.len() - 1] == 0u8 && forall|i: int| 0 <= i < b@.len() - 1 ==> b@[i] != 0u8),
            r is Ok ==> r->Ok_0@ == b@.subrange(0, b@.len() - 1),
    { unimplemented!() }
}
pub proof fn lemma_first_nul(s: Seq<u8>)
    requires has_nul(s)
    ensures 0 <= first_nul(s) < s.len(), s[first_nul(s)] == 0u8, forall|j: int| 0 <= j < first_nul(s) ==> s[j] != 0u8
{
    reveal(has_nul);
    let k = choose|i: int| 0 <= i < s.len() && s[i] == 0u8;
    lemma_least(s, k);
}
// a NUL at k: there is a least one
pub proof fn lemma_least(s: Seq<u8>, k: int)
    requires 0 <= k < s.len(), s[k] == 0u8
    ensures exists|i: int| 0 <= i <= k && s[i] == 0u8 && forall|j: int| 0 <= j < i ==> s[j] != 0u8
    decreases k
{
    if forall|j: int| 0 <= j < k ==> s[j] != 0u8 {
    } else {
        let j = choose|j: int| 0 <= j < k && s[j] == 0u8;
        lemma_least(s, j);
    }
}
'''


def _lines(text, *starts):
    """the lines of `text` starting with one of `starts` (each must be found exactly once), with a preceding attribute line"""
    out, ls = [], text.split('\n')
    for st in starts:
        hit = [i for i, l in enumerate(ls) if l.startswith(st)]
        if len(hit) != 1:
            raise RuntimeError('unit cstrs: %r found %d times in the shared specification text' % (st, len(hit)))
        i = hit[0]
        if i > 0 and ls[i - 1].startswith('#[verifier::'):
            out.append(ls[i - 1])
        out.append(ls[i])
    return '\n'.join(out) + '\n'


def unit(root='/repo'):
    from vx.units import server as SV
    ptxt = open(os.path.join(HERE, '..', 'prelude', 'server.rs')).read()
    if B2C_DECL not in ptxt or TWO_DECL not in ptxt:
        raise RuntimeError('unit cstrs: the contracts of bytes_to_cstr / extract_two_cstrs in prelude/server.rs are no longer the ones proved here')
    # the specification functions, textually the ones unit `server` uses (prelude/server.rs and CUSTOM_SPECS of vx/units/server.py)
    shared = _lines(ptxt, 'pub use io::ErrorKind;', 'pub type Result<T> = core::result::Result<T, Error>;', '#[verifier::external_body] pub struct FromBytesWithNulError',
                    'pub open spec fn has_nul(', 'pub open spec fn first_nul(', 'pub open spec fn cstr_of(') \
        + _lines(SV.CUSTOM_SPECS, 'pub open spec fn two_ok(', 'pub open spec fn second_of(')
    POS = (r'buf\s*\.iter\(\)\s*\.position\(\|x\| \*x == 0\)', 'nul_position_slice(buf)', 'Iterator::position(|x| *x == 0) over a byte slice = index of its first NUL byte')
    ANN = (r'\.map_err\(\|e\| Error::InvalidCString\(e\)\)', r'.map_err(|e: FromBytesWithNulError| -> (q: Error) ensures q == Error::InvalidCString(e) { Error::InvalidCString(e) })',
           'every: closure |e| Error::InvalidCString(e) (rule R1) annotated with its result (no code change)')
    items = [
        Copy(LIB, r'pub enum Error\b'),
        Raw('pub mod transport { #[verifier::external_body] pub struct Error { _p: u8 } }'),
        Raw(shared),
        Raw('pub struct ServerUtil();'),
        Raw(MODELS),
        Fn(LIB, None, 'bytes_to_cstr', ensures=B2C_ENS, props=['C02'], canary=True, extra_props=['C01'],
           body_resub=[POS, ANN, (r'&buf\[0\.\.=([^\]\.]+)\]', r'vx_slice_to_incl(buf, \1)', 'every: range index &buf[0..=E] = the prefix of E + 1 bytes; in-bounds is an obligation')],
           splices=[('^', 'after', 'proof { reveal(cstr_of); reveal(has_nul); if has_nul(buf@) { lemma_first_nul(buf@); } }'),
                    ]),
        Group('impl ServerUtil {', [
            Fn(SMOD, 'impl ServerUtil', 'extract_two_cstrs', ensures=TWO_ENS, props=['C02'], canary=True, extra_props=['C01'],
               body_resub=[POS, ANN, (r'&buf\[0\.\.=([^\]\.]+)\]', r'vx_slice_to_incl(buf, \1)', 'every: range index &buf[0..=E] = the prefix of E + 1 bytes; in-bounds is an obligation'),
                           (r'&buf\[([^\]\.]+)\.\.\]', r'vx_slice_from(buf, \1)', 'every: range index &buf[E..] = the suffix from E; in-bounds is an obligation'),
                           (r'std::io::Error::', 'io::Error::', 'every: the same item through the prelude model of std::io')],
               splices=[('^', 'after', 'broadcast use axiom_slice_len; proof { reveal(two_ok); reveal(second_of); reveal(cstr_of); reveal(has_nul); if has_nul(buf@) { lemma_first_nul(buf@); } }'),
                        ('pos += 1;', 'before', 'proof { assert(first@ =~= cstr_of(buf@)); }'),
                        ('if pos < buf.len() {', 'before', 'proof { assert(has_nul(buf@)); assert(pos as int == first_nul(buf@) + 1); }'),
                        ('return Ok((first,', 'before', 'proof { assert(two_ok(buf@) <==> has_nul(buf@.subrange(pos as int, buf@.len() as int))); }')]),
        ]),
    ]
    return Unit('cstrs', items, preludes=['base.rs', 'stdmodel.rs'], generic_tags={'assert': ['C01']},
                notes='contracts and specification functions textually identical to the ones unit `server` assumes / uses (checked at build time)')
