"""Unit `ptops` (C05): the request handlers of the passthrough file system (`impl FileSystem for PassthroughFs`, src/passthrough/sync_io.rs)
and the helpers they go through, against the reading "each handler performs exactly the host system call(s) the property names, on the
object the request names, with exactly the request's arguments, and returns that call's result / errno" - the reading of C02, one level down.

What the KERNEL does with a call is out of reach (it is the oracle of C05).  What is decided here, for every input and every configuration:

  calls      every host system call is a capability-guarded model in module `sys` (same name and arguments as libc; rules R51/R55).  A handler's
             `requires` grants exactly one argument tuple per call (`forall|..| mkdirat_ok(..) <==> ..`): any other call, descriptor, name,
             mode, flag word, size or order has no capability and fails AT the call site.
  objects    `ino_fd(i)` = the O_PATH descriptor InodeData::get_file yields for inode number i; `hd_fd(h, i)` = the descriptor of open handle h
             of inode i; `reopen_fd(i, flags)` = a descriptor obtained by re-opening inode i (no_open mode).  Names are compared by CONTENT
             (`cstr_at(p)` = the C string at pointer p, `CStr::as_ptr` ensures `cstr_at(r) == self@`), /proc paths by `proc_self_fd_path(fd)`.
  results    the ghost token `Host` (rule R23) records, per request, the results of the pinned calls (`rets`: number of the call, return value,
             errno) and the thread's errno; `sys::last_os_error` returns the thread's errno.  Contract of a handler:  nothing performed => the
             reply is an error;  the call failed => the reply is an error carrying exactly that call's errno;  the call succeeded => the reply
             is the prescribed one (the lookup's entry, the kernel's bytes, the count, unit);  never more than the prescribed number of calls.
  credentials  `Host.euid/egid/fsetid`: effective ids / CAP_FSETID of the serving thread.  The real ScopedUid/ScopedGid::new and Drop::drop
             (macro expanded, R50), set_creds (R52), drop_cap_fsetid and CapFsetid::drop are verified against setresuid/setresgid/caps models;
             the drop points Rust inserts implicitly are made explicit by rule R53.  Creating calls require `euid == ctx.uid && egid == ctx.gid`;
             every handler ensures ids and capability are afterwards what they were before (given the serving thread runs as root).

ASSUMPTIONS (all visible in the generated file / assumption scan):
  M1 the `sys` models: a successful call leaves errno untouched, a failing one sets it (errno(3)); buffer-filling calls return the number of bytes
     stored, at most the size passed.  M2 setresuid/setresgid(-1, e, -1): change only the effective id, on success exactly to e; restoring the
     effective id to 0 succeeds (the thread's real id is 0: kernel rule "each id may be set to the current real, effective or saved id") - if it
     could fail the code only logs (mod.rs:964) and the property would be violated.  M3 caps::{has_cap, drop, raise} on the Effective set.
  M4 InodeMap::get(i) yields the InodeData numbered i (InodeStore invariant, unit inodes); HandleMap::get(h, i) the HandleData stored for (h, i)
     (unit handles); InodeData::get_file needs the server's own privileges when the inode is kept as a file handle (open_by_handle_at(2):
     CAP_DAC_READ_SEARCH; capabilities(7): the effective set is cleared when the effective uid leaves 0).
  M5 contract-only here, verified elsewhere or syscall chains: do_lookup (unit ptlookup), validate_path_component (unit pt), seal_size_check (unit seal),
     do_getattr, forget, HandleMap::insert, stat_fd.  M6 rules R50-R56 (vx/ptopsrules.py) preserve meaning; unwinding is not modelled.
"""
import copy
import re

from vx.api import Unit, Fn, Copy, Raw, Group
from vx import flagsmodel, extract as X
from vx import ptopsrules as PR
from vx import ovlrules as OV
from vx.units import ptsize as PTSIZE
from vx.units import handles as HANDLES
from vx.units import pt as PTU

PT = 'src/passthrough/mod.rs'
PTS = 'src/passthrough/sync_io.rs'
UTIL = 'src/passthrough/util.rs'
CFG = 'src/passthrough/config.rs'
FSMOD = 'src/api/filesystem/mod.rs'
ABI = 'src/abi/fuse_abi_linux.rs'
IMPL = 'impl<S: BitmapSlice + Send + Sync> PassthroughFs<S>'
FSIMPL = 'impl<S: BitmapSlice + Send + Sync> FileSystem for PassthroughFs<S>'

TOK = dict(param='Tracked(hs): Tracked<&mut Host>', arg='Tracked(hs)')

# ---- the host calls: (name, parameters, return type, number).  Each gets `requires <name>_ok(args)` (capability) unless listed in NOCAP,
# and `ensures step(old, final, nr, r)`.
SYSCALLS = [
    ('mkdirat', 'dirfd: i32, path: *const i8, mode: u32', 'i32', 1, 'dirfd, cstr_at(path), mode, old(hs).euid, old(hs).egid'),
    ('mknodat', 'dirfd: i32, path: *const i8, mode: u32, dev: u64', 'i32', 2, 'dirfd, cstr_at(path), mode, dev, old(hs).euid, old(hs).egid'),
    ('symlinkat', 'target: *const i8, newdirfd: i32, linkpath: *const i8', 'i32', 3, 'cstr_at(target), newdirfd, cstr_at(linkpath), old(hs).euid, old(hs).egid'),
    ('linkat', 'olddirfd: i32, oldpath: *const i8, newdirfd: i32, newpath: *const i8, flags: i32', 'i32', 4, 'olddirfd, cstr_at(oldpath), newdirfd, cstr_at(newpath), flags'),
    ('unlinkat', 'dirfd: i32, path: *const i8, flags: i32', 'i32', 5, 'dirfd, cstr_at(path), flags'),
    ('renameat2', 'olddirfd: i32, oldpath: *const i8, newdirfd: i32, newpath: *const i8, flags: u32', 'i64', 6, 'olddirfd, cstr_at(oldpath), newdirfd, cstr_at(newpath), flags'),
    ('fsync', 'fd: i32', 'i32', 9, 'fd'),
    ('fdatasync', 'fd: i32', 'i32', 10, 'fd'),
    ('lseek', 'fd: i32, offset: i64, whence: i32', 'i64', 11, 'fd, offset, whence'),
    ('dup', 'fd: i32', 'i32', 12, 'fd'),
    ('close', 'fd: i32', 'i32', 13, 'fd, old(hs).rets'),
    ('setxattr', 'path: *const i8, name: *const i8, value: &[u8], size: usize, flags: i32', 'i32', 14, 'cstr_at(path), cstr_at(name), value@, size, flags'),
    ('removexattr', 'path: *const i8, name: *const i8', 'i32', 17, 'cstr_at(path), cstr_at(name)'),
    ('fchmod', 'fd: i32, mode: u32', 'i32', 18, 'fd, mode'),
    ('fchmodat', 'dirfd: i32, path: *const i8, mode: u32, flags: i32', 'i32', 19, 'dirfd, cstr_at(path), mode, flags'),
    ('fchownat', 'dirfd: i32, path: *const i8, uid: u32, gid: u32, flags: i32', 'i32', 20, 'dirfd, cstr_at(path), uid, gid, flags'),
    ('futimens', 'fd: i32, times: &[libc::timespec; 2]', 'i32', 21, 'fd, times[0].tv_sec, times[0].tv_nsec, times[1].tv_sec, times[1].tv_nsec'),
    ('utimensat', 'dirfd: i32, path: *const i8, times: &[libc::timespec; 2], flags: i32', 'i32', 22, 'dirfd, cstr_at(path), times[0].tv_sec, times[0].tv_nsec, times[1].tv_sec, times[1].tv_nsec, flags'),
    ('ftruncate', 'fd: i32, length: i64', 'i32', 23, 'fd, length'),
    ('fallocate64', 'fd: i32, mode: i32, offset: i64, len: i64', 'i32', 24, 'fd, mode, offset, len'),
    ('openat', 'dirfd: i32, path: *const i8, flags: i32, mode: u32', 'i32', 26, 'dirfd, cstr_at(path), flags, mode, old(hs).euid, old(hs).egid'),
]
# the name arguments of the calls that create, remove, rename or link a NAME given by the client: they must have passed the name gate
GATED = {'mkdirat': ['path'], 'mknodat': ['path'], 'symlinkat': ['linkpath'], 'linkat': ['newpath'], 'unlinkat': ['path'], 'renameat2': ['oldpath', 'newpath'], 'openat': ['path']}
# calls that fill a caller-supplied buffer: the bytes stored are `pending` of the token
BUFCALLS = [
    ('readlinkat', 'dirfd: i32, path: *const i8, buf: &mut Vec<u8>, bufsiz: usize', 'isize', 7, 'dirfd, cstr_at(path), bufsiz', 'bufsiz'),
    ('getxattr', 'path: *const i8, name: *const i8, buf: &mut Vec<u8>, size: usize', 'isize', 15, 'cstr_at(path), cstr_at(name), size', 'size'),
    ('listxattr', 'path: *const i8, buf: &mut Vec<u8>, size: usize', 'isize', 16, 'cstr_at(path), size', 'size'),
]
NR = dict((n, nr) for (n, _p, _r, nr, _a) in SYSCALLS)
NR.update(dict((n, nr) for (n, _p, _r, nr, _a, _s) in BUFCALLS))
NR['fstatvfs64'] = 8
NR['openat3'] = 27
NR['fcntl'] = 25
NR['write_from'] = 30
NR['read_to'] = 31
ALL_SYS = sorted(NR.keys() - {'write_from', 'read_to'}) + ['setresuid', 'setresgid', 'vec_set_len', 'last_os_error']


def _argtypes(params):
    out = []
    for p in X.split_top(params):
        p = p.strip()
        if p:
            out.append(p.split(':', 1)[1].strip())
    return out


def _cap_types(name, capargs, params):
    """types of the capability predicate's parameters, derived from the expression list"""
    ty = dict((p.split(':')[0].strip(), p.split(':', 1)[1].strip()) for p in X.split_top(params) if p.strip())
    out = []
    for a in X.split_top(capargs):
        a = a.strip()
        if a.startswith('cstr_at(') or a == 'value@':
            out.append('Seq<u8>')
        elif a.startswith('old(hs).e'):
            out.append('u32')
        elif a.startswith('times['):
            out.append('i64')
        elif a == 'old(hs).rets':
            out.append('Seq<Ret>')
        else:
            out.append(ty[a])
    return out


def sys_module():
    L = ['pub mod sys {', '    use super::*;']
    caps = []
    for (n, params, ret, nr, capargs) in SYSCALLS:
        tys = _cap_types(n, capargs, params)
        caps.append('pub uninterp spec fn %s_ok(%s) -> bool;' % (n, ', '.join('a%d: %s' % (i, t) for i, t in enumerate(tys))))
        L.append('    #[verifier::external_body] pub fn %s(%s, Tracked(hs): Tracked<&mut Host>) -> (r: %s)' % (n, params, ret))
        L.append('        requires %s_ok(%s), // [C05.hostcall.%s] only the call the request prescribes, with exactly its arguments' % (n, capargs, n))
        for gp in GATED.get(n, ()):
            # C06: "every operation that creates, removes, renames or links a name also rejects "." and ".." [and "/"] before any backend is touched"
            L.append('            gated(cstr_at(%s)), // [C06.gate.%s] the name this call creates / removes / renames / links has passed validate_path_component' % (gp, n))
        L.append('        ensures step(*old(hs), *final(hs), %d, r as int), final(hs).pending == old(hs).pending' % nr)
        L.append('    { unimplemented!() }')
    for (n, params, ret, nr, capargs, size) in BUFCALLS:
        tys = _cap_types(n, capargs, params)
        caps.append('pub uninterp spec fn %s_ok(%s) -> bool;' % (n, ', '.join('a%d: %s' % (i, t) for i, t in enumerate(tys))))
        L.append('    #[verifier::external_body] pub fn %s(%s, Tracked(hs): Tracked<&mut Host>) -> (r: %s)' % (n, params, ret))
        L.append('        requires %s_ok(%s), // [C05.hostcall.%s] only the call the request prescribes, with exactly its arguments' % (n, capargs, n))
        L.append('        ensures step(*old(hs), *final(hs), %d, r as int), r >= 0 ==> final(hs).pending.len() == r && r <= %s, final(buf)@ == old(buf)@' % (nr, size))
        L.append('    { unimplemented!() }')
    L.append(r'''    // fstatvfs64(fd, &mut out): on success the cell holds what the kernel reports for the file system of fd
    #[verifier::external_body] pub fn fstatvfs64(fd: i32, buf: &mut MaybeUninit<statvfs64>, Tracked(hs): Tracked<&mut Host>) -> (r: i32)
        requires fstatvfs64_ok(fd), // [C05.hostcall.fstatvfs64]
        ensures step(*old(hs), *final(hs), 8, r as int), final(hs).pending == old(hs).pending, r == 0 ==> final(buf).val() == res_statvfs(fd)
    { unimplemented!() }
    // fcntl(fd, F_SETFL, flags): applies the request's status flags to the descriptor; not one of the request's pinned calls
    #[verifier::external_body] pub fn fcntl(fd: i32, cmd: i32, arg: u32, Tracked(hs): Tracked<&mut Host>) -> (r: i32)
        requires fcntl_ok(fd, cmd, arg), // [C05.hostcall.fcntl]
        ensures quiet(*old(hs), *final(hs), r >= 0)
    { unimplemented!() }
    // openat without a mode (open(2): the mode argument is only used with O_CREAT / O_TMPFILE)
    #[verifier::external_body] pub fn openat3(dirfd: i32, path: *const i8, flags: i32, Tracked(hs): Tracked<&mut Host>) -> (r: i32)
        requires openat3_ok(dirfd, cstr_at(path), flags, old(hs).euid, old(hs).egid), // [C05.hostcall.openat3]
        ensures step(*old(hs), *final(hs), 27, r as int), final(hs).pending == old(hs).pending
    { unimplemented!() }
    // setresuid(-1, e, -1) / setresgid(-1, e, -1) through syscall(2) (per-thread): only the effective id may be named; on success it is e.
    // Going back to 0 cannot fail (M2).  Not counted among the request's pinned calls.
    #[verifier::external_body] pub fn setresuid(ruid: i32, euid: u32, suid: i32, Tracked(hs): Tracked<&mut Host>) -> (r: i64)
        requires ruid == -1 && suid == -1, // [C05.creds.effective_only] real and saved ids are never touched
                 setresuid_ok(euid), // [C05.hostcall.setresuid]
        ensures r == 0 || r == -1, r == 0 ==> final(hs).euid == euid && final(hs).errno == old(hs).errno, r != 0 ==> final(hs).euid == old(hs).euid,
                euid == 0 ==> r == 0, final(hs).egid == old(hs).egid, final(hs).fsetid == old(hs).fsetid, final(hs).rets == old(hs).rets, final(hs).pending == old(hs).pending
    { unimplemented!() }
    #[verifier::external_body] pub fn setresgid(rgid: i32, egid: u32, sgid: i32, Tracked(hs): Tracked<&mut Host>) -> (r: i64)
        requires rgid == -1 && sgid == -1, // [C05.creds.effective_only]
                 setresgid_ok(egid), // [C05.hostcall.setresgid]
        ensures r == 0 || r == -1, r == 0 ==> final(hs).egid == egid && final(hs).errno == old(hs).errno, r != 0 ==> final(hs).egid == old(hs).egid,
                egid == 0 ==> r == 0, final(hs).euid == old(hs).euid, final(hs).fsetid == old(hs).fsetid, final(hs).rets == old(hs).rets, final(hs).pending == old(hs).pending
    { unimplemented!() }
    // unsafe { buf.set_len(n) } after a buffer-filling call stored n bytes: the vector is exactly what the kernel wrote
    #[verifier::external_body] pub fn vec_set_len(buf: &mut Vec<u8>, n: usize, Tracked(hs): Tracked<&mut Host>)
        requires n == old(hs).pending.len(), // [C05.buf.set_len] the length taken is the number of bytes the kernel stored
        ensures *final(hs) == *old(hs), final(buf)@ == old(hs).pending
    { unimplemented!() }
    #[verifier::external_body] pub fn last_os_error(Tracked(hs): Tracked<&mut Host>) -> (r: io::Error)
        ensures *final(hs) == *old(hs), r.os_code() == Some(old(hs).errno),
                r.skind() == io::ErrorKind::AlreadyExists <==> old(hs).errno == 17      // std decode_error_kind: EEXIST is the only AlreadyExists
    { unimplemented!() }
}''')
    caps.append('pub uninterp spec fn fstatvfs64_ok(fd: i32) -> bool;')
    caps.append('pub uninterp spec fn fcntl_ok(fd: i32, cmd: i32, arg: u32) -> bool;')
    caps.append('pub uninterp spec fn openat3_ok(dirfd: i32, path: Seq<u8>, flags: i32, euid: u32, egid: u32) -> bool;')
    caps.append('pub uninterp spec fn setresuid_ok(e: u32) -> bool;')
    caps.append('pub uninterp spec fn setresgid_ok(e: u32) -> bool;')
    return '\n'.join(caps) + '\n' + '\n'.join(L) + '\n'


def _slice(text, start, end, what):
    a = text.find(start)
    b = text.find(end, a + 1) if a >= 0 else -1
    if a < 0 or b < 0:
        raise X.ExtractError('model text %s not found (markers %r .. %r)' % (what, start, end))
    return text[a:b]


# ---- imported models (not copied): host objects of unit ptsize, OpenOptions helpers of unit handles
PTSIZE_HOST = _slice(PTSIZE.PRE, 'pub type Inode = u64;', 'pub uninterp spec fn host_size(fd: i32) -> i64;', 'host objects (vx/units/ptsize.py)')
PTSIZE_SEAL = _slice(PTSIZE.PRE, '    // the arithmetic gate: contract proved on the real text in unit `seal`', '}\n#[verifier::external_body] pub fn fmt_opaque', 'seal_size_check (vx/units/ptsize.py)')
PTSIZE_TAIL = _slice(PTSIZE.PRE, '#[verifier::external_body] pub fn fmt_opaque', '// ---- C18 as capabilities', 'fmt_opaque/hasf/empty_cstr/seal_keeps_size (vx/units/ptsize.py)')
_EC = "pub fn empty_cstr() -> (r: &'static CStr) { unimplemented!() }"
if PTSIZE_TAIL.count(_EC) != 1:
    raise X.ExtractError('model text empty_cstr not found in vx/units/ptsize.py')
PTSIZE_TAIL = PTSIZE_TAIL.replace(_EC, "pub fn empty_cstr() -> (r: &'static CStr) ensures r@ =~= Seq::<u8>::empty() { unimplemented!() }     // b\"\\0\": the empty C string (ensures added by unit ptops)")
HANDLES_OPENOPTS = _slice(HANDLES.PRE_PT, 'impl OpenOptions {', '// the inode a descriptor was opened on', 'OpenOptions::set / BitOrAssign (vx/units/handles.py)')

PRE = r'''
// ===== imported from unit ptsize: File / BorrowedFd / AsRawFd (a descriptor is known by its number), md_new, File::from_raw_fd
''' + PTSIZE_HOST + r'''pub uninterp spec fn host_size(fd: i32) -> i64;            // st_size of the file behind the descriptor (fstat)
// ===== the serving thread's host state as THIS request sees it (ghost token, rule R23)
pub ghost struct Ret { pub nr: int, pub ret: int, pub errno: i32 }
pub tracked struct Host {
    pub ghost euid: u32, pub ghost egid: u32,       // effective ids of the serving thread
    pub ghost fsetid: bool,                          // CAP_FSETID in the thread's effective set
    pub ghost errno: i32,                            // the thread's errno
    pub ghost rets: Seq<Ret>,                        // the request's pinned host calls so far: which, return value, errno it left
    pub ghost pending: Seq<u8>,                      // bytes the last buffer-filling call stored in the caller's buffer
}
// a pinned host call: ids untouched, result recorded; a successful call leaves errno alone (errno(3)), a failing one sets it
pub open spec fn step(o: Host, n: Host, nr: int, r: int) -> bool {
    n.euid == o.euid && n.egid == o.egid && n.fsetid == o.fsetid
    && n.rets == o.rets.push(Ret { nr, ret: r, errno: n.errno }) && (r >= 0 ==> n.errno == o.errno)
}
pub open spec fn same_creds(o: Host, n: Host) -> bool { n.euid == o.euid && n.egid == o.egid && n.fsetid == o.fsetid }
// a helper that performs no pinned call: on success nothing changes, on failure only errno may
pub open spec fn quiet(o: Host, n: Host, ok: bool) -> bool { same_creds(o, n) && n.rets == o.rets && n.pending == o.pending && (ok ==> n.errno == o.errno) }
// "the serving thread's credentials and capabilities": a worker thread of the server runs as root with CAP_FSETID raised or not
pub open spec fn root_thread(h: Host) -> bool { h.euid == 0 && h.egid == 0 }
// reply of a handler whose prescribed host call is call number `nr`, performed at most once
pub open spec fn one_call(o: Host, n: Host, nr: int) -> bool {
    o.rets.len() == 0 && n.rets.len() <= 1 && (n.rets.len() == 1 ==> n.rets[0].nr == nr)
}
pub open spec fn failed_with<T>(r: io::Result<T>, c: Ret) -> bool { r is Err && r->Err_0.os_code() == Some(c.errno) }

// ===== names and paths by content
pub uninterp spec fn gated(name: Seq<u8>) -> bool;                // this name has passed PassthroughFs::validate_path_component (C06)
pub uninterp spec fn cstr_at(p: *const i8) -> Seq<u8>;          // the C string stored at p (the bytes before the terminating NUL)
impl CStr { #[verifier::external_body] pub fn as_ptr(&self) -> (r: *const i8) ensures cstr_at(r) == self@ { unimplemented!() } }
#[verifier::external_body] pub struct CString { _p: u8 }
#[verifier::external_body] #[derive(Debug)] pub struct NulError { _p: u8 }
pub uninterp spec fn str_bytes(s: String) -> Seq<u8>;
pub uninterp spec fn proc_self_fd_path(fd: i32) -> Seq<u8>;      // "/proc/self/fd/<fd>"
pub uninterp spec fn decimal(fd: i32) -> Seq<u8>;                // "<fd>"
impl CString {
    pub uninterp spec fn view(&self) -> Seq<u8>;
    #[verifier::external_body] pub fn new(s: String) -> (r: core::result::Result<CString, NulError>) ensures r is Ok ==> r->Ok_0@ == str_bytes(s) { unimplemented!() }
    #[verifier::external_body] pub fn as_ptr(&self) -> (r: *const i8) ensures cstr_at(r) == self@ { unimplemented!() }
}
#[verifier::external_body] pub fn vx_fmt_proc_self_fd(fd: i32) -> (r: String) ensures str_bytes(r) == proc_self_fd_path(fd) { unimplemented!() }
#[verifier::external_body] pub fn vx_fmt_display(fd: i32) -> (r: String) ensures str_bytes(r) == decimal(fd) { unimplemented!() }
impl io::Error {
    #[verifier::external_body] pub fn new_nul(kind: io::ErrorKind, e: NulError) -> (r: io::Error) { unimplemented!() }
    #[verifier::external_body] pub fn new_str(kind: io::ErrorKind, msg: &str) -> (r: io::Error) ensures r.skind() == kind { unimplemented!() }
}
// std::mem::MaybeUninit<T> used as an out-parameter: `val` is what the cell holds once the kernel has filled it
#[verifier::external_body] #[verifier::reject_recursive_types(T)] pub struct MaybeUninit<T> { _p: PhantomData<T> }
impl<T> MaybeUninit<T> {
    pub uninterp spec fn val(&self) -> T;
    #[verifier::external_body] pub fn zeroed() -> (r: Self) { unimplemented!() }
    #[verifier::external_body] pub fn assume_init(self) -> (r: T) ensures r == self.val() { unimplemented!() }
}
pub uninterp spec fn res_statvfs(fd: i32) -> statvfs64;          // what fstatvfs reports for the file system of fd
pub uninterp spec fn res_fstat(fd: i32) -> io::Result<stat64>;   // fstatat(fd, "", AT_EMPTY_PATH | AT_SYMLINK_NOFOLLOW)
// ===== the objects a request names
pub uninterp spec fn ino_fd(i: Inode) -> i32;                    // the O_PATH descriptor InodeData::get_file yields for inode number i
pub uninterp spec fn hd_fd(h: Handle, i: Inode) -> i32;          // the descriptor of open handle h of inode i
pub uninterp spec fn reopen_fd(i: Inode, flags: i32) -> i32;     // a descriptor from re-opening inode i with `flags`
''' + sys_module() + r'''
// stat_fd(fd, None) = fstat of the descriptor itself (not a pinned call of any request but access)
#[verifier::external_body]
pub fn stat_fd<D: AsRawFd>(dir: &D, path: Option<&CStr>) -> (r: io::Result<stat64>)
    ensures path is None ==> r == res_fstat(dir.sfd()),
            r is Ok && path is None ==> r->Ok_0.st_size == host_size(dir.sfd()) && r->Ok_0.st_size >= 0
{ unimplemented!() }
pub uninterp spec fn hd_rec_ok(inode: Inode, flags: u32) -> bool;
// ---- HandleData: an open descriptor and the flags word last applied to it (the append-mode bookkeeping of C18 lives in unit ptsize)
#[verifier::external_body] pub struct HandleData { _p: u8 }
impl HandleData {
    pub uninterp spec fn hfd(&self) -> i32;
    #[verifier::external_body] pub fn borrow_fd(&self) -> (r: BorrowedFd<'_>) ensures r.sfd() == self.hfd() { unimplemented!() }
    #[verifier::external_body] pub fn get_flags(&self) -> (r: u32) { unimplemented!() }
    #[verifier::external_body] pub fn set_flags(&self, flags: u32) { unimplemented!() }
    pub uninterp spec fn rec_inode(&self) -> Inode;
    pub uninterp spec fn rec_flags(&self) -> u32;
    #[verifier::external_body] pub fn new(inode: Inode, file: File, flags: u32) -> (r: HandleData) ensures r.hfd() == file.sfd(), r.rec_inode() == inode, r.rec_flags() == flags { unimplemented!() }
    #[verifier::external_body] pub fn get_file_mut(&self) -> (r: (MutexGuard<()>, &File)) ensures r.1.sfd() == self.hfd() { unimplemented!() }
}
// ---- the data streams: write_from() preads from the file into the reply, read_to() pwrites the request payload to the file
pub uninterp spec fn host_read_ok(fd: i32, count: usize, off: u64) -> bool;
pub uninterp spec fn host_write_ok(fd: i32, count: usize, off: u64) -> bool;
pub uninterp spec fn res_stream(nr: int, fd: i32, count: usize, off: u64) -> io::Result<usize>;
pub trait ZeroCopyWriter {
    fn write_from(&mut self, f: &mut File, count: usize, off: u64, Tracked(hs): Tracked<&mut Host>) -> (r: io::Result<usize>)
        requires host_read_ok(old(f).sfd(), count, off), // [C05.hostcall.pread]
        ensures r == res_stream(30, old(f).sfd(), count, off), same_creds(*old(hs), *final(hs)),
                final(hs).rets == old(hs).rets.push(Ret { nr: 30, ret: if r is Ok { 0int } else { -1int }, errno: final(hs).errno }),
    ;
}
pub trait ZeroCopyReader {
    fn read_to(&mut self, f: &mut File, count: usize, off: u64, Tracked(hs): Tracked<&mut Host>) -> (r: io::Result<usize>)
        requires host_write_ok(old(f).sfd(), count, off), // [C05.hostcall.pwrite]
        ensures r == res_stream(31, old(f).sfd(), count, off), same_creds(*old(hs), *final(hs)),
                final(hs).rets == old(hs).rets.push(Ret { nr: 31, ret: if r is Ok { 0int } else { -1int }, errno: final(hs).errno }),
    ;
}
// ---- inodes: number, file type, and whether the object is kept as a file handle (`InodeHandle::Handle`, cfg.inode_file_handles) or as an O_PATH fd
pub struct InodeData { pub inode: Inode, pub mode: u32, pub by_handle: bool }
#[verifier::external_body] pub struct InodeFile<'a> { _p: PhantomData<&'a u8> }
impl<'a> AsRawFd for InodeFile<'a> {
    uninterp spec fn sfd(&self) -> i32;
    #[verifier::external_body] fn as_raw_fd(&self) -> (r: RawFd) { unimplemented!() }
}
pub uninterp spec fn reopen_ok(inode: Inode, mode: u32, flags: i32) -> bool;
impl InodeData {
    // InodeHandle::get_file: the stored O_PATH descriptor, or open_by_handle_at(mount fd, handle, O_PATH) - which needs CAP_DAC_READ_SEARCH (M4)
    #[verifier::external_body] pub fn get_file(&self, Tracked(hs): Tracked<&mut Host>) -> (r: io::Result<InodeFile<'_>>)
        requires self.by_handle ==> old(hs).euid == 0, // [C05.creds.getfile_privileged] an inode kept as a file handle can only be opened with the server's own privileges
        ensures r is Ok ==> r->Ok_0.sfd() == ino_fd(self.inode), quiet(*old(hs), *final(hs), r is Ok)
    { unimplemented!() }
    // InodeHandle::open_file: reopen_fd_through_proc(fd, flags) or open_by_handle_at(.., flags)
    #[verifier::external_body] pub fn open_file(&self, flags: i32, proc_self_fd: &File, Tracked(hs): Tracked<&mut Host>) -> (r: io::Result<File>)
        requires reopen_ok(self.inode, self.mode, flags), // [C05.hostcall.reopen] re-open for I/O: only the inode and flag word the request prescribes
                 self.by_handle ==> old(hs).euid == 0, // [C05.creds.reopen_privileged] an inode kept as a file handle can only be re-opened with the server's own privileges
        ensures r is Ok ==> r->Ok_0.sfd() == reopen_fd(self.inode, flags), quiet(*old(hs), *final(hs), r is Ok)
    { unimplemented!() }
}
#[verifier::external_body] pub struct InodeMap { _p: u8 }
impl InodeMap {
    pub uninterp spec fn by_handle(&self, inode: Inode) -> bool;        // inode `inode` is kept as a file handle
    #[verifier::external_body] pub fn get(&self, inode: Inode) -> (r: io::Result<Arc<InodeData>>)
        ensures r is Ok ==> r->Ok_0.inode == inode && r->Ok_0.by_handle == self.by_handle(inode) { unimplemented!() }
}
#[verifier::external_body] pub struct HandleMap { _p: u8 }
impl HandleMap {
    #[verifier::external_body] pub fn get(&self, handle: Handle, inode: Inode) -> (r: io::Result<Arc<HandleData>>) ensures r is Ok ==> r->Ok_0.hfd() == hd_fd(handle, inode) { unimplemented!() }
    // what an open handle REMEMBERS: the inode and the flag word the CLIENT opened it with (check_fd_flags compares later requests' flags with it and
    // switches the descriptor's mode on a difference: a record of other flags makes e.g. the first WRITE of an O_APPEND handle under writeback put
    // the descriptor into append mode - seed C05-f).  Capability: a record may be entered only for the (inode, flags) granted to the caller.
    #[verifier::external_body] pub fn insert(&self, handle: Handle, data: HandleData)
        requires hd_rec_ok(data.rec_inode(), data.rec_flags()), // [C05.handle.record]
    { unimplemented!() }
}
#[verifier::external_body] pub struct AtomicU64 { _p: u8 }
impl AtomicU64 { #[verifier::external_body] pub fn fetch_add(&self, n: u64, o: Ordering) -> (r: u64) { unimplemented!() } }
pub struct PassthroughFs<S> { pub cfg: Config, pub seal_size: AtomicBool, pub writeback: AtomicBool, pub killpriv_v2: AtomicBool, pub no_open: AtomicBool, pub no_opendir: AtomicBool,
    pub proc_self_fd: File, pub inode_map: InodeMap, pub handle_map: HandleMap, pub next_handle: AtomicU64, pub phantom: PhantomData<S> }
impl<S: BitmapSlice + Send + Sync> PassthroughFs<S> {
    pub open spec fn sealed(&self) -> bool { self.seal_size.cur() }
    // the descriptor a data operation on (handle, inode) works on: the handle's, or - in no_open / no_opendir mode - a re-open of the inode
    pub open spec fn data_fd(&self, handle: Handle, inode: Inode, flags: i32) -> i32 { if self.no_open.cur() { reopen_fd(inode, self.io_flags(flags) | 0o2000000i32) } else { hd_fd(handle, inode) } }
    pub open spec fn dir_fd(&self, handle: Handle, inode: Inode, flags: i32) -> i32 { if self.no_opendir.cur() { reopen_fd(inode, self.io_flags(flags | 0o200000i32) | 0o2000000i32) } else { hd_fd(handle, inode) } }
    // the flag word a re-open for I/O uses: the writeback adjustment (get_writeback_open_flags) and O_DIRECT cleared unless allowed
    pub open spec fn wb_flags(&self, flags: i32) -> i32 {
        let a = if self.writeback.cur() && flags & 3i32 == 1i32 { (flags & !3i32) | 2i32 } else { flags };
        if self.writeback.cur() && flags & 0o2000i32 != 0 { a & !0o2000i32 } else { a }
    }
    pub open spec fn io_flags(&self, flags: i32) -> i32 {
        if !self.cfg.allow_direct_io && flags & 0o40000i32 != 0 { self.wb_flags(flags) & !0o40000i32 } else { self.wb_flags(flags) }
    }
    // do_lookup is a chain of system calls (unit ptlookup): capability in, uninterpreted result out
    pub uninterp spec fn do_lookup_ok(&self, parent: Inode, name: Seq<u8>) -> bool;
    pub uninterp spec fn res_do_lookup(&self, parent: Inode, name: Seq<u8>) -> io::Result<Entry>;
    #[verifier::external_body] fn do_lookup(&self, parent: Inode, name: &CStr) -> (r: io::Result<Entry>)
        requires self.do_lookup_ok(parent, name@), // [C05.hostcall.lookup]
        ensures r == self.res_do_lookup(parent, name@) { unimplemented!() }
    pub uninterp spec fn res_do_getattr(&self, inode: Inode, handle: Option<Handle>) -> io::Result<(stat64, Duration)>;
    #[verifier::external_body] fn do_getattr(&self, inode: Inode, handle: Option<Handle>) -> (r: io::Result<(stat64, Duration)>)
        ensures r == self.res_do_getattr(inode, handle) { unimplemented!() }
    #[verifier::external_body] fn validate_path_component(&self, name: &CStr) -> (r: io::Result<()>) ensures r is Ok ==> gated(name@) { unimplemented!() }      // verified in unit pt (what it accepts); here: the only source of `gated`
    #[verifier::external_body] fn forget(&self, ctx: &Context, inode: Inode, count: u64) { unimplemented!() }
''' + PTSIZE_SEAL + r'''}
''' + PTSIZE_TAIL + HANDLES_OPENOPTS + r'''
pub fn drop<T>(_x: T) {}                       // std::mem::drop of a value that is not a credential guard
// ===== the caps crate on the Effective set of the calling thread (M3)
pub mod caps {
    use super::*;
    pub enum CapSet { Effective, Permitted, Inheritable }
    pub enum Capability { CAP_FSETID }
    #[verifier::external_body] pub struct CapsError { _p: u8 }
    pub uninterp spec fn caps_ok(drop_it: bool) -> bool;
    #[verifier::external_body] pub fn has_cap(tid: Option<i32>, s: CapSet, c: Capability, Tracked(hs): Tracked<&mut Host>) -> (r: core::result::Result<bool, CapsError>)
        ensures *final(hs) == *old(hs), r is Ok ==> r->Ok_0 == old(hs).fsetid { unimplemented!() }
    #[verifier::external_body] pub fn drop(tid: Option<i32>, s: CapSet, c: Capability, Tracked(hs): Tracked<&mut Host>) -> (r: core::result::Result<(), CapsError>)
        requires tid is None && s is Effective, // [C05.caps.thread_effective_only]
                 caps_ok(true), // [C05.hostcall.caps_drop]
        ensures final(hs).euid == old(hs).euid, final(hs).egid == old(hs).egid, final(hs).rets == old(hs).rets, final(hs).pending == old(hs).pending,
                r is Ok ==> !final(hs).fsetid, r is Err ==> final(hs).fsetid == old(hs).fsetid { unimplemented!() }
    // raising a capability that is in the permitted set cannot fail (capset(2)); CAP_FSETID was in the effective set, hence is permitted
    #[verifier::external_body] pub fn raise(tid: Option<i32>, s: CapSet, c: Capability, Tracked(hs): Tracked<&mut Host>) -> (r: core::result::Result<(), CapsError>)
        requires tid is None && s is Effective, // [C05.caps.thread_effective_only]
        ensures final(hs).euid == old(hs).euid, final(hs).egid == old(hs).egid, final(hs).rets == old(hs).rets, final(hs).pending == old(hs).pending, final(hs).errno == old(hs).errno,
                r is Ok, final(hs).fsetid { unimplemented!() }
}
pub struct CapFsetid {}
pub struct ScopedUid;
pub struct ScopedGid;
'''

# verified wrappers (NOT assumed): dropping an Option<Guard> runs the guard's destructor iff it is Some (drop glue of Option)
DROPS = r'''
fn vx_drop_uid(g: Option<ScopedUid>, Tracked(hs): Tracked<&mut Host>)
    requires setresuid_ok(0)
    ensures g is Some ==> final(hs).euid == 0 && final(hs).egid == old(hs).egid, g is None ==> same_creds(*old(hs), *final(hs)) && final(hs).euid == old(hs).euid,
            final(hs).egid == old(hs).egid, final(hs).fsetid == old(hs).fsetid, final(hs).rets == old(hs).rets, final(hs).pending == old(hs).pending, final(hs).errno == old(hs).errno
{ match g { Some(x) => { let mut x = x; x.drop(Tracked(hs)); } None => {} } }
fn vx_drop_gid(g: Option<ScopedGid>, Tracked(hs): Tracked<&mut Host>)
    requires setresgid_ok(0)
    ensures g is Some ==> final(hs).egid == 0, g is None ==> final(hs).egid == old(hs).egid,
            final(hs).euid == old(hs).euid, final(hs).fsetid == old(hs).fsetid, final(hs).rets == old(hs).rets, final(hs).pending == old(hs).pending, final(hs).errno == old(hs).errno
{ match g { Some(x) => { let mut x = x; x.drop(Tracked(hs)); } None => {} } }
fn vx_drop_cap(g: Option<CapFsetid>, Tracked(hs): Tracked<&mut Host>)
    ensures g is Some ==> final(hs).fsetid, g is None ==> final(hs).fsetid == old(hs).fsetid,
            final(hs).euid == old(hs).euid, final(hs).egid == old(hs).egid, final(hs).rets == old(hs).rets, final(hs).pending == old(hs).pending, final(hs).errno == old(hs).errno
{ match g { Some(x) => { let mut x = x; x.drop(Tracked(hs)); } None => {} } }
'''

SPEC_SETATTR = r'''
// ---- setattr: which timestamps utimensat(2) is given, per requested field
pub open spec fn ts_ok(bits: u32, now: u32, set: u32, sec: i64, nsec: i64, want_sec: i64, want_nsec: i64) -> bool {
    if hasf(bits, now) { nsec == 0x3fff_ffffi64 } else if hasf(bits, set) { sec == want_sec && nsec == want_nsec } else { nsec == 0x3fff_fffei64 }     // UTIME_NOW / the given time / UTIME_OMIT
}
pub open spec fn want_calls(bits: u32) -> int {
    (if hasf(bits, FATTR_MODE) { 1int } else { 0int }) + (if bits & (FATTR_UID | FATTR_GID) != 0 { 1int } else { 0int })
    + (if hasf(bits, FATTR_SIZE) { 1int } else { 0int }) + (if bits & (FATTR_ATIME | FATTR_MTIME) != 0 { 1int } else { 0int })
}
// ---- access: the class rules PassthroughFs::access applies to the fstat result (see the report: a matching class GRANTS, where access(2) lets the
// first matching class DECIDE; supplementary groups are unknown to the server)
pub open spec fn class_ok(st: stat64, uid: u32, gid: u32, o: u32, g: u32, w: u32) -> bool {
    (st.st_uid == uid && st.st_mode & o != 0) || (st.st_gid == gid && st.st_mode & g != 0) || st.st_mode & w != 0
}
pub open spec fn access_grants(st: stat64, uid: u32, gid: u32, mask: u32) -> bool {
    let m = mask as i32 & (4i32 | 2i32 | 1i32);
    m == 0 || ((m & 4i32 != 0 ==> uid == 0 || class_ok(st, uid, gid, 0o400, 0o040, 0o004))
        && (m & 2i32 != 0 ==> uid == 0 || class_ok(st, uid, gid, 0o200, 0o020, 0o002))
        && (m & 1i32 != 0 ==> (uid == 0 && st.st_mode & 0o111u32 != 0) || class_ok(st, uid, gid, 0o100, 0o010, 0o001)))
}
'''

LIBC_EXTRA = ('pub mod libc {', '''pub mod libc {
    // unit ptops: further libc items of x86_64-linux-gnu
    #[allow(non_camel_case_types)] pub type uid_t = u32;
    #[allow(non_camel_case_types)] pub type gid_t = u32;
    #[allow(non_camel_case_types)] pub type size_t = usize;
    pub const PATH_MAX: i32 = 4096; pub const AT_REMOVEDIR: i32 = 0x200;
    pub const R_OK: i32 = 4; pub const W_OK: i32 = 2; pub const X_OK: i32 = 1; pub const F_OK: i32 = 0;''')


def _common_hooks():
    return [PR.r55_pointer_args, PR.r51_syscalls(sorted(set(NR.keys()) - {'write_from', 'read_to', 'openat3'})),
            PR.r56_token_on(r'\bScoped(?:Uid|Gid)::new\s*\(', 'Tracked(hs)'),
            PR.r56_token_on(r'\bcaps::(?:has_cap|drop|raise)\s*\(', 'Tracked(hs)'),
            PR.r53_scope_drops]


# methods / functions that take the token
TOK_METHODS = ['reopen', 'get_file', 'open_file', 'open_inode', 'get_data', 'get_dirdata', 'check_fd_flags', 'write_from', 'read_to', 'do_unlink', 'do_open']
TOK_PATHS = [n for n in ALL_SYS] + ['create_file_excl', 'drop_cap_fsetid']
TOK_FREE = ['set_creds', 'openat', 'sync_fd', 'drop_cap_fsetid', 'create__reopen']


def F(file, scope, name, **kw):
    """an extracted function of this unit: default property C05, the common hooks, the ghost token"""
    locate = kw.pop('locate', None)
    tok = kw.pop('tok', True)
    hooks = kw.pop('hooks', None)
    kw.setdefault('props', ['C05'])
    kw.setdefault('ret_name', 'res')
    f = Fn(file, scope, name, **kw)
    f.locate = locate or PR.pre_locate(scope, name, [PR.r54_format_keyed])
    f.body_hooks = (hooks or []) + _common_hooks()
    if tok:
        f.rules = ('R23',)
        f.ghost_token = dict(param=TOK['param'], arg=TOK['arg'], callees=TOK_METHODS, path_callees=TOK_PATHS, free_callees=TOK_FREE)
    return f


SIG_STAT = [('attr: libc::stat64', 'attr: stat64'), ('io::Result<(libc::stat64, Duration)>', 'io::Result<(stat64, Duration)>')]
CREDS_KEPT = 'same_creds(*old(hs), *final(hs))'


def _open_inode_clause(root):
    """`[C06.safeopen.reopen]` of unit pt (only regular files and directories are ever re-opened), imported from that unit's Fn and re-stated
    for C05 over this unit's models (inode number + mode instead of the InodeData value), strengthened by the exact flag word"""
    def find(its):
        for it in its:
            if isinstance(it, Group):
                r = find(it.items)
                if r:
                    return r
            elif isinstance(it, Fn) and it.name == 'open_inode':
                return it
    f = find(PTU.unit(root).items)
    cl = [c for c in (f.requires if f else []) if '[C06.safeopen.reopen]' in c]
    if len(cl) != 1 or 'safe_mode(d.mode)' not in cl[0] or 'forall|d: InodeData, f: i32| #[trigger] reopen_ok(d, f) <==> (' not in cl[0]:
        raise X.ExtractError('clause [C06.safeopen.reopen] of unit pt not found in the expected shape')
    c = cl[0].replace('forall|d: InodeData, f: i32| #[trigger] reopen_ok(d, f) <==> (', 'forall|i: Inode, m: u32, f: i32| #[trigger] reopen_ok(i, m, f) <== (i == inode && f == self.io_flags(flags) | 0o2000000i32 && ')
    c = c.replace('safe_mode(d.mode)', 'safe_mode(m)').replace('[C06.safeopen.reopen]', '[C05.open_inode.special_never_reopened] special files are looked up but never opened for I/O (clause of unit pt re-stated)')
    return c


def unit(root='/repo'):
    OPEN_INODE_REQ = _open_inode_clause(root)
    S = 'old(hs).rets.len() == 0'
    R0 = 'final(hs).rets[0]'
    N = 'final(hs).rets.len()'

    def one(op, nr):
        """the shape shared by all one-call handlers: at most this call, nothing performed => error, failed => that errno"""
        return ['%s <= 1 && (%s == 1 ==> %s.nr == %d) // [C05.%s.once] at most the one prescribed host call' % (N, N, R0, nr, op),
                '%s == 0 ==> res is Err // [C05.%s.performed] no success reply without performing the call' % (N, op),
                '%s == 1 && %s.ret < 0 ==> failed_with(res, %s) // [C05.%s.errno] a failing call is answered with exactly its errno' % (N, R0, R0, op),
                '%s // [C05.%s.creds_kept] ids and capabilities of the serving thread are what they were' % (CREDS_KEPT, op)]
    items = [
        Copy(ABI, r'pub enum Opcode\b', prefix='#[repr(u32)]\n#[derive(Clone, Copy)]'),
        Copy(ABI, r'const WRITE_KILL_PRIV\b', make_pub=True),
        Copy(ABI, r'pub const FOPEN_IN_KILL_SUIDGID\b'),
        Copy(ABI, r'pub struct CreateIn\b', prefix='#[derive(Clone, Copy)]'),
        Copy(CFG, r'pub enum CachePolicy\b', prefix='#[derive(Clone, Copy, PartialEq, Eq)]'),
        Copy(CFG, r'pub struct Config\b'),
        Copy(FSMOD, r'pub struct Entry\b', prefix='#[derive(Clone, Copy)]'),
        Copy(FSMOD, r'pub enum GetxattrReply\b'),
        Copy(FSMOD, r'pub enum ListxattrReply\b'),
        Copy('src/api/vfs/mod.rs', r'pub const SLASH_ASCII\b'),
    ] + flagsmodel.items(root, ABI, 'SetattrValid') + flagsmodel.items(root, ABI, 'OpenOptions') + [
        Raw(PRE),
        Fn(UTIL, None, 'ebadf', ensures=['r.os_code() == Some(9i32)'], props=['C05']),
        Fn(UTIL, None, 'eperm', ensures=['r.os_code() == Some(1i32)'], props=['C05']),
        Fn(UTIL, None, 'enosys', ensures=['r.os_code() == Some(38i32)'], props=['C05']),
        Fn(UTIL, None, 'einval', ensures=['r.os_code() == Some(22i32)'], props=['C05']),
        Fn(UTIL, None, 'is_safe_inode', ensures=['r == (mode & 0o170000u32 == 0o100000u32 || mode & 0o170000u32 == 0o040000u32)'], props=['C05']),
    ]
    # ------------------------------------------------------------------------------------------------ namespace operations
    ROOT = 'root_thread(*old(hs)) // the serving thread runs with the server\'s own (root) ids'
    EMPTY = 'Seq::<u8>::empty()'

    def reply(op, cond, what, tag='reply'):
        return '%s == 1 && %s.ret %s ==> %s // [C05.%s.%s]' % (N, R0, cond, what, op, tag)
    G_HELP = Group(IMPL + ' {', [
        F(PTS, IMPL, 'do_unlink', canary=True,
          requires=[S, ROOT, 'unlinkat_ok(ino_fd(parent), name@, flags) // [C05.do_unlink.call] unlinkat(parent fd, name, flags)',
                    'gated(name@) // [C06.gate.do_unlink] unlink / rmdir have put the name through the gate'],
          ensures=one('do_unlink', NR['unlinkat']) + [reply('do_unlink', '== 0', 'res is Ok')]),
        F(PT, IMPL, 'get_writeback_open_flags', tok=False, ret_name='r',
          ensures=['r == self.wb_flags(flags) // [C05.open.wbflags] the writeback adjustment: O_WRONLY -> O_RDWR, O_APPEND cleared, nothing else']),
        F(PTS, IMPL, 'open_inode', canary=True,
          # "special files are looked up but never opened for I/O" - the clause of unit pt ([C06.safeopen.reopen]) re-stated for C05, with the exact flag word
          requires=['self.inode_map.by_handle(inode) ==> old(hs).euid == 0 // [C05.creds.reopen_privileged] an inode kept as a file handle can only be re-opened (open_by_handle_at) with the server\'s own privileges', OPEN_INODE_REQ],
          splices=[('^', 'after', 'proof { assert(forall|a: i32| #![auto] (a | 0o2000000i32) & 0o2000000i32 != 0) by (bit_vector); }')],
          ensures=['res is Ok ==> res->Ok_0.sfd() == reopen_fd(inode, self.io_flags(flags) | 0o2000000i32)', 'quiet(*old(hs), *final(hs), res is Ok)']),
        F(PTS, IMPL, 'check_fd_flags', canary=True,
          requires=['fcntl_ok(fd, 4, flags) // [C05.fdflags.call] fcntl(fd, F_SETFL, the request\'s flags)'],
          ensures=['quiet(*old(hs), *final(hs), res is Ok)']),
        F(PTS, IMPL, 'get_data', canary=True,
          requires=[ROOT, 'self.no_open.cur() ==> forall|m: u32| safe_mode(m) ==> #[trigger] reopen_ok(inode, m, self.io_flags(flags) | 0o2000000i32) // [C05.get_data.reopen]'],
          ensures=['res is Ok ==> res->Ok_0.hfd() == self.data_fd(handle, inode, flags) // [C05.get_data.fd] the handle\'s descriptor, or a re-open of the inode in no_open mode',
                   'quiet(*old(hs), *final(hs), res is Ok)']),
        F(PTS, IMPL, 'get_dirdata', canary=True,
          requires=[ROOT, 'self.no_opendir.cur() ==> forall|m: u32| safe_mode(m) ==> #[trigger] reopen_ok(inode, m, self.io_flags(flags | 0o200000i32) | 0o2000000i32) // [C05.get_dirdata.reopen]'],
          ensures=['res is Ok ==> res->Ok_0.hfd() == self.dir_fd(handle, inode, flags) // [C05.get_dirdata.fd]', 'quiet(*old(hs), *final(hs), res is Ok)']),
        F(PTS, IMPL, 'do_open', canary=True,
          requires=[ROOT, '(self.killpriv_v2.cur() && fuse_flags & FOPEN_IN_KILL_SUIDGID != 0) ==> caps::caps_ok(true)', 'forall|m: u32| safe_mode(m) ==> #[trigger] reopen_ok(inode, m, self.io_flags(flags as i32) | 0o2000000i32) // [C05.do_open.call] re-open of the inode with the writeback-adjusted flags | O_CLOEXEC; regular files and directories only', 'hd_rec_ok(inode, flags) // [C05.do_open.record] the handle remembers the flags as given'],
          ensures=['final(hs).rets == old(hs).rets', '%s // [C05.do_open.creds_kept] CAP_FSETID dropped for FOPEN_IN_KILL_SUIDGID is raised again on every path' % CREDS_KEPT]),
    ])
    SYNC_REQ = lambda fd: ['datasync ==> fdatasync_ok(%s) // [C05.fsync.call_data] fdatasync iff datasync' % fd,
                           '!datasync ==> fsync_ok(%s) // [C05.fsync.call_full] fsync otherwise' % fd]
    SYNC_ENS = lambda op: ['%s <= 1 && (%s == 1 ==> %s.nr == (if datasync { 10int } else { 9int })) // [C05.%s.once]' % (N, N, R0, op),
                           '%s == 0 ==> res is Err // [C05.%s.performed]' % (N, op),
                           '%s == 1 && %s.ret < 0 ==> failed_with(res, %s) // [C05.%s.errno]' % (N, R0, R0, op),
                           reply(op, '== 0', 'res is Ok'), '%s // [C05.%s.creds_kept]' % (CREDS_KEPT, op)]
    XATTR_OFF = lambda op: '!self.cfg.xattr ==> is_enosys(res) && %s == 0 // [C05.%s.disabled] ENOSYS and no host call when cfg.xattr is off' % (N, op)
    PROC = 'proc_self_fd_path(ino_fd(inode))'
    G_UTIL = [
        F(UTIL, None, 'sync_fd', canary=True, sig_subst=[('fn sync_fd(', 'fn sync_fd<D: AsRawFd>('), ('fd: &impl AsRawFd', 'fd: &D')],
          requires=[S] + SYNC_REQ('fd.sfd()'), ensures=SYNC_ENS('sync_fd')),
    ]
    FS_FNS = [
        F(PTS, FSIMPL, 'unlink', canary=True,
          requires=[S, ROOT, 'unlinkat_ok(ino_fd(parent), name@, 0) // [C05.unlink.call] unlinkat(parent fd, name, 0)'],
          ensures=one('unlink', NR['unlinkat']) + [reply('unlink', '== 0', 'res is Ok')]),
        F(PTS, FSIMPL, 'rmdir', canary=True,
          requires=[S, ROOT, 'unlinkat_ok(ino_fd(parent), name@, 0x200) // [C05.rmdir.call] unlinkat(parent fd, name, AT_REMOVEDIR)'],
          ensures=one('rmdir', NR['unlinkat']) + [reply('rmdir', '== 0', 'res is Ok')]),
        F(PTS, FSIMPL, 'rename', canary=True,
          requires=[S, ROOT, 'renameat2_ok(ino_fd(olddir), oldname@, ino_fd(newdir), newname@, flags) // [C05.rename.call] renameat2(olddir fd, oldname, newdir fd, newname, flags unchanged)'],
          ensures=one('rename', NR['renameat2']) + [reply('rename', '== 0', 'res is Ok')]),
        F(PTS, FSIMPL, 'link', canary=True,
          requires=[S, ROOT, 'self.do_lookup_ok(newparent, newname@)',
                    'linkat_ok(ino_fd(inode), %s, ino_fd(newparent), newname@, 0x1000) // [C05.link.call] linkat(inode fd, "", newparent fd, newname, AT_EMPTY_PATH)' % EMPTY],
          ensures=one('link', NR['linkat']) + [reply('link', '== 0', 'res == self.res_do_lookup(newparent, newname@)')]),
        F(PTS, FSIMPL, 'readlink', canary=True,
          requires=[S, ROOT, 'readlinkat_ok(ino_fd(inode), %s, 4096) // [C05.readlink.call] readlinkat(inode fd, "", buf, PATH_MAX)' % EMPTY],
          ensures=one('readlink', NR['readlinkat']) + [reply('readlink', '>= 0', 'res is Ok && res->Ok_0@ == final(hs).pending', 'bytes') + ' the link target is exactly the bytes the kernel stored']),
        F(PTS, FSIMPL, 'statfs', canary=True, sig_subst=[('io::Result<libc::statvfs64>', 'io::Result<statvfs64>')],
          requires=[S, ROOT, 'fstatvfs64_ok(ino_fd(inode)) // [C05.statfs.call] fstatvfs64(inode fd)'],
          ensures=one('statfs', NR['fstatvfs64']) + [reply('statfs', '== 0', 'res is Ok && res->Ok_0 == res_statvfs(ino_fd(inode))')]),
        F(PTS, FSIMPL, 'flush', canary=True,
          requires=[S, 'dup_ok(hd_fd(handle, inode)) // [C05.flush.call_dup] dup(handle fd)',
                    'forall|d: i32, rs: Seq<Ret>| (rs.len() == 1 && rs[0].nr == 12 && rs[0].ret == d && d >= 0) ==> #[trigger] close_ok(d, rs) // [C05.flush.call_close] close(the descriptor dup returned), nothing else'],
          ensures=['self.no_open.cur() ==> is_enosys(res) && %s == 0 // [C05.flush.no_open]' % N,
                   '%s <= 2 && (%s >= 1 ==> %s.nr == 12) && (%s == 2 ==> final(hs).rets[1].nr == 13) // [C05.flush.once]' % (N, N, R0, N),
                   '%s == 0 ==> res is Err // [C05.flush.performed]' % N,
                   '%s == 1 ==> failed_with(res, %s) // [C05.flush.errno_dup]' % (N, R0),
                   '%s == 2 && final(hs).rets[1].ret < 0 ==> failed_with(res, final(hs).rets[1]) // [C05.flush.errno_close]' % N,
                   '%s == 2 && final(hs).rets[1].ret >= 0 ==> res is Ok // [C05.flush.reply]' % N, '%s // [C05.flush.creds_kept]' % CREDS_KEPT]),
        F(PTS, FSIMPL, 'fsync', canary=True,
          requires=[S, ROOT, 'self.no_open.cur() ==> forall|m: u32| safe_mode(m) ==> #[trigger] reopen_ok(inode, m, self.io_flags(0) | 0o2000000i32)']
                   + SYNC_REQ('self.data_fd(handle, inode, 0)'), ensures=SYNC_ENS('fsync')),
        F(PTS, FSIMPL, 'fsyncdir', canary=True,
          requires=[S, ROOT, 'self.no_opendir.cur() ==> forall|m: u32| safe_mode(m) ==> #[trigger] reopen_ok(inode, m, self.io_flags(0o200000i32) | 0o2000000i32)']
                   + SYNC_REQ('self.dir_fd(handle, inode, 0)'), ensures=SYNC_ENS('fsyncdir'),
          splices=[('^', 'after', 'proof { assert(0i32 | 0o200000i32 == 0o200000i32) by (bit_vector); }')]),
        F(PTS, FSIMPL, 'lseek', canary=True,
          requires=[S, 'lseek_ok(hd_fd(handle, inode), offset as i64, whence as i32) // [C05.lseek.call] lseek(handle fd, offset, whence)'],
          ensures=one('lseek', NR['lseek']) + [reply('lseek', '>= 0', 'res == Ok::<u64, io::Error>(%s.ret as u64)' % R0) + ' the new offset the kernel reports']),
        F(PTS, FSIMPL, 'setxattr', canary=True,
          requires=[S, ROOT, 'setxattr_ok(%s, name@, value@, value@.len() as usize, flags as i32) // [C05.setxattr.call] setxattr("/proc/self/fd/N", name, value, len, flags)' % PROC],
          ensures=one('setxattr', NR['setxattr']) + [XATTR_OFF('setxattr'), reply('setxattr', '== 0', 'res is Ok')]),
        F(PTS, FSIMPL, 'getxattr', canary=True,
          requires=[S, ROOT, 'getxattr_ok(%s, name@, size as usize) // [C05.getxattr.call] getxattr("/proc/self/fd/N", name, buf, size)' % PROC],
          ensures=one('getxattr', NR['getxattr']) + [XATTR_OFF('getxattr'),
                   reply('getxattr', '>= 0 && size == 0', 'res is Ok && res->Ok_0 == GetxattrReply::Count(%s.ret as u32)' % R0, 'count') + ' size 0 = count query',
                   reply('getxattr', '>= 0 && size != 0', '(res is Ok && res->Ok_0 is Value && res->Ok_0->Value_0@ == final(hs).pending)', 'value') + ' exactly the bytes the kernel stored']),
        F(PTS, FSIMPL, 'listxattr', canary=True,
          requires=[S, ROOT, 'listxattr_ok(%s, size as usize) // [C05.listxattr.call] listxattr("/proc/self/fd/N", buf, size)' % PROC],
          ensures=one('listxattr', NR['listxattr']) + [XATTR_OFF('listxattr'),
                   reply('listxattr', '>= 0 && size == 0', 'res is Ok && res->Ok_0 == ListxattrReply::Count(%s.ret as u32)' % R0, 'count'),
                   reply('listxattr', '>= 0 && size != 0', '(res is Ok && res->Ok_0 is Names && res->Ok_0->Names_0@ == final(hs).pending)', 'names')]),
        F(PTS, FSIMPL, 'removexattr', canary=True,
          requires=[S, ROOT, 'removexattr_ok(%s, name@) // [C05.removexattr.call] removexattr("/proc/self/fd/N", name)' % PROC],
          ensures=one('removexattr', NR['removexattr']) + [XATTR_OFF('removexattr'), reply('removexattr', '== 0', 'res is Ok')]),
        F(PTS, FSIMPL, 'fallocate', canary=True,
          requires=[S, ROOT, 'self.no_open.cur() ==> forall|m: u32| safe_mode(m) ==> #[trigger] reopen_ok(inode, m, self.io_flags(2) | 0o2000000i32)',
                    'fallocate64_ok(self.data_fd(handle, inode, 2), mode as i32, offset as i64, length as i64) // [C05.fallocate.call] fallocate64(handle fd, mode, offset, length)'],
          ensures=one('fallocate', NR['fallocate64']) + [reply('fallocate', '== 0', 'res is Ok')]),
        F(PTS, FSIMPL, 'read', canary=True,
          sig_subst=[('fn read(', 'fn read<W: ZeroCopyWriter>('), ('w: &mut dyn ZeroCopyWriter', 'w: &mut W')], body_resub=PTSIZE.MD,
          requires=[S, ROOT, 'self.no_open.cur() ==> forall|m: u32| safe_mode(m) ==> #[trigger] reopen_ok(inode, m, self.io_flags(0) | 0o2000000i32)',
                    'fcntl_ok(self.data_fd(handle, inode, 0), 4, flags)',
                    'host_read_ok(self.data_fd(handle, inode, 0), size as usize, offset) // [C05.read.call] the zero-copy read of `size` bytes at `offset` from the handle\'s descriptor'],
          ensures=['%s <= 1 && (%s == 1 ==> %s.nr == 30) // [C05.read.once]' % (N, N, R0), '%s == 0 ==> res is Err // [C05.read.performed]' % N,
                   '%s == 1 ==> res == res_stream(30, self.data_fd(handle, inode, 0), size as usize, offset) // [C05.read.reply] the reply is the result of that stream call' % N,
                   '%s // [C05.read.creds_kept]' % CREDS_KEPT]),
        F(PTS, FSIMPL, 'write', canary=True,
          sig_subst=[('fn write(', 'fn write<R: ZeroCopyReader>('), ('r: &mut dyn ZeroCopyReader', 'r: &mut R')], body_resub=PTSIZE.MD,
          requires=[S, ROOT, 'self.no_open.cur() ==> forall|m: u32| safe_mode(m) ==> #[trigger] reopen_ok(inode, m, self.io_flags(2) | 0o2000000i32)',
                    'fcntl_ok(self.data_fd(handle, inode, 2), 4, flags)',
                    '(self.killpriv_v2.cur() && fuse_flags & WRITE_KILL_PRIV != 0) ==> caps::caps_ok(true) // [C05.write.killpriv] CAP_FSETID is dropped for the write iff the client asked for it',
                    'host_write_ok(self.data_fd(handle, inode, 2), size as usize, offset) // [C05.write.call] the zero-copy write of `size` bytes at `offset` to the handle\'s descriptor'],
          ensures=['%s <= 1 && (%s == 1 ==> %s.nr == 31) // [C05.write.once]' % (N, N, R0), '%s == 0 ==> res is Err // [C05.write.performed]' % N,
                   '%s == 1 ==> res == res_stream(31, self.data_fd(handle, inode, 2), size as usize, offset) // [C05.write.reply]' % N,
                   '%s // [C05.write.creds_kept] CAP_FSETID dropped for WRITE_KILL_PRIV is raised again' % CREDS_KEPT]),
        F(PTS, FSIMPL, 'open', canary=True,
          requires=[ROOT, 'forall|m: u32| safe_mode(m) ==> #[trigger] reopen_ok(inode, m, self.io_flags(flags as i32) | 0o2000000i32) // [C05.open.call] re-open of the inode with the (writeback-adjusted) flags; special files never',
                    '(self.killpriv_v2.cur() && fuse_flags & FOPEN_IN_KILL_SUIDGID != 0) ==> caps::caps_ok(true) // [C05.open.killpriv] CAP_FSETID is dropped for the open iff the client asked for it', 'hd_rec_ok(inode, flags) // [C05.open.record] the handle remembers the CLIENT\'s flags (not the writeback-adjusted ones)'],
          ensures=['self.no_open.cur() ==> is_enosys(res) // [C05.open.no_open]', '%s // [C05.open.creds_kept]' % CREDS_KEPT]),
        F(PTS, FSIMPL, 'opendir', canary=True,
          requires=[ROOT, 'forall|m: u32| safe_mode(m) ==> #[trigger] reopen_ok(inode, m, self.io_flags((flags | 0o200000u32) as i32) | 0o2000000i32) // [C05.opendir.call] re-open with O_DIRECTORY added',
                    'hd_rec_ok(inode, flags | 0o200000u32) // [C05.opendir.record]'],
          ensures=['self.no_opendir.cur() ==> is_enosys(res) // [C05.opendir.no_opendir]', '%s // [C05.opendir.creds_kept]' % CREDS_KEPT],
          splices=[('^', 'after', 'proof { assert(forall|a: u32| #![auto] 0u32 & a == 0) by (bit_vector); }')]),
    ]
    # ------------------------------------------------------------------------------------------------ credentials
    SAMEREST = 'final(hs).fsetid == old(hs).fsetid && final(hs).rets == old(hs).rets && final(hs).pending == old(hs).pending'

    def scoped(name, idf, other, sysname):
        new = F(PT, 'impl ' + name, 'new', locate=PR.r50_locate('scoped_cred', name, 'impl $name', 'new'), canary=True,
                requires=['%s_ok(val) // [C05.creds.%s.new.call] %s(-1, val, -1): the effective id only, exactly the caller\'s' % (sysname, name, sysname)],
                ensures=['val == 0 ==> res is Ok && res->Ok_0 is None && *final(hs) == *old(hs) // [C05.creds.%s.new.root] a root caller: nothing to switch' % name,
                         'res is Ok && val != 0 ==> res->Ok_0 is Some && final(hs).%s == val // [C05.creds.%s.new.switched]' % (idf, name),
                         'res is Err ==> final(hs).%s == old(hs).%s // [C05.creds.%s.new.err_unchanged]' % (idf, idf, name),
                         'final(hs).%s == old(hs).%s && %s' % (other, other, SAMEREST), 'res is Ok ==> final(hs).errno == old(hs).errno'])
        drop_ = F(PT, 'impl Drop for ' + name, 'drop', locate=PR.r50_locate('scoped_cred', name, 'impl Drop for $name', 'drop'), canary=True,
                  requires=['%s_ok(0) // [C05.creds.%s.drop.call] %s(-1, 0, -1): back to what `new` changed it from' % (sysname, name, sysname)],
                  ensures=['final(hs).%s == 0 // [C05.creds.%s.drop.restored] the effective id is root\'s again' % (idf, name),
                           'final(hs).%s == old(hs).%s && %s && final(hs).errno == old(hs).errno' % (other, other, SAMEREST)])
        return Group('impl %s {' % name, [new, drop_])
    SETRES = lambda uid, gid, op: ['setresuid_ok(%s) && setresuid_ok(0) // [C05.%s.creds_uid] the effective uid is only ever set to the caller\'s or back to 0' % (uid, op),
                                   'setresgid_ok(%s) && setresgid_ok(0) // [C05.%s.creds_gid]' % (gid, op)]
    G_CREDS = [
        scoped('ScopedUid', 'euid', 'egid', 'setresuid'), scoped('ScopedGid', 'egid', 'euid', 'setresgid'),
        Group('impl CapFsetid {', [
            F(PT, 'impl Drop for CapFsetid', 'drop', canary=True,
              ensures=['final(hs).fsetid // [C05.caps.drop.raised] CAP_FSETID is in the effective set again',
                       'final(hs).euid == old(hs).euid && final(hs).egid == old(hs).egid && final(hs).rets == old(hs).rets && final(hs).pending == old(hs).pending && final(hs).errno == old(hs).errno']),
        ]),
        Raw(DROPS),
        F(PT, None, 'drop_cap_fsetid', canary=True,
          requires=['caps::caps_ok(true) // [C05.caps.drop_only_when_asked] CAP_FSETID is dropped only where the request asks for it (kill-priv flags)'],
          ensures=['res is Ok && res->Ok_0 is Some ==> old(hs).fsetid && !final(hs).fsetid // [C05.caps.dropped]',
                   'res is Ok && res->Ok_0 is None ==> !old(hs).fsetid && !final(hs).fsetid // [C05.caps.nothing_to_drop]',
                   'res is Err ==> final(hs).fsetid == old(hs).fsetid',
                   'final(hs).euid == old(hs).euid && final(hs).egid == old(hs).egid && final(hs).rets == old(hs).rets && final(hs).pending == old(hs).pending']),
        F(PT, None, 'set_creds', canary=True, hooks=[lambda b, f: PR.r52_tail_and_then(b, f, guard_drop='vx_drop_gid')],
          requires=['root_thread(*old(hs))'] + SETRES('uid', 'gid', 'set_creds'),
          ensures=['res is Ok ==> final(hs).euid == uid && final(hs).egid == gid // [C05.set_creds.switched] both effective ids are the caller\'s (a root id stays as it is)',
                   'res is Ok ==> (res->Ok_0.0 is Some <==> uid != 0) && (res->Ok_0.1 is Some <==> gid != 0) // [C05.set_creds.guards] a guard exists for exactly the ids that were switched',
                   'res is Err ==> root_thread(*final(hs)) // [C05.set_creds.err_restored] a failed switch leaves the thread as it was',
                   SAMEREST, 'res is Ok ==> final(hs).errno == old(hs).errno']),
    ]

    BITCOMM = 'proof { assert(forall|a: u32, b: u32| #[trigger] (a & b) == b & a) by (bit_vector); }      // `&` commutes: the spelling of a mask does not matter'

    def creating(op, nr, call, ok_cond):
        return dict(requires=[S, ROOT, 'self.do_lookup_ok(parent, name@)'] + SETRES('ctx.uid', 'ctx.gid', op) + [call],
                    ensures=one(op, nr) + [reply(op, ok_cond, 'res == self.res_do_lookup(parent, name@)') + ' the entry the lookup of the new name yields'], canary=True,
                    splices=[('^', 'after', BITCOMM)])
    FS_CREATING = [
        F(PTS, FSIMPL, 'mkdir', **creating('mkdir', NR['mkdirat'], 'mkdirat_ok(ino_fd(parent), name@, mode & !umask, ctx.uid, ctx.gid) // [C05.mkdir.call] mkdirat(parent fd, name, mode & !umask) under the caller\'s ids', '>= 0')),
        F(PTS, FSIMPL, 'mknod', **creating('mknod', NR['mknodat'], 'mknodat_ok(ino_fd(parent), name@, mode & !umask, rdev as u64, ctx.uid, ctx.gid) // [C05.mknod.call] mknodat(parent fd, name, mode & !umask, rdev) under the caller\'s ids', '>= 0')),
        F(PTS, FSIMPL, 'symlink', **creating('symlink', NR['symlinkat'], 'symlinkat_ok(linkname@, ino_fd(parent), name@, ctx.uid, ctx.gid) // [C05.symlink.call] symlinkat(linkname, parent fd, name) under the caller\'s ids', '== 0')),
    ]
    FS_FNS = FS_CREATING + FS_FNS
    items += G_CREDS
    BYFD = '(!self.no_open.cur() && handle is Some)'
    HFD = 'hd_fd(handle->Some_0, inode)'
    TS = lambda fmt: ('forall|s0: i64, n0: i64, s1: i64, n1: i64| ts_ok(valid.bits, FATTR_ATIME_NOW, FATTR_ATIME, s0, n0, attr.st_atime, attr.st_atime_nsec) '
                      '&& ts_ok(valid.bits, FATTR_MTIME_NOW, FATTR_MTIME, s1, n1, attr.st_mtime, attr.st_mtime_nsec) ==> #[trigger] ' + fmt)
    SETATTR = F(PTS, FSIMPL, 'setattr', canary=True, sig_subst=SIG_STAT,
                body_resub=[(r'enum Data \{[^}]*\}', '', 'R20 local item hoisted to module level (Copy item `enum Data`)')],
                requires=[S, ROOT,
                          '%s ==> fchmod_ok(%s, attr.st_mode) // [C05.setattr.chmod_fd] MODE with a handle: fchmod(handle fd, mode)' % (BYFD, HFD),
                          '!%s ==> fchmodat_ok(self.proc_self_fd.sfd(), decimal(ino_fd(inode)), attr.st_mode, 0) // [C05.setattr.chmod_path] MODE without: fchmodat(/proc/self/fd, "N", mode, 0)' % BYFD,
                          'fchownat_ok(ino_fd(inode), %s, if hasf(valid.bits, FATTR_UID) { attr.st_uid } else { 0xffff_ffffu32 }, if hasf(valid.bits, FATTR_GID) { attr.st_gid } else { 0xffff_ffffu32 }, 0x1000i32 | 0x100i32) // [C05.setattr.chown] fchownat(inode fd, "", uid or -1, gid or -1, AT_EMPTY_PATH | AT_SYMLINK_NOFOLLOW)' % EMPTY,
                          '%s ==> ftruncate_ok(%s, attr.st_size) // [C05.setattr.truncate_fd]' % (BYFD, HFD),
                          '!%s ==> ftruncate_ok(reopen_fd(inode, self.io_flags(0o4000i32 | 2i32) | 0o2000000i32), attr.st_size) // [C05.setattr.truncate_path] ftruncate on a re-open of the inode (O_NONBLOCK | O_RDWR)' % BYFD,
                          '!%s ==> forall|m: u32| safe_mode(m) ==> #[trigger] reopen_ok(inode, m, self.io_flags(0o4000i32 | 2i32) | 0o2000000i32)' % BYFD,
                          '(self.killpriv_v2.cur() && hasf(valid.bits, FATTR_KILL_SUIDGID)) ==> caps::caps_ok(true) // [C05.setattr.killpriv]',
                          '%s ==> (%s) // [C05.setattr.utimens_fd] futimens(handle fd, [atime, mtime]) with UTIME_NOW / the given time / UTIME_OMIT per requested field' % (BYFD, TS('futimens_ok(%s, s0, n0, s1, n1)' % HFD)),
                          '!%s ==> (%s) // [C05.setattr.utimens_path] utimensat(/proc/self/fd, "N", [atime, mtime], 0)' % (BYFD, TS('utimensat_ok(self.proc_self_fd.sfd(), decimal(ino_fd(inode)), s0, n0, s1, n1, 0)'))],
                ensures=['res is Ok ==> res == self.res_do_getattr(inode, handle) // [C05.setattr.reply] the attributes as read back',
                         'res is Ok ==> %s == want_calls(valid.bits) // [C05.setattr.all_performed] every requested change (mode / owner / size / times) was passed to the host, nothing else' % N,
                         'forall|k: int| 0 <= k < %s && #[trigger] final(hs).rets[k].ret < 0 ==> k == %s - 1 && failed_with(res, final(hs).rets[k]) // [C05.setattr.errno] the first failing call ends the request with its errno' % (N, N),
                         '%s // [C05.setattr.creds_kept]' % CREDS_KEPT])
    CREATE_PARTS = [
        F(UTIL, None, 'openat', canary=True, sig_subst=[('fn openat(', 'fn openat<D: AsRawFd>('), ('dir_fd: &impl AsRawFd', 'dir_fd: &D')],
          requires=['flags & 0o100i32 == 0o100i32 ==> openat_ok(dir_fd.sfd(), path@, flags, mode, old(hs).euid, old(hs).egid) // [C05.openat.call] openat(dir fd, path, flags, mode) when creating',
                    'flags & 0o100i32 == 0o100i32 ==> gated(path@) // [C06.gate.openat] a creating open is given a name that passed the gate',
                    'flags & 0o100i32 != 0o100i32 ==> openat3_ok(dir_fd.sfd(), path@, flags, old(hs).euid, old(hs).egid) // [C05.openat.call_nomode]'],
          ensures=['final(hs).rets.len() == old(hs).rets.len() + 1 && final(hs).rets.drop_last() == old(hs).rets && final(hs).rets.last().nr == (if flags & 0o100i32 == 0o100i32 { 26int } else { 27int })',
                   'res is Ok <==> final(hs).rets.last().ret >= 0', 'res is Ok ==> res->Ok_0.sfd() == final(hs).rets.last().ret',
                   'res is Err ==> failed_with(res, final(hs).rets.last()) && (res->Err_0.skind() == io::ErrorKind::AlreadyExists <==> final(hs).rets.last().errno == 17) // [C05.openat.errno]',
                   CREDS_KEPT, 'final(hs).pending == old(hs).pending']),
    ]
    G_CREATE = Group(IMPL + ' { // create', [
        F(PT, IMPL, 'create_file_excl', canary=True, sig_subst=[('fn create_file_excl(', 'fn create_file_excl<D: AsRawFd>('), ('dir: &impl AsRawFd', 'dir: &D')],
          requires=['openat_ok(dir.sfd(), pathname@, flags | 0o100i32 | 0o200i32 | 0o400000i32, mode, old(hs).euid, old(hs).egid) // [C05.create_file_excl.call] the creating open: flags | O_CREAT | O_EXCL | O_NOFOLLOW (D28: the kernel ignores O_CREAT | O_EXCL under O_PATH)',
                    'gated(pathname@) // [C06.gate.create_file_excl]'],
          ensures=['final(hs).rets.len() == old(hs).rets.len() + 1 && final(hs).rets.drop_last() == old(hs).rets && final(hs).rets.last().nr == 26',
                   'res is Ok && res->Ok_0 is Some ==> final(hs).rets.last().ret >= 0',
                   'res is Ok && res->Ok_0 is None ==> final(hs).rets.last().ret < 0 && final(hs).rets.last().errno == 17 && flags & 0o200i32 == 0 // [C05.create_file_excl.exists] "exists" is swallowed only for EEXIST without O_EXCL',
                   'res is Err ==> final(hs).rets.last().ret < 0 && failed_with(res, final(hs).rets.last()) // [C05.create_file_excl.errno]',
                   CREDS_KEPT, 'final(hs).pending == old(hs).pending'],
          body_resub=[(r'err\.kind\(\) == io::ErrorKind::AlreadyExists', 'matches!(err.kind(), io::ErrorKind::AlreadyExists)', '`==` of the derived PartialEq of a field-less enum -> matches! (same test; Verus has no specification for the derived eq)')],
          splices=[('^', 'after', 'proof { assert(forall|f: i32| #![auto] (f | 0o100i32 | 0o200i32) & 0o100i32 == 0o100i32) by (bit_vector); assert(forall|f: i32| #![auto] (f | 0o100i32 | 0o200i32 | 0o400000i32) & 0o100i32 == 0o100i32) by (bit_vector); }')]),
        F(PTS, FSIMPL + '#reopen', 'reopen', canary=True,
          locate=OV.r26_locate(FSIMPL, 'create', 'reopen', '&self', ['args: CreateIn', 'ctx: &Context', 'entry: &Entry']),
          requires=[ROOT, 'setresuid_ok(ctx.uid) && setresuid_ok(0) && setresgid_ok(ctx.gid) && setresgid_ok(0)',
                    '(self.killpriv_v2.cur() && args.fuse_flags & FOPEN_IN_KILL_SUIDGID != 0) ==> caps::caps_ok(true)',
                    'forall|m: u32| safe_mode(m) ==> #[trigger] reopen_ok(entry.inode, m, self.io_flags(args.flags as i32) | 0o2000000i32)'],
          ensures=['final(hs).rets == old(hs).rets', CREDS_KEPT + ' // [C05.create.reopen.creds_kept]']),
    ])
    CREATE = F(PTS, FSIMPL, 'create', canary=True, hooks=[OV.r26_parent_hook('reopen', 'self.reopen(args, ctx, &entry')],
               requires=[S, ROOT, 'self.do_lookup_ok(parent, name@)'] + SETRES('ctx.uid', 'ctx.gid', 'create') + [
                   'openat_ok(ino_fd(parent), name@, self.wb_flags(args.flags as i32) | 0o100i32 | 0o200i32 | 0o400000i32, args.mode & !(args.umask & 0o777), ctx.uid, ctx.gid) // [C05.create.call] openat(parent fd, name, writeback-adjusted flags | O_CREAT | O_EXCL, mode & !umask) under the caller\'s ids',
                   '(self.killpriv_v2.cur() && args.fuse_flags & FOPEN_IN_KILL_SUIDGID != 0) ==> caps::caps_ok(true) // [C05.create.killpriv]',
                   'self.res_do_lookup(parent, name@) is Ok ==> hd_rec_ok(self.res_do_lookup(parent, name@)->Ok_0.inode, args.flags) // [C05.create.record] the handle remembers the CLIENT\'s flags for the inode the lookup gave',
                   'self.res_do_lookup(parent, name@) is Ok ==> forall|m: u32| safe_mode(m) ==> #[trigger] reopen_ok(self.res_do_lookup(parent, name@)->Ok_0.inode, m, self.io_flags(args.flags as i32) | 0o2000000i32) // [C05.create.reopen] an existing file is re-opened with the client\'s flags; special files never'],
               ensures=['%s <= 1 && (%s == 1 ==> %s.nr == 26) // [C05.create.once]' % (N, N, R0), '%s == 0 ==> res is Err // [C05.create.performed]' % N,
                        '%s == 1 && %s.ret < 0 && !(%s.errno == 17 && self.wb_flags(args.flags as i32) & 0o200i32 == 0) ==> failed_with(res, %s) // [C05.create.errno] a failing creating open is answered with its errno (EEXIST without O_EXCL falls back to opening the existing file)' % (N, R0, R0, R0),
                        'res is Ok ==> self.res_do_lookup(parent, name@) is Ok && res->Ok_0.0 == self.res_do_lookup(parent, name@)->Ok_0 // [C05.create.reply] the entry is the lookup of the name',
                        '%s // [C05.create.creds_kept]' % CREDS_KEPT],
               splices=[('^', 'after', BITCOMM)])
    ACCESS = F(PTS, FSIMPL, 'access', canary=True,
               requires=[ROOT],
               ensures=['res is Ok ==> res_fstat(ino_fd(inode)) is Ok && access_grants(res_fstat(ino_fd(inode))->Ok_0, ctx.uid, ctx.gid, mask) // [C05.access.granted] granted only by the class rules applied to the fstat of the inode',
                        'final(hs).rets == old(hs).rets', CREDS_KEPT])
    LOOKUP = F(PTS, FSIMPL, 'lookup', tok=False, canary=True,
               requires=['!has_slash(name@) ==> self.do_lookup_ok(parent, name@)'],
               ensures=['!has_slash(name@) ==> res == self.res_do_lookup(parent, name@) // [C05.lookup.reply] the lookup chain (O_PATH | O_NOFOLLOW open + statx, unit ptlookup) of exactly this name under this parent',
                        'has_slash(name@) ==> is_einval(res)'],
               splices=[('^', 'after', 'proof { lemma_contains_push(name@, 47u8, 0u8); }')])
    GETATTR = F(PTS, FSIMPL, 'getattr', tok=False, canary=True, sig_subst=[('io::Result<(libc::stat64, Duration)>', 'io::Result<(stat64, Duration)>')],
                ensures=['res == self.res_do_getattr(inode, handle) // [C05.getattr.reply]'])
    FS_FNS = FS_FNS + [SETATTR, CREATE, ACCESS, LOOKUP, GETATTR]
    items += [Raw(SPEC_SETATTR), Copy(PTS, r'enum Data\b')] + CREATE_PARTS + [G_CREATE]
    items += [Raw('pub open spec fn safe_mode(mode: u32) -> bool { mode & 0o170000u32 == 0o100000u32 || mode & 0o170000u32 == 0o040000u32 }   // S_IFREG or S_IFDIR (stat(2)); as in unit pt\n'),
              G_HELP] + G_UTIL + [Group(IMPL + ' { // trait FileSystem', FS_FNS)]
    u = Unit('ptops', items, preludes=['base.rs', 'stdmodel.rs', 'names.rs'],
             generic_tags={})
    u.prelude_subst = [LIBC_EXTRA]
    return u
